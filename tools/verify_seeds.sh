#!/bin/bash
# verify seeded defects produced by sub-agents: for each /tmp/mut_<ID>_out/<V>: patched tree builds,
# full ctest passes, demo fails; unpatched: demo passes.  Results -> /tmp/seedverify/<ID>_<V>.txt
WT=${WT:-/tmp/seedv_wt}
OUT=/tmp/seedverify
mkdir -p $OUT
if [ ! -d $WT ]; then
  git -C /repo worktree add --detach $WT HEAD >/dev/null 2>&1
  cmake -G Ninja -S $WT -B $WT/_build -DCMAKE_BUILD_TYPE=RelWithDebInfo >/dev/null
  cmake --build $WT/_build -j8 >/dev/null 2>&1
fi
for spec in "$@"; do
  ID=${spec%%:*}; V=${spec##*:}
  D=${DBASE:-/tmp/mut}_${ID}_out/$V
  R=$OUT/${ID}_$V.txt
  [ -f $D/patch.diff ] || { echo "missing $D" > $R; continue; }
  cd $WT && git checkout -- . 
  {
  echo "== $ID $V"
  cmake --build $WT/_build -j8 >/dev/null 2>&1
  bash $D/demo.sh $WT >/dev/null 2>&1; echo "demo_unpatched_exit=$?"
  git apply $D/patch.diff && echo applied=ok || echo applied=FAIL
  cmake --build $WT/_build -j8 >/dev/null 2>&1; echo "build_exit=$?"
  ctest --test-dir $WT/_build -j8 --timeout 900 2>&1 | grep -E "tests passed|tests failed" 
  bash $D/demo.sh $WT >/dev/null 2>&1; echo "demo_patched_exit=$?"
  git checkout -- .
  } > $R 2>&1
done
cd $WT && git checkout -- . && cmake --build $WT/_build -j8 >/dev/null 2>&1
echo done
