#!/bin/sh
# usage: tools/try_mutant.sh <patch.diff> <property id> [tier]   -- applies patch to /repo, runs check, reverts
P="$1"; ID="$2"; TIER="${3:-quick}"
cd /repo || exit 2
if ! git diff --quiet; then echo "repo working tree not clean"; exit 2; fi
git apply "$P" || { echo "patch does not apply"; exit 2; }
cd /verif && ./check "$ID" --tier "$TIER" > /tmp/try_mutant.$$.log 2>&1; RC=$?
cd /repo && git checkout -- . 
grep -E "^(VIOLATION|KNOWN-FINDING|INCONCLUSIVE)|obligations" /tmp/try_mutant.$$.log | head -12
echo "exit=$RC"; rm -f /tmp/try_mutant.$$.log
# restore evidence of the unchanged tree is the caller's business
