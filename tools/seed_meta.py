#!/usr/bin/env python3
"""merges my own verification record and the detection matrix into seeded/<id>/meta.json"""
import json, os, re
V = '/verif/seeded'
for d in sorted(os.listdir(V)):
    sd = os.path.join(V, d)
    mp = os.path.join(sd, 'meta.json')
    try:
        meta = json.load(open(mp))
    except Exception:
        meta = {}
    sv = '/tmp/seedverify/%s.txt' % d
    ver = {}
    if os.path.exists(sv):
        t = open(sv).read()
        ver = {'unpatched_demo_exit': int(re.search(r'demo_unpatched_exit=(\d+)', t).group(1)) if re.search(r'demo_unpatched_exit=(\d+)', t) else None,
               'patch_applied': 'applied=ok' in t,
               'build_exit': int(re.search(r'build_exit=(\d+)', t).group(1)) if re.search(r'build_exit=(\d+)', t) else None,
               'ctest': (re.search(r'(\d+% tests passed[^\n]*)', t) or [None, None])[1],
               'patched_demo_exit': int(re.search(r'demo_patched_exit=(\d+)', t).group(1)) if re.search(r'demo_patched_exit=(\d+)', t) else None,
               'how': 'scratch worktree /tmp/seedv_wt of /repo: cmake+ninja build, bash demo.sh <tree> on the unpatched tree, git apply patch.diff, '
                      'rebuild, ctest -j8 (28 executables / 168 cases), demo.sh again, git checkout; worktree removed afterwards'}
    meta['confirmed_by_verifier'] = ver
    if os.path.exists(os.path.join(sd, 'patch.orig.diff')):
        meta['rebased'] = ('patch.diff is the sub-agent\'s change (patch.orig.diff) re-applied on top of the later fix: commits in /repo that touch '
                           'the same lines; the change itself is unchanged')
    det = os.path.join(sd, 'detection.json')
    if os.path.exists(det):
        meta['detection'] = json.load(open(det))
    meta['apply'] = 'git -C /repo apply /verif/seeded/%s/patch.diff ; undo: git -C /repo checkout -- .' % d
    json.dump(meta, open(mp, 'w'), indent=1)
print('ok')
