#!/usr/bin/env python3
"""usage: tools/claim.py <id> <level text> --note <note> --technique <technique> [--design <ref>]
moves a property from not_applicable to checks in MANIFEST.json (or updates the entry)"""
import json, sys, argparse
ap = argparse.ArgumentParser()
ap.add_argument('pid'); ap.add_argument('text'); ap.add_argument('--note', default=''); ap.add_argument('--technique', required=True)
ap.add_argument('--design', default=None)
a = ap.parse_args()
p = '/verif/MANIFEST.json'
m = json.load(open(p))
m['not_applicable'] = [x for x in m['not_applicable'] if x['property_id'] != a.pid]
m['checks'] = [c for c in m['checks'] if c['property_id'] != a.pid]
m['checks'].append({
    'property_id': a.pid, 'quick_cmd': './check %s --tier quick' % a.pid, 'thorough_cmd': './check %s --tier thorough' % a.pid,
    'evidence_file': 'evidence/%s.json' % a.pid, 'replay_cmd_template': './check --replay {path}', 'engine': 'symx',
    'level_claimed': {'category': 'model_checking', 'text': a.text, 'design_ref': a.design or 'DESIGN.md section 4 (%s)' % a.pid},
    'level_note': a.note, 'technique': a.technique})
m['checks'].sort(key=lambda c: c['property_id'])
json.dump(m, open(p, 'w'), indent=1)
