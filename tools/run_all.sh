#!/bin/sh
# runs every claimed check (quick tier unless $1 given) and prints one line per check
cd /verif || exit 2
TIER="${1:-quick}"
for id in $(python3 -c "import json;print(' '.join(c['property_id'] for c in json.load(open('MANIFEST.json'))['checks']))"); do
  S=$(date +%s)
  ./check "$id" --tier "$TIER" > "/tmp/runall_$id.log" 2>&1; RC=$?
  E=$(date +%s)
  echo "$id rc=$RC $((E-S))s $(grep -c '^VIOLATION' /tmp/runall_$id.log) violations; $(tail -1 /tmp/runall_$id.log)"
done
