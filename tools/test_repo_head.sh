#!/bin/bash
# build /repo HEAD in a scratch worktree and run the repository's test suite (fix verification)
WT=/tmp/fixv_wt
rm -rf $WT; git -C /repo worktree prune
git -C /repo worktree add --detach $WT HEAD >/dev/null 2>&1
cmake -G Ninja -S $WT -B $WT/_build -DCMAKE_BUILD_TYPE=RelWithDebInfo >/dev/null
cmake --build $WT/_build -j8 2>&1 | tail -2
ctest --test-dir $WT/_build -j8 --timeout 900 --output-on-failure 2>&1 | grep -E "Failed|tests passed|tests failed|ERROR|error:|CHECK" | head -40
git -C /repo worktree remove --force $WT
