#!/usr/bin/env python3
"""applies every seeded change to /repo, runs the property's own check (and, if that does not report a violation, the
checks related to the files touched), reverts, and writes seeded/<id>/detection.json"""
import json, os, re, subprocess, sys, time
VERIF = '/verif'
REPO = os.environ.get('SEED_REPO', '/tmp/repo_seed')     # scratch clone of /repo (git clone /repo /tmp/repo_seed)
REL = [('gm2_ffunctions', ['C01', 'C02', 'C11']), ('gm2_dilog', ['C01']), ('THDM/gm2_2loop_B', ['C11', 'C10']), ('THDM/gm2_2loop_F', ['C10', 'C19']),
       ('THDM/gm2_1loop_H', ['C03', 'C10']), ('MSSMNoFV/gm2_1loop', ['C03', 'C06', 'C07', 'C19']), ('MSSMNoFV/gm2_2loop', ['C06', 'C07', 'C19']),
       ('MSSMNoFV_onshell_mass_eigenstates', ['C04', 'C06']), ('MSSMNoFV_onshell.cpp', ['C05', 'C16']), ('gm2_eigen_utils', ['C04', 'C08']),
       ('gm2_linalg', ['C12']), ('THDM/THDM.cpp', ['C08', 'C09', 'C16']), ('THDM_mass_eigenstates', ['C08']), ('slha_io', ['C13', 'C14', 'C15', 'C16']),
       ('gm2calc.cpp', ['C14', 'C15', 'C16', 'C18']), ('_c.cpp', ['C17']), ('SM.cpp', ['C20']), ('gm2_mf', ['C20', 'C19']),
       ('gm2_uncertainty', ['C06', 'C07', 'C19']), ('gm2_config', ['C18', 'C13'])]


def run(cmd, **kw):
    return subprocess.run(cmd, shell=True, capture_output=True, text=True, **kw)


def main():
    only = sys.argv[1:]
    for d in sorted(os.listdir(os.path.join(VERIF, 'seeded'))):
        if only and d not in only:
            continue
        sd = os.path.join(VERIF, 'seeded', d)
        patch = os.path.join(sd, 'patch.diff')
        if not os.path.exists(patch):
            continue
        own = d.split('_')[0]
        files = re.findall(r'^diff --git a/(\S+)', open(patch).read(), re.M)
        cands = [own]
        for frag, ids in REL:
            if any(frag in f for f in files):
                cands += [i for i in ids if i not in cands]
        if run('git -C %s diff --quiet' % REPO).returncode != 0:
            print('repo not clean'); sys.exit(2)
        if run('git -C %s apply %s' % (REPO, patch)).returncode != 0:
            print(d, 'patch does not apply'); continue
        res = {'files': files, 'checks': {}}
        detected = []
        try:
            for cid in cands:
                t = time.time()
                r = run('cd %s && GM2CALC_REPO=%s VERIF_EVIDENCE_DIR=/tmp/seed_evidence ./check %s --tier quick' % (VERIF, REPO, cid), timeout=1800)
                viol = [l.strip() for l in r.stdout.split('\n') if l.startswith('VIOLATION')]
                desc = [l.strip()[:300] for l in r.stdout.split('\n') if l.startswith('  ') and ':' in l][:2]
                res['checks'][cid] = {'exit': r.returncode, 'violations': len(viol), 'first': desc[:1], 'wall_s': round(time.time() - t, 1)}
                if r.returncode == 1 and viol:
                    detected.append(cid)
                    if cid != own:
                        pass
                if detected and cid == own:
                    break
                if detected and cid != own:
                    break
        finally:
            run('git -C %s checkout -- .' % REPO)
        res['detected_by'] = detected
        json.dump(res, open(os.path.join(sd, 'detection.json'), 'w'), indent=1)
        print(d, 'detected by', detected, {k: v['exit'] for k, v in res['checks'].items()}, flush=True)


if __name__ == '__main__':
    main()
