"""Regenerate IR / replay binaries from /repo's current working tree."""
import hashlib
import os
import shutil
import subprocess
import tempfile
import atexit

REPO = os.environ.get('GM2CALC_REPO', '/repo')
VERIF = os.path.dirname(os.path.dirname(os.path.abspath(__file__)))

IR_FLAGS = ['-std=c++14', '-O1', '-ffp-contract=off', '-fno-vectorize', '-fno-slp-vectorize',
            '-fno-unroll-loops', '-DEIGEN_DONT_VECTORIZE', '-DNDEBUG', '-DGM2CALC_VERIF',
            '-fno-access-control', '-Wno-everything', '-S', '-emit-llvm']

_scratch = None


def scratch():
    global _scratch
    if _scratch is None and os.environ.get('VERIF_SCRATCH_DIR') and os.path.isdir(os.environ['VERIF_SCRATCH_DIR']):
        # child process of a running check: share (and never delete) the parent's scratch directory
        _scratch = os.environ['VERIF_SCRATCH_DIR']
        os.environ['VERIF_SCRATCH_CHILD'] = '1'
        return _scratch
    if _scratch is None:
        base = os.environ.get('VERIF_SCRATCH_BASE') or tempfile.gettempdir()
        _scratch = tempfile.mkdtemp(prefix='gm2verif_', dir=base)
        atexit.register(lambda: shutil.rmtree(_scratch, ignore_errors=True))
        os.environ['VERIF_SCRATCH_DIR'] = _scratch
    return _scratch


def gen_dir():
    """generated headers (version.h / config) that cmake would configure"""
    d = os.path.join(scratch(), 'gen')
    if os.path.isdir(d):
        return d
    os.makedirs(os.path.join(d, 'gm2calc'), exist_ok=True)
    # version.h is configured by cmake from include/gm2calc/gm2_version.h.in
    src = os.path.join(REPO, 'include', 'gm2calc', 'gm2_version.h.in')
    if os.path.exists(src):
        txt = open(src).read()
        ver = _cmake_version()
        txt = txt.replace('@GM2Calc_VERSION@', ver)
        parts = (ver.split('.') + ['0', '0', '0'])[:3]
        txt = txt.replace('@GM2Calc_VERSION_MAJOR@', parts[0]).replace(
            '@GM2Calc_VERSION_MINOR@', parts[1]).replace('@GM2Calc_VERSION_PATCH@', parts[2])
        open(os.path.join(d, 'gm2calc', 'gm2_version.h'), 'w').write(txt)
    return d


def _cmake_version():
    import re
    try:
        t = open(os.path.join(REPO, 'CMakeLists.txt')).read()
        m = re.search(r'project\([^)]*VERSION\s+([0-9.]+)', t, re.S)
        if m:
            return m.group(1)
    except OSError:
        pass
    return '0.0.0'


def include_flags():
    return ['-I' + os.path.join(REPO, 'include'), '-I' + os.path.join(REPO, 'src'),
            '-I' + gen_dir(), '-I/usr/include/eigen3', '-I' + os.path.join(VERIF, 'harness')]


def compile_ir(src, out_name=None, extra=()):
    """compile a harness or repo TU to textual IR; returns path"""
    out = os.path.join(scratch(), (out_name or os.path.basename(src)) + '.ll')
    if os.environ.get('VERIF_SCRATCH_CHILD') and os.path.exists(out):
        return out
    cmd = ['clang++-14'] + IR_FLAGS + include_flags() + list(extra) + [src, '-o', out]
    r = subprocess.run(cmd, capture_output=True, text=True)
    if r.returncode != 0:
        raise RuntimeError('IR generation failed for %s:\n%s' % (src, r.stderr[-4000:]))
    return out


def compile_native(src, out_name, extra=(), libs=(), opt='-O2', cxx='g++'):
    out = os.path.join(scratch(), out_name)
    if os.environ.get('VERIF_SCRATCH_CHILD') and os.path.exists(out):
        return out
    cmd = [cxx, '-std=c++14', opt, '-DNDEBUG', '-DGM2CALC_VERIF', '-fno-access-control', '-w',
           '-ffp-contract=off'] + include_flags() + list(extra) + [src, '-o', out] + list(libs)
    r = subprocess.run(cmd, capture_output=True, text=True)
    if r.returncode != 0:
        raise RuntimeError('native build failed for %s:\n%s' % (src, r.stderr[-4000:]))
    return out


def file_hash(path):
    h = hashlib.sha256()
    with open(path, 'rb') as f:
        h.update(f.read())
    return h.hexdigest()[:16]


def repo_sources_hash(files):
    h = hashlib.sha256()
    for f in files:
        p = os.path.join(REPO, f)
        if os.path.exists(p):
            h.update(open(p, 'rb').read())
    return h.hexdigest()[:16]


def library_sources():
    out = []
    for d in ('src', 'src/MSSMNoFV', 'src/THDM', 'src/SM'):
        full = os.path.join(REPO, d)
        for f in sorted(os.listdir(full)):
            if f.endswith('.cpp') and f != 'gm2calc.cpp':
                out.append(os.path.join(full, f))
    return out


def _run(cmd):
    r = subprocess.run(cmd, capture_output=True, text=True)
    return r.returncode, r.stderr[-3000:]


def build_library(opt='-O1', sanitize=None):
    """g++ build of the whole library of the working tree as a shared object (for native replays)"""
    from concurrent.futures import ThreadPoolExecutor
    tag = 'lib' + (('_' + sanitize) if sanitize else '')
    d = os.path.join(scratch(), tag)
    so = os.path.join(d, 'libgm2calc_verif.so')
    if os.path.exists(so):
        return so
    os.makedirs(d, exist_ok=True)
    cxx = 'g++' if not sanitize else 'clang++-14'
    flags = ['-std=c++14', opt, '-DNDEBUG', '-fPIC', '-w', '-ffp-contract=off'] + include_flags()
    if sanitize:
        flags += ['-fsanitize=' + sanitize, '-fno-omit-frame-pointer']
    jobs = []
    objs = []
    for src in library_sources():
        obj = os.path.join(d, os.path.relpath(src, REPO).replace('/', '_') + '.o')
        objs.append(obj)
        jobs.append([cxx] + flags + ['-c', src, '-o', obj])
    with ThreadPoolExecutor(max_workers=int(os.environ.get('VERIF_JOBS', '12'))) as ex:
        res = list(ex.map(_run, jobs))
    for (rc, err), j in zip(res, jobs):
        if rc != 0:
            raise RuntimeError('library build failed: %s\n%s' % (' '.join(j[-3:]), err))
    rc, err = _run([cxx, '-shared'] + (['-fsanitize=' + sanitize] if sanitize else []) + objs + ['-o', so])
    if rc != 0:
        raise RuntimeError('library link failed:\n' + err)
    return so


def library_ir():
    """textual IR of every library TU (for attribute queries); returns {source: path}"""
    from concurrent.futures import ThreadPoolExecutor
    d = os.path.join(scratch(), 'libir')
    os.makedirs(d, exist_ok=True)
    jobs = []
    outs = {}
    for src in library_sources():
        out = os.path.join(d, os.path.relpath(src, REPO).replace('/', '_') + '.ll')
        outs[src] = out
        if not os.path.exists(out):
            jobs.append(['clang++-14'] + IR_FLAGS + include_flags() + [src, '-o', out])
    with ThreadPoolExecutor(max_workers=int(os.environ.get('VERIF_JOBS', '12'))) as ex:
        res = list(ex.map(_run, jobs))
    for (rc, err), j in zip(res, jobs):
        if rc != 0:
            raise RuntimeError('IR generation failed: %s\n%s' % (j[-3], err))
    return outs


def build_cli():
    """gm2calc.x of the working tree (linked against the scratch build of the library)"""
    lib = build_library()
    out = os.path.join(scratch(), 'gm2calc_verif.x')
    if os.path.exists(out):
        return out
    cmd = ['g++', '-std=c++14', '-O1', '-DNDEBUG', '-w'] + include_flags() + \
        [os.path.join(REPO, 'src', 'gm2calc.cpp'), lib, '-Wl,-rpath,' + os.path.dirname(lib), '-o', out]
    rc, err = _run(cmd)
    if rc != 0:
        raise RuntimeError('CLI build failed:\n' + err)
    return out


def build_tool(src, name):
    lib = build_library()
    out = os.path.join(scratch(), name)
    if os.path.exists(out):
        return out
    cmd = ['g++', '-std=c++14', '-O1', '-DNDEBUG', '-w'] + include_flags() + \
        [src, lib, '-Wl,-rpath,' + os.path.dirname(lib), '-o', out]
    rc, err = _run(cmd)
    if rc != 0:
        raise RuntimeError('tool build failed:\n' + err)
    return out
