"""Stubs: LLVM intrinsics, libm, C++ runtime, libstdc++ pieces reached from the encoded units.

Every stub here is part of the claim of the checks that use it.
"""
import ctypes
import math
import re
from fractions import Fraction
import z3

from . import llir
from .llir import PtrT
from .domains import RealDom, FPDom, ConcDom, Unsupported, Bits, q, fpval, FP64, RNE, _libm
from .exec import Ptr, NULL, UNDEF, Undef, ThrowSignal, PathEnd, is_z3, mask, to_signed


# ---------------------------------------------------------------------------- intrinsics

def _nop(ex, st, args, I):
    return None


def _fabs(ex, st, args, I):
    return ex.fabs(st, args[0])


def _sqrt(ex, st, args, I):
    return libm_call(ex, st, 'sqrt', args)


def _memcpy(ex, st, args, I):
    ex.memcpy(st, args[0], args[1], args[2])


def _memset(ex, st, args, I):
    ex.memset(st, args[0], args[1], args[2])


def _typeid_for(ex, st, args, I):
    return ex.type_id(ex.tinfo_name_of(st, args[0]))


def _expect(ex, st, args, I):
    return args[0]


def _assume(ex, st, args, I):
    return None


def _minmax(which):
    def f(ex, st, args, I):
        a, b = args
        d = ex.dom
        if isinstance(a, float) and isinstance(b, float) and isinstance(d, (FPDom, ConcDom)):
            if a != a:
                return b
            if b != b:
                return a
            return min(a, b) if which == 'min' else max(a, b)
        if isinstance(d, FPDom):
            a, b = d.lift(a), d.lift(b)
            return z3.fpMin(a, b) if which == 'min' else z3.fpMax(a, b)
        c = d.cmp('olt' if which == 'min' else 'ogt', a, b)
        if isinstance(c, bool):
            return a if c else b
        if not ex.fork_select and not isinstance(a, float) and not isinstance(b, float):
            return d.ite(c, a, b)
        return a if ex.decide(st, c) else b
    return f


def _copysign(ex, st, args, I):
    a, b = args
    if isinstance(a, float) and isinstance(b, float):
        return math.copysign(a, b)
    d = ex.dom
    if isinstance(d, FPDom):
        a, b = d.lift(a), d.lift(b)
        return z3.If(z3.fpIsNegative(b), z3.fpNeg(z3.fpAbs(a)), z3.fpAbs(a))
    mag = ex.fabs(st, a)
    if isinstance(b, (Fraction, int)):
        neg = b < 0
    elif isinstance(b, float):
        neg = math.copysign(1, b) < 0
    else:
        neg = ex.decide(st, q(b) < 0)
    return d.neg(mag) if neg else mag


def _overflow_intr(op):
    def f(ex, st, args, I):
        a, b = args
        m = re.search(r'\.i(\d+)$', ex.callee_name(st, st.frames[-1], I))
        bits = int(m.group(1))
        signed = op[0] == 's'
        kind = op[1:]
        if isinstance(a, int) and isinstance(b, int):
            if signed:
                x, y = to_signed(a, bits), to_signed(b, bits)
            else:
                x, y = a, b
            r = {'add': x + y, 'sub': x - y, 'mul': x * y}[kind]
            lo, hi = (-(1 << (bits - 1)), 1 << (bits - 1)) if signed else (0, 1 << bits)
            return [r & mask(bits), int(not (lo <= r < hi))]
        A = a if is_z3(a) else z3.BitVecVal(a, bits)
        B = b if is_z3(b) else z3.BitVecVal(b, bits)
        if kind == 'add':
            ok = z3.And(z3.BVAddNoOverflow(A, B, signed), z3.BVAddNoUnderflow(A, B)) if signed \
                else z3.BVAddNoOverflow(A, B, False)
            return [A + B, z3.Not(ok)]
        if kind == 'sub':
            ok = z3.And(z3.BVSubNoOverflow(A, B), z3.BVSubNoUnderflow(A, B, signed)) if signed \
                else z3.BVSubNoUnderflow(A, B, False)
            return [A - B, z3.Not(ok)]
        ok = z3.And(z3.BVMulNoOverflow(A, B, signed), z3.BVMulNoUnderflow(A, B)) if signed \
            else z3.BVMulNoOverflow(A, B, False)
        return [A * B, z3.Not(ok)]
    return f


def _intmm(which, signed):
    def f(ex, st, args, I):
        a, b = args
        m = re.search(r'\.i(\d+)$', ex.callee_name(st, st.frames[-1], I))
        bits = int(m.group(1))
        if isinstance(a, int) and isinstance(b, int):
            x, y = (to_signed(a, bits), to_signed(b, bits)) if signed else (a, b)
            r = min(x, y) if which == 'min' else max(x, y)
            return r & mask(bits)
        A = a if is_z3(a) else z3.BitVecVal(a, bits)
        B = b if is_z3(b) else z3.BitVecVal(b, bits)
        if signed:
            c = A < B if which == 'min' else A > B
        else:
            c = z3.ULT(A, B) if which == 'min' else z3.UGT(A, B)
        return z3.If(c, A, B)
    return f


def _abs_int(ex, st, args, I):
    a = args[0]
    m = re.search(r'\.i(\d+)$', ex.callee_name(st, st.frames[-1], I))
    bits = int(m.group(1))
    if isinstance(a, int):
        return abs(to_signed(a, bits)) & mask(bits)
    return z3.If(a < 0, -a, a)


def _objectsize(ex, st, args, I):
    return mask(64)


def _is_fpclass(ex, st, args, I):
    raise Unsupported('llvm.is.fpclass')


def _floorlike(name):
    def f(ex, st, args, I):
        return libm_call(ex, st, name, args)
    return f


def _fmuladd(ex, st, args, I):
    a, b, c = args
    return ex.dom.bin(ex, st, 'fadd', ex.dom.bin(ex, st, 'fmul', a, b), c)


def _ctlz(ex, st, args, I):
    x = args[0]
    bits = ex.m.resolve(I['ty']).bits
    if is_z3(x):
        xs = z3.simplify(x)
        if not z3.is_bv_value(xs):
            raise Unsupported('ctlz of a symbolic value')
        x = xs.as_long()
    x &= (1 << bits) - 1
    return bits - x.bit_length()


def _cttz(ex, st, args, I):
    x = args[0]
    bits = ex.m.resolve(I['ty']).bits
    if is_z3(x):
        xs = z3.simplify(x)
        if not z3.is_bv_value(xs):
            raise Unsupported('cttz of a symbolic value')
        x = xs.as_long()
    x &= (1 << bits) - 1
    if x == 0:
        return bits
    return (x & -x).bit_length() - 1


INTRINSICS = [
    (r'llvm\.ctlz\.', _ctlz), (r'llvm\.cttz\.', _cttz),
    (r'llvm\.lifetime\.', _nop), (r'llvm\.invariant\.', _nop), (r'llvm\.dbg\.', _nop),
    (r'llvm\.experimental\.noalias', _nop), (r'llvm\.assume', _assume),
    (r'llvm\.fabs\.f64', _fabs), (r'llvm\.sqrt\.f64', _sqrt),
    (r'llvm\.memcpy\.', _memcpy), (r'llvm\.memmove\.', _memcpy), (r'llvm\.memset\.', _memset),
    (r'llvm\.eh\.typeid\.for', _typeid_for), (r'llvm\.expect\.', _expect),
    (r'llvm\.minnum\.f64', _minmax('min')), (r'llvm\.maxnum\.f64', _minmax('max')),
    (r'llvm\.copysign\.f64', _copysign),
    (r'llvm\.sadd\.with\.overflow', _overflow_intr('sadd')),
    (r'llvm\.ssub\.with\.overflow', _overflow_intr('ssub')),
    (r'llvm\.smul\.with\.overflow', _overflow_intr('smul')),
    (r'llvm\.uadd\.with\.overflow', _overflow_intr('uadd')),
    (r'llvm\.usub\.with\.overflow', _overflow_intr('usub')),
    (r'llvm\.umul\.with\.overflow', _overflow_intr('umul')),
    (r'llvm\.smin\.', _intmm('min', True)), (r'llvm\.smax\.', _intmm('max', True)),
    (r'llvm\.umin\.', _intmm('min', False)), (r'llvm\.umax\.', _intmm('max', False)),
    (r'llvm\.abs\.', _abs_int), (r'llvm\.objectsize', _objectsize),
    (r'llvm\.floor\.f64', _floorlike('floor')), (r'llvm\.ceil\.f64', _floorlike('ceil')),
    (r'llvm\.trunc\.f64', _floorlike('trunc')), (r'llvm\.fmuladd\.f64', _fmuladd),
    (r'llvm\.stacksave', lambda ex, st, a, I: NULL), (r'llvm\.stackrestore', _nop),
    (r'llvm\.prefetch', _nop), (r'llvm\.trap', lambda ex, st, a, I: (_ for _ in ()).throw(PathEnd('trap'))),
]
_INTR_CACHE = {}


def intrinsic(name):
    h = _INTR_CACHE.get(name)
    if h is None:
        for pat, fn in INTRINSICS:
            if re.match(pat, name):
                h = fn
                break
        _INTR_CACHE[name] = h
    return h


# ---------------------------------------------------------------------------- libm

LIBM1 = ['log', 'sqrt', 'atan', 'asin', 'acos', 'sin', 'cos', 'log1p', 'exp', 'cbrt', 'tan',
         'floor', 'ceil', 'trunc', 'round']
LIBM2 = ['atan2', 'pow', 'fmod', 'hypot']


def libm_call(ex, st, name, args):
    d = ex.dom
    if all(isinstance(a, float) for a in args) and isinstance(d, (ConcDom, FPDom)):
        return getattr(_libm, name)(*args)
    if isinstance(d, ConcDom):
        return getattr(_libm, name)(*[float(a) for a in args])
    h = ex.libm_handlers.get(name) if hasattr(ex, 'libm_handlers') else None
    if h is not None:
        return h(ex, st, args)
    if isinstance(d, RealDom):
        return real_libm(ex, st, name, args)
    return fp_libm(ex, st, name, args)


def real_libm(ex, st, name, args):
    """REAL domain: algebraic contract where there is one, otherwise a memoised leaf"""
    d = ex.dom
    a = args[0]
    if all(isinstance(x, (Fraction, int)) for x in args) and name in ('pow', 'exp', 'cbrt', 'log1p', 'atan', 'tan',
                                                                       'atan2', 'hypot', 'fmod'):
        # constant folding of a transcendental call on concrete arguments (e.g. static initialisers):
        # the double the real libm returns
        try:
            return Fraction(getattr(_libm, name)(*[float(x) for x in args]))
        except (ValueError, OverflowError):
            return math.nan
    if isinstance(a, float) or (len(args) > 1 and isinstance(args[1], float)):
        if any(isinstance(x, float) and x != x for x in args):
            return math.nan
        if name in ('log', 'sqrt', 'exp', 'log1p', 'cbrt') and len(args) == 1:
            if a == math.inf:
                return math.inf
            if name == 'exp':
                return Fraction(0)
            if name == 'cbrt':
                return -math.inf
            return math.nan
        raise Unsupported('REAL libm %s on infinite argument' % name)
    if name == 'sqrt':
        if isinstance(a, (Fraction, int)):
            if a < 0:
                st.event('sqrt-negative', where=ex.where(st), concrete=True)
                return math.nan
            # exact rational square root?
            n, dd = Fraction(a).numerator, Fraction(a).denominator
            rn, rd = math.isqrt(n), math.isqrt(dd)
            if rn * rn == n and rd * rd == dd:
                return Fraction(rn, rd)
        az = q(a)
        if getattr(ex, 'sqrt_no_fork', False):
            # the square root is only defined for a non-negative argument: this path assumes it (like div_no_fork)
            st.add(az >= 0)
        elif ex.decide(st, az < 0):
            st.event('sqrt-negative', where=ex.where(st))
            return math.nan
        r = ex.leaf(st, 'sqrt', [az])
        st.add(z3.And(r >= 0, r * r == az))
        return r
    if name == 'log':
        if isinstance(a, (Fraction, int)):
            if a == 1:
                return Fraction(0)
            if a < 0:
                st.event('log-negative', where=ex.where(st), concrete=True)
                return math.nan
            if a == 0:
                st.event('log-zero', where=ex.where(st), concrete=True)
                return -math.inf
        az = q(a)
        if ex.decide(st, az < 0):
            st.event('log-negative', where=ex.where(st))
            return math.nan
        if ex.decide(st, az == 0):
            st.event('log-zero', where=ex.where(st))
            return -math.inf
        return ex.leaf(st, 'log', [az])
    if name in ('floor', 'ceil', 'trunc'):
        az = q(a)
        if isinstance(a, (Fraction, int)):
            return Fraction({'floor': math.floor, 'ceil': math.ceil, 'trunc': math.trunc}[name](a))
        fl = z3.ToReal(z3.ToInt(az))
        if name == 'floor':
            return fl
        if name == 'ceil':
            return -z3.ToReal(z3.ToInt(-az))
        return z3.If(az >= 0, fl, -z3.ToReal(z3.ToInt(-az)))
    return ex.leaf(st, name, [q(x) for x in args])


def fp_libm(ex, st, name, args):
    d = ex.dom
    xs = [d.lift(a) for a in args]
    if name == 'sqrt':
        return z3.fpSqrt(RNE, xs[0])
    if name in ('floor', 'ceil', 'trunc'):
        rm = {'floor': z3.RTN(), 'ceil': z3.RTP(), 'trunc': z3.RTZ()}[name]
        return z3.fpRoundToIntegral(rm, xs[0])
    r = ex.leaf(st, name, xs)
    # minimal, always-true axioms
    if name == 'log':
        x = xs[0]
        st.add(z3.Implies(z3.Or(z3.fpIsNaN(x), z3.fpLT(x, fpval(0.0))), z3.fpIsNaN(r)))
        st.add(z3.Implies(z3.fpIsZero(x), z3.And(z3.fpIsInf(r), z3.fpIsNegative(r))))
        st.add(z3.Implies(z3.And(z3.fpGT(x, fpval(0.0)), z3.Not(z3.fpIsInf(x))),
                                z3.And(z3.Not(z3.fpIsNaN(r)), z3.Not(z3.fpIsInf(r)))))
        st.add(z3.Implies(z3.And(z3.fpIsInf(x), z3.fpIsPositive(x)),
                                z3.And(z3.fpIsInf(r), z3.fpIsPositive(r))))
    return r


def mk_libm(name):
    def f(ex, st, args, I):
        return libm_call(ex, st, name, args)
    return f


# ---------------------------------------------------------------------------- C++ runtime

def cxa_allocate_exception(ex, st, args, I):
    n = args[0]
    if getattr(ex, 'fast_throw', False) and I is not None and I.get('res') is not None:
        # the decision to throw is taken; what follows up to __cxa_throw only builds the message.
        # Find the __cxa_throw that consumes this allocation and raise its type right away.
        fr = st.frames[-1]
        res = I['res']
        aliases = {res}
        tinfo = None
        for blk in fr.fn.blocks.values():
            for J in blk:
                if J['op'] == 'bitcast' and J['a'] == ('local', res):
                    aliases.add(J['res'])
        site = None
        for lab, blk in fr.fn.blocks.items():
            for k, J in enumerate(blk):
                if J['op'] in ('call', 'invoke') and J['callee'] == ('global', '__cxa_throw'):
                    a0 = J['args'][0][1]
                    if a0[0] == 'local' and a0[1] in aliases:
                        tv = J['args'][1][1]
                        nm = ex._tinfo_ref(tv)
                        if nm:
                            tinfo = nm
                            site = (lab, k)
        if tinfo is not None:
            st.event('fast-throw', tinfo=tinfo)
            # continue unwinding from the throw site (its invoke may have a handler in this function)
            fr.block, fr.idx = site
            st.data['fast_throw_depth'] = len(st.frames)
            raise ThrowSignal(tinfo, NULL)
    if not isinstance(n, int):
        raise Unsupported('symbolic exception size')
    r = ex.new_region(st, n, 'heap', 'exception')
    return Ptr(r.rid, 0)


def cxa_throw(ex, st, args, I):
    tname = ex.tinfo_name_of(st, args[1])
    raise ThrowSignal(tname, args[0])


def cxa_begin_catch(ex, st, args, I):
    st.caught.append(st.exc)
    st.exc = None
    return args[0]


def cxa_end_catch(ex, st, args, I):
    if st.caught:
        st.caught.pop()
    return None


def cxa_rethrow(ex, st, args, I):
    if not st.caught:
        raise PathEnd('terminate', 'rethrow without exception')
    t = st.caught[-1]
    raise ThrowSignal(t[0], t[1])


def call_terminate(ex, st, args, I):
    st.event('terminate', where=ex.where(st))
    raise PathEnd('terminate', ex.where(st))


def op_new(ex, st, args, I):
    n = args[0]
    if not isinstance(n, int):
        n2 = z3.simplify(n) if is_z3(n) else n
        if is_z3(n2) and z3.is_bv_value(n2):
            n = n2.as_long()
        elif getattr(ex, 'symbolic_new', False):
            # block of unknown extent: uninitialised reads give fresh values, no bounds
            r = ex.new_region(st, None, 'heap', 'new@' + ex.where(st), lazy=True)
            st.event('symbolic-size-allocation', where=ex.where(st))
            return Ptr(r.rid, 0)
        else:
            raise Unsupported('operator new with symbolic size')
    r = ex.new_region(st, n, 'heap', 'new@' + ex.where(st))
    return Ptr(r.rid, 0)


def op_delete(ex, st, args, I):
    p = args[0]
    if isinstance(p, Undef):
        return None
    if isinstance(p, Ptr) and p.rid != 0:
        r = st.mem.get(p.rid)
        if r is not None:
            if r.kind != 'heap':
                st.event('bad-free', region=r.name)
            elif r.freed:
                st.event('double-free', region=r.name)
            r = r.copy() if r.const else r
            r.freed = True
    return None


def cxa_guard_acquire(ex, st, args, I):
    st.event('static-init-guard', where=ex.where(st))
    g = ex.load(st, args[0], llir.I8)
    if isinstance(g, int) and g == 0:
        return 1
    if isinstance(g, int):
        return 0
    raise Unsupported('symbolic guard')


def cxa_guard_release(ex, st, args, I):
    ex.store(st, args[0], llir.I8, 1)
    return None


def cxa_atexit(ex, st, args, I):
    return 0


def errno_location(ex, st, args, I):
    rid = ex.global_rids.get('__errno')
    if rid is None or rid not in st.mem:
        r = ex.new_region(st, 4, 'global', '__errno')
        ex.global_rids['__errno'] = r.rid
        if ex.dom.symbolic and not getattr(ex, 'errno_concrete', False):
            r.lazy = True
        else:
            r.cells[0] = (0, 4)
        rid = r.rid
    return Ptr(rid, 0)


def strlen(ex, st, args, I):
    s = ex.read_cstr(st, args[0])
    if s is None:
        raise Unsupported('strlen of symbolic string')
    return len(s)


def memcmp(ex, st, args, I):
    n = args[2]
    if not isinstance(n, int):
        raise Unsupported('memcmp symbolic n')
    for i in range(n):
        a = ex.load(st, Ptr(args[0].rid, args[0].off + i), llir.I8)
        b = ex.load(st, Ptr(args[1].rid, args[1].off + i), llir.I8)
        if not (isinstance(a, int) and isinstance(b, int)):
            raise Unsupported('memcmp on symbolic bytes')
        if a != b:
            return (1 if a > b else mask(32))
    return 0


def strcmp(ex, st, args, I):
    a = ex.read_cstr(st, args[0])
    b = ex.read_cstr(st, args[1])
    if a is None or b is None:
        raise Unsupported('strcmp symbolic')
    return 0 if a == b else (1 if a > b else mask(32))


def malloc(ex, st, args, I):
    return op_new(ex, st, args, I)


def abort(ex, st, args, I):
    st.event('abort', where=ex.where(st))
    raise PathEnd('abort', ex.where(st))


def std_throw(kind):
    tinfo = {'logic_error': '_ZTISt11logic_error', 'length_error': '_ZTISt12length_error',
             'out_of_range': '_ZTISt12out_of_range', 'bad_alloc': '_ZTISt9bad_alloc',
             'invalid_argument': '_ZTISt16invalid_argument', 'bad_cast': '_ZTISt8bad_cast',
             'out_of_range_fmt': '_ZTISt12out_of_range', 'bad_function_call': '_ZTISt17bad_function_call',
             'runtime_error': '_ZTISt13runtime_error', 'system_error': '_ZTISt12system_error'}[kind]

    def f(ex, st, args, I):
        raise ThrowSignal(tinfo, NULL)
    return f


BASE_STUBS = {
    '__cxa_allocate_exception': cxa_allocate_exception,
    '__cxa_throw': cxa_throw,
    '__cxa_begin_catch': cxa_begin_catch,
    '__cxa_end_catch': cxa_end_catch,
    '__cxa_rethrow': cxa_rethrow,
    '__cxa_free_exception': _nop,
    '__clang_call_terminate': call_terminate,
    '_ZSt9terminatev': call_terminate,
    '__cxa_guard_acquire': cxa_guard_acquire,
    '__cxa_guard_release': cxa_guard_release,
    '__cxa_guard_abort': _nop,
    '__cxa_atexit': cxa_atexit,
    '__cxa_pure_virtual': abort,
    '_Znwm': op_new, '_Znam': op_new,
    '_ZdlPv': op_delete, '_ZdaPv': op_delete, '_ZdlPvm': op_delete, '_ZdaPvm': op_delete,
    'malloc': malloc, 'free': op_delete,
    '__errno_location': errno_location,
    'strlen': strlen, 'memcmp': memcmp, 'bcmp': memcmp, 'strcmp': strcmp,
    'abort': abort,
    '_ZSt20__throw_length_errorPKc': std_throw('length_error'),
    '_ZSt19__throw_logic_errorPKc': std_throw('logic_error'),
    '_ZSt20__throw_out_of_rangePKc': std_throw('out_of_range'),
    '_ZSt24__throw_out_of_range_fmtPKcz': std_throw('out_of_range'),
    '_ZSt17__throw_bad_allocv': std_throw('bad_alloc'),
    '_ZSt24__throw_invalid_argumentPKc': std_throw('invalid_argument'),
    '_ZSt16__throw_bad_castv': std_throw('bad_cast'),
    '_ZSt25__throw_bad_function_callv': std_throw('bad_function_call'),
    '_ZSt21__throw_runtime_errorPKc': std_throw('runtime_error'),
    '_ZSt28__throw_bad_array_new_lengthv': std_throw('bad_alloc'),
}
for _n in LIBM1 + LIBM2:
    BASE_STUBS[_n] = mk_libm(_n)


class _C2(ctypes.Structure):
    _fields_ = [('re', ctypes.c_double), ('im', ctypes.c_double)]


_libgcc = None


def _gcc_complex(name):
    global _libgcc
    if _libgcc is None:
        _libgcc = ctypes.CDLL('libgcc_s.so.1')
    f = getattr(_libgcc, name)
    f.restype = _C2
    f.argtypes = [ctypes.c_double] * 4
    return f


def complex_rt(name):
    """__muldc3 / __divdc3: CONCRETE domain calls the runtime; symbolic domains use the textbook
    formulas (identical for finite, non-overflowing operands)"""
    def f(ex, st, args, I):
        if all(isinstance(a, float) for a in args) and isinstance(ex.dom, (ConcDom, FPDom)):
            r = _gcc_complex(name)(*args)
            return [r.re, r.im]
        a, b, c, d_ = args
        D = ex.dom
        def mul(x, y): return D.bin(ex, st, 'fmul', x, y)
        def add(x, y): return D.bin(ex, st, 'fadd', x, y)
        def sub(x, y): return D.bin(ex, st, 'fsub', x, y)
        if name == '__muldc3':
            return [sub(mul(a, c), mul(b, d_)), add(mul(a, d_), mul(b, c))]
        den = add(mul(c, c), mul(d_, d_))
        return [D.bin(ex, st, 'fdiv', add(mul(a, c), mul(b, d_)), den),
                D.bin(ex, st, 'fdiv', sub(mul(b, c), mul(a, d_)), den)]
    return f


BASE_STUBS['__muldc3'] = complex_rt('__muldc3')
BASE_STUBS['__divdc3'] = complex_rt('__divdc3')


def _cabs(ex, st, args, I):
    if all(isinstance(a, float) for a in args) and isinstance(ex.dom, (ConcDom, FPDom)):
        _libm.hypot.restype = ctypes.c_double
        return _libm.hypot(args[0], args[1])
    D = ex.dom
    s2 = D.bin(ex, st, 'fadd', D.bin(ex, st, 'fmul', args[0], args[0]), D.bin(ex, st, 'fmul', args[1], args[1]))
    return libm_call(ex, st, 'sqrt', [s2])


def _carg(ex, st, args, I):
    return libm_call(ex, st, 'atan2', [args[1], args[0]])


BASE_STUBS['cabs'] = _cabs
BASE_STUBS['carg'] = _carg


def fabs_stub(ex, st, args, I):
    return ex.fabs(st, args[0])


def modf_stub(ex, st, args, I):
    x, ip = args
    d = ex.dom
    if isinstance(x, float) and isinstance(d, (ConcDom, FPDom)):
        fr, it = math.modf(x)
        ex.store(st, ip, llir.DOUBLE, it)
        return fr
    if isinstance(d, FPDom):
        x = d.lift(x)
        it = z3.fpRoundToIntegral(z3.RTZ(), x)
        ex.store(st, ip, llir.DOUBLE, it)
        # modf(+-inf) = +-0 ; NaN -> NaN
        return z3.If(z3.fpIsInf(x), z3.If(z3.fpIsNegative(x), fpval(-0.0), fpval(0.0)), z3.fpSub(RNE, x, it))
    if isinstance(x, float):
        ex.store(st, ip, llir.DOUBLE, x)
        return math.nan if x != x else Fraction(0)
    it = libm_call(ex, st, 'trunc', [x])
    ex.store(st, ip, llir.DOUBLE, it)
    return d.bin(ex, st, 'fsub', x, it)


BASE_STUBS['modf'] = modf_stub
BASE_STUBS['fabs'] = fabs_stub
BASE_STUBS['fmin'] = _minmax('min')
BASE_STUBS['fmax'] = _minmax('max')


# ---------------------------------------------------------------------------- ostream (event trace)

def ostream_insert_cstr(ex, st, args, I):
    # std::__ostream_insert(ostream&, const char*, long)
    s = ex.read_cstr(st, args[1])
    n = args[2]
    if s is not None and isinstance(n, int):
        s = s[:n]
    st.trace.append(('str', s.decode('latin1') if s is not None else None, _stream_name(ex, args[0])))
    return args[0]


def ostream_op_cstr(ex, st, args, I):
    s = ex.read_cstr(st, args[1])
    st.trace.append(('str', s.decode('latin1') if s is not None else None, _stream_name(ex, args[0])))
    return args[0]


def ostream_insert_val(kind):
    def f(ex, st, args, I):
        st.trace.append((kind, args[1], _stream_name(ex, args[0])))
        return args[0]
    return f


def ostream_put(ex, st, args, I):
    st.trace.append(('char', args[1], _stream_name(ex, args[0])))
    return args[0]


def ostream_flush(ex, st, args, I):
    return args[0]


def ostream_endl(ex, st, args, I):
    st.trace.append(('char', 10, _stream_name(ex, args[0])))
    return args[0]


def _stream_name(ex, p):
    if isinstance(p, Ptr):
        kn = ex.rid_names.get(p.rid)
        if kn:
            return kn[1]
    return '?'


OSTREAM_STUBS = {
    '_ZSt16__ostream_insertIcSt11char_traitsIcEERSt13basic_ostreamIT_T0_ES6_PKS3_l': ostream_insert_cstr,
    '_ZStlsISt11char_traitsIcEERSt13basic_ostreamIcT_ES5_PKc': ostream_op_cstr,
    '_ZNSo9_M_insertIdEERSoT_': ostream_insert_val('double'),
    '_ZNSo9_M_insertImEERSoT_': ostream_insert_val('ulong'),
    '_ZNSo9_M_insertIlEERSoT_': ostream_insert_val('long'),
    '_ZNSo9_M_insertIbEERSoT_': ostream_insert_val('bool'),
    '_ZNSolsEi': ostream_insert_val('int'),
    '_ZNSolsEj': ostream_insert_val('uint'),
    '_ZNSolsEd': ostream_insert_val('double'),
    '_ZNSo3putEc': ostream_put,
    '_ZNSo5flushEv': ostream_flush,
    '_ZSt4endlIcSt11char_traitsIcEERSt13basic_ostreamIT_T0_ES6_': ostream_endl,
    '_ZStlsISt11char_traitsIcEERSt13basic_ostreamIcT_ES5_c': ostream_put,
}


def ctype_widen_path(ex, st, args, I):
    raise Unsupported('ctype path')


def all_base_stubs():
    s = dict(BASE_STUBS)
    s.update(OSTREAM_STUBS)
    return s


# ---------------------------------------------------------------------------- std::string model
# libstdc++ (cxx11 ABI) layout: {char* p; size_t len; union {char buf[16]; size_t cap;}}

_S = '_ZNSt7__cxx1112basic_stringIcSt11char_traitsIcESaIcEE'
_SK = '_ZNKSt7__cxx1112basic_stringIcSt11char_traitsIcESaIcEE'


def make_string(ex, st, text, region=None, off=0):
    """lay out a std::string holding `text` (bytes); returns Ptr to the object"""
    if isinstance(text, str):
        text = text.encode()
    if region is None:
        region = ex.new_region(st, 32, 'heap', 'string')
        off = 0
    if len(text) < 16:
        data = Ptr(region.rid, off + 16)
        for i, b in enumerate(text + b'\0'):
            region.cells[off + 16 + i] = (b, 1)
    else:
        buf = ex.new_region(st, len(text) + 1, 'heap', 'chars')
        for i, b in enumerate(text + b'\0'):
            buf.cells[i] = (b, 1)
        data = Ptr(buf.rid, 0)
        region.cells[off + 16] = (len(text), 8)
    region.cells[off] = (data, 8)
    region.cells[off + 8] = (len(text), 8)
    return Ptr(region.rid, off)


def _s_data(ex, st, args, I):
    return ex.load(st, args[0], PtrT(llir.I8))


def _s_len(ex, st, args, I):
    return ex.load(st, Ptr(args[0].rid, args[0].off + 8), llir.I64)


def _s_empty(ex, st, args, I):
    n = _s_len(ex, st, args, I)
    if isinstance(n, int):
        return int(n == 0)
    return n == 0


def _s_end(ex, st, args, I):
    p = _s_data(ex, st, args, I)
    n = _s_len(ex, st, args, I)
    return ex.gep(st, p, llir.I8, [(llir.I64, n)])


def _s_index(ex, st, args, I):
    p = _s_data(ex, st, args, I)
    return ex.gep(st, p, llir.I8, [(llir.I64, args[1])])


def _s_compare_cstr(ex, st, args, I):
    p = _s_data(ex, st, args, I)
    n = _s_len(ex, st, args, I)
    a = ex.read_cstr(st, p)
    b = ex.read_cstr(st, args[1])
    if a is None or b is None or not isinstance(n, int):
        raise Unsupported('string compare on symbolic text')
    a = a[:n]
    return 0 if a == b else (1 if a > b else mask(32))


def _s_ctor_fill(ex, st, args, I):
    this, n, ch = args[0], args[1], args[2]
    if not isinstance(n, int) or not isinstance(ch, int):
        raise Unsupported('string(n, c) with symbolic arguments')
    r = ex.region(st, this)
    make_string(ex, st, bytes([ch & 255]) * n, r, this.off)
    return None


def _s_ctor_cstr(ex, st, args, I):
    this = args[0]
    t = ex.read_cstr(st, args[1])
    if t is None:
        raise Unsupported('string(const char*) on symbolic text')
    make_string(ex, st, t, ex.region(st, this), this.off)
    return None


def _s_ctor_copy(ex, st, args, I):
    this, other = args[0], args[1]
    p = ex.load(st, other, PtrT(llir.I8))
    n = ex.load(st, Ptr(other.rid, other.off + 8), llir.I64)
    t = ex.read_cstr(st, p)
    if t is None or not isinstance(n, int):
        raise Unsupported('string copy of symbolic text')
    make_string(ex, st, t[:n], ex.region(st, this), this.off)
    return None


def _s_dtor(ex, st, args, I):
    return None


STRING_MODEL_STUBS = {
    _SK + '5c_strEv': _s_data, _SK + '4dataEv': _s_data, _SK + '5beginEv': _s_data, _S + '5beginEv': _s_data,
    _SK + '3endEv': _s_end, _S + '3endEv': _s_end,
    _SK + '6lengthEv': _s_len, _SK + '4sizeEv': _s_len, _SK + '5emptyEv': _s_empty,
    _SK + 'ixEm': _s_index, _S + 'ixEm': _s_index,
    _SK + '7compareEPKc': _s_compare_cstr,
    _S + 'C2EmcRKS3_': _s_ctor_fill, _S + 'C1EmcRKS3_': _s_ctor_fill,
    _S + 'C2EPKcRKS3_': _s_ctor_cstr, _S + 'C1EPKcRKS3_': _s_ctor_cstr,
    _S + 'C2ERKS4_': _s_ctor_copy, _S + 'C1ERKS4_': _s_ctor_copy,
    _S + 'D2Ev': _s_dtor, _S + 'D1Ev': _s_dtor,
    '_ZNSaIcEC1Ev': _nop, '_ZNSaIcEC2Ev': _nop, '_ZNSaIcED1Ev': _nop, '_ZNSaIcED2Ev': _nop,
}


def _toupper(ex, st, args, I):
    c = args[0]
    if not isinstance(c, int):
        raise Unsupported('toupper on symbolic char')
    c &= 0xffffffff
    if 97 <= c <= 122:
        return c - 32
    return c


def _tolower(ex, st, args, I):
    c = args[0]
    if not isinstance(c, int):
        raise Unsupported('tolower on symbolic char')
    c &= 0xffffffff
    if 65 <= c <= 90:
        return c + 32
    return c


BASE_STUBS['toupper'] = _toupper
BASE_STUBS['tolower'] = _tolower


# exception objects of the standard library: construction/destruction has no modelled effect
DEFAULT_PREFIX_STUBS = [
    ('_ZNSt13runtime_errorC', _nop), ('_ZNSt13runtime_errorD', _nop),
    ('_ZNSt11logic_errorC', _nop), ('_ZNSt11logic_errorD', _nop),
    ('_ZNSt9exceptionD', _nop), ('_ZNSt16invalid_argumentC', _nop), ('_ZNSt16invalid_argumentD', _nop),
    ('_ZNSt12out_of_rangeC', _nop), ('_ZNSt12out_of_rangeD', _nop),
    ('_ZNSt12domain_errorC', _nop), ('_ZNSt12domain_errorD', _nop),
    ('_ZNSt12length_errorC', _nop), ('_ZNSt12length_errorD', _nop),
]


def _s_ctor_move(ex, st, args, I):
    this, other = args[0], args[1]
    p = ex.load(st, other, PtrT(llir.I8))
    n = ex.load(st, Ptr(other.rid, other.off + 8), llir.I64)
    r = ex.region(st, this)
    if isinstance(p, Ptr) and p.rid == other.rid and p.off == other.off + 16:
        # short string: characters live in the object
        for i in range(16):
            try:
                b = ex.load(st, Ptr(other.rid, other.off + 16 + i), llir.I8)
            except Exception:
                break
            ex.store(st, Ptr(this.rid, this.off + 16 + i), llir.I8, b)
        ex.store(st, this, PtrT(llir.I8), Ptr(this.rid, this.off + 16))
    else:
        ex.store(st, this, PtrT(llir.I8), p)
        cap = ex.load(st, Ptr(other.rid, other.off + 16), llir.I64)
        ex.store(st, Ptr(this.rid, this.off + 16), llir.I64, cap)
    ex.store(st, Ptr(this.rid, this.off + 8), llir.I64, n)
    # moved-from: empty short string
    ex.store(st, other, PtrT(llir.I8), Ptr(other.rid, other.off + 16))
    ex.store(st, Ptr(other.rid, other.off + 8), llir.I64, 0)
    ex.store(st, Ptr(other.rid, other.off + 16), llir.I8, 0)
    return None


def string_text(ex, st, sptr):
    """python bytes of a std::string object (None if symbolic)"""
    p = ex.load(st, sptr, PtrT(llir.I8))
    n = ex.load(st, Ptr(sptr.rid, sptr.off + 8), llir.I64)
    if not isinstance(p, Ptr) or not isinstance(n, int):
        return None
    t = ex.read_cstr(st, p, maxlen=n + 1)
    return None if t is None else t[:n]


STRING_MODEL_STUBS[_S + 'C2EOS4_'] = _s_ctor_move
STRING_MODEL_STUBS[_S + 'C1EOS4_'] = _s_ctor_move
