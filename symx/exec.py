"""Path-wise symbolic executor for the LLVM-14 IR of GM2Calc.

See DESIGN.md section 2.  The executor is deliberately small: scalar
instructions, byte-addressed region memory, calls (executed / stubbed / UF),
C++ exception unwinding through invoke/landingpad/resume.
"""
import math
import struct
import time
from fractions import Fraction
import z3

from . import llir
from .llir import (IntT, FloatT, PtrT, ArrT, VecT, StructT, NamedT, FuncT, VoidT, OtherT)
from .domains import (RealDom, FPDom, ConcDom, Unsupported, Bits, q, fpval, FP64, RNE)


STD_BASES = {
    '_ZTISt13runtime_error': ['_ZTISt9exception'], '_ZTISt11logic_error': ['_ZTISt9exception'],
    '_ZTISt12domain_error': ['_ZTISt11logic_error'], '_ZTISt12out_of_range': ['_ZTISt11logic_error'],
    '_ZTISt16invalid_argument': ['_ZTISt11logic_error'], '_ZTISt12length_error': ['_ZTISt11logic_error'],
    '_ZTISt9bad_alloc': ['_ZTISt9exception'], '_ZTISt8bad_cast': ['_ZTISt9exception'],
    '_ZTISt14overflow_error': ['_ZTISt13runtime_error'], '_ZTISt11range_error': ['_ZTISt13runtime_error'],
    '_ZTISt15underflow_error': ['_ZTISt13runtime_error'], '_ZTISt17bad_function_call': ['_ZTISt9exception'],
    '_ZTISt12system_error': ['_ZTISt13runtime_error'], '_ZTINSt8ios_base7failureB5cxx11E': ['_ZTISt12system_error'],
    '_ZTISt20bad_array_new_length': ['_ZTISt9bad_alloc'],
}


class Ptr:
    __slots__ = ('rid', 'off')

    def __init__(self, rid, off=0):
        self.rid = rid
        self.off = off

    def __repr__(self):
        return 'Ptr(%r,%r)' % (self.rid, self.off)

    def is_null(self):
        return self.rid == 0


NULL = Ptr(0, 0)


class Undef:
    def __repr__(self):
        return 'undef'


UNDEF = Undef()


class Region:
    __slots__ = ('rid', 'size', 'cells', 'kind', 'name', 'lazy', 'fills', 'freed', 'const', 'writes', 'links')

    def __init__(self, rid, size, kind, name, lazy=False):
        self.rid = rid
        self.size = size
        self.cells = {}
        self.kind = kind
        self.name = name
        self.lazy = lazy
        self.fills = []   # (start,end,byte)
        self.freed = False
        self.const = False
        self.writes = 0
        self.links = []   # (dst_start, dst_end, src_rid, src_start): lazily copied ranges

    def copy(self):
        r = Region(self.rid, self.size, self.kind, self.name, self.lazy)
        r.cells = dict(self.cells)
        r.fills = list(self.fills)
        r.freed = self.freed
        r.const = self.const
        r.writes = self.writes
        r.links = list(self.links)
        return r


class Frame:
    __slots__ = ('fn', 'block', 'idx', 'prev', 'locals', 'allocas', 'callinstr', 'serial')

    def __init__(self, fn):
        self.fn = fn
        self.block = fn.blocks and fn.entry
        self.idx = 0
        self.prev = None
        self.locals = {}
        self.allocas = []
        self.callinstr = None
        self.serial = 0

    def copy(self):
        f = Frame.__new__(Frame)
        f.fn = self.fn
        f.block = self.block
        f.idx = self.idx
        f.prev = self.prev
        f.locals = dict(self.locals)
        f.allocas = list(self.allocas)
        f.callinstr = self.callinstr
        f.serial = self.serial
        return f


class ForkRequest(Exception):
    def __init__(self, cond):
        self.cond = cond


class ThrowSignal(Exception):
    """raised by stubs to throw a C++ exception of the given typeinfo"""

    def __init__(self, tinfo, obj=None):
        self.tinfo = tinfo
        self.obj = obj


class PathEnd(Exception):
    def __init__(self, kind, info=None):
        self.kind = kind
        self.info = info


class State:
    def __init__(self):
        self.frames = []
        self.mem = {}
        self.pc = []
        self.events = []
        self.choices = []
        self.choice_idx = 0
        self.exc = None        # in-flight exception (tinfo, objptr)
        self.caught = []       # stack of caught exceptions
        self.model = None
        self.outcome = None
        self.retval = None
        self.steps = 0
        self.trace = []        # output events (ostream)
        self.leaves = []       # indices into ex.leaves used on this path
        self.data = {}         # scratch for stubs (copied shallowly)

    def fork(self):
        s = State()
        s.frames = [f.copy() for f in self.frames]
        s.mem = {k: (r if r.const else r.copy()) for k, r in self.mem.items()}
        s.pc = list(self.pc)
        s.events = list(self.events)
        s.choices = list(self.choices)
        s.exc = self.exc
        s.caught = list(self.caught)
        s.model = self.model
        s.steps = self.steps
        s.trace = list(self.trace)
        s.leaves = list(self.leaves)
        s.data = dict(self.data)
        return s

    def event(self, kind, **kw):
        self.events.append((kind, kw))

    def add(self, c):
        """append a constraint to the path condition (invalidates the cached model)"""
        self.pc.append(c)
        self.model = None


def is_z3(v):
    return isinstance(v, z3.ExprRef)


def mask(bits):
    return (1 << bits) - 1


def to_signed(v, bits):
    return v - (1 << bits) if v >= 1 << (bits - 1) else v


class Executor:
    def __init__(self, module, dom, stubs=None, ufs=None, max_steps=2000000,
                 fork_select=True, solver_timeout_ms=10000, max_paths=20000,
                 loop_bound=None):
        self.m = module
        self.dom = dom
        self.stubs = dict(stubs or {})
        self.ufs = dict(ufs or {})          # fn name -> handler(ex, st, args) (abstraction choice)
        self.max_steps = max_steps
        self.fork_select = fork_select
        self.timeout = solver_timeout_ms
        self.max_paths = max_paths
        self.loop_bound = loop_bound
        self.rid_counter = 1
        self.global_rids = {}
        self.rid_names = {}
        self.fn_rids = {}
        self.leaves = []         # (kind, args, result)
        self.leaf_memo = {}
        self.stats = {'solver_calls': 0, 'solver_s': 0.0, 'paths': 0, 'forks': 0, 'steps': 0,
                      'unknown': 0}
        self.fresh_cnt = 0
        self.typeid = {}
        self.keep = []
        self.assume_pc_hook = None
        self.quots = {}
        self._vars_cache = {}
        from . import stubs as _st
        self.stub_prefixes = list(_st.DEFAULT_PREFIX_STUBS)

    # ------------------------------------------------------------------ memory
    def new_region(self, st, size, kind, name, lazy=False):
        rid = self.rid_counter
        self.rid_counter += 1
        r = Region(rid, size, kind, name, lazy)
        st.mem[rid] = r
        self.rid_names[rid] = (kind, name)
        return r

    def fn_ptr(self, name):
        rid = self.fn_rids.get(name)
        if rid is None:
            rid = self.rid_counter
            self.rid_counter += 1
            self.fn_rids[name] = rid
            self.rid_names[rid] = ('func', name)
        return Ptr(rid, 0)

    def global_ptr(self, st, name):
        if name in self.m.functions or name in self.m.declares:
            return self.fn_ptr(name)
        if name in self.m.aliases:
            return self.const_value(st, PtrT(llir.I8), self.m.aliases[name])
        rid = self.global_rids.get(name)
        if rid is None:
            rid = self.rid_counter
            self.rid_counter += 1
            self.global_rids[name] = rid
            self.rid_names[rid] = ('global', name)
        if rid not in st.mem:
            g = self.m.globals[name]
            size = self.m.sizeof(g.ty)
            r = Region(rid, size, 'global', name, lazy=g.external or g.init is None)
            st.mem[rid] = r
            if g.init is not None:
                self.init_cells(st, r, 0, g.ty, g.init)
            r.const = False
            if name in ('_ZSt4cerr', '_ZSt4cout', '_ZSt4clog'):
                self.init_stream(st, r)
        return Ptr(rid, 0)

    def init_stream(self, st, r):
        """std::ostream object: vptr -> table whose vbase offset (at -24) is 8; ios_base at +8 with
        width 0, precision 6, default flags; everything else lazily symbolic"""
        vt = self.new_region(st, 64, 'global', r.name + '.vtable')
        vt.cells[0] = (8, 8)
        vt.lazy = True
        r.cells[0] = (Ptr(vt.rid, 24), 8)
        r.cells[8 + 8] = (6, 8)       # precision
        r.cells[8 + 16] = (0, 8)      # width
        r.cells[8 + 24] = (0x1002, 4)  # fmtflags: dec | skipws
        r.cells[8 + 32] = (0, 4)      # exceptions mask / state
        r.lazy = True

    def init_cells(self, st, r, off, ty, init):
        ty0 = self.m.resolve(ty)
        k = init[0]
        if k == 'zero':
            r.fills.append((off, off + self.m.sizeof(ty0), 0))
            return
        if k == 'undef':
            return
        if k == 'cstr':
            for i, b in enumerate(init[1]):
                r.cells[off + i] = (b, 1)
            return
        if k == 'agg':
            if isinstance(ty0, StructT):
                offs = self.m.struct_offsets(ty0)
                for (ety, ev), o in zip(init[1], offs):
                    self.init_cells(st, r, off + o, ety, ev)
            else:
                es = self.m.sizeof(ty0.el)
                for i, (ety, ev) in enumerate(init[1]):
                    self.init_cells(st, r, off + i * es, ety, ev)
            return
        v = self.const_value(st, ty0, init)
        r.cells[off] = (v, self.m.sizeof(ty0))

    def region(self, st, p):
        if not isinstance(p, Ptr):
            raise Unsupported('memory access through non-pointer %r' % (p,))
        if p.rid == 0:
            raise PathEnd('nullderef')
        r = st.mem.get(p.rid)
        if r is None:
            kind, name = self.rid_names.get(p.rid, (None, None))
            if kind == 'global':
                self.global_ptr(st, name)
                r = st.mem[p.rid]
            else:
                raise Unsupported('access to unknown region %r %r' % (p, (kind, name)))
        return r

    def zero_of(self, ty):
        ty = self.m.resolve(ty)
        if isinstance(ty, IntT):
            return 0
        if isinstance(ty, FloatT):
            return self.dom.const(0.0)
        if isinstance(ty, PtrT):
            return NULL
        if isinstance(ty, StructT):
            return [self.zero_of(e) for e in ty.els]
        if isinstance(ty, ArrT):
            return [self.zero_of(ty.el) for _ in range(ty.n)]
        raise Unsupported('zero of %r' % (ty,))

    def fresh_of(self, st, ty, name):
        ty = self.m.resolve(ty)
        self.fresh_cnt += 1
        if isinstance(ty, IntT):
            if not self.dom.symbolic:
                raise Unsupported('fresh int in concrete mode: ' + name)
            if ty.bits == 1:
                return z3.Bool('%s!%d' % (name, self.fresh_cnt))
            return z3.BitVec('%s!%d' % (name, self.fresh_cnt), ty.bits)
        if isinstance(ty, FloatT):
            return self.dom.fresh(name)
        if isinstance(ty, PtrT):
            r = self.new_region(st, None, 'opaque', name, lazy=True)
            return Ptr(r.rid, 0)
        if isinstance(ty, StructT):
            return [self.fresh_of(st, e, name) for e in ty.els]
        if isinstance(ty, ArrT):
            return [self.fresh_of(st, ty.el, name) for _ in range(ty.n)]
        raise Unsupported('fresh of %r' % (ty,))

    def load(self, st, p, ty):
        ty = self.m.resolve(ty)
        if isinstance(ty, (StructT, ArrT)):
            return self.load_agg(st, p, ty)
        r = self.region(st, p)
        off = p.off
        if is_z3(off):
            offs = self.resolve_ite(st, off)
            off = offs
            if r.size is None and r.lazy and not z3.is_bv_value(offs) and self.bounded_symoff:
                vals = self.enumerate_offset(st, offs)
                if vals is not None:
                    for cand in vals[:-1]:
                        if self.decide(st, offs == z3.BitVecVal(cand, offs.size())):
                            return self.load(st, Ptr(p.rid, to_signed(cand, 64)), ty)
                    st.add(offs == z3.BitVecVal(vals[-1], offs.size()))
                    return self.load(st, Ptr(p.rid, to_signed(vals[-1], 64)), ty)
            if r.size is None and r.lazy and not z3.is_bv_value(offs):
                # array-like select on an object of unknown extent: one symbolic cell per offset term
                key = ('symoff', offs.get_id(), self.m.sizeof(ty))
                c = r.cells.get(key)
                if c is None:
                    v = self.fresh_of(st, ty, '%s@sym' % r.name)
                    if r.const:
                        r = r.copy(); r.const = False; st.mem[r.rid] = r
                    r.cells[key] = (v, self.m.sizeof(ty))
                    self.keep.append(offs)
                    return v
                return self.retype(c[0], ty)
            off = self.concretize_offset(st, r, off, self.m.sizeof(ty))
        size = self.m.sizeof(ty)
        if r.size is not None and (off < 0 or off + size > r.size):
            st.event('oob-load', region=r.name, off=off, size=size)
            raise PathEnd('oob', 'load %s+%d' % (r.name, off))
        if r.freed:
            st.event('use-after-free', region=r.name)
        if ('symstore',) in r.cells:
            # an earlier store at a symbolic offset may alias this cell: not modelled
            raise Unsupported('load from %s after a store at a symbolic offset' % r.name)
        c = r.cells.get(off)
        if c is not None and c[1] == size:
            return self.retype(c[0], ty)
        # compose from bytes / extract from bigger cell
        v = self._load_slow(st, r, off, size, ty)
        return v

    def _load_slow(self, st, r, off, size, ty):
        # overlapping cells?
        covering = []
        for o, (v, s) in r.cells.items():
            if isinstance(o, tuple):
                continue
            if o < off + size and o + s > off:
                covering.append((o, v, s))
        if not covering:
            for (a, b, byte) in reversed(r.fills):
                if a <= off and off + size <= b:
                    if byte == 0:
                        return self.zero_of(ty)
                    if isinstance(ty, IntT):
                        return int.from_bytes(bytes([byte]) * size, 'little') & mask(ty.bits)
                    raise Unsupported('fill load')
            for (a, b, srid, sstart) in reversed(r.links):
                if a <= off and off + size <= b:
                    v = self.load(st, Ptr(srid, sstart + (off - a)), ty)
                    r.cells[off] = (v, size)
                    return v
            if r.lazy:
                v = self.fresh_of(st, ty, '%s@%d' % (r.name, off))
                r.cells[off] = (v, size)
                return v
            st.event('uninit-load', region=r.name, off=off, size=size)
            v = UNDEF if not self.dom.symbolic else self.fresh_of(st, ty, 'undef_%s@%d' % (r.name, off)) \
                if not isinstance(ty, PtrT) else UNDEF
            return v
        covering.sort()
        # single bigger concrete-int or Bits cell containing the range
        if len(covering) == 1:
            o, v, s = covering[0]
            if o <= off and off + size <= o + s:
                if isinstance(v, int):
                    return (v >> (8 * (off - o))) & mask(8 * size) if isinstance(ty, IntT) else \
                        self._unsupported('subload of int as %r' % (ty,))
                if is_z3(v) and z3.is_bv(v) and isinstance(ty, IntT):
                    lo = 8 * (off - o)
                    return z3.Extract(lo + ty.bits - 1, lo, v)
                if isinstance(v, list) and False:
                    pass
        # compose from smaller concrete cells
        if isinstance(ty, (IntT, PtrT, FloatT)):
            bs = [None] * size
            for o, v, s in covering:
                if isinstance(v, int):
                    for i in range(s):
                        if off <= o + i < off + size:
                            bs[o + i - off] = (v >> (8 * i)) & 255
            # zero fills
            for i in range(size):
                if bs[i] is None:
                    for (a, b, byte) in reversed(r.fills):
                        if a <= off + i < b:
                            bs[i] = byte
                            break
            if all(b is not None for b in bs):
                iv = int.from_bytes(bytes(bs), 'little')
                if isinstance(ty, IntT):
                    return iv & mask(ty.bits)
                if isinstance(ty, FloatT) and ty.kind == 'double':
                    return self.dom.const(struct.unpack('<d', struct.pack('<Q', iv))[0])
                if isinstance(ty, PtrT) and iv == 0:
                    return NULL
        raise Unsupported('partial/overlapping load %s+%d size %d cells=%r' % (
            r.name, off, size, [(o, s) for o, v, s in covering]))

    def _unsupported(self, msg):
        raise Unsupported(msg)

    def retype(self, v, ty):
        if isinstance(ty, FloatT):
            if isinstance(v, Bits):
                return v.val
            if isinstance(v, int) and ty.kind == 'double' and not isinstance(v, bool):
                # int bits reinterpreted as double
                return self.dom.const(struct.unpack('<d', struct.pack('<Q', v & mask(64)))[0])
            if isinstance(v, (Ptr,)):
                raise Unsupported('pointer loaded as float')
            return v
        if isinstance(ty, IntT):
            if isinstance(v, (Fraction, float)) or (is_z3(v) and not z3.is_bv(v) and not z3.is_bool(v)):
                if isinstance(v, float) and not isinstance(self.dom, RealDom):
                    return struct.unpack('<Q', struct.pack('<d', v))[0]
                return Bits(v, ty.bits)
            if isinstance(v, Ptr):
                if v.rid == 0 and not is_z3(v.off):
                    return v.off
                return Bits(v, ty.bits)
            return v
        if isinstance(ty, PtrT):
            if isinstance(v, Bits):
                return v.val
            if isinstance(v, int):
                return Ptr(0, v)
            return v
        return v

    def load_agg(self, st, p, ty):
        if isinstance(ty, StructT):
            offs = self.m.struct_offsets(ty)
            return [self.load(st, Ptr(p.rid, p.off + o), e) for e, o in zip(ty.els, offs)]
        es = self.m.sizeof(ty.el)
        return [self.load(st, Ptr(p.rid, p.off + i * es), ty.el) for i in range(ty.n)]

    def store(self, st, p, ty, v):
        ty = self.m.resolve(ty)
        if isinstance(ty, StructT):
            offs = self.m.struct_offsets(ty)
            for e, o, x in zip(ty.els, offs, v):
                self.store(st, Ptr(p.rid, p.off + o), e, x)
            return
        if isinstance(ty, ArrT):
            es = self.m.sizeof(ty.el)
            for i, x in enumerate(v):
                self.store(st, Ptr(p.rid, p.off + i * es), ty.el, x)
            return
        r = self.region(st, p)
        off = p.off
        size = self.m.sizeof(ty)
        if is_z3(off):
            offs = self.resolve_ite(st, off)
            off = offs
            if r.size is None and r.lazy and not z3.is_bv_value(offs) and self.bounded_symoff:
                vals = self.enumerate_offset(st, offs)
                if vals is not None:
                    for cand in vals[:-1]:
                        if self.decide(st, offs == z3.BitVecVal(cand, offs.size())):
                            return self.store(st, Ptr(p.rid, to_signed(cand, 64)), ty, v)
                    st.add(offs == z3.BitVecVal(vals[-1], offs.size()))
                    return self.store(st, Ptr(p.rid, to_signed(vals[-1], 64)), ty, v)
            if r.size is None and r.lazy and not z3.is_bv_value(offs):
                if r.const:
                    r = r.copy(); r.const = False; st.mem[r.rid] = r
                r.cells[('symoff', offs.get_id(), size)] = (v, size)
                r.cells[('symstore',)] = (True, 0)
                self.keep.append(offs)
                r.writes += 1
                if self.write_hook:
                    self.write_hook(st, r, offs, size, v)
                return
            off = self.concretize_offset(st, r, off, size, write=True)
        if r.size is not None and (off < 0 or off + size > r.size):
            st.event('oob-store', region=r.name, off=off, size=size)
            raise PathEnd('oob', 'store %s+%d' % (r.name, off))
        if r.const:
            r = r.copy()
            r.const = False
            st.mem[r.rid] = r
        self.clobber(r, off, size)
        r.cells[off] = (v, size)
        r.writes += 1
        if self.write_hook:
            self.write_hook(st, r, off, size, v)

    write_hook = None
    bounded_symoff = True

    def resolve_ite(self, st, e):
        """decide the conditions of if-then-else subterms of an offset until it is constant or ite-free"""
        for _ in range(64):
            e = z3.simplify(e)
            if z3.is_bv_value(e):
                return e
            ite = None
            todo = [e]
            seen = set()
            while todo and ite is None:
                t = todo.pop()
                if t.get_id() in seen:
                    continue
                seen.add(t.get_id())
                if z3.is_app_of(t, z3.Z3_OP_ITE):
                    ite = t
                    break
                todo.extend(t.children())
            if ite is None:
                return e
            c = ite.arg(0)
            e = z3.substitute(e, (ite, ite.arg(1) if self.decide(st, c) else ite.arg(2)))
        return e
    tolerant = False
    fork_bound = None
    no_prune = False
    opaque_defined = None

    def clobber(self, r, off, size):
        cells = r.cells
        if off in cells and cells[off][1] == size:
            return
        dead = []
        for o, (v, s) in cells.items():
            if isinstance(o, tuple):
                continue
            if o < off + size and o + s > off:
                dead.append((o, v, s))
        for o, v, s in dead:
            del cells[o]
            if isinstance(v, int) and (o < off or o + s > off + size):
                # keep the non-overlapped bytes of a concrete int
                for i in range(s):
                    if not (off <= o + i < off + size):
                        cells[o + i] = ((v >> (8 * i)) & 255, 1)
        if r.links:
            newl = []
            for (a, b, srid, sst) in r.links:
                if b <= off or a >= off + size:
                    newl.append((a, b, srid, sst))
                else:
                    if a < off:
                        newl.append((a, off, srid, sst))
                    if b > off + size:
                        newl.append((off + size, b, srid, sst + (off + size - a)))
            r.links = newl
        # fills are shadowed by cells; record a hole by adding explicit marker
        if r.fills:
            newf = []
            for (a, b, byte) in r.fills:
                if b <= off or a >= off + size:
                    newf.append((a, b, byte))
                else:
                    if a < off:
                        newf.append((a, off, byte))
                    if b > off + size:
                        newf.append((off + size, b, byte))
            r.fills = newf

    def enumerate_offset(self, st, offs, limit=8):
        """feasible values of a symbolic offset under the path condition, if there are at most `limit` of them"""
        key = ('enumoff', offs.get_id(), len(st.pc))
        sv = z3.Solver()
        sv.set('timeout', 5000)
        sv.add(*st.pc)
        vals = []
        for _ in range(limit + 1):
            t0 = time.time()
            r = sv.check()
            self.stats['solver_calls'] += 1
            self.stats['solver_s'] += time.time() - t0
            if r != z3.sat:
                if r == z3.unknown:
                    return None
                break
            v = sv.model().eval(offs, model_completion=True)
            if not z3.is_bv_value(v):
                return None
            vals.append(v.as_long())
            sv.add(offs != v)
        if len(vals) > limit or not vals:
            return None
        return vals

    def concretize_offset(self, st, r, off, size, write=False):
        """symbolic offset: fork over the feasible in-bounds values; report feasibility of OOB"""
        off_s = z3.simplify(off)
        if z3.is_bv_value(off_s):
            return to_signed(off_s.as_long(), 64)
        if r.size is None:
            raise Unsupported('symbolic offset into unsized region ' + str(r.name))
        # out-of-bounds possible?
        key = ('oobchk', st.frames[-1].fn.name, st.frames[-1].block, st.frames[-1].idx)
        inb = z3.And(off_s >= 0, off_s <= r.size - size) if True else None
        inb = z3.And(z3.BVSGE if False else (off_s >= 0), off_s <= z3.BitVecVal(r.size - size, 64))
        if not self.decide(st, inb):
            st.event('oob-' + ('store' if write else 'load'), region=r.name, off=str(off_s), size=size,
                     symbolic=True)
            raise PathEnd('oob', 'symbolic offset out of bounds in ' + str(r.name))
        # enumerate candidates: all cell-aligned offsets (step=size)
        for cand in range(0, r.size - size + 1, size):
            if self.decide(st, off_s == z3.BitVecVal(cand, 64)):
                return cand
        raise Unsupported('symbolic offset not aligned to access size in ' + str(r.name))

    def memcpy(self, st, d, s, n):
        if is_z3(n):
            n2 = z3.simplify(n)
            if z3.is_bv_value(n2):
                n = n2.as_long()
            elif getattr(self, 'symbolic_new', False):
                # copy of unknown length: the destination object holds arbitrary contents afterwards
                rd = self.region(st, d)
                rd.cells.clear()
                rd.fills = []
                rd.lazy = True
                rd.writes += 1
                st.event('symbolic-length-copy', where=self.where(st))
                if self.write_hook:
                    self.write_hook(st, rd, d.off, None, None)
                return
            else:
                raise Unsupported('memcpy with symbolic length')
        if n == 0:
            return
        rs = self.region(st, s)
        rd = self.region(st, d)
        if is_z3(s.off) or is_z3(d.off):
            raise Unsupported('memcpy with symbolic offsets')
        if rd.size is not None and d.off + n > rd.size:
            st.event('oob-store', region=rd.name, off=d.off, size=n, memcpy=True)
            raise PathEnd('oob', 'memcpy dst')
        if rs.size is not None and s.off + n > rs.size:
            st.event('oob-load', region=rs.name, off=s.off, size=n, memcpy=True)
            raise PathEnd('oob', 'memcpy src')
        if rd.const:
            rd = rd.copy(); rd.const = False; st.mem[rd.rid] = rd
        items = []
        for o, (v, sz) in rs.cells.items():
            if isinstance(o, tuple):
                continue
            if o >= s.off and o + sz <= s.off + n:
                items.append((o, v, sz))
            elif o < s.off + n and o + sz > s.off:
                if isinstance(v, int):
                    for i in range(sz):
                        if s.off <= o + i < s.off + n:
                            items.append((o + i, (v >> (8 * i)) & 255, 1))
                else:
                    raise Unsupported('memcpy splits a symbolic cell')
        fills = [(max(a, s.off), min(b, s.off + n), byte) for (a, b, byte) in rs.fills
                 if a < s.off + n and b > s.off]
        if rs.lazy:
            # untyped lazy source: materialise as 8-byte opaque words where nothing is known
            covered = sorted((o, o + sz) for o, v, sz in items)
            pos = s.off
            gaps = []
            for a, b in covered:
                if a > pos:
                    gaps.append((pos, a))
                pos = max(pos, b)
            if pos < s.off + n:
                gaps.append((pos, s.off + n))
            lazy_links = []
            for a, b in gaps:
                if any(fa <= a and b <= fb for fa, fb, _ in fills):
                    continue
                # contents not yet materialised (their type is unknown): copy lazily
                lazy_links.append((a - s.off + d.off, b - s.off + d.off, rs.rid, a))
        else:
            lazy_links = []
        self.clobber(rd, d.off, n)
        rd.links += lazy_links
        for (a, b, byte) in fills:
            rd.fills.append((a - s.off + d.off, b - s.off + d.off, byte))
        for o, v, sz in items:
            rd.cells[o - s.off + d.off] = (v, sz)
        rd.writes += 1
        if self.write_hook:
            self.write_hook(st, rd, d.off, n, None)

    def memset(self, st, d, byte, n):
        if is_z3(n) or is_z3(byte):
            raise Unsupported('memset with symbolic args')
        if n == 0:
            return
        rd = self.region(st, d)
        if rd.size is not None and d.off + n > rd.size:
            st.event('oob-store', region=rd.name, off=d.off, size=n, memset=True)
            raise PathEnd('oob', 'memset')
        self.clobber(rd, d.off, n)
        rd.fills.append((d.off, d.off + n, byte & 255))
        rd.writes += 1
        if self.write_hook:
            self.write_hook(st, rd, d.off, n, None)

    def read_cstr(self, st, p, maxlen=4096):
        r = self.region(st, p)
        out = bytearray()
        o = p.off
        while len(out) < maxlen:
            c = r.cells.get(o)
            if c is None or not isinstance(c[0], int) or c[1] != 1:
                # maybe inside fill or bigger cell
                try:
                    b = self.load(st, Ptr(p.rid, o), llir.I8)
                except Unsupported:
                    return None
                if not isinstance(b, int):
                    return None
            else:
                b = c[0]
            if b == 0:
                return bytes(out)
            out.append(b)
            o += 1
        return bytes(out)

    # ------------------------------------------------------------------ solver
    def check(self, constraints, timeout=None):
        """returns ('sat', model) | ('unsat', None) | ('unknown', None)"""
        s = z3.Solver()
        s.set('timeout', timeout or self.timeout)
        for c in constraints:
            s.add(c)
        t0 = time.time()
        r = s.check()
        self.stats['solver_calls'] += 1
        self.stats['solver_s'] += time.time() - t0
        if r == z3.sat:
            return 'sat', s.model()
        if r == z3.unsat:
            return 'unsat', None
        self.stats['unknown'] += 1
        return 'unknown', None

    def _vars(self, e):
        k = e.get_id()
        v = self._vars_cache.get(k)
        if v is None:
            seen = set()
            out = set()
            stack = [e]
            while stack:
                t = stack.pop()
                i = t.get_id()
                if i in seen:
                    continue
                seen.add(i)
                if z3.is_const(t) and t.decl().kind() == z3.Z3_OP_UNINTERPRETED:
                    out.add(i)
                else:
                    stack.extend(t.children())
            v = frozenset(out)
            if len(self._vars_cache) > 200000:
                self._vars_cache.clear()
            self._vars_cache[k] = v
            self.keep.append(e)
        return v

    def independent_slice(self, pc, cond):
        """constraints of pc that (transitively) share a variable with cond; the remaining constraints
        are satisfiable on their own (path invariant) and cannot influence the answer"""
        want = set(self._vars(cond))
        if not want:
            return list(pc)
        items = [(c, self._vars(c)) for c in pc]
        chosen = [False] * len(items)
        changed = True
        while changed:
            changed = False
            for i, (c, vs) in enumerate(items):
                if not chosen[i] and (not vs or vs & want):
                    if vs:
                        chosen[i] = True
                        if not vs <= want:
                            want |= vs
                            changed = True
                    else:
                        chosen[i] = True
        return [c for (c, vs), ch in zip(items, chosen) if ch]

    def decide(self, st, cond):
        """decide a possibly symbolic boolean on the current path (forks when both feasible)"""
        if isinstance(cond, bool):
            return cond
        if isinstance(cond, int):
            return cond != 0
        if not is_z3(cond):
            raise Unsupported('decide on %r' % (cond,))
        if z3.is_bv(cond):
            cond = cond != 0
        i = st.choice_idx
        st.choice_idx += 1
        if i < len(st.choices):
            return st.choices[i]
        c = z3.simplify(cond)
        if z3.is_true(c):
            st.choices.append(True)
            return True
        if z3.is_false(c):
            st.choices.append(False)
            return False
        memo = st.data.get(('dec', c.get_id()))
        if memo is not None:
            # the same condition was decided earlier on this path (the path condition only grows)
            st.choices.append(memo)
            return memo
        if self.no_prune:
            # over-approximate exploration: both branches are followed without asking the solver (the caller
            # decides feasibility of the paths it cares about)
            self._fork_models = (None, None)
            raise ForkRequest(c)
        # model-guided
        mv = None
        if st.model is not None and not self.slice_pc:
            try:
                e = st.model.eval(c, model_completion=True)
                if z3.is_true(e):
                    mv = True
                elif z3.is_false(e):
                    mv = False
            except z3.Z3Exception:
                mv = None
        pcs = self.independent_slice(st.pc, c) if self.slice_pc else st.pc
        if mv is True:
            r2, m2 = self.check(pcs + [z3.Not(c)])
            if r2 == 'unsat':
                st.choices.append(True)
                st.data[('dec', c.get_id())] = True
                self.keep.append(c)
                return True
            self._fork_models = (st.model, m2)
            raise ForkRequest(c)
        if mv is False:
            r1, m1 = self.check(pcs + [c])
            if r1 == 'unsat':
                st.choices.append(False)
                st.data[('dec', c.get_id())] = False
                self.keep.append(c)
                return False
            self._fork_models = (m1, st.model)
            raise ForkRequest(c)
        r1, m1 = self.check(pcs + [c])
        if r1 == 'unsat':
            st.choices.append(False)
            st.data[('dec', c.get_id())] = False
            self.keep.append(c)
            return False
        r2, m2 = self.check(pcs + [z3.Not(c)])
        if r2 == 'unsat':
            st.choices.append(True)
            st.data[('dec', c.get_id())] = True
            self.keep.append(c)
            if m1 is not None:
                st.model = m1
            return True
        self._fork_models = (m1, m2)
        raise ForkRequest(c)

    def assume(self, st, cond):
        if isinstance(cond, bool):
            if not cond:
                raise PathEnd('infeasible')
            return
        st.add(cond)

    def real_div(self, st, a, b):
        """REAL domain a/b with symbolic b: fork on b==0 (event), else fresh quotient"""
        bz = q(b)
        if self.div_no_fork:
            # the quotient is only defined for a non-zero divisor: this path silently assumes it
            st.add(bz != 0)
            if not st.data.get('assumed_nonzero_divisor'):
                st.data['assumed_nonzero_divisor'] = True
                st.event('assumed-nonzero-divisor', where=self.where(st))
        elif self.decide(st, bz == 0):
            st.event('fdiv-by-zero', where=self.where(st))
            if self.div0_mode == 'end':
                raise PathEnd('div0', self.where(st))
            return math.nan
        key = ('div', a.get_id(), bz.get_id())
        hit = self.leaf_memo.get(key)
        if hit is None:
            self.fresh_cnt += 1
            qv = z3.Real('quot!%d' % self.fresh_cnt)
            self.keep.append((a, bz))
            self.leaf_memo[key] = qv
            self.quots[qv.get_id()] = (a, bz)
            hit = qv
        cons = hit * bz == a
        if not any(c is cons or c.get_id() == cons.get_id() for c in st.pc[-50:]):
            st.add(cons)
        return hit

    div0_mode = 'nan'
    div_no_fork = False
    slice_pc = True

    def where(self, st):
        f = st.frames[-1]
        return '%s:%s:%d' % (f.fn.name, f.block, f.idx)

    def leaf(self, st, kind, args, mk=None):
        """memoised fresh result of a transcendental / uninterpreted call"""
        key = (kind,) + tuple(a.get_id() if is_z3(a) else ('c', a) for a in args)
        hit = self.leaf_memo.get(key)
        if hit is None:
            res = mk() if mk else self.dom.fresh(kind)
            idx = len(self.leaves)
            self.leaves.append((kind, tuple(args), res))
            self.leaf_memo[key] = (idx, res)
            hit = (idx, res)
        if hit[0] not in st.leaves:
            st.leaves.append(hit[0])
        return hit[1]

    # ------------------------------------------------------------------ values
    def const_value(self, st, ty, v):
        k = v[0]
        if k == 'int':
            ty0 = self.m.resolve(ty)
            if isinstance(ty0, IntT):
                return v[1] & mask(ty0.bits)
            if isinstance(ty0, FloatT):
                return self.dom.const(float(v[1]))
            return v[1]
        if k == 'fp':
            return self.dom.const(v[1])
        if k == 'null':
            return NULL
        if k == 'global':
            return self.global_ptr(st, v[1])
        if k == 'undef':
            ty0 = self.m.resolve(ty)
            if isinstance(ty0, (StructT, ArrT)):
                return self.undef_agg(ty0)
            return UNDEF
        if k == 'zero':
            return self.zero_of(ty)
        if k == 'agg':
            return [self.const_value(st, ety, ev) for ety, ev in v[1]]
        if k == 'cstr':
            return list(v[1])
        if k == 'cgep':
            _, sty, pty, base, idx = v
            p = self.const_value(st, pty, base)
            ivals = [(ity, self.const_value(st, ity, iv)) for ity, iv in idx]
            return self.gep(st, p, sty, ivals)
        if k == 'ccast':
            _, op, fty, val, tty = v
            x = self.const_value(st, fty, val)
            return self.cast(st, op, x, fty, tty)
        if k == 'cbin':
            _, op, aty, a, b = v
            return self.binop(st, op, self.m.resolve(aty), self.const_value(st, aty, a),
                              self.const_value(st, aty, b))
        if k == 'ccmp':
            _, which, pred, aty, a, b = v
            x, y = self.const_value(st, aty, a), self.const_value(st, aty, b)
            if which == 'icmp':
                return self.icmp(st, pred, self.m.resolve(aty), x, y)
            return self.dom.cmp(pred, x, y)
        if k == 'meta' or k == 'none':
            return None
        raise Unsupported('const ' + k)

    def undef_agg(self, ty):
        ty = self.m.resolve(ty)
        if isinstance(ty, StructT):
            return [self.undef_agg(e) for e in ty.els]
        if isinstance(ty, ArrT):
            return [self.undef_agg(ty.el) for _ in range(ty.n)]
        return UNDEF

    def ev(self, st, fr, ty, v):
        if v[0] == 'local':
            try:
                return fr.locals[v[1]]
            except KeyError:
                raise Unsupported('use of undefined local %%%s in %s' % (v[1], fr.fn.name))
        return self.const_value(st, ty, v)

    def gep(self, st, p, sty, idx):
        if not isinstance(p, Ptr):
            if isinstance(p, Undef):
                raise Unsupported('gep on undef')
            raise Unsupported('gep on %r' % (p,))
        off = p.off
        ty = sty
        first = True
        for ity, iv in idx:
            if first:
                sz = self.m.sizeof(ty)
                off = self._addoff(off, iv, sz, ity)
                first = False
                continue
            ty = self.m.resolve(ty)
            if isinstance(ty, StructT):
                if not isinstance(iv, int):
                    raise Unsupported('symbolic struct index')
                off = self._addoff(off, self.m.struct_offsets(ty)[iv], 1, None)
                ty = ty.els[iv]
            elif isinstance(ty, (ArrT, VecT)):
                sz = self.m.sizeof(ty.el)
                off = self._addoff(off, iv, sz, ity)
                ty = ty.el
            else:
                raise Unsupported('gep into %r' % (ty,))
        return Ptr(p.rid, off)

    def _addoff(self, off, iv, scale, ity):
        if isinstance(iv, int):
            if ity is not None:
                b = self.m.resolve(ity).bits
                iv = to_signed(iv & mask(b), b)
            if is_z3(off):
                return off + z3.BitVecVal(iv * scale, 64)
            return off + iv * scale
        if isinstance(iv, Bits):
            raise Unsupported('gep index is a reinterpreted value')
        if is_z3(iv):
            b = iv.size()
            if b < 64:
                iv = z3.SignExt(64 - b, iv)
            t = iv * z3.BitVecVal(scale, 64)
            if is_z3(off):
                return off + t
            return z3.BitVecVal(off, 64) + t
        raise Unsupported('gep index %r' % (iv,))

    # integer ops
    def binop(self, st, op, ty, a, b):
        if isinstance(ty, FloatT):
            return self.dom.bin(self, st, op, a, b)
        if isinstance(ty, VecT):
            raise Unsupported('vector op')
        bits = ty.bits
        if isinstance(a, Undef) or isinstance(b, Undef):
            return UNDEF
        if isinstance(a, Bits) or isinstance(b, Bits):
            return self.bits_op(st, op, bits, a, b)
        if bits == 1:
            return self.bool_op(op, a, b)
        if isinstance(a, int) and isinstance(b, int):
            m = mask(bits)
            if op == 'add':
                return (a + b) & m
            if op == 'sub':
                return (a - b) & m
            if op == 'mul':
                return (a * b) & m
            if op == 'and':
                return a & b
            if op == 'or':
                return a | b
            if op == 'xor':
                return a ^ b
            if op == 'shl':
                return (a << b) & m if b < bits else 0
            if op == 'lshr':
                return a >> b if b < bits else 0
            if op == 'ashr':
                return (to_signed(a, bits) >> min(b, bits - 1)) & m
            if op == 'udiv':
                if b == 0:
                    raise PathEnd('udiv0')
                return a // b
            if op == 'urem':
                if b == 0:
                    raise PathEnd('urem0')
                return a % b
            if op in ('sdiv', 'srem'):
                sa, sb = to_signed(a, bits), to_signed(b, bits)
                if sb == 0:
                    raise PathEnd('sdiv0')
                qd = abs(sa) // abs(sb)
                if (sa < 0) != (sb < 0):
                    qd = -qd
                if op == 'sdiv':
                    return qd & m
                return (sa - qd * sb) & m
            raise Unsupported(op)
        if isinstance(a, Ptr) or isinstance(b, Ptr):
            raise Unsupported('int op on pointer')
        A = a if is_z3(a) else z3.BitVecVal(a, bits)
        B = b if is_z3(b) else z3.BitVecVal(b, bits)
        if z3.is_bool(A):
            A = z3.If(A, z3.BitVecVal(1, bits), z3.BitVecVal(0, bits))
        if z3.is_bool(B):
            B = z3.If(B, z3.BitVecVal(1, bits), z3.BitVecVal(0, bits))
        if op == 'add':
            return A + B
        if op == 'sub':
            return A - B
        if op == 'mul':
            return A * B
        if op == 'and':
            return A & B
        if op == 'or':
            return A | B
        if op == 'xor':
            return A ^ B
        if op == 'shl':
            return A << B
        if op == 'lshr':
            return z3.LShR(A, B)
        if op == 'ashr':
            return A >> B
        if op == 'udiv':
            return z3.UDiv(A, B)
        if op == 'urem':
            return z3.URem(A, B)
        if op == 'sdiv':
            return A / B
        if op == 'srem':
            return z3.SRem(A, B)
        raise Unsupported(op)

    def bits_op(self, st, op, bits, a, b):
        # operations on reinterpreted doubles: only sign-bit / abs masks are understood
        if isinstance(a, Bits) and isinstance(b, int) and bits == 64:
            if op == 'and' and b == 0x7fffffffffffffff:
                return Bits(self.fabs(st, a.val), 64)
            if op == 'xor' and b == 0x8000000000000000:
                return Bits(self.dom.neg(a.val), 64)
        if isinstance(a, Bits) and isinstance(a.val, Ptr) and isinstance(b, int):
            if op == 'add':
                return Bits(Ptr(a.val.rid, a.val.off + to_signed(b, bits)), bits)
            if op == 'sub':
                return Bits(Ptr(a.val.rid, a.val.off - to_signed(b, bits)), bits)
            if op == 'and' and b < 64:
                # alignment test on pointer: regions are 16-byte aligned
                if not is_z3(a.val.off):
                    return a.val.off & b
        if isinstance(a, Bits) and isinstance(b, Bits) and isinstance(a.val, Ptr) and isinstance(b.val, Ptr):
            if op == 'sub' and a.val.rid == b.val.rid:
                d = a.val.off - b.val.off
                if is_z3(d):
                    return d
                return d & mask(bits)
        if isinstance(a, Bits) and isinstance(b, Bits) and isinstance(a.val, Ptr) and isinstance(b.val, Ptr) \
                and op == 'sub':
            # distance between pointers into different objects (e.g. begin/end of a container whose
            # representation is not modelled): arbitrary
            st.event('opaque-pointer-difference', where=self.where(st))
            self.fresh_cnt += 1
            return z3.BitVec('ptrdiff!%d' % self.fresh_cnt, bits)
        raise Unsupported('integer op %s on reinterpreted value %r %r' % (op, a, b))

    def bool_op(self, op, a, b):
        def tb(x):
            if isinstance(x, int):
                return bool(x)
            if z3.is_bv(x):
                return x != 0
            return x
        a, b = tb(a), tb(b)
        if isinstance(a, bool) and isinstance(b, bool):
            r = {'and': a and b, 'or': a or b, 'xor': a != b, 'add': a != b, 'sub': a != b,
                 'mul': a and b}[op]
            return int(r)
        if op == 'and' or op == 'mul':
            if a is False or b is False:
                return 0
            if a is True:
                return b
            if b is True:
                return a
            return z3.And(a, b)
        if op == 'or':
            if a is True or b is True:
                return 1
            if a is False:
                return b
            if b is False:
                return a
            return z3.Or(a, b)
        if op in ('xor', 'add', 'sub'):
            if isinstance(a, bool):
                return z3.Not(b) if a else b
            if isinstance(b, bool):
                return z3.Not(a) if b else a
            return z3.Xor(a, b)
        raise Unsupported('i1 ' + op)

    def icmp(self, st, pred, ty, a, b):
        if isinstance(ty, PtrT) or isinstance(a, Ptr) or isinstance(b, Ptr):
            return self.ptrcmp(st, pred, a, b)
        if isinstance(a, Bits) or isinstance(b, Bits):
            if isinstance(a, Bits) and isinstance(b, Bits) and isinstance(a.val, Ptr) and isinstance(b.val, Ptr):
                return self.ptrcmp(st, pred, a.val, b.val)
            if isinstance(a, Bits) and isinstance(a.val, Ptr) and isinstance(b, int):
                return self.ptrcmp(st, pred, a.val, Ptr(0, b))
            # sign-bit tests on doubles:  (bits(x) slt 0)  == signbit
            if isinstance(a, Bits) and isinstance(b, int) and a.bits == 64:
                if pred == 'slt' and b == 0:
                    return self.signbit(st, a.val)
                if pred == 'sgt' and b == mask(64):
                    return self.lnot(self.signbit(st, a.val))
            raise Unsupported('icmp on reinterpreted value %r %s %r' % (a, pred, b))
        if isinstance(a, Undef) or isinstance(b, Undef):
            raise Unsupported('icmp on undef')
        bits = ty.bits
        if bits == 1:
            def tb(x):
                if isinstance(x, int):
                    return bool(x)
                return x
            a, b = tb(a), tb(b)
            if pred == 'eq':
                if isinstance(a, bool) and isinstance(b, bool):
                    return int(a == b)
                if isinstance(b, bool):
                    return a if b else z3.Not(a)
                if isinstance(a, bool):
                    return b if a else z3.Not(b)
                return a == b
            if pred == 'ne':
                if isinstance(a, bool) and isinstance(b, bool):
                    return int(a != b)
                if isinstance(b, bool):
                    return z3.Not(a) if b else a
                if isinstance(a, bool):
                    return z3.Not(b) if a else b
                return z3.Xor(a, b)
            raise Unsupported('icmp i1 ' + pred)
        if isinstance(a, int) and isinstance(b, int):
            if pred[0] == 's':
                a, b = to_signed(a, bits), to_signed(b, bits)
            return int({'eq': a == b, 'ne': a != b, 'ugt': a > b, 'uge': a >= b, 'ult': a < b,
                        'ule': a <= b, 'sgt': a > b, 'sge': a >= b, 'slt': a < b, 'sle': a <= b}[pred])
        A = a if is_z3(a) else z3.BitVecVal(a, bits)
        B = b if is_z3(b) else z3.BitVecVal(b, bits)
        if z3.is_bool(A):
            A = z3.If(A, z3.BitVecVal(1, bits), z3.BitVecVal(0, bits))
        if z3.is_bool(B):
            B = z3.If(B, z3.BitVecVal(1, bits), z3.BitVecVal(0, bits))
        return {'eq': lambda: A == B, 'ne': lambda: A != B, 'ugt': lambda: z3.UGT(A, B),
                'uge': lambda: z3.UGE(A, B), 'ult': lambda: z3.ULT(A, B),
                'ule': lambda: z3.ULE(A, B), 'sgt': lambda: A > B, 'sge': lambda: A >= B,
                'slt': lambda: A < B, 'sle': lambda: A <= B}[pred]()

    def lnot(self, b):
        if isinstance(b, (bool, int)):
            return int(not b)
        return z3.Not(b)

    def signbit(self, st, v):
        if isinstance(self.dom, FPDom):
            if isinstance(v, float):
                return int(math.copysign(1, v) < 0)
            return z3.fpIsNegative(v)
        if isinstance(v, float):
            return int(math.copysign(1, v) < 0)
        return self.dom.cmp('olt', v, self.dom.const(0.0))

    def ptrcmp(self, st, pred, a, b):
        def norm(x):
            if isinstance(x, Bits):
                x = x.val
            if isinstance(x, int):
                return Ptr(0, x)
            return x
        a, b = norm(a), norm(b)
        if isinstance(a, Undef) or isinstance(b, Undef):
            # comparison involving an uninitialised pointer (e.g. the internals of a std::string whose
            # constructor is stubbed out): nondeterministic outcome
            self.fresh_cnt += 1
            st.event('undef-pointer-compare', where=self.where(st))
            return z3.Bool('undefcmp!%d' % self.fresh_cnt)
        if not isinstance(a, Ptr) or not isinstance(b, Ptr):
            raise Unsupported('ptrcmp %r %r' % (a, b))
        if a.rid == b.rid:
            x, y = a.off, b.off
            if not is_z3(x) and not is_z3(y):
                return int({'eq': x == y, 'ne': x != y, 'ugt': x > y, 'uge': x >= y, 'ult': x < y,
                            'ule': x <= y, 'sgt': x > y, 'sge': x >= y, 'slt': x < y,
                            'sle': x <= y}[pred])
            X = x if is_z3(x) else z3.BitVecVal(x, 64)
            Y = y if is_z3(y) else z3.BitVecVal(y, 64)
            return {'eq': X == Y, 'ne': X != Y, 'ult': z3.ULT(X, Y), 'ule': z3.ULE(X, Y),
                    'ugt': z3.UGT(X, Y), 'uge': z3.UGE(X, Y)}[pred]
        # different regions: null vs object
        if a.rid == 0 or b.rid == 0:
            other = b if a.rid == 0 else a
            kind = self.rid_names.get(other.rid, (None, None))[0]
            if kind == 'opaque' and self.opaque_may_be_null:
                raise Unsupported('null test of opaque pointer')
            if pred == 'eq':
                return 0
            if pred == 'ne':
                return 1
            if pred in ('ugt', 'uge'):
                return int(b.rid == 0)
            if pred in ('ult', 'ule'):
                return int(a.rid == 0)
        if pred == 'eq':
            return 0
        if pred == 'ne':
            return 1
        raise Unsupported('ordering of pointers into different regions')

    opaque_may_be_null = False
    opaque_calls = False
    deadline = None

    def cast(self, st, op, v, fty, tty):
        fty = self.m.resolve(fty)
        tty = self.m.resolve(tty)
        if isinstance(v, Undef):
            return UNDEF
        if op == 'bitcast':
            if isinstance(fty, PtrT) and isinstance(tty, PtrT):
                return v
            if isinstance(fty, FloatT) and isinstance(tty, IntT):
                return self.retype(v, tty)
            if isinstance(fty, IntT) and isinstance(tty, FloatT):
                return self.retype(v, tty)
            if isinstance(fty, VecT) or isinstance(tty, VecT):
                raise Unsupported('vector bitcast')
            return v
        if op in ('zext', 'sext'):
            fb, tb = fty.bits, tty.bits
            if isinstance(v, Bits):
                raise Unsupported('ext of reinterpreted value')
            if fb == 1:
                if isinstance(v, int):
                    return (mask(tb) if (op == 'sext' and v) else int(bool(v)))
                if z3.is_bool(v):
                    one = mask(tb) if op == 'sext' else 1
                    return z3.If(v, z3.BitVecVal(one, tb), z3.BitVecVal(0, tb))
            if isinstance(v, int):
                if op == 'sext':
                    return to_signed(v, fb) & mask(tb)
                return v
            return z3.SignExt(tb - fb, v) if op == 'sext' else z3.ZeroExt(tb - fb, v)
        if op == 'trunc':
            tb = tty.bits
            if isinstance(v, Bits):
                if isinstance(v.val, Ptr) and not is_z3(v.val.off) and tb < 64 and False:
                    pass
                raise Unsupported('trunc of reinterpreted value')
            if isinstance(v, int):
                r = v & mask(tb)
                return r
            if z3.is_bool(v):
                return v
            r = z3.Extract(tb - 1, 0, v)
            if tb == 1:
                return r == 1
            return r
        if op == 'ptrtoint':
            if isinstance(v, Ptr):
                if v.rid == 0 and not is_z3(v.off):
                    return v.off & mask(tty.bits)
                return Bits(v, tty.bits)
            return v
        if op == 'inttoptr':
            if isinstance(v, Bits):
                return v.val
            if isinstance(v, int):
                return Ptr(0, v)
            raise Unsupported('inttoptr of symbolic int')
        if op in ('sitofp', 'uitofp'):
            if isinstance(v, Bits):
                raise Unsupported('itofp of reinterpreted')
            if z3.is_bool(v) if is_z3(v) else False:
                v = z3.If(v, z3.BitVecVal(1, fty.bits), z3.BitVecVal(0, fty.bits))
            return self.dom.from_int(v, fty.bits, op == 'sitofp')
        if op in ('fptosi', 'fptoui'):
            return self.fptoint(st, v, tty.bits, op == 'fptosi')
        if op in ('fpext', 'fptrunc'):
            if isinstance(self.dom, (RealDom,)):
                return v
            if isinstance(self.dom, ConcDom):
                if op == 'fptrunc' and tty.kind == 'float':
                    return struct.unpack('<f', struct.pack('<f', v))[0]
                return v
            raise Unsupported('fp width change in FP domain')
        raise Unsupported('cast ' + op)

    def fptoint(self, st, v, bits, signed):
        lo = -(2 ** (bits - 1)) if signed else 0
        hi = 2 ** (bits - 1) if signed else 2 ** bits
        if isinstance(v, (float, Fraction, int)):
            f = v
            if isinstance(f, float) and (f != f or f in (math.inf, -math.inf)):
                st.event('fptoint-ub', where=self.where(st), value=str(f))
                return UNDEF
            t = math.trunc(f)
            if not (lo <= t < hi):
                st.event('fptoint-ub', where=self.where(st), value=str(f))
                return UNDEF
            return t & mask(bits)
        if isinstance(self.dom, FPDom):
            # in-range predicate: lo-1 < v < hi  (truncation toward zero)
            lof = fpval(float(lo)) if signed else fpval(-1.0)
            ok = z3.And(z3.fpGT(v, z3.fpSub(RNE, lof, fpval(1.0))) if signed else z3.fpGT(v, lof),
                        z3.fpLT(v, fpval(float(hi))))
            if not self.decide(st, ok):
                st.event('fptoint-ub', where=self.where(st), value=v, pc=list(st.pc))
                if self.ub_mode == 'end':
                    raise PathEnd('ub', 'fptoint out of range')
                return self.fresh_of(st, IntT(bits), 'fptoint_poison')
            if signed:
                return z3.fpToSBV(z3.RTZ(), v, z3.BitVecSort(bits))
            return z3.fpToUBV(z3.RTZ(), v, z3.BitVecSort(bits))
        # REAL
        ok = z3.And(q(v) > lo - 1, q(v) < hi)
        if not self.decide(st, ok):
            st.event('fptoint-ub', where=self.where(st), value=v, pc=list(st.pc))
            if self.ub_mode == 'end':
                raise PathEnd('ub', 'fptoint out of range')
            return self.fresh_of(st, IntT(bits), 'fptoint_poison')
        iv = z3.ToInt(q(v))   # floor
        tr = z3.If(q(v) >= 0, iv, -z3.ToInt(-q(v)))
        return z3.Int2BV(tr, bits)

    ub_mode = 'end'

    def fabs(self, st, v):
        d = self.dom
        if isinstance(v, float):
            return abs(v)
        if isinstance(v, (Fraction, int)):
            return abs(v)
        if isinstance(d, FPDom):
            return z3.fpAbs(v)
        if self.fork_select:
            if self.decide(st, q(v) >= 0):
                return v
            return -v
        return z3.If(v >= 0, v, -v)

    def select(self, st, c, a, b, ty):
        if isinstance(c, Undef):
            raise Unsupported('select on undef')
        if isinstance(c, int):
            return a if c else b
        ty = self.m.resolve(ty)
        if isinstance(a, Ptr) or isinstance(b, Ptr) or isinstance(ty, (StructT, ArrT)) or \
                isinstance(a, (Undef, Bits)) or isinstance(b, (Undef, Bits)):
            return a if self.decide(st, c) else b
        if isinstance(ty, FloatT):
            if self.fork_select or isinstance(a, float) and not isinstance(self.dom, FPDom) \
                    or isinstance(b, float) and not isinstance(self.dom, FPDom):
                return a if self.decide(st, c) else b
            return self.dom.ite(c, a, b)
        if isinstance(ty, IntT):
            if ty.bits == 1:
                def tb(x):
                    return bool(x) if isinstance(x, int) else x
                return z3.If(c, tb(a), tb(b))
            A = a if is_z3(a) else z3.BitVecVal(a, ty.bits)
            B = b if is_z3(b) else z3.BitVecVal(b, ty.bits)
            return z3.If(c, A, B)
        raise Unsupported('select of %r' % (ty,))

    # ------------------------------------------------------------------ running
    def run_global_ctors(self):
        """execute the module's static initialisers (llvm.global_ctors) once; the resulting contents of
        the globals become the initial memory of every exploration"""
        self.init_globals = {}
        g = self.m.globals.get('llvm.global_ctors')
        if g is None or g.init is None or g.init[0] != 'agg':
            return
        fns = []
        for ety, ev in g.init[1]:
            if ev[0] == 'agg' and len(ev[1]) >= 2:
                fv = ev[1][1][1]
                if fv[0] == 'global':
                    fns.append(fv[1])
        st = State()
        saved = (self.undefined_handler, self.opaque_calls, self.deadline)
        self.undefined_handler = lambda ex, s_, name, args, I: (None if isinstance(ex.m.resolve(I['ty']), VoidT)
                                                             else ex.fresh_of(s_, ex.m.resolve(I['ty']), 'init'))
        try:
            for f in fns:
                if f not in self.m.functions:
                    continue
                s2 = self.start(f, [], st, _raw=True)
                res = self.explore(s2)
                if len(res) != 1 or res[0].outcome[0] != 'ret':
                    raise Unsupported('static initialiser %s did not run to completion' % f)
                st = res[0]
                st.outcome = None
                st.frames = []
        finally:
            self.undefined_handler, self.opaque_calls, self.deadline = saved
        for rid, r in st.mem.items():
            if r.kind == 'global':
                self.init_globals[rid] = r
        self.stats['paths'] = 0

    init_globals = None

    def start(self, fname, args, st=None, _raw=False):
        if st is None:
            st = State()
        if not _raw:
            if self.init_globals is None:
                self.run_global_ctors()
            for rid, r in self.init_globals.items():
                if rid not in st.mem:
                    st.mem[rid] = r.copy()
        fn = self.m.functions[fname]
        fr = Frame(fn)
        if len(args) != len(fn.params):
            raise Unsupported('arg count for ' + fname)
        for (ty, pn, at), a in zip(fn.params, args):
            fr.locals[pn] = a
        st.frames.append(fr)
        return st

    def explore(self, st, on_path=None):
        """run all paths from st; returns list of finished states"""
        work = [st]
        done = []
        while work:
            s = work.pop()
            try:
                self.run(s, work)
            except PathEnd as e:
                s.outcome = (e.kind, e.info)
            except Unsupported as e:
                if not self.tolerant or 'time limit' in str(e):
                    raise
                s.outcome = ('unsupported', str(e))
                self.stats['unsupported_paths'] = self.stats.get('unsupported_paths', 0) + 1
            if s.outcome and s.outcome[0] == 'infeasible':
                continue
            self.stats['paths'] += 1
            if on_path:
                on_path(s)
            else:
                done.append(s)
            if self.stats['paths'] > self.max_paths:
                raise Unsupported('path limit exceeded')
        return done

    def run(self, st, work):
        while True:
            if not st.frames:
                return
            st.steps += 1
            self.stats['steps'] += 1
            if st.steps > self.max_steps:
                raise PathEnd('steplimit')
            if self.deadline is not None and (self.stats['steps'] & 1023) == 0 and time.time() > self.deadline:
                raise Unsupported('time limit of the exploration exceeded')
            fr = st.frames[-1]
            I = fr.fn.blocks[fr.block][fr.idx]
            st.choice_idx = 0
            try:
                self.step(st, fr, I)
                st.choices = []
            except ForkRequest as f:
                self.stats['forks'] += 1
                if self.fork_bound is not None:
                    key = ('forks', st.frames[-1].serial, self.where(st))
                    n = st.data.get(key, 0) + 1
                    st.data[key] = n
                    if n > self.fork_bound:
                        st.event('unwinding-bound-exceeded', where=self.where(st))
                        raise PathEnd('unwind', self.where(st))
                m1, m2 = self._fork_models
                s2 = st.fork()
                st.data[('dec', f.cond.get_id())] = True
                s2.data[('dec', f.cond.get_id())] = False
                self.keep.append(f.cond)
                st.choices = st.choices + [True]
                st.pc.append(f.cond)
                st.model = m1
                s2.choices = s2.choices + [False]
                s2.pc.append(z3.Not(f.cond))
                s2.model = m2
                work.append(s2)
                # continue with st (re-executes the instruction)
            except ThrowSignal as t:
                st.choices = []
                self.do_throw(st, t.tinfo, t.obj)

    def jump(self, st, fr, label):
        fr.prev = fr.block
        fr.block = label
        fr.idx = 0
        if self.loop_bound is not None:
            key = ('visits', len(st.frames), fr.fn.name, label)
            n = st.data.get(key, 0) + 1
            st.data[key] = n
            if n > self.loop_bound:
                st.event('unwinding-bound-exceeded', where='%s:%s' % (fr.fn.name, label))
                raise PathEnd('unwind', '%s:%s' % (fr.fn.name, label))
        # phis
        blk = fr.fn.blocks[label]
        vals = []
        n = 0
        for I in blk:
            if I['op'] != 'phi':
                break
            for v, lab in I['inc']:
                if lab == fr.prev:
                    vals.append((I['res'], self.ev(st, fr, I['ty'], v)))
                    break
            else:
                raise Unsupported('phi without incoming for %s in %s' % (fr.prev, fr.fn.name))
            n += 1
        for r, v in vals:
            fr.locals[r] = v
        fr.idx = n

    def do_return(self, st, val):
        fr = st.frames.pop()
        for rid in fr.allocas:
            r = st.mem.get(rid)
            if r is not None:
                del st.mem[rid]
        if not st.frames:
            st.outcome = ('ret', None)
            st.retval = val
            return
        caller = st.frames[-1]
        I = fr.callinstr
        if I['res'] is not None:
            caller.locals[I['res']] = val
        if I['op'] == 'invoke':
            self.jump(st, caller, I['normal'])
        else:
            caller.idx += 1

    def finish_call(self, st, fr, I, val):
        if I['res'] is not None:
            fr.locals[I['res']] = val
        if I['op'] == 'invoke':
            self.jump(st, fr, I['normal'])
        else:
            fr.idx += 1

    # exceptions ---------------------------------------------------------------
    def tinfo_bases(self, st, tname):
        """names of typeinfo objects of tname and its (single/multiple inheritance) bases"""
        out = [tname]
        g = self.m.globals.get(tname)
        if g is None or g.init is None:
            for b in STD_BASES.get(tname, ()):
                out += self.tinfo_bases(st, b)
            return out
        init = g.init
        if init[0] != 'agg':
            return out
        els = init[1]
        # __si_class_type_info: {vtable, name, base}; __vmi: {vtable,name,flags,count,{base,off}...}
        for ety, ev in els[2:]:
            nm = self._tinfo_ref(ev)
            if nm:
                out += self.tinfo_bases(st, nm)
        return out

    def _tinfo_ref(self, ev):
        if ev[0] == 'global':
            return ev[1]
        if ev[0] == 'ccast':
            return self._tinfo_ref(ev[3])
        if ev[0] == 'cgep':
            return None
        return None

    def tinfo_name_of(self, st, v):
        if isinstance(v, Ptr):
            kn = self.rid_names.get(v.rid)
            if kn and kn[0] == 'global':
                return kn[1]
            if v.rid == 0:
                return None
        raise Unsupported('typeinfo operand %r' % (v,))

    def type_id(self, tname):
        if tname not in self.typeid:
            self.typeid[tname] = len(self.typeid) + 1
        return self.typeid[tname]

    def do_throw(self, st, tinfo, obj):
        st.exc = (tinfo, obj)
        st.event('throw', tinfo=tinfo, where=self.where(st) if st.frames else '?')
        self.unwind(st, first=True)

    def unwind(self, st, first=False):
        """propagate st.exc: current top frame's pending instruction is the throwing call/invoke
        (first=True) or a resume"""
        while st.frames:
            fr = st.frames[-1]
            I = fr.fn.blocks[fr.block][fr.idx]
            if I['op'] == 'invoke':
                lp = fr.fn.blocks[I['unwind']]
                # find landingpad (after phis)
                L = None
                for J in lp:
                    if J['op'] == 'landingpad':
                        L = J
                        break
                    if J['op'] != 'phi':
                        break
                if L is None:
                    raise Unsupported('unwind dest without landingpad')
                sel = self.match_clauses(st, L)
                if sel == 0 and st.data.get('fast_throw_depth') == len(st.frames):
                    sel = None      # cleanup of message-building code that was skipped
                if sel is not None:
                    st.data['lp_sel'] = sel
                    self.jump(st, fr, I['unwind'])
                    return
            # pop frame
            fr = st.frames.pop()
            st.data.pop('fast_throw_depth', None)
            for rid in fr.allocas:
                st.mem.pop(rid, None)
        st.outcome = ('throw', st.exc[0])
        raise PathEnd('throw', st.exc[0])

    def match_clauses(self, st, L):
        tinfo = st.exc[0]
        bases = self.tinfo_bases(st, tinfo) if tinfo else []
        for kind, cv in L['clauses']:
            if kind == 'catch':
                if cv[0] == 'null':
                    return 1000000  # catch-all
                nm = self._tinfo_ref(cv)
                if tinfo is None:
                    continue   # foreign exception: only catch-all
                if nm in bases:
                    return self.type_id(nm)
            else:
                # filter (exception specification): treat as not matching -> terminate semantics
                if cv[0] in ('zero', 'undef') or (cv[0] == 'agg' and not cv[1]):
                    return -1
        if L['cleanup']:
            return 0
        return None

    # ------------------------------------------------------------------ step
    def step(self, st, fr, I):
        op = I['op']
        m = self.m
        if op in ('fadd', 'fsub', 'fmul', 'fdiv', 'frem', 'add', 'sub', 'mul', 'and', 'or', 'xor',
                  'shl', 'lshr', 'ashr', 'udiv', 'sdiv', 'urem', 'srem'):
            ty = m.resolve(I['ty'])
            a = self.ev(st, fr, ty, I['a'])
            b = self.ev(st, fr, ty, I['b'])
            if self.check_overflow and op in ('add', 'sub', 'mul') and 'nsw' in I.get('flags', ()):
                self.nsw_check(st, op, ty, a, b)
            fr.locals[I['res']] = self.binop(st, op, ty, a, b)
            fr.idx += 1
        elif op == 'fneg':
            fr.locals[I['res']] = self.dom.neg(self.ev(st, fr, I['ty'], I['a']))
            fr.idx += 1
        elif op == 'fcmp':
            a = self.ev(st, fr, I['ty'], I['a'])
            b = self.ev(st, fr, I['ty'], I['b'])
            r = self.dom.cmp(I['pred'], a, b)
            fr.locals[I['res']] = int(r) if isinstance(r, bool) else r
            fr.idx += 1
        elif op == 'icmp':
            ty = m.resolve(I['ty'])
            a = self.ev(st, fr, ty, I['a'])
            b = self.ev(st, fr, ty, I['b'])
            fr.locals[I['res']] = self.icmp(st, I['pred'], ty, a, b)
            fr.idx += 1
        elif op == 'br':
            if 'dest' in I:
                self.jump(st, fr, I['dest'])
            else:
                c = self.ev(st, fr, llir.I1, I['cond'])
                if isinstance(c, Undef):
                    raise Unsupported('branch on undef in ' + self.where(st))
                self.jump(st, fr, I['t'] if self.decide(st, c) else I['f'])
        elif op == 'phi':
            raise Unsupported('stray phi')
        elif op == 'select':
            c = self.ev(st, fr, llir.I1, I['cond'])
            a = self.ev(st, fr, I['ty'], I['a'])
            b = self.ev(st, fr, I['ty'], I['b'])
            fr.locals[I['res']] = self.select(st, c, a, b, I['ty'])
            fr.idx += 1
        elif op == 'call' or op == 'invoke':
            self.do_call(st, fr, I)
        elif op == 'ret':
            v = None if I['val'] is None else self.ev(st, fr, I['ty'], I['val'])
            self.do_return(st, v)
        elif op == 'load':
            p = self.ev(st, fr, None, I['ptr'])
            fr.locals[I['res']] = self.load(st, p, I['ty'])
            fr.idx += 1
        elif op == 'store':
            p = self.ev(st, fr, None, I['ptr'])
            v = self.ev(st, fr, I['ty'], I['val'])
            self.store(st, p, I['ty'], v)
            fr.idx += 1
        elif op == 'getelementptr':
            p = self.ev(st, fr, None, I['ptr'])
            idx = [(ity, self.ev(st, fr, ity, iv)) for ity, iv in I['idx']]
            fr.locals[I['res']] = self.gep(st, p, I['sty'], idx)
            fr.idx += 1
        elif op == 'alloca':
            n = 1
            if I['n'] is not None:
                n = self.ev(st, fr, llir.I64, I['n'])
                if not isinstance(n, int):
                    raise Unsupported('symbolic alloca size')
            r = self.new_region(st, m.sizeof(I['aty']) * n, 'alloca',
                                '%s.%s' % (fr.fn.name[:40], I['res']))
            fr.allocas.append(r.rid)
            fr.locals[I['res']] = Ptr(r.rid, 0)
            fr.idx += 1
        elif op in llir.CASTS:
            v = self.ev(st, fr, I['fty'], I['a'])
            fr.locals[I['res']] = self.cast(st, op, v, I['fty'], I['ty'])
            fr.idx += 1
        elif op == 'extractvalue':
            v = self.ev(st, fr, I['aggty'], I['a'])
            for i in I['idx']:
                v = v[i]
            fr.locals[I['res']] = v
            fr.idx += 1
        elif op == 'insertvalue':
            v = self.ev(st, fr, I['aggty'], I['a'])
            e = self.ev(st, fr, I['ety'], I['b'])
            fr.locals[I['res']] = self._insert(v, I['idx'], e)
            fr.idx += 1
        elif op == 'switch':
            v = self.ev(st, fr, I['ty'], I['val'])
            ty = m.resolve(I['ty'])
            if isinstance(v, int):
                for cv, lab in I['cases']:
                    if (cv & mask(ty.bits)) == v:
                        self.jump(st, fr, lab)
                        return
                self.jump(st, fr, I['default'])
            else:
                for cv, lab in I['cases']:
                    if self.decide(st, v == z3.BitVecVal(cv, ty.bits)):
                        self.jump(st, fr, lab)
                        return
                self.jump(st, fr, I['default'])
        elif op == 'unreachable':
            raise PathEnd('unreachable', self.where(st))
        elif op == 'landingpad':
            sel = st.data.get('lp_sel', 0)
            obj = st.exc[1] if st.exc else NULL
            fr.locals[I['res']] = [obj if obj is not None else NULL, sel & mask(32) if sel >= 0 else mask(32)]
            fr.idx += 1
        elif op == 'resume':
            st.frames.pop()
            for rid in fr.allocas:
                st.mem.pop(rid, None)
            if not st.frames:
                st.outcome = ('throw', st.exc[0] if st.exc else None)
                raise PathEnd('throw', st.exc[0] if st.exc else None)
            self.unwind(st)
        elif op == 'freeze':
            fr.locals[I['res']] = self.ev(st, fr, I['ty'], I['a'])
            fr.idx += 1
        elif op == 'atomicrmw':
            p = self.ev(st, fr, None, I['ptr'])
            ty = m.resolve(I['ty'])
            old = self.load(st, p, ty)
            val = self.ev(st, fr, ty, I['val'])
            new = {'add': 'add', 'sub': 'sub', 'xchg': None, 'and': 'and', 'or': 'or',
                   'xor': 'xor'}.get(I['rmw'], '?')
            if new == '?':
                raise Unsupported('atomicrmw ' + I['rmw'])
            nv = val if new is None else self.binop(st, new, ty, old, val)
            self.store(st, p, ty, nv)
            st.event('atomic', where=self.where(st))
            fr.locals[I['res']] = old
            fr.idx += 1
        elif op == 'fence':
            fr.idx += 1
        else:
            raise Unsupported('instruction ' + op)

    check_overflow = False
    undefined_handler = None

    def nsw_check(self, st, op, ty, a, b):
        if isinstance(a, int) and isinstance(b, int):
            sa, sb = to_signed(a, ty.bits), to_signed(b, ty.bits)
            r = {'add': sa + sb, 'sub': sa - sb, 'mul': sa * sb}[op]
            if not (-(1 << (ty.bits - 1)) <= r < (1 << (ty.bits - 1))):
                st.event('signed-overflow', where=self.where(st))
            return
        if not (is_z3(a) or is_z3(b)):
            return
        A = a if is_z3(a) else z3.BitVecVal(a, ty.bits)
        B = b if is_z3(b) else z3.BitVecVal(b, ty.bits)
        if op == 'add':
            ok = z3.And(z3.BVAddNoOverflow(A, B, True), z3.BVAddNoUnderflow(A, B))
        elif op == 'sub':
            ok = z3.And(z3.BVSubNoOverflow(A, B), z3.BVSubNoUnderflow(A, B, True))
        else:
            ok = z3.And(z3.BVMulNoOverflow(A, B, True), z3.BVMulNoUnderflow(A, B))
        if not self.decide(st, ok):
            st.event('signed-overflow', where=self.where(st), pc=list(st.pc), a=a, b=b)
            if self.ub_mode == 'end':
                raise PathEnd('ub', 'signed overflow')

    def _insert(self, agg, idx, e):
        agg = list(agg)
        if len(idx) == 1:
            agg[idx[0]] = e
        else:
            agg[idx[0]] = self._insert(agg[idx[0]], idx[1:], e)
        return agg

    def callee_name(self, st, fr, I):
        c = I['callee']
        if c[0] == 'global':
            return c[1]
        v = self.ev(st, fr, None, c)
        if isinstance(v, Ptr):
            kn = self.rid_names.get(v.rid)
            if kn and kn[0] == 'func':
                return kn[1]
        if self.opaque_calls:
            return None
        raise Unsupported('indirect call through %r in %s' % (v, self.where(st)))

    def do_call(self, st, fr, I):
        name = self.callee_name(st, fr, I)
        args = [self.ev(st, fr, aty, av) for aty, av, _ in I['args']]
        if name is None:
            # virtual call on an object of unknown dynamic type (e.g. std::exception::what()):
            # arbitrary result, no side effect on the modelled memory
            st.event('opaque-virtual-call', where=self.where(st))
            rt = self.m.resolve(I['ty'])
            r = None if isinstance(rt, VoidT) else self.fresh_of(st, rt, 'vcall')
            self.finish_call(st, fr, I, r)
            return
        h = self.ufs.get(name) or self.stubs.get(name)
        if h is None and name.startswith('llvm.'):
            h = self.intrinsic(name)
        if h is None:
            for pre, hh in self.stub_prefixes:
                if name.startswith(pre):
                    h = hh
                    break
        if h is not None:
            r = h(self, st, args, I)
            if st.frames and st.frames[-1] is fr and fr.fn.blocks[fr.block][fr.idx] is I:
                self.finish_call(st, fr, I, r)
            return
        fn = self.m.functions.get(name)
        if fn is None or (self.opaque_defined is not None and name in self.opaque_defined):
            if self.undefined_handler is not None:
                r = self.undefined_handler(self, st, name, args, I)
                if r is not NotImplemented:
                    self.finish_call(st, fr, I, r)
                    return
            raise Unsupported('call to undefined function %s (from %s)' % (name, self.where(st)))
        nf = Frame(fn)
        if len(args) != len(fn.params):
            raise Unsupported('arg count mismatch calling ' + name)
        for (ty, pn, at), a in zip(fn.params, args):
            nf.locals[pn] = a
        nf.callinstr = I
        nf.serial = st.steps
        if len(st.frames) > 200:
            raise PathEnd('recursion')
        st.frames.append(nf)

    def intrinsic(self, name):
        from . import stubs
        return stubs.intrinsic(name)
