"""Value domains for `double` in the symbolic executor.

REAL     : exact real arithmetic (Fraction when concrete, z3 Real otherwise)
REALERR  : REAL plus a (1+delta) rounding model per operation
FP       : IEEE-754 binary64 (Python float when concrete, z3 FP otherwise)
CONCRETE : Python float only (translator validation)
"""
import math
import ctypes
import ctypes.util
from fractions import Fraction
import z3

_libm = ctypes.CDLL(ctypes.util.find_library('m'))
for _n in ('log', 'sqrt', 'atan', 'atan2', 'asin', 'acos', 'sin', 'cos', 'log1p', 'exp',
           'cbrt', 'tan', 'fabs', 'floor', 'ceil', 'trunc', 'round'):
    getattr(_libm, _n).restype = ctypes.c_double
    getattr(_libm, _n).argtypes = [ctypes.c_double] * (2 if _n == 'atan2' else 1)
for _n in ('pow', 'fmod', 'fmin', 'fmax', 'hypot', 'copysign'):
    getattr(_libm, _n).restype = ctypes.c_double
    getattr(_libm, _n).argtypes = [ctypes.c_double] * 2


class Unsupported(Exception):
    pass


class Bits:
    """bit pattern of a non-integer value viewed as an integer (memcpy-style moves)"""
    __slots__ = ('val', 'bits')

    def __init__(self, val, bits):
        self.val = val
        self.bits = bits

    def __repr__(self):
        return 'Bits(%r)' % (self.val,)


def is_special(v):
    return isinstance(v, float)  # nan / inf / (any float in REAL domain means special)


def q(v):
    """Fraction -> z3 real"""
    if isinstance(v, Fraction):
        return z3.RealVal(str(v))
    if isinstance(v, int):
        return z3.RealVal(v)
    return v


class RealDom:
    name = 'REAL'
    symbolic = True

    def __init__(self, const_symbols=None):
        self.cnt = 0
        # idealisation of irrational literals: [(double value, z3 real term)]; a literal within 4 ulp of a
        # listed value is replaced by the exact algebraic/symbolic term (documented per check)
        self.const_symbols = list(const_symbols or [])

    def const(self, f):
        if f != f or f in (math.inf, -math.inf):
            return f
        for v, term in self.const_symbols:
            if f == v or (v != 0 and abs(f - v) <= 4 * abs(v) * 2.220446049250313e-16):
                return term
            if v != 0 and (f == -v or abs(f + v) <= 4 * abs(v) * 2.220446049250313e-16):
                return -term
        return Fraction(f)

    def is_conc(self, v):
        return isinstance(v, (Fraction, float, int))

    def fresh(self, name):
        self.cnt += 1
        return z3.Real('%s!%d' % (name, self.cnt))

    def var(self, name):
        return z3.Real(name)

    def _spec(self, op, a, b, st=None):
        # at least one special (inf/nan) operand
        def tof(x):
            if isinstance(x, float):
                return x
            if isinstance(x, Fraction):
                return float(x)
            return None
        fa, fb = tof(a), tof(b)
        if fa is not None and fa != fa:
            return math.nan
        if fb is not None and fb != fb:
            return math.nan
        if fa is None or fb is None:
            # symbolic (finite) operand combined with +-inf: the result is non-finite; which one
            # (inf or nan) depends on the sign/zero-ness of the symbolic operand.  The REAL domain
            # only tracks "non-finite" here.
            if st is not None:
                st.event('nonfinite-approx')
            return math.nan
        try:
            if op == 'fadd':
                return _mk(fa + fb)
            if op == 'fsub':
                return _mk(fa - fb)
            if op == 'fmul':
                return _mk(fa * fb)
            if op == 'fdiv':
                if fb == 0:
                    return math.nan if (fa == 0 or fa != fa) else math.copysign(math.inf, fa) * (
                        -1 if math.copysign(1, fb) < 0 else 1)
                return _mk(fa / fb)
        except OverflowError:
            return math.inf
        raise Unsupported(op)

    def bin(self, ex, st, op, a, b):
        if isinstance(a, float) or isinstance(b, float):
            return self._spec(op, a, b, st)
        ca = isinstance(a, (Fraction, int))
        cb = isinstance(b, (Fraction, int))
        if ca and cb:
            if op == 'fadd':
                return a + b
            if op == 'fsub':
                return a - b
            if op == 'fmul':
                return a * b
            if op == 'fdiv':
                if b == 0:
                    st.event('fdiv-by-zero', concrete=True)
                    if a == 0:
                        return math.nan
                    return math.inf if a > 0 else -math.inf
                return Fraction(a) / b
            raise Unsupported(op)
        if op == 'fadd':
            if cb and b == 0:
                return a
            if ca and a == 0:
                return b
            return q(a) + q(b)
        if op == 'fsub':
            if cb and b == 0:
                return a
            return q(a) - q(b)
        if op == 'fmul':
            if (cb and b == 0) or (ca and a == 0):
                return Fraction(0)
            if cb and b == 1:
                return a
            if ca and a == 1:
                return b
            return q(a) * q(b)
        if op == 'fdiv':
            if cb:
                if b == 0:
                    st.event('fdiv-by-zero', concrete=True)
                    raise Unsupported('REAL: symbolic / 0')
                return q(a) * q(Fraction(1) / b)
            return ex.real_div(st, q(a), b)
        raise Unsupported(op)

    def neg(self, a):
        if isinstance(a, float):
            return -a
        if isinstance(a, (Fraction, int)):
            return -a
        return -a

    def cmp(self, pred, a, b):
        """returns python bool or z3 Bool"""
        if isinstance(a, float) or isinstance(b, float):
            an = isinstance(a, float) and a != a
            bn = isinstance(b, float) and b != b
            if an or bn:
                return pred[0] == 'u' and pred != 'uno' or pred == 'uno'
            if pred in ('ord',):
                return True
            if pred == 'uno':
                return False
            # infinities
            fa = a if isinstance(a, float) else (float(a) if isinstance(a, (Fraction, int)) else None)
            fb = b if isinstance(b, float) else (float(b) if isinstance(b, (Fraction, int)) else None)
            if fa is None:
                # symbolic finite vs +-inf
                fa = 0.0
            if fb is None:
                fb = 0.0
            return _fcmp_conc(pred, fa, fb)
        if pred == 'ord':
            return True
        if pred == 'uno':
            return False
        p = pred[1:]
        if isinstance(a, (Fraction, int)) and isinstance(b, (Fraction, int)):
            return {'eq': a == b, 'ne': a != b, 'lt': a < b, 'le': a <= b, 'gt': a > b,
                    'ge': a >= b}[p]
        a, b = q(a), q(b)
        return {'eq': a == b, 'ne': a != b, 'lt': a < b, 'le': a <= b, 'gt': a > b, 'ge': a >= b}[p]

    def ite(self, c, a, b):
        if isinstance(a, float) or isinstance(b, float):
            raise Unsupported('REAL: ite with special value')
        return z3.If(c, q(a), q(b))

    def from_int(self, v, bits, signed):
        if isinstance(v, int):
            if signed and v >= 1 << (bits - 1):
                v -= 1 << bits
            return Fraction(v)
        if signed:
            return z3.ToReal(z3.BV2Int(v, is_signed=True))
        return z3.ToReal(z3.BV2Int(v, is_signed=False))

    def to_float(self, v):
        if isinstance(v, float):
            return v
        if isinstance(v, (Fraction, int)):
            return float(v)
        return None


def _mk(f):
    if f != f or f in (math.inf, -math.inf):
        return f
    return Fraction(f)


def _fcmp_conc(pred, a, b):
    un = (a != a) or (b != b)
    p = pred
    if p == 'ord':
        return not un
    if p == 'uno':
        return un
    if p == 'true':
        return True
    if p == 'false':
        return False
    r = {'eq': a == b, 'ne': a != b, 'lt': a < b, 'le': a <= b, 'gt': a > b, 'ge': a >= b}[p[1:]]
    if un:
        return p[0] == 'u'
    return r


class ConcDom:
    name = 'CONCRETE'
    symbolic = False

    def const(self, f):
        return f

    def is_conc(self, v):
        return True

    def fresh(self, name):
        raise Unsupported('CONCRETE: fresh value ' + name)

    def bin(self, ex, st, op, a, b):
        try:
            if op == 'fadd':
                return a + b
            if op == 'fsub':
                return a - b
            if op == 'fmul':
                return a * b
            if op == 'fdiv':
                if b == 0:
                    if a != a or a == 0:
                        return math.nan
                    return math.copysign(math.inf, a) * math.copysign(1.0, b)
                return a / b
            if op == 'frem':
                return math.fmod(a, b)
        except OverflowError:
            # python raises on overflow for some ops (e.g. **); + - * / give inf silently
            return math.inf
        raise Unsupported(op)

    def neg(self, a):
        return -a

    def cmp(self, pred, a, b):
        return _fcmp_conc(pred, a, b)

    def ite(self, c, a, b):
        return a if c else b

    def from_int(self, v, bits, signed):
        if signed and v >= 1 << (bits - 1):
            v -= 1 << bits
        return float(v)

    def to_float(self, v):
        return v

    def libm(self, name, args):
        return getattr(_libm, name)(*args)


FP64 = z3.Float64()
RNE = z3.RNE()


class FPDom:
    name = 'FP'
    symbolic = True

    def __init__(self):
        self.cnt = 0

    def const(self, f):
        return f

    def is_conc(self, v):
        return isinstance(v, float)

    def fresh(self, name):
        self.cnt += 1
        return z3.FP('%s!%d' % (name, self.cnt), FP64)

    def var(self, name):
        return z3.FP(name, FP64)

    def lift(self, v):
        if isinstance(v, float):
            return fpval(v)
        return v

    def bin(self, ex, st, op, a, b):
        if isinstance(a, float) and isinstance(b, float):
            return ConcDom().bin(ex, st, op, a, b)
        a, b = self.lift(a), self.lift(b)
        if op == 'fadd':
            return z3.fpAdd(RNE, a, b)
        if op == 'fsub':
            return z3.fpSub(RNE, a, b)
        if op == 'fmul':
            return z3.fpMul(RNE, a, b)
        if op == 'fdiv':
            return z3.fpDiv(RNE, a, b)
        raise Unsupported(op)

    def neg(self, a):
        if isinstance(a, float):
            return -a
        return z3.fpNeg(a)

    def cmp(self, pred, a, b):
        if isinstance(a, float) and isinstance(b, float):
            return _fcmp_conc(pred, a, b)
        a, b = self.lift(a), self.lift(b)
        un = z3.Or(z3.fpIsNaN(a), z3.fpIsNaN(b))
        if pred == 'ord':
            return z3.Not(un)
        if pred == 'uno':
            return un
        p = pred[1:]
        r = {'eq': z3.fpEQ(a, b), 'ne': z3.Not(z3.fpEQ(a, b)), 'lt': z3.fpLT(a, b),
             'le': z3.fpLEQ(a, b), 'gt': z3.fpGT(a, b), 'ge': z3.fpGEQ(a, b)}[p]
        if pred[0] == 'u':
            return z3.Or(un, r)
        if p == 'ne':   # one: ordered and not equal
            return z3.And(z3.Not(un), r)
        return r

    def ite(self, c, a, b):
        return z3.If(c, self.lift(a), self.lift(b))

    def from_int(self, v, bits, signed):
        if isinstance(v, int):
            if signed and v >= 1 << (bits - 1):
                v -= 1 << bits
            return float(v)
        if signed:
            return z3.fpSignedToFP(RNE, v, FP64)
        return z3.fpUnsignedToFP(RNE, v, FP64)

    def to_float(self, v):
        if isinstance(v, float):
            return v
        return None


def fpval(f):
    if f != f:
        return z3.fpNaN(FP64)
    if f == math.inf:
        return z3.fpPlusInfinity(FP64)
    if f == -math.inf:
        return z3.fpMinusInfinity(FP64)
    return z3.FPVal(f, FP64)
