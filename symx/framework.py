"""Obligation bookkeeping, known findings, evidence files, exit codes."""
import json
import os
import re
import sys
import time
import z3

VERIF = os.path.dirname(os.path.dirname(os.path.abspath(__file__)))


class Inconclusive(Exception):
    pass


def load_known():
    known = []
    fixed = []
    p = os.path.join(VERIF, 'known_findings.txt')
    if os.path.exists(p):
        for ln in open(p):
            ln = ln.strip()
            if not ln or ln.startswith('#'):
                continue
            m = re.match(r'known:\s+property=(\S+)\s+key=(\S+)\s+(.*)$', ln)
            if m:
                known.append((m.group(1), m.group(2), m.group(3)))
                continue
            m = re.match(r'fixed:\s+property=(\S+)\s+(\S+)\s+(.*)$', ln)
            if m:
                fixed.append((m.group(1), m.group(2), m.group(3)))
    return known, fixed


def load_gaps():
    p = os.path.join(VERIF, 'declared_gaps.json')
    if os.path.exists(p):
        return json.load(open(p))
    return {}


class Check:
    def __init__(self, pid, tier, seed):
        self.pid = pid
        self.tier = tier
        self.seed = seed
        self.t0 = time.time()
        self.obl = []            # dicts
        self.violations = []
        self.known_hits = []
        self.inconclusive = []
        self.functions = set()
        self.assumptions = []
        self.stubs = set()
        self.bounds = {}
        self.not_covered = []
        self.solver_s = 0.0
        self.queries = 0
        self.counts = {'unsat': 0, 'sat': 0, 'unknown': 0}
        self.paths = 0
        self.steps = 0
        self.traces_validated = 0
        self.witness_ok = 0
        self.witness_total = 0
        self.samples = []
        self.known, self.fixed = load_known()
        self.gaps = load_gaps().get(pid, {})
        self.formulas = set()
        self.extra = {}
        # VERIF_EVIDENCE_DIR: used by tools/seed_matrix.py so that runs against a patched scratch clone do not overwrite
        # the evidence of /repo
        self.evidence_dir = os.environ.get('VERIF_EVIDENCE_DIR') or os.path.join(VERIF, 'evidence')
        self.replay_dir = os.path.join(self.evidence_dir, 'replay', pid)

    # ------------------------------------------------------------------ solver
    def solve(self, constraints, timeout_ms=30000, engine='z3'):
        from . import smt
        r, m, dt = smt.check(constraints, timeout_ms, engine)
        self.solver_s += dt
        self.queries += 1
        if dt > 2 and os.environ.get('VERIF_DEBUG'):
            print('  [slow query %.1fs -> %s]' % (dt, r))
        self.counts[r] += 1
        return r, m

    def note_formula(self, constraints):
        try:
            h = hash(tuple(sorted(c.get_id() if hasattr(c, 'get_id') else hash(c) for c in constraints)))
        except Exception:
            h = len(self.formulas)
        self.formulas.add(h)

    # ------------------------------------------------------------------ obligations
    def record(self, name, status, detail='', sample=None, family=None):
        """status: 'discharged' | 'violated' | 'known' | 'inconclusive' | 'gap'"""
        self.obl.append({'name': name, 'status': status, 'detail': detail, 'family': family})
        if sample is not None and len(self.samples) < 12:
            self.samples.append(sample)

    def prove(self, name, constraints, timeout_ms=30000, family=None, sample=None, gap_key=None,
              engine='z3'):
        """obligation holds iff constraints (negated claim + path condition) are unsat.
        returns ('unsat'|'sat'|'unknown', model)"""
        self.note_formula(constraints)
        r, m = self.solve(constraints, timeout_ms, engine)
        if r == 'unsat':
            self.record(name, 'discharged', family=family,
                        sample=sample or {'obligation': name, 'result': 'unsat'})
        elif r == 'unknown':
            if gap_key and gap_key in self.gaps:
                self.record(name, 'gap', detail=self.gaps[gap_key], family=family)
                self.not_covered.append('%s: %s' % (name, self.gaps[gap_key]))
            else:
                self.record(name, 'inconclusive', 'solver unknown/timeout', family=family)
                self.inconclusive.append(name)
        return r, m

    def prove_many(self, jobs, timeout_ms=30000, engine='z3', workers=None):
        """discharge many independent obligations in parallel (forked workers; the solver state is
        inherited copy-on-write).  jobs: list of dicts {name, constraints, family, sample}.
        Returns the list of statuses; 'sat'/'unknown' jobs are re-run in this process by prove()
        so that models are available: returns [(status, model)]."""
        import os as _os
        import json as _json
        from . import smt
        n = len(jobs)
        if n == 0:
            return []
        W = workers or int(_os.environ.get('VERIF_JOBS', '12'))
        W = max(1, min(W, n))
        results = [None] * n
        if W == 1 or n < 4:
            return [self.prove(j['name'], j['constraints'], timeout_ms, j.get('family'), j.get('sample'),
                               engine=engine) for j in jobs]
        pipes = []
        sys.stdout.flush()
        for w in range(W):
            r_, w_ = _os.pipe()
            pid = _os.fork()
            if pid == 0:
                _os.close(r_)
                out = []
                try:
                    for i in range(w, n, W):
                        st, m, dt = smt.check(jobs[i]['constraints'], timeout_ms, engine)
                        out.append([i, st, dt])
                except BaseException as e:      # noqa
                    out.append([-1, 'error: %r' % (e,), 0])
                with _os.fdopen(w_, 'w') as f:
                    f.write(_json.dumps(out))
                _os._exit(0)
            _os.close(w_)
            pipes.append((pid, r_))
        for pid, r_ in pipes:
            with _os.fdopen(r_) as f:
                data = f.read()
            _os.waitpid(pid, 0)
            try:
                for i, st, dt in _json.loads(data or '[]'):
                    if i >= 0:
                        results[i] = (st, dt)
            except ValueError:
                pass
        out = []
        for j, res in zip(jobs, results):
            if res is not None and res[0] == 'unsat':
                self.note_formula(j['constraints'])
                self.solver_s += res[1]
                self.queries += 1
                self.counts['unsat'] += 1
                self.record(j['name'], 'discharged', family=j.get('family'),
                            sample=j.get('sample') or {'obligation': j['name'], 'result': 'unsat'})
                out.append(('unsat', None))
            else:
                out.append(self.prove(j['name'], j['constraints'], timeout_ms, j.get('family'), j.get('sample'),
                                      engine=engine))
        return out

    def note(self, text):
        self.extra.setdefault('notes', []).append(text)

    def map_fork(self, fn, items, workers=None):
        """fn(item) -> JSON-serialisable result, evaluated in forked workers (copy-on-write state)"""
        import os as _os
        import json as _json
        n = len(items)
        if n == 0:
            return []
        W = max(1, min(workers or int(_os.environ.get('VERIF_JOBS', '14')), n))
        results = [None] * n
        pipes = []
        sys.stdout.flush()
        for w in range(W):
            r_, w_ = _os.pipe()
            pid = _os.fork()
            if pid == 0:
                _os.close(r_)
                out = []
                for i in range(w, n, W):
                    try:
                        out.append([i, fn(items[i])])
                    except BaseException as e:      # noqa
                        out.append([i, {'status': 'gap', 'why': 'worker: %r' % (e,), 'hits': [], 'fn': str(items[i][-1]),
                                        'rel': str(items[i][0])}])
                with _os.fdopen(w_, 'w') as f:
                    f.write(_json.dumps(out, default=str))
                _os._exit(0)
            _os.close(w_)
            pipes.append((pid, r_))
        for pid, r_ in pipes:
            with _os.fdopen(r_) as f:
                data = f.read()
            _os.waitpid(pid, 0)
            try:
                for i, res in _json.loads(data or '[]'):
                    results[i] = res
            except ValueError:
                pass
        return results

    def witness(self, name, constraints, timeout_ms=30000, engine='z3'):
        """vacuity twin: constraints must be satisfiable"""
        self.witness_total += 1
        r, m = self.solve(constraints, timeout_ms, engine)
        if r == 'sat':
            self.witness_ok += 1
            return True
        self.record('witness:' + name, 'inconclusive', 'reachability twin not sat (%s)' % r)
        self.inconclusive.append('witness:' + name)
        return False

    def is_known(self, key):
        for pid, k, desc in self.known:
            if pid == self.pid and (k == key or (k.endswith('*') and key.startswith(k[:-1]))):
                return desc
        return None

    def violation(self, name, key, text, replay_script=None, files=None):
        """a reproduced violation.  key identifies the finding class (site/input)."""
        desc = self.is_known(key)
        if desc is not None:
            if key not in [k for k, _ in self.known_hits]:
                self.known_hits.append((key, desc))
            self.record(name, 'known', detail=text)
            return
        if any(k == key for _, k, _, _ in self.violations):
            self.record(name, 'violated', detail=text + ' [same finding as above]')
            return
        os.makedirs(self.replay_dir, exist_ok=True)
        safe = re.sub(r'[^A-Za-z0-9_.-]', '_', key)[:80]
        path = os.path.join(self.replay_dir, safe + '.sh')
        body = replay_script or ('#!/bin/sh\necho %s\nexit 1\n' % json.dumps(text))
        with open(path, 'w') as f:
            f.write(body)
        os.chmod(path, 0o755)
        for fn, content in (files or {}).items():
            with open(os.path.join(self.replay_dir, fn), 'w') as f:
                f.write(content)
        self.violations.append((name, key, text, path))
        self.record(name, 'violated', detail=text)

    # ------------------------------------------------------------------ finish
    def absorb_executor(self, ex):
        self.solver_s += ex.stats['solver_s']
        self.queries += ex.stats['solver_calls']
        self.paths += ex.stats['paths']
        self.steps += ex.stats['steps']

    def finish(self):
        wall = time.time() - self.t0
        n = len(self.obl)
        st = {}
        for o in self.obl:
            st[o['status']] = st.get(o['status'], 0) + 1
        fam = {}
        for o in self.obl:
            f = o.get('family') or 'misc'
            fam.setdefault(f, {}).setdefault(o['status'], 0)
            fam[f][o['status']] += 1
        for key, desc in self.known_hits:
            print('KNOWN-FINDING: property=%s %s [%s]' % (self.pid, desc, key))
        for name, key, text, path in self.violations:
            print('VIOLATION property=%s replay=%s' % (self.pid, path))
            print('  ' + name + ': ' + text)
        for nme in self.inconclusive[:20]:
            print('INCONCLUSIVE: ' + nme)
        ev = {
            'property_id': self.pid,
            'tier': self.tier,
            'seed': self.seed,
            'level': 'model_checking',
            'coverage': {
                'states': max(self.paths, 1),
                'transitions': max(self.steps, 1),
                'traces_validated_against_impl': self.traces_validated,
                'evaluations': max(n, 1),
                'distinct_nontrivial': len(self.formulas),
                'rule': 'one evaluation = one obligation posed to the solver (negated claim + path '
                        'condition of one symbolic path / regime / box of the real code); distinct = '
                        'distinct formula (set of z3 AST ids); non-trivial = reached the solver (not '
                        'closed by constant folding) and its reachability twin is satisfiable',
                'samples': self.samples or [{'note': 'no obligations'}],
                'obligations': n,
                'discharged': st.get('discharged', 0),
                'by_status': st,
                'by_family': fam,
                'queries': self.queries,
                'solver_results': self.counts,
                'solver_s': round(self.solver_s, 3),
                'symbolic_paths': self.paths,
                'ir_steps': self.steps,
                'vacuity_twins': {'sat': self.witness_ok, 'total': self.witness_total},
                'functions_encoded': sorted(self.functions),
                'bounds': self.bounds,
                'stubs': sorted(self.stubs),
                'not_covered': self.not_covered,
                'known_findings_hit': [k for k, _ in self.known_hits],
                'inconclusive': self.inconclusive[:50],
                'exhaustive': False,
            },
            'assumptions': self.assumptions,
            'wall_s': round(wall, 2),
            'violations': len(self.violations),
        }
        ev['coverage'].update(self.extra)
        os.makedirs(self.evidence_dir, exist_ok=True)
        with open(os.path.join(self.evidence_dir, self.pid + '.json'), 'w') as f:
            json.dump(ev, f, indent=1, default=str)
        print('%s %s: %d obligations %s; %d queries, solver %.1fs, wall %.1fs' % (
            self.pid, self.tier, n, st, self.queries, self.solver_s, wall))
        if self.violations:
            return 1
        if self.inconclusive:
            return 2
        return 0
