"""Solver back ends: z3 (API) and cvc5 (CLI, via SMT-LIB text) with hard timeouts and a common model view."""
import os
import re
import struct
import subprocess
import tempfile
import time
from fractions import Fraction
import z3


class Model:
    """uniform read-only view of a satisfying assignment"""

    def __init__(self, z3model=None, table=None):
        self.zm = z3model
        self.table = table

    def _lookup(self, v):
        name = v.decl().name() if isinstance(v, z3.ExprRef) else str(v)
        return self.table.get(name)

    def real(self, v):
        if self.zm is not None:
            e = self.zm.eval(v, model_completion=True)
            if z3.is_rational_value(e):
                return Fraction(e.numerator_as_long(), e.denominator_as_long())
            if z3.is_algebraic_value(e):
                a = e.approx(40)
                return Fraction(a.numerator_as_long(), a.denominator_as_long())
            if z3.is_int_value(e):
                return Fraction(e.as_long())
            raise ValueError('cannot read %r' % (e,))
        x = self._lookup(v)
        return Fraction(0) if x is None else Fraction(x)

    def fp(self, v):
        """python float of an FP variable"""
        if self.zm is not None:
            e = self.zm.eval(v, model_completion=True)
            if z3.is_fp_value(e) or z3.is_fprm_value(e) or True:
                if e.isNaN():
                    return float('nan')
                if e.isInf():
                    return float('-inf') if e.isNegative() else float('inf')
                if e.isZero():
                    return -0.0 if e.isNegative() else 0.0
                sgn = -1.0 if e.sign() else 1.0
                sig = Fraction(e.significand_as_long(), 1 << 52)
                if e.isSubnormal():
                    return sgn * float(sig * Fraction(2) ** (-1022))
                ex = e.exponent_as_long(biased=False)
                val = (1 + sig) * (Fraction(2) ** ex)
                return sgn * float(val)
        x = self._lookup(v)
        return 0.0 if x is None else x

    def bv(self, v):
        if self.zm is not None:
            e = self.zm.eval(v, model_completion=True)
            return e.as_long()
        x = self._lookup(v)
        return 0 if x is None else int(x)

    def bool(self, v):
        if self.zm is not None:
            return z3.is_true(self.zm.eval(v, model_completion=True))
        x = self._lookup(v)
        return bool(x)

    def eval(self, e, model_completion=True):
        if self.zm is not None:
            return self.zm.eval(e, model_completion=model_completion)
        raise ValueError('eval not available on a cvc5 model')


def z3_check(constraints, timeout_ms):
    s = z3.Solver()
    s.set('timeout', int(timeout_ms))
    for c in constraints:
        s.add(c)
    r = s.check()
    if r == z3.sat:
        return 'sat', Model(z3model=s.model())
    if r == z3.unsat:
        return 'unsat', None
    return 'unknown', None


_FP_RE = re.compile(r'\(define-fun\s+(\|[^|]*\||\S+)\s+\(\)\s+\(_ FloatingPoint 11 53\)\s+'
                    r'\(fp #b([01]) #b([01]{11}) #b([01]{52})\)\)')
_FP_SPECIAL = re.compile(r'\(define-fun\s+(\|[^|]*\||\S+)\s+\(\)\s+\(_ FloatingPoint 11 53\)\s+'
                         r'\(_ ([-+a-zA-Z]+) 11 53\)\)')
_BV_RE = re.compile(r'\(define-fun\s+(\|[^|]*\||\S+)\s+\(\)\s+\(_ BitVec (\d+)\)\s+#([bx])([0-9a-fA-F]+)\)')
_BOOL_RE = re.compile(r'\(define-fun\s+(\|[^|]*\||\S+)\s+\(\)\s+Bool\s+(true|false)\)')


def _parse_model(txt):
    tab = {}
    for m in _FP_RE.finditer(txt):
        bits = int(m.group(2) + m.group(3) + m.group(4), 2)
        tab[m.group(1).strip('|')] = struct.unpack('<d', struct.pack('<Q', bits))[0]
    for m in _FP_SPECIAL.finditer(txt):
        k = m.group(2)
        tab[m.group(1).strip('|')] = {'NaN': float('nan'), '+oo': float('inf'), '-oo': float('-inf'),
                                      '+zero': 0.0, '-zero': -0.0}.get(k, float('nan'))
    for m in _BV_RE.finditer(txt):
        tab[m.group(1).strip('|')] = int(m.group(4), 2 if m.group(3) == 'b' else 16)
    for m in _BOOL_RE.finditer(txt):
        tab[m.group(1).strip('|')] = (m.group(2) == 'true')
    return tab


def cvc5_check(constraints, timeout_ms, extra_opts=()):
    s = z3.Solver()
    for c in constraints:
        s.add(c)
    txt = s.to_smt2()
    txt = '(set-logic ALL)\n(set-option :produce-models true)\n' + txt + '\n(get-model)\n'
    with tempfile.NamedTemporaryFile('w', suffix='.smt2', delete=False) as f:
        f.write(txt)
        path = f.name
    try:
        try:
            r = subprocess.run(['cvc5', '--lang=smt2', '--tlimit=%d' % int(timeout_ms)] + list(extra_opts) + [path],
                               capture_output=True, text=True, timeout=timeout_ms / 1000.0 + 10)
        except subprocess.TimeoutExpired:
            return 'unknown', None
        out = r.stdout
        if '(error' in out or '(error' in r.stderr:
            return 'unknown', None
        first = out.strip().split('\n')[0].strip() if out.strip() else ''
        if first == 'unsat':
            return 'unsat', None
        if first == 'sat':
            return 'sat', Model(table=_parse_model(out))
        return 'unknown', None
    finally:
        os.unlink(path)


def check(constraints, timeout_ms=30000, engine='z3'):
    t0 = time.time()
    if engine == 'cvc5':
        r = cvc5_check(constraints, timeout_ms)
        if r[0] == 'unknown':
            r = z3_check(constraints, timeout_ms)
    elif engine == 'fp':
        # FP queries: cvc5 first (faster on multiplications), z3 as fall-back
        r = cvc5_check(constraints, timeout_ms)
        if r[0] == 'unknown':
            r = z3_check(constraints, timeout_ms)
    else:
        r = z3_check(constraints, timeout_ms)
    return r[0], r[1], time.time() - t0
