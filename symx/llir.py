"""Parser for the textual LLVM-14 IR that clang++-14 emits for GM2Calc.

Only what the executor needs: named types + data layout, globals with
initialisers, function signatures and (lazily parsed) bodies.
"""
import re
import struct

# ----------------------------------------------------------------------------
# types


class Ty:
    pass


class IntT(Ty):
    def __init__(self, bits):
        self.bits = bits

    def __repr__(self):
        return 'i%d' % self.bits


class FloatT(Ty):
    def __init__(self, kind):
        self.kind = kind  # 'double' | 'float' | 'x86_fp80' | 'half'

    def __repr__(self):
        return self.kind


class PtrT(Ty):
    def __init__(self, to):
        self.to = to

    def __repr__(self):
        return '%r*' % (self.to,)


class ArrT(Ty):
    def __init__(self, n, el):
        self.n = n
        self.el = el

    def __repr__(self):
        return '[%d x %r]' % (self.n, self.el)


class VecT(Ty):
    def __init__(self, n, el):
        self.n = n
        self.el = el

    def __repr__(self):
        return '<%d x %r>' % (self.n, self.el)


class StructT(Ty):
    def __init__(self, els, packed=False):
        self.els = els
        self.packed = packed

    def __repr__(self):
        return '{%s}' % ', '.join(map(repr, self.els))


class NamedT(Ty):
    def __init__(self, name):
        self.name = name

    def __repr__(self):
        return '%' + self.name


class FuncT(Ty):
    def __init__(self, ret, params, vararg):
        self.ret = ret
        self.params = params
        self.vararg = vararg

    def __repr__(self):
        return '%r (%s)' % (self.ret, ', '.join(map(repr, self.params)))


class VoidT(Ty):
    def __repr__(self):
        return 'void'


class OtherT(Ty):
    def __init__(self, k):
        self.k = k

    def __repr__(self):
        return self.k


VOID = VoidT()
I1 = IntT(1)
I8 = IntT(8)
I32 = IntT(32)
I64 = IntT(64)
DOUBLE = FloatT('double')

# ----------------------------------------------------------------------------
# tokenizer

_TOK = re.compile(r'''
    (?P<ws>[ \t\r\n]+|;[^\n]*)
  | (?P<cstr>c"(?:[^"\\]|\\[0-9A-Fa-f]{2}|\\\\)*")
  | (?P<str>"(?:[^"\\]|\\.)*")
  | (?P<local>%(?:"(?:[^"\\]|\\.)*"|[-a-zA-Z$._0-9]+))
  | (?P<glob>@(?:"(?:[^"\\]|\\.)*"|[-a-zA-Z$._0-9]+))
  | (?P<comdat>\$(?:"(?:[^"\\]|\\.)*"|[-a-zA-Z$._0-9]+))
  | (?P<meta>![-a-zA-Z$._0-9]*)
  | (?P<attr>\#[0-9]+)
  | (?P<hexfp>0x[KLMHR]?[0-9A-Fa-f]+)
  | (?P<num>[-+]?[0-9]+(?:\.[0-9]*(?:[eE][-+]?[0-9]+)?)?)
  | (?P<dots>\.\.\.)
  | (?P<punct>[()\[\]{}<>,=*:|])
  | (?P<word>[a-zA-Z_][a-zA-Z_0-9.]*)
''', re.X)


def tokenize(text):
    out = []
    pos = 0
    n = len(text)
    m_ = _TOK.match
    while pos < n:
        m = m_(text, pos)
        if not m:
            raise SyntaxError('cannot tokenize at %r' % text[pos:pos + 60])
        k = m.lastgroup
        if k != 'ws':
            out.append((k, m.group()))
        pos = m.end()
    out.append(('eof', ''))
    return out


def unquote(name):
    # %"a b" -> a b ; handles \xx escapes
    if name.startswith('"'):
        s = name[1:-1]
        return re.sub(r'\\([0-9A-Fa-f]{2})', lambda m: chr(int(m.group(1), 16)), s)
    return name


def cstr_bytes(tok):
    s = tok[2:-1]
    out = bytearray()
    i = 0
    while i < len(s):
        c = s[i]
        if c == '\\':
            if s[i + 1] == '\\':
                out.append(92)
                i += 2
            else:
                out.append(int(s[i + 1:i + 3], 16))
                i += 3
        else:
            out.append(ord(c))
            i += 1
    return bytes(out)


PARAM_ATTRS = {
    'noundef', 'nonnull', 'nocapture', 'readonly', 'readnone', 'writeonly', 'noalias',
    'signext', 'zeroext', 'inreg', 'returned', 'nest', 'immarg', 'nofree', 'swiftself',
    'swifterror', 'noalias', 'inalloca', 'nonull', 'captures', 'allocalign', 'allocptr',
}
PARAM_ATTRS_TY = {'byval', 'sret', 'byref', 'preallocated', 'elementtype', 'inalloca'}
PARAM_ATTRS_INT = {'dereferenceable', 'dereferenceable_or_null'}
FMF = {'fast', 'nnan', 'ninf', 'nsz', 'arcp', 'contract', 'afn', 'reassoc'}
CCONV = {'fastcc', 'ccc', 'coldcc', 'tailcc', 'swiftcc', 'x86_thiscallcc'}
LINKAGE = {'private', 'internal', 'available_externally', 'linkonce', 'weak', 'common',
           'appending', 'extern_weak', 'linkonce_odr', 'weak_odr', 'external',
           'dso_local', 'dso_preemptable', 'hidden', 'protected', 'default',
           'unnamed_addr', 'local_unnamed_addr', 'thread_local', 'externally_initialized'}
BINOPS = {'add', 'sub', 'mul', 'udiv', 'sdiv', 'urem', 'srem', 'shl', 'lshr', 'ashr',
          'and', 'or', 'xor', 'fadd', 'fsub', 'fmul', 'fdiv', 'frem'}
CASTS = {'trunc', 'zext', 'sext', 'fptrunc', 'fpext', 'fptoui', 'fptosi', 'uitofp',
         'sitofp', 'ptrtoint', 'inttoptr', 'bitcast', 'addrspacecast'}


class Parser:
    def __init__(self, toks, module):
        self.t = toks
        self.i = 0
        self.m = module

    # -- helpers
    def peek(self, k=0):
        return self.t[self.i + k]

    def next(self):
        x = self.t[self.i]
        self.i += 1
        return x

    def accept(self, val):
        if self.t[self.i][1] == val:
            self.i += 1
            return True
        return False

    def expect(self, val):
        x = self.next()
        if x[1] != val:
            raise SyntaxError('expected %r got %r near %r' % (
                val, x, ' '.join(t[1] for t in self.t[max(0, self.i - 12):self.i + 6])))
        return x

    # -- types
    def parse_type(self):
        k, v = self.next()
        if k == 'word':
            if v[0] == 'i' and v[1:].isdigit():
                ty = IntT(int(v[1:]))
            elif v in ('double', 'float', 'x86_fp80', 'half', 'fp128'):
                ty = FloatT(v)
            elif v == 'void':
                ty = VOID
            elif v in ('label', 'metadata', 'token', 'opaque', 'x86_mmx'):
                ty = OtherT(v)
            elif v == 'ptr':
                ty = PtrT(I8)
            else:
                raise SyntaxError('type? %r' % v)
        elif k == 'local':
            ty = NamedT(unquote(v[1:]))
        elif v == '[':
            n = int(self.next()[1])
            self.expect('x')
            el = self.parse_type()
            self.expect(']')
            ty = ArrT(n, el)
        elif v == '<':
            if self.peek()[1] == '{':
                self.next()
                els = self._type_list('}')
                self.expect('>')
                ty = StructT(els, True)
            else:
                n = int(self.next()[1])
                self.expect('x')
                el = self.parse_type()
                self.expect('>')
                ty = VecT(n, el)
        elif v == '{':
            els = self._type_list('}')
            ty = StructT(els, False)
        else:
            raise SyntaxError('type? %r %r' % (k, v))
        # suffixes
        while True:
            k, v = self.peek()
            if v == '*':
                self.next()
                ty = PtrT(ty)
            elif v == 'addrspace':
                self.next()
                self.expect('(')
                self.next()
                self.expect(')')
            elif v == '(':
                # function type
                self.next()
                params = []
                vararg = False
                while not self.accept(')'):
                    if self.accept('...'):
                        vararg = True
                    else:
                        params.append(self.parse_type())
                        self.skip_param_attrs()
                    self.accept(',')
                ty = FuncT(ty, params, vararg)
            else:
                break
        return ty

    def _type_list(self, close):
        els = []
        while not self.accept(close):
            els.append(self.parse_type())
            self.accept(',')
        return els

    def skip_param_attrs(self):
        attrs = {}
        while True:
            k, v = self.peek()
            if k != 'word':
                break
            if v in PARAM_ATTRS_TY:
                self.next()
                if self.accept('('):
                    attrs[v] = self.parse_type()
                    self.expect(')')
                else:
                    attrs[v] = True
            elif v in PARAM_ATTRS_INT:
                self.next()
                self.expect('(')
                attrs[v] = int(self.next()[1])
                self.expect(')')
            elif v == 'align':
                self.next()
                if self.accept('('):
                    attrs[v] = int(self.next()[1])
                    self.expect(')')
                else:
                    attrs[v] = int(self.next()[1])
            elif v in PARAM_ATTRS:
                self.next()
                attrs[v] = True
            else:
                break
        return attrs

    # -- values (constants and operands)
    def parse_value(self, ty):
        """returns operand tuple"""
        k, v = self.next()
        if k == 'local':
            return ('local', unquote(v[1:]))
        if k == 'glob':
            return ('global', unquote(v[1:]))
        if k == 'num':
            if isinstance(ty, FloatT):
                return ('fp', float(v))
            return ('int', int(v))
        if k == 'hexfp':
            return ('fp', parse_hexfp(v, ty))
        if k == 'cstr':
            return ('cstr', cstr_bytes(v))
        if k == 'word':
            if v == 'true':
                return ('int', 1)
            if v == 'false':
                return ('int', 0)
            if v == 'null':
                return ('null',)
            if v in ('undef', 'poison'):
                return ('undef',)
            if v == 'zeroinitializer':
                return ('zero',)
            if v == 'none':
                return ('none',)
            if v == 'getelementptr':
                inb = False
                while self.peek()[1] in ('inbounds', 'inrange'):
                    self.next()
                    inb = True
                self.expect('(')
                sty = self.parse_type()
                self.expect(',')
                pty = self.parse_type()
                base = self.parse_value(pty)
                idx = []
                while self.accept(','):
                    self.accept('inrange')
                    ity = self.parse_type()
                    idx.append((ity, self.parse_value(ity)))
                self.expect(')')
                return ('cgep', sty, pty, base, idx)
            if v in CASTS:
                self.expect('(')
                fty = self.parse_type()
                val = self.parse_value(fty)
                self.expect('to')
                tty = self.parse_type()
                self.expect(')')
                return ('ccast', v, fty, val, tty)
            if v in BINOPS:
                while self.peek()[1] in ('nuw', 'nsw', 'exact'):
                    self.next()
                self.expect('(')
                aty = self.parse_type()
                a = self.parse_value(aty)
                self.expect(',')
                bty = self.parse_type()
                b = self.parse_value(bty)
                self.expect(')')
                return ('cbin', v, aty, a, b)
            if v in ('icmp', 'fcmp'):
                pred = self.next()[1]
                self.expect('(')
                aty = self.parse_type()
                a = self.parse_value(aty)
                self.expect(',')
                bty = self.parse_type()
                b = self.parse_value(bty)
                self.expect(')')
                return ('ccmp', v, pred, aty, a, b)
            if v == 'select':
                self.expect('(')
                cty = self.parse_type()
                c = self.parse_value(cty)
                self.expect(',')
                aty = self.parse_type()
                a = self.parse_value(aty)
                self.expect(',')
                bty = self.parse_type()
                b = self.parse_value(bty)
                self.expect(')')
                return ('cselect', c, aty, a, b)
            if v == 'blockaddress':
                self.expect('(')
                self.next(); self.expect(','); self.next(); self.expect(')')
                return ('undef',)
            if v == 'dso_local_equivalent' or v == 'no_cfi':
                return self.parse_value(ty)
            raise SyntaxError('value? %r' % v)
        if v == '{':
            els = []
            while not self.accept('}'):
                ety = self.parse_type()
                els.append((ety, self.parse_value(ety)))
                self.accept(',')
            return ('agg', els)
        if v == '[':
            els = []
            while not self.accept(']'):
                ety = self.parse_type()
                els.append((ety, self.parse_value(ety)))
                self.accept(',')
            return ('agg', els)
        if v == '<':
            if self.peek()[1] == '{':
                self.next()
                els = []
                while not self.accept('}'):
                    ety = self.parse_type()
                    els.append((ety, self.parse_value(ety)))
                    self.accept(',')
                self.expect('>')
                return ('agg', els)
            els = []
            while not self.accept('>'):
                ety = self.parse_type()
                els.append((ety, self.parse_value(ety)))
                self.accept(',')
            return ('agg', els)
        if k == 'meta':
            # metadata operand (e.g. !"round.dynamic") - skip
            if self.peek()[0] == 'str':
                self.next()
            elif self.peek()[1] == '{':
                depth = 0
                while True:
                    x = self.next()[1]
                    if x == '{':
                        depth += 1
                    elif x == '}':
                        depth -= 1
                        if depth == 0:
                            break
            return ('meta',)
        raise SyntaxError('value? %r %r' % (k, v))

    def typed_value(self):
        ty = self.parse_type()
        return ty, self.parse_value(ty)

    def skip_metadata_suffix(self):
        # ", !tbaa !5, !range !7" ; also ", align 8"
        while self.peek()[1] == ',' and self.peek(1)[0] == 'meta':
            self.next()
            self.next()
            k, v = self.peek()
            if k == 'meta':
                self.next()
                if self.peek()[1] == '{':   # !{...}
                    depth = 0
                    while True:
                        x = self.next()[1]
                        if x == '{':
                            depth += 1
                        elif x == '}':
                            depth -= 1
                            if depth == 0:
                                break

    # -- call-like
    def parse_call_tail(self):
        """after 'call'/'invoke' keyword and fmf: returns (retty, callee, args, fnattrs)"""
        while self.peek()[1] in CCONV or self.peek()[1] in FMF:
            self.next()
        if self.peek()[1] == 'cc':
            self.next(); self.next()
        self.skip_param_attrs()  # return attrs
        ty = self.parse_type()
        retty = ty
        if isinstance(ty, FuncT):
            retty = ty.ret
        elif isinstance(ty, PtrT) and isinstance(ty.to, FuncT):
            retty = ty.to.ret
        callee = self.parse_value(PtrT(I8))
        self.expect('(')
        args = []
        while not self.accept(')'):
            if self.accept('...'):
                self.accept(',')
                continue
            aty = self.parse_type()
            attrs = self.skip_param_attrs()
            val = self.parse_value(aty)
            args.append((aty, val, attrs))
            self.accept(',')
        # function attrs
        while True:
            k, v = self.peek()
            if k == 'attr':
                self.next()
            elif k == 'word' and v in ('nounwind', 'readnone', 'readonly', 'noreturn', 'nobuiltin',
                                       'builtin', 'cold', 'willreturn', 'nomerge', 'nocallback',
                                       'mustprogress', 'nofree', 'nosync', 'writeonly',
                                       'argmemonly', 'inaccessiblememonly', 'speculatable',
                                       'returns_twice', 'minsize', 'optsize', 'alwaysinline',
                                       'noinline', 'convergent', 'allocsize'):
                self.next()
                if v == 'allocsize' and self.accept('('):
                    while not self.accept(')'):
                        self.next()
            else:
                break
        if self.peek()[1] == '[':  # operand bundles
            depth = 0
            while True:
                x = self.next()[1]
                if x == '[':
                    depth += 1
                elif x == ']':
                    depth -= 1
                    if depth == 0:
                        break
        return retty, callee, args

    # -- instructions
    def parse_instr(self):
        res = None
        k, v = self.peek()
        if k == 'local' and self.peek(1)[1] == '=':
            res = unquote(v[1:])
            self.next()
            self.next()
        k, op = self.next()
        I = {'op': op, 'res': res}
        if op in ('tail', 'musttail', 'notail'):
            k, op = self.next()
            I['op'] = op
        if op == 'call':
            retty, callee, args = self.parse_call_tail()
            I.update(ty=retty, callee=callee, args=args)
        elif op == 'invoke':
            retty, callee, args = self.parse_call_tail()
            self.expect('to'); self.expect('label')
            normal = unquote(self.next()[1][1:])
            self.expect('unwind'); self.expect('label')
            unwind = unquote(self.next()[1][1:])
            I.update(ty=retty, callee=callee, args=args, normal=normal, unwind=unwind)
        elif op == 'ret':
            ty = self.parse_type()
            I['ty'] = ty
            I['val'] = None if isinstance(ty, VoidT) else self.parse_value(ty)
        elif op == 'br':
            if self.accept('label'):
                I['dest'] = unquote(self.next()[1][1:])
            else:
                ty = self.parse_type()
                I['cond'] = self.parse_value(ty)
                self.expect(','); self.expect('label')
                I['t'] = unquote(self.next()[1][1:])
                self.expect(','); self.expect('label')
                I['f'] = unquote(self.next()[1][1:])
        elif op == 'switch':
            ty = self.parse_type()
            I['ty'] = ty
            I['val'] = self.parse_value(ty)
            self.expect(','); self.expect('label')
            I['default'] = unquote(self.next()[1][1:])
            self.expect('[')
            cases = []
            while not self.accept(']'):
                cty = self.parse_type()
                cv = self.parse_value(cty)
                self.expect(','); self.expect('label')
                cases.append((cv[1], unquote(self.next()[1][1:])))
            I['cases'] = cases
        elif op == 'unreachable':
            pass
        elif op == 'resume':
            ty = self.parse_type()
            I['ty'] = ty
            I['val'] = self.parse_value(ty)
        elif op in BINOPS:
            while self.peek()[1] in ('nuw', 'nsw', 'exact') or self.peek()[1] in FMF:
                I.setdefault('flags', []).append(self.next()[1])
            ty = self.parse_type()
            I['ty'] = ty
            I['a'] = self.parse_value(ty)
            self.expect(',')
            I['b'] = self.parse_value(ty)
        elif op == 'fneg':
            while self.peek()[1] in FMF:
                self.next()
            ty = self.parse_type()
            I['ty'] = ty
            I['a'] = self.parse_value(ty)
        elif op in ('icmp', 'fcmp'):
            while self.peek()[1] in FMF:
                self.next()
            I['pred'] = self.next()[1]
            ty = self.parse_type()
            I['ty'] = ty
            I['a'] = self.parse_value(ty)
            self.expect(',')
            I['b'] = self.parse_value(ty)
        elif op in CASTS:
            ty = self.parse_type()
            I['fty'] = ty
            I['a'] = self.parse_value(ty)
            self.expect('to')
            I['ty'] = self.parse_type()
        elif op == 'select':
            while self.peek()[1] in FMF:
                self.next()
            cty = self.parse_type()
            I['cond'] = self.parse_value(cty)
            self.expect(',')
            ty = self.parse_type()
            I['ty'] = ty
            I['a'] = self.parse_value(ty)
            self.expect(',')
            ty2 = self.parse_type()
            I['b'] = self.parse_value(ty2)
        elif op == 'phi':
            while self.peek()[1] in FMF:
                self.next()
            ty = self.parse_type()
            I['ty'] = ty
            inc = []
            while True:
                self.expect('[')
                val = self.parse_value(ty)
                self.expect(',')
                lab = unquote(self.next()[1][1:])
                self.expect(']')
                inc.append((val, lab))
                if not (self.peek()[1] == ',' and self.peek(1)[1] == '['):
                    break
                self.next()
            I['inc'] = inc
        elif op == 'alloca':
            self.accept('inalloca')
            ty = self.parse_type()
            I['aty'] = ty
            I['n'] = None
            I['align'] = 1
            while self.peek()[1] == ',' and self.peek(1)[0] != 'meta':
                self.next()
                if self.accept('align'):
                    I['align'] = int(self.next()[1])
                elif self.accept('addrspace'):
                    self.expect('('); self.next(); self.expect(')')
                else:
                    nty = self.parse_type()
                    I['n'] = self.parse_value(nty)
        elif op == 'load':
            self.accept('atomic')
            self.accept('volatile')
            ty = self.parse_type()
            I['ty'] = ty
            self.expect(',')
            pty = self.parse_type()
            I['ptr'] = self.parse_value(pty)
            self._skip_mem_suffix()
        elif op == 'store':
            self.accept('atomic')
            self.accept('volatile')
            ty = self.parse_type()
            I['ty'] = ty
            I['val'] = self.parse_value(ty)
            self.expect(',')
            pty = self.parse_type()
            I['ptr'] = self.parse_value(pty)
            self._skip_mem_suffix()
        elif op == 'getelementptr':
            self.accept('inbounds')
            sty = self.parse_type()
            I['sty'] = sty
            self.expect(',')
            pty = self.parse_type()
            I['ptr'] = self.parse_value(pty)
            idx = []
            while self.peek()[1] == ',' and self.peek(1)[0] != 'meta':
                self.next()
                ity = self.parse_type()
                idx.append((ity, self.parse_value(ity)))
            I['idx'] = idx
        elif op == 'extractvalue':
            ty = self.parse_type()
            I['aggty'] = ty
            I['a'] = self.parse_value(ty)
            idx = []
            while self.peek()[1] == ',' and self.peek(1)[0] == 'num':
                self.next()
                idx.append(int(self.next()[1]))
            I['idx'] = idx
        elif op == 'insertvalue':
            ty = self.parse_type()
            I['aggty'] = ty
            I['a'] = self.parse_value(ty)
            self.expect(',')
            ety = self.parse_type()
            I['ety'] = ety
            I['b'] = self.parse_value(ety)
            idx = []
            while self.peek()[1] == ',' and self.peek(1)[0] == 'num':
                self.next()
                idx.append(int(self.next()[1]))
            I['idx'] = idx
        elif op == 'landingpad':
            I['ty'] = self.parse_type()
            I['cleanup'] = False
            clauses = []
            while True:
                if self.accept('cleanup'):
                    I['cleanup'] = True
                elif self.accept('catch'):
                    cty = self.parse_type()
                    clauses.append(('catch', self.parse_value(cty)))
                elif self.accept('filter'):
                    cty = self.parse_type()
                    clauses.append(('filter', self.parse_value(cty)))
                else:
                    break
            I['clauses'] = clauses
        elif op == 'freeze':
            ty = self.parse_type()
            I['ty'] = ty
            I['a'] = self.parse_value(ty)
        elif op == 'atomicrmw':
            self.accept('volatile')
            I['rmw'] = self.next()[1]
            pty = self.parse_type()
            I['ptr'] = self.parse_value(pty)
            self.expect(',')
            ty = self.parse_type()
            I['ty'] = ty
            I['val'] = self.parse_value(ty)
            self._skip_mem_suffix()
        elif op == 'cmpxchg':
            self.accept('weak'); self.accept('volatile')
            pty = self.parse_type()
            I['ptr'] = self.parse_value(pty)
            self.expect(',')
            ty = self.parse_type(); I['ty'] = ty
            I['cmp'] = self.parse_value(ty)
            self.expect(',')
            ty = self.parse_type()
            I['new'] = self.parse_value(ty)
            self._skip_mem_suffix()
        elif op == 'fence':
            self._skip_mem_suffix()
        elif op in ('extractelement', 'insertelement', 'shufflevector', 'va_arg'):
            # parse loosely to end of instruction: operands typed values separated by commas
            ops = []
            while True:
                ty = self.parse_type()
                if op == 'va_arg' and ops:
                    ops.append((ty, None))
                    break
                ops.append((ty, self.parse_value(ty)))
                if not (self.peek()[1] == ',' and self.peek(1)[0] != 'meta'):
                    break
                self.next()
            I['ops'] = ops
        else:
            raise SyntaxError('unknown instruction %r' % op)
        self.skip_metadata_suffix()
        return I

    def _skip_mem_suffix(self):
        while True:
            k, v = self.peek()
            if v == ',' and self.peek(1)[0] != 'meta':
                if self.peek(1)[1] == 'align':
                    self.next(); self.next(); self.next()
                    continue
                break
            if k == 'word' and v in ('seq_cst', 'acquire', 'release', 'acq_rel', 'monotonic',
                                     'unordered'):
                self.next()
                continue
            if k == 'word' and v == 'syncscope':
                self.next(); self.expect('('); self.next(); self.expect(')')
                continue
            break


def parse_hexfp(tok, ty):
    if tok.startswith('0xK'):
        # x86_fp80: 20 hex digits
        h = int(tok[3:], 16)
        sign = (h >> 79) & 1
        exp = (h >> 64) & 0x7fff
        mant = h & ((1 << 64) - 1)
        if exp == 0 and mant == 0:
            return -0.0 if sign else 0.0
        val = mant / float(1 << 63) * 2.0 ** (exp - 16383)
        return -val if sign else val
    if tok[2] in 'LMHR':
        raise SyntaxError('unsupported fp literal ' + tok)
    bits = int(tok[2:], 16)
    return struct.unpack('<d', struct.pack('<Q', bits))[0]


# ----------------------------------------------------------------------------
# module


class Function:
    def __init__(self, name, retty, params, attrs_text, body_text, module, vararg=False):
        self.name = name
        self.retty = retty
        self.params = params  # list of (type, name, attrs)
        self.attrs_text = attrs_text
        self.body_text = body_text
        self.module = module
        self.vararg = vararg
        self._blocks = None
        self.order = None

    @property
    def blocks(self):
        if self._blocks is None:
            self._parse_body()
        return self._blocks

    def _parse_body(self):
        toks = tokenize(self.body_text)
        p = Parser(toks, self.module)
        blocks = {}
        order = []
        # entry block label: first unnamed value number = number of params (if unnamed)
        cur = None
        cur_list = None
        # entry label
        # find number for entry: count of unnamed params
        nparam_unnamed = sum(1 for (_, n, _) in self.params if n is not None and n.isdigit())
        entry = str(len([1 for (_, n, _) in self.params if n is not None and n.isdigit()]))
        # if any param unnamed numbering continues; entry label is next number
        first = True
        while p.peek()[0] != 'eof':
            k, v = p.peek()
            # label?
            if (k in ('word', 'num', 'str') and p.peek(1)[1] == ':'):
                lab = v
                if k == 'str':
                    lab = unquote(v)
                p.next(); p.next()
                cur = lab
                cur_list = []
                blocks[cur] = cur_list
                order.append(cur)
                first = False
                continue
            if first:
                cur = entry
                cur_list = []
                blocks[cur] = cur_list
                order.append(cur)
                first = False
            cur_list.append(p.parse_instr())
        self._blocks = blocks
        self.order = order
        self.entry = order[0]


class Global:
    def __init__(self, name, ty, init, const, external):
        self.name = name
        self.ty = ty
        self.init = init
        self.const = const
        self.external = external


class Module:
    def __init__(self, text):
        self.types = {}
        self.globals = {}
        self.functions = {}
        self.declares = {}
        self.aliases = {}
        self.attr_groups = {}
        self._size_cache = {}
        self._parse(text)

    # ---- top-level parse
    def _parse(self, text):
        lines = text.split('\n')
        i = 0
        n = len(lines)
        while i < n:
            ln = lines[i]
            if ln.startswith('attributes #'):
                m = re.match(r'attributes #(\d+) = \{(.*)\}', ln)
                if m:
                    self.attr_groups[int(m.group(1))] = m.group(2)
                i += 1
                continue
            if not ln or ln[0] == ';' or ln.startswith('source_filename') or ln.startswith('target ') \
                    or ln[0] == '!' or ln[0] == '$':
                i += 1
                continue
            if ln[0] == '%':
                self._parse_typedef(ln)
                i += 1
            elif ln[0] == '@':
                self._parse_global(ln)
                i += 1
            elif ln.startswith('declare'):
                self._parse_decl(ln)
                i += 1
            elif ln.startswith('define'):
                j = i + 1
                while lines[j] != '}':
                    j += 1
                self._parse_define(ln, '\n'.join(lines[i + 1:j]))
                i = j + 1
            else:
                i += 1

    def _parse_typedef(self, ln):
        m = re.match(r'(%(?:"(?:[^"\\]|\\.)*"|[-a-zA-Z$._0-9]+)) = type (.*)$', ln)
        name = unquote(m.group(1)[1:])
        body = m.group(2)
        if body == 'opaque':
            self.types[name] = OtherT('opaque')
        else:
            p = Parser(tokenize(body), self)
            self.types[name] = p.parse_type()

    def _parse_global(self, ln):
        toks = tokenize(ln)
        p = Parser(toks, self)
        name = unquote(p.next()[1][1:])
        p.expect('=')
        external = False
        const = False
        while True:
            k, v = p.peek()
            if v in LINKAGE:
                if v in ('external', 'extern_weak'):
                    external = True
                if v == 'thread_local' and p.peek(1)[1] == '(':
                    p.next(); p.next(); p.next(); p.next()
                    continue
                p.next()
            elif v == 'addrspace':
                p.next(); p.expect('('); p.next(); p.expect(')')
            elif v == 'global':
                p.next()
                break
            elif v == 'constant':
                const = True
                p.next()
                break
            elif v in ('alias', 'ifunc'):
                p.next()
                ty = p.parse_type()
                p.expect(',')
                ty2 = p.parse_type()
                self.aliases[name] = p.parse_value(ty2)
                return
            else:
                raise SyntaxError('global? ' + ln[:100])
        ty = p.parse_type()
        init = None
        if not external and p.peek()[0] != 'eof' and p.peek()[1] != ',':
            init = p.parse_value(ty)
        self.globals[name] = Global(name, ty, init, const, external)

    def _parse_sig(self, p):
        while True:
            k, v = p.peek()
            if v in LINKAGE or v in CCONV:
                p.next()
            else:
                break
        p.skip_param_attrs()
        retty = p.parse_type()
        name = unquote(p.next()[1][1:])
        p.expect('(')
        params = []
        vararg = False
        while not p.accept(')'):
            if p.accept('...'):
                vararg = True
                continue
            ty = p.parse_type()
            attrs = p.skip_param_attrs()
            pname = None
            if p.peek()[0] == 'local':
                pname = unquote(p.next()[1][1:])
            params.append((ty, pname, attrs))
            p.accept(',')
        return retty, name, params, vararg

    def _parse_decl(self, ln):
        p = Parser(tokenize(ln[len('declare'):]), self)
        retty, name, params, vararg = self._parse_sig(p)
        self.declares[name] = (retty, params, vararg, ln)

    def _parse_define(self, ln, body):
        head = ln[len('define'):].rstrip()
        assert head.endswith('{')
        head = head[:-1]
        p = Parser(tokenize(head), self)
        retty, name, params, vararg = self._parse_sig(p)
        # name unnamed params %0,%1..
        cnt = 0
        ps = []
        for (ty, pn, at) in params:
            if pn is None:
                pn = str(cnt)
            if pn.isdigit():
                cnt = int(pn) + 1
            ps.append((ty, pn, at))
        rest = ' '.join(t[1] for t in p.t[p.i:])
        self.functions[name] = Function(name, retty, ps, rest, body, self, vararg)

    # ---- layout
    def resolve(self, ty):
        while isinstance(ty, NamedT):
            ty = self.types[ty.name]
        return ty

    def sizeof(self, ty):
        return self.layout(ty)[0]

    def alignof(self, ty):
        return self.layout(ty)[1]

    def layout(self, ty):
        key = id(ty) if not isinstance(ty, NamedT) else ty.name
        if isinstance(ty, NamedT):
            c = self._size_cache.get(key)
            if c:
                return c
        r = self._layout(ty)
        if isinstance(ty, NamedT):
            self._size_cache[key] = r
        return r

    def _layout(self, ty):
        ty = self.resolve(ty)
        if isinstance(ty, IntT):
            b = ty.bits
            if b <= 8:
                return (1, 1)
            if b <= 16:
                return (2, 2)
            if b <= 32:
                return (4, 4)
            if b <= 64:
                return (8, 8)
            return (16, 16)
        if isinstance(ty, FloatT):
            return {'double': (8, 8), 'float': (4, 4), 'x86_fp80': (16, 16), 'half': (2, 2),
                    'fp128': (16, 16)}[ty.kind]
        if isinstance(ty, PtrT):
            return (8, 8)
        if isinstance(ty, ArrT):
            s, a = self.layout(ty.el)
            return (s * ty.n, a)
        if isinstance(ty, VecT):
            s, a = self.layout(ty.el)
            tot = s * ty.n
            al = 1
            while al < tot:
                al *= 2
            return (tot, al)
        if isinstance(ty, StructT):
            off = 0
            al = 1
            for e in ty.els:
                s, a = self.layout(e)
                if ty.packed:
                    a = 1
                off = (off + a - 1) // a * a
                off += s
                al = max(al, a)
            off = (off + al - 1) // al * al
            return (off, al)
        if isinstance(ty, FuncT):
            return (1, 1)
        if isinstance(ty, OtherT):
            return (0, 1)
        raise TypeError('layout of %r' % (ty,))

    def struct_offsets(self, ty):
        ty = self.resolve(ty)
        offs = []
        off = 0
        for e in ty.els:
            s, a = self.layout(e)
            if ty.packed:
                a = 1
            off = (off + a - 1) // a * a
            offs.append(off)
            off += s
        return offs


def fn_attrs(mod, name):
    """attribute text of a defined or declared function (inline attributes + its attribute group)"""
    f = mod.functions.get(name)
    if f is not None:
        txt = f.attrs_text
    else:
        d = mod.declares.get(name)
        if d is None:
            return None
        txt = d[3]
    out = txt
    for g in re.findall(r'#\s*(\d+)', txt):
        out += ' ' + mod.attr_groups.get(int(g), '')
    return out


def load_module(path):
    with open(path) as f:
        return Module(f.read())


if __name__ == '__main__':
    import sys
    m = load_module(sys.argv[1])
    print(len(m.functions), 'functions', len(m.globals), 'globals', len(m.declares), 'declares')
    bad = 0
    for f in m.functions.values():
        try:
            f.blocks
        except Exception as e:
            bad += 1
            print('FAIL', f.name, e)
    print('unparsed bodies:', bad)
