// Harness TU for the complex dilogarithm (C01)
// IRFLAGS: -fno-inline-functions
#include "gm2_dilog.cpp"
extern "C" {
void vx_cdilog(double re, double im, double* out)
{
   const std::complex<double> r = gm2calc::dilog(std::complex<double>(re, im));
   out[0] = std::real(r);
   out[1] = std::imag(r);
}
}
