// Harness TU for MSSMNoFV_onshell (C05, C16): input checks, conversion logic
// IRFLAGS: -fno-inline-functions
#include "MSSMNoFV/MSSMNoFV_onshell.cpp"
#include <typeinfo>
extern "C" {
const std::type_info* const vx_error_types_o[] = {
   &typeid(gm2calc::Error), &typeid(gm2calc::ESetupError), &typeid(gm2calc::EInvalidInput),
   &typeid(gm2calc::EPhysicalProblem), &typeid(gm2calc::EReadError)
};
double vx_soft(const gm2calc::MSSMNoFV_onshell* m, int which, int i)
{
   switch (which) {
   case 0: return m->get_mu2()(i,i);
   case 1: return m->get_md2()(i,i);
   case 2: return m->get_mq2()(i,i);
   case 3: return m->get_me2()(i,i);
   default: return m->get_ml2()(i,i);
   }
}
void vx_check_input(const gm2calc::MSSMNoFV_onshell* m) { m->check_input(); }
void vx_check_problems(const gm2calc::MSSMNoFV_onshell* m) { m->check_problems(); }
double vx_get_TB(const gm2calc::MSSMNoFV_onshell* m) { return m->get_TB(); }
}
