// Harness TU for the CP-even Higgs mixing angle of the MSSM two-loop corrections (C11)
// IRFLAGS: -fno-inline-functions
#include "MSSMNoFV/gm2_2loop.cpp"

extern "C" {
double vx_tan_alpha(const gm2calc::MSSMNoFV_onshell* m) { return gm2calc::tan_alpha(*m); }
// native-only: tan_alpha of a model with the given tan(beta), MA0, MZ
double vx_native_tan_alpha(double tb, double ma, double mz)
{
   gm2calc::MSSMNoFV_onshell m;
   m.get_physical().MVZ = mz;
   m.set_MA0(ma);
   m.set_vd(100.0);
   m.set_vu(100.0 * tb);
   return gm2calc::tan_alpha(m);
}
}
