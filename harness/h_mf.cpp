// Harness TU for the running masses (C20)
// IRFLAGS: -fno-inline-functions
#include "gm2_mf.cpp"
#include "gm2_numerics.cpp"

extern "C" {
double vx_lambda_qcd(double alpha, double scale) { return gm2calc::calculate_lambda_qcd(alpha, scale); }
double vx_alpha_s_SM5_at(double scale, double lambda) { return gm2calc::calculate_alpha_s_SM5_at(scale, lambda); }
}
