// Harness TU for the MSSM tree-level spectrum (C04, C06)
#include <sstream>
#include <iostream>
#include <complex>
#include <Eigen/Core>
#define private public
#define protected public
#include "MSSMNoFV/MSSMNoFV_onshell_mass_eigenstates.cpp"
#undef private
#undef protected

extern "C" {
typedef gm2calc::MSSMNoFV_onshell_mass_eigenstates M;
double vx_par(const M* m, int k)
{
   switch (k) {
   case 0: return m->get_g1();
   case 1: return m->get_g2();
   case 2: return m->get_vd();
   case 3: return m->get_vu();
   case 4: return m->get_Mu();
   case 5: return m->get_BMu();
   case 6: return m->get_MassB();
   case 7: return m->get_MassWB();
   case 8: return m->get_mHd2();
   case 9: return m->get_mHu2();
   case 10: return m->get_g3();
   default: return m->get_MassG();
   }
}
double vx_diag(const M* m, int which, int i)
{
   switch (which) {
   case 0: return m->get_mq2(i,i);
   case 1: return m->get_ml2(i,i);
   case 2: return m->get_md2(i,i);
   case 3: return m->get_mu2(i,i);
   case 4: return m->get_me2(i,i);
   case 5: return m->get_Yd(i,i);
   case 6: return m->get_Yu(i,i);
   case 7: return m->get_Ye(i,i);
   case 8: return m->get_TYd(i,i);
   case 9: return m->get_TYu(i,i);
   default: return m->get_TYe(i,i);
   }
}
#define MM2(X) double vx_mm_##X(const M* m, int i, int j) { return m->get_mass_matrix_##X()(i,j); }
MM2(Sd) MM2(Su) MM2(Se) MM2(Sm) MM2(Stau) MM2(Ss) MM2(Sc) MM2(Sb) MM2(St) MM2(hh) MM2(Ah) MM2(Hpm) MM2(Chi) MM2(Cha)
#define MM1(X) double vx_mm_##X(const M* m) { return m->get_mass_matrix_##X(); }
MM1(VG) MM1(Glu) MM1(VP) MM1(VZ) MM1(Fd) MM1(Fs) MM1(Fb) MM1(Fu) MM1(Fc) MM1(Ft) MM1(Fve) MM1(Fvm) MM1(Fvt) MM1(Fe) MM1(Fm) MM1(Ftau)
MM1(SveL) MM1(SvmL) MM1(SvtL) MM1(VWm)
double vx_ewsb1(const M* m) { return m->get_ewsb_eq_hh_1(); }
double vx_ewsb2(const M* m) { return m->get_ewsb_eq_hh_2(); }
int vx_solve_ewsb(M* m) { return m->solve_ewsb_tree_level(); }
double vx_mHd2(const M* m) { return m->get_mHd2(); }
double vx_mHu2(const M* m) { return m->get_mHu2(); }
// spectrum steps (decomposition routines are replaced by their contract in the check)
void vx_calc(M* m, int k)
{
   switch (k) {
   case 0: m->calculate_MSd(); break;
   case 1: m->calculate_MSu(); break;
   case 2: m->calculate_MSe(); break;
   case 3: m->calculate_MSm(); break;
   case 4: m->calculate_MStau(); break;
   case 5: m->calculate_MSs(); break;
   case 6: m->calculate_MSc(); break;
   case 7: m->calculate_MSb(); break;
   case 8: m->calculate_MSt(); break;
   case 9: m->calculate_Mhh(); break;
   case 10: m->calculate_MAh(); break;
   case 11: m->calculate_MHpm(); break;
   case 12: m->calculate_MSveL(); break;
   case 13: m->calculate_MSvmL(); break;
   default: m->calculate_MSvtL(); break;
   }
}
void vx_reorder(M* m) { m->reorder_DRbar_masses(); }
void vx_calculate_DRbar_masses(M* m) { m->calculate_DRbar_masses(); }
double vx_MAh(const M* m, int i) { return m->get_MAh()(i); }
double vx_ZA(const M* m, int i, int j) { return m->get_ZA()(i,j); }
double vx_MHpm(const M* m, int i) { return m->get_MHpm()(i); }
double vx_ZP(const M* m, int i, int j) { return m->get_ZP()(i,j); }
double vx_MVZ(const M* m) { return m->get_MVZ(); }
double vx_MVWm(const M* m) { return m->get_MVWm(); }
}
