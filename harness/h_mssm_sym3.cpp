// Harness TU for symmetry / dimensional checks of the MSSM contributions (C06, C07)
#include "gm2calc/MSSMNoFV_onshell.hpp"
#include "MSSMNoFV/gm2_uncertainty.cpp"
#include "mssm_acc.inc"
