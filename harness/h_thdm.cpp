// Harness TU for gm2calc::THDM (C08, C09, C16, C20): basis handling, Yukawa parametrisations
// IRFLAGS: -fno-inline-functions
#include "THDM/THDM.cpp"
#include <typeinfo>
extern "C" {
const std::type_info* const vx_error_types_h[] = {
   &typeid(gm2calc::Error), &typeid(gm2calc::ESetupError), &typeid(gm2calc::EInvalidInput),
   &typeid(gm2calc::EPhysicalProblem), &typeid(gm2calc::EReadError)
};
void vx_set_basis_mass(gm2calc::THDM* m, const gm2calc::thdm::Mass_basis* b) { m->set_basis(*b); }
void vx_set_basis_gauge(gm2calc::THDM* m, const gm2calc::thdm::Gauge_basis* b) { m->set_basis(*b); }
int vx_yukawa_type(int i) { return static_cast<int>(gm2calc::thdm::int_to_cpp_yukawa_type(i)); }
double vx_mb(const gm2calc::thdm::Mass_basis* b, int k)
{
   switch (k) {
   case 0: return b->mh;
   case 1: return b->mH;
   case 2: return b->mA;
   case 3: return b->mHp;
   case 4: return b->sin_beta_minus_alpha;
   default: return b->tan_beta;
   }
}
double vx_gb_tb(const gm2calc::thdm::Gauge_basis* b) { return b->tan_beta; }
int vx_force(const gm2calc::THDM* m) { return m->config.force_output ? 1 : 0; }
}
