// Harness TU for the MSSM one-loop contributions and corrections (C03, C06, C07)
#include "MSSMNoFV/gm2_1loop.cpp"

extern "C" {
typedef gm2calc::MSSMNoFV_onshell M;
double vx_ZN_re(const M* m, int i, int j) { return std::real(m->get_ZN()(i,j)); }
double vx_ZN_im(const M* m, int i, int j) { return std::imag(m->get_ZN()(i,j)); }
double vx_UM_re(const M* m, int i, int j) { return std::real(m->get_UM()(i,j)); }
double vx_UM_im(const M* m, int i, int j) { return std::imag(m->get_UM()(i,j)); }
double vx_UP_re(const M* m, int i, int j) { return std::real(m->get_UP()(i,j)); }
double vx_UP_im(const M* m, int i, int j) { return std::imag(m->get_UP()(i,j)); }
double vx_USm(const M* m, int i, int j) { return m->get_USm()(i,j); }
double vx_MSm(const M* m, int i) { return m->get_MSm()(i); }
double vx_MChi(const M* m, int i) { return m->get_MChi()(i); }
double vx_MCha(const M* m, int i) { return m->get_MCha()(i); }
double vx_MSvmL(const M* m) { return m->get_MSvmL(); }
double vx_MM(const M* m) { return m->get_MM(); }
double vx_gY(const M* m) { return m->get_gY(); }
double vx_g2(const M* m) { return m->get_g2(); }
double vx_ymu(const M* m) { return m->get_Ye(1, 1); }
}
