// Harness TU for the THDM glue code that fills the parameter structs from the model (C03, C10)
// IRFLAGS: -fno-inline-functions
#include "THDM/gm2_1loop.cpp"
#include "THDM/gm2_2loop.cpp"
extern "C" {
typedef std::complex<double> C;
static int put(double* o, int k, const Eigen::Matrix<C,3,3>& m)
{
   for (int i = 0; i < 3; i++) for (int j = 0; j < 3; j++) { o[k++] = std::real(m(i,j)); o[k++] = std::imag(m(i,j)); }
   return k;
}
double vx_model(const gm2calc::THDM* m, int k, int i, int j)
{
   switch (k) {
   case 0: return m->get_MFe(i);
   case 1: return m->get_MFu(i);
   case 2: return m->get_MFd(i);
   case 3: return m->get_MFv(i);
   case 4: return m->get_MVWm();
   case 5: return m->get_MVZ();
   case 6: return m->get_MAh(i);
   case 7: return m->get_MHm(i);
   case 8: return m->get_Mhh(i);
   case 9: return m->get_sm().get_mh();
   case 10: return std::real(m->get_sm().get_ckm()(i,j));
   default: return std::imag(m->get_sm().get_ckm()(i,j));
   }
}
double vx_run_1L(const gm2calc::THDM* m) { return gm2calc::calculate_amu_1loop(*m); }
double vx_run_F(const gm2calc::THDM* m) { return gm2calc::calculate_amu_2loop_fermionic(*m); }
double vx_run_B(const gm2calc::THDM* m) { return gm2calc::calculate_amu_2loop_bosonic(*m); }
// order documented in props/glue.py
void vx_dump_1L(const gm2calc::thdm::THDM_1L_parameters* p, double* o)
{
   int k = 0;
   o[k++] = p->alpha_em; o[k++] = p->mm; o[k++] = p->mw; o[k++] = p->mz; o[k++] = p->mhSM; o[k++] = p->mA; o[k++] = p->mHp;
   for (int i = 0; i < 3; i++) o[k++] = p->ml(i);
   for (int i = 0; i < 3; i++) o[k++] = p->mv(i);
   for (int i = 0; i < 2; i++) o[k++] = p->mh(i);
   k = put(o, k, p->ylh); k = put(o, k, p->ylH); k = put(o, k, p->ylA); k = put(o, k, p->ylHp);
}
void vx_dump_F(const gm2calc::thdm::THDM_F_parameters* p, double* o)
{
   int k = 0;
   o[k++] = p->alpha_em; o[k++] = p->mm; o[k++] = p->mw; o[k++] = p->mz; o[k++] = p->mhSM; o[k++] = p->mA; o[k++] = p->mHp;
   for (int i = 0; i < 2; i++) o[k++] = p->mh(i);
   for (int i = 0; i < 3; i++) o[k++] = p->ml(i);
   for (int i = 0; i < 3; i++) o[k++] = p->mu(i);
   for (int i = 0; i < 3; i++) o[k++] = p->md(i);
   k = put(o, k, p->yuh); k = put(o, k, p->yuH); k = put(o, k, p->yuA); k = put(o, k, p->yuHp);
   k = put(o, k, p->ydh); k = put(o, k, p->ydH); k = put(o, k, p->ydA); k = put(o, k, p->ydHp);
   k = put(o, k, p->ylh); k = put(o, k, p->ylH); k = put(o, k, p->ylA); k = put(o, k, p->ylHp);
   k = put(o, k, p->vckm);
}
void vx_dump_B(const gm2calc::thdm::THDM_B_parameters* p, double* o)
{
   int k = 0;
   o[k++] = p->alpha_em; o[k++] = p->mm; o[k++] = p->mw; o[k++] = p->mz; o[k++] = p->mhSM; o[k++] = p->mA; o[k++] = p->mHp;
   for (int i = 0; i < 2; i++) o[k++] = p->mh(i);
   o[k++] = p->tb; o[k++] = p->zetal; o[k++] = p->cos_beta_minus_alpha; o[k++] = p->lambda5; o[k++] = p->lambda67;
}
}
