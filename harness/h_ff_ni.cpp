// same TU as h_ff.cpp, compiled without inlining so that calls between loop functions stay calls
// IRFLAGS: -fno-inline-functions
// Harness TU for the loop and special functions: includes the repo sources so that
// anonymous-namespace helpers are reachable from extern "C" wrappers.
#include "gm2_dilog.cpp"
#include "gm2_ffunctions.cpp"
#include "gm2_numerics.cpp"

extern "C" {
double vx_phi_over_y(double xu, double xd) { return gm2calc::phi_over_y(xu, xd); }
double vx_Ixy(double x, double y) { return gm2calc::Ixy(x, y); }
double vx_Ixx(double x, double y) { return gm2calc::Ixx(x, y); }
double vx_I1y(double x, double y) { return gm2calc::I1y(x, y); }
double vx_I0y(double y) { return gm2calc::I0y(y); }
double vx_Fax(double x, double y) { return gm2calc::Fax(x, y); }
double vx_Fbx(double x, double y) { return gm2calc::Fbx(x, y); }
double vx_Fa11(double x, double y) { return gm2calc::Fa11(x, y); }
double vx_Fb11(double x, double y) { return gm2calc::Fb11(x, y); }
double vx_phi_uv(double u, double v) { return gm2calc::phi_uv(u, v); }
double vx_phi_pos(double u, double v) { return gm2calc::phi_pos(u, v); }
double vx_phi_neg(double u, double v) { return gm2calc::phi_neg(u, v); }
double vx_dilog_re(double x) { return gm2calc::dilog(x); }
double vx_clausen_2(double x) { return gm2calc::clausen_2(x); }
double vx_cdilog_re(double re, double im) { return std::real(gm2calc::dilog(std::complex<double>(re, im))); }
double vx_cdilog_im(double re, double im) { return std::imag(gm2calc::dilog(std::complex<double>(re, im))); }
}
