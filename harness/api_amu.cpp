// Replay helper for C15: evaluates a_mu through the public library API for the model defined by an
// input file (same reader as the program), for a given loop order / resummation setting.
#include "gm2calc/gm2_1loop.hpp"
#include "gm2calc/gm2_2loop.hpp"
#include "gm2calc/gm2_uncertainty.hpp"
#include "gm2calc/MSSMNoFV_onshell.hpp"
#include "gm2calc/THDM.hpp"
#include "gm2calc/SM.hpp"
#include "gm2_slha_io.hpp"
#include "gm2_config_options.hpp"
#include <cstdio>
#include <cstdlib>
#include <cstring>
#include <string>

int main(int argc, char** argv)
{
   if (argc < 5) return 2;
   const std::string type = argv[1], file = argv[2];
   const int lo = std::atoi(argv[3]), rs = std::atoi(argv[4]);
   try {
      gm2calc::GM2_slha_io io;
      io.read_from_source(file);
      double amu = 0;
      if (type == "thdm") {
         gm2calc::Config_options opt;
         io.fill(opt);
         gm2calc::SM sm;
         io.fill(sm);
         gm2calc::thdm::Gauge_basis gb;
         gm2calc::thdm::Mass_basis mb;
         io.fill(gb);
         io.fill(mb);
         gm2calc::thdm::Config cfg;
         cfg.force_output = opt.force_output;
         cfg.running_couplings = opt.running_couplings;
         const bool mass = mb.mh != 0 || mb.mH != 0 || mb.mA != 0 || mb.mHp != 0;
         gm2calc::THDM model = mass ? gm2calc::THDM(mb, sm, cfg) : gm2calc::THDM(gb, sm, cfg);
         if (lo > 0) amu += gm2calc::calculate_amu_1loop(model);
         if (lo > 1) amu += gm2calc::calculate_amu_2loop(model);
      } else {
         gm2calc::MSSMNoFV_onshell model;
         if (type == "slha") { io.fill_slha(model); model.convert_to_onshell(); }
         else { io.fill_gm2calc(model); model.calculate_masses(); }
         if (rs) {
            if (lo > 0) amu += gm2calc::calculate_amu_1loop(model);
            if (lo > 1) amu += gm2calc::calculate_amu_2loop(model);
         } else {
            if (lo > 0) amu += gm2calc::calculate_amu_1loop_non_tan_beta_resummed(model);
            if (lo > 1) amu += gm2calc::calculate_amu_2loop_non_tan_beta_resummed(model);
         }
      }
      std::printf("%.8e\n", amu);
   } catch (const std::exception& e) {
      std::printf("error: %s\n", e.what());
      return 1;
   }
   return 0;
}
