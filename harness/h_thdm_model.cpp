// Harness TU for the THDM model class (C08, C09, C10)
#include <sstream>
#include <iostream>
#include <complex>
#include <string>
#include <Eigen/Core>
#define private public
#define protected public
#include "THDM/THDM.cpp"
#undef private
#undef protected

extern "C" {
typedef gm2calc::THDM T;
typedef std::complex<double> C;
void vx_set_type(T* m, int t) { m->yukawa_type = static_cast<gm2calc::thdm::Yukawa_type>(t); }
double vx_zeta(const T* m, int f) { return f == 0 ? m->get_zeta_u() : f == 1 ? m->get_zeta_d() : m->get_zeta_l(); }
double vx_zeta_field(const T* m, int f) { return f == 0 ? m->zeta_u : f == 1 ? m->zeta_d : m->zeta_l; }
double vx_Delta(const T* m, int f, int i, int j) { return f == 0 ? m->Delta_u(i,j) : f == 1 ? m->Delta_d(i,j) : m->Delta_l(i,j); }
static const Eigen::Matrix<C,3,3>& pi_(const T* m, int f) { return f == 0 ? m->get_Pi_u() : f == 1 ? m->get_Pi_d() : m->get_Pi_l(); }
static const Eigen::Matrix<C,3,3>& ga_(const T* m, int f) { return f == 0 ? m->get_Gamma_u() : f == 1 ? m->get_Gamma_d() : m->get_Gamma_l(); }
double vx_Pi_re(const T* m, int f, int i, int j) { return std::real(pi_(m, f)(i,j)); }
double vx_Pi_im(const T* m, int f, int i, int j) { return std::imag(pi_(m, f)(i,j)); }
double vx_Gamma_re(const T* m, int f, int i, int j) { return std::real(ga_(m, f)(i,j)); }
double vx_Gamma_im(const T* m, int f, int i, int j) { return std::imag(ga_(m, f)(i,j)); }
double vx_tb(const T* m) { return m->get_tan_beta(); }
double vx_v(const T* m) { return m->get_v(); }
double vx_v1(const T* m) { return m->get_v1(); }
double vx_v2(const T* m) { return m->get_v2(); }
double vx_cb(const T* m) { return m->get_cos_beta(); }
double vx_sba(const T* m) { return m->get_sin_beta_minus_alpha(); }
double vx_cba(const T* m) { return m->get_cos_beta_minus_alpha(); }
double vx_ckm_re(const T* m, int i, int j) { return std::real(m->sm.get_ckm()(i,j)); }
double vx_ckm_im(const T* m, int i, int j) { return std::imag(m->sm.get_ckm()(i,j)); }
static Eigen::Matrix<C,3,3> rho_(const T* m, int f, double m0, double m1, double m2)
{
   Eigen::Matrix<double,3,3> d = Eigen::Matrix<double,3,3>::Zero();
   d(0,0) = m0; d(1,1) = m1; d(2,2) = m2;
   return f == 0 ? m->get_rho_u(d) : f == 1 ? m->get_rho_d(d) : m->get_rho_l(d);
}
double vx_rho_re(const T* m, int f, int i, int j, double m0, double m1, double m2) { return std::real(rho_(m, f, m0, m1, m2)(i,j)); }
double vx_rho_im(const T* m, int f, int i, int j, double m0, double m1, double m2) { return std::imag(rho_(m, f, m0, m1, m2)(i,j)); }
static Eigen::Matrix<C,3,3> y_(const T* m, int f, int s)
{
   switch (4*f + s) {
   case 0: return m->get_yuh();
   case 1: return m->get_yuH();
   case 2: return m->get_yuA();
   case 3: return m->get_yuHp();
   case 4: return m->get_ydh();
   case 5: return m->get_ydH();
   case 6: return m->get_ydA();
   case 7: return m->get_ydHp();
   case 8: return m->get_ylh();
   case 9: return m->get_ylH();
   case 10: return m->get_ylA();
   default: return m->get_ylHp();
   }
}
double vx_y_re(const T* m, int f, int s, int i, int j) { return std::real(y_(m, f, s)(i,j)); }
double vx_y_im(const T* m, int f, int s, int i, int j) { return std::imag(y_(m, f, s)(i,j)); }
void vx_init_yukawas(T* m) { m->init_yukawas(); }
void vx_set_basis_mass(T* m, const gm2calc::thdm::Mass_basis* b) { m->set_basis(*b); }
void vx_set_basis_gauge(T* m, const gm2calc::thdm::Gauge_basis* b) { m->set_basis(*b); }
double vx_lambda(const T* m, int k)
{
   switch (k) {
   case 1: return m->get_lambda1();
   case 2: return m->get_lambda2();
   case 3: return m->get_lambda3();
   case 4: return m->get_lambda4();
   case 5: return m->get_lambda5();
   case 6: return m->get_lambda6();
   default: return m->get_lambda7();
   }
}
double vx_m122(const T* m) { return m->get_m122(); }
// running fermion masses as used inside the Yukawa getters: s = 0 (h), 1 (H), 2 (A), 3 (H+)
double vx_mf(const T* m, int f, int s, int i)
{
   const double scale = s == 0 ? m->get_Mhh(0) : s == 1 ? m->get_Mhh(1) : s == 2 ? m->get_MAh(1) : m->get_MHm(1);
   return f == 0 ? m->get_mu(scale)(i) : f == 1 ? m->get_md(scale)(i) : m->get_ml(scale)(i);
}
double vx_sm_m(const T* m, int f, int i) { return f == 0 ? m->sm.get_mu()(i) : f == 1 ? m->sm.get_md()(i) : m->sm.get_ml()(i); }
double vx_mb(const gm2calc::thdm::Mass_basis* b, int k, int i, int j)
{
   switch (k) {
   case 0: return static_cast<int>(b->yukawa_type);
   case 1: return b->zeta_u;
   case 2: return b->zeta_d;
   case 3: return b->zeta_l;
   case 4: return b->Delta_u(i,j);
   case 5: return b->Delta_d(i,j);
   default: return b->Delta_l(i,j);
   }
}
double vx_gb(const gm2calc::thdm::Gauge_basis* b, int k, int i, int j)
{
   switch (k) {
   case 0: return static_cast<int>(b->yukawa_type);
   case 1: return b->zeta_u;
   case 2: return b->zeta_d;
   case 3: return b->zeta_l;
   case 4: return b->Delta_u(i,j);
   case 5: return b->Delta_d(i,j);
   default: return b->Delta_l(i,j);
   }
}
void vx_y_all(const T* m, int f, int s, double* out)
{
   const Eigen::Matrix<C,3,3> y = y_(m, f, s);
   for (int i = 0; i < 3; i++)
      for (int j = 0; j < 3; j++) {
         out[2*(3*i + j)] = std::real(y(i,j));
         out[2*(3*i + j) + 1] = std::imag(y(i,j));
      }
   // the running masses the getter used (same calls, same arguments)
   for (int i = 0; i < 3; i++) out[18 + i] = vx_mf(m, f, s, i);
}
double vx_mbf(const gm2calc::thdm::Mass_basis* b, int k)
{
   switch (k) {
   case 0: return b->mh;
   case 1: return b->mH;
   case 2: return b->mA;
   case 3: return b->mHp;
   case 4: return b->sin_beta_minus_alpha;
   case 5: return b->lambda_6;
   case 6: return b->lambda_7;
   case 7: return b->tan_beta;
   default: return b->m122;
   }
}
double vx_mfs(const T* m, int f, int i, double scale) { return f == 0 ? m->get_mu(scale)(i) : f == 1 ? m->get_md(scale)(i) : m->get_ml(scale)(i); }
int vx_running(const T* m) { return m->config.running_couplings ? 1 : 0; }
double vx_sm_par(const T* m, int k) { return k == 0 ? m->sm.get_alpha_s_mz() : k == 1 ? m->sm.get_mz() : m->sm.get_alpha_em_mz(); }
int vx_type(const T* m) { return static_cast<int>(m->yukawa_type); }
void vx_ctor_mass(T* m, const gm2calc::thdm::Mass_basis* b, const gm2calc::SM* sm, const gm2calc::thdm::Config* cfg) { new (m) T(*b, *sm, *cfg); }
void vx_ctor_gauge(T* m, const gm2calc::thdm::Gauge_basis* b, const gm2calc::SM* sm, const gm2calc::thdm::Config* cfg) { new (m) T(*b, *sm, *cfg); }
}
