// Harness TU for the DR-bar -> on-shell conversion logic of MSSMNoFV_onshell (C05)
// IRFLAGS: -fno-inline-functions
#include <sstream>
#include <iostream>
#include <complex>
#include <string>
#include <Eigen/Core>
#define private public
#define protected public
#include "MSSMNoFV/MSSMNoFV_onshell.cpp"
#undef private
#undef protected
extern "C" {
typedef gm2calc::MSSMNoFV_onshell M;
double vx_me2(const M* m) { return m->get_me2(1,1); }
double vx_MSm(const M* m, int i) { return m->get_MSm()(i); }
double vx_ZM(const M* m, int i, int j) { return m->get_ZM()(i,j); }
double vx_MSm_pole(const M* m, int i) { return m->get_physical().MSm(i); }
double vx_par(const M* m, int k)
{
   switch (k) {
   case 0: return m->get_MassB();
   case 1: return m->get_MassWB();
   case 2: return m->get_Mu();
   case 3: return m->get_vd();
   case 4: return m->get_vu();
   case 5: return m->get_g1();
   case 6: return m->get_g2();
   default: return m->get_Ye(1,1);
   }
}
double vx_MCha(const M* m, int i) { return m->get_MCha()(i); }
double vx_MChi(const M* m, int i) { return m->get_MChi()(i); }
double vx_MCha_pole(const M* m, int i) { return m->get_physical().MCha(i); }
double vx_MChi_pole(const M* m, int i) { return m->get_physical().MChi(i); }
double vx_ZN_re(const M* m, int i, int j) { return std::real(m->get_ZN()(i,j)); }
double vx_ZN_im(const M* m, int i, int j) { return std::imag(m->get_ZN()(i,j)); }
double vx_UM_re(const M* m, int i, int j) { return std::real(m->get_UM()(i,j)); }
double vx_UM_im(const M* m, int i, int j) { return std::imag(m->get_UM()(i,j)); }
double vx_UP_re(const M* m, int i, int j) { return std::real(m->get_UP()(i,j)); }
double vx_UP_im(const M* m, int i, int j) { return std::imag(m->get_UP()(i,j)); }
double vx_convert_me2_fpi_modify(M* m, double prec, unsigned it) { return m->convert_me2_fpi_modify(prec, it); }
void vx_convert_me2(M* m, double prec, unsigned it) { m->convert_me2(prec, it); }
void vx_convert_Mu_M1_M2(M* m, double prec, unsigned it) { m->convert_Mu_M1_M2(prec, it); }
void vx_convert_to_onshell(M* m, double prec, unsigned it) { m->convert_to_onshell(prec, it); }
unsigned vx_find_bino(const M* m) { return gm2calc::detail::find_bino_like_neutralino(m->get_ZN()); }
unsigned vx_find_right(const M* m) { return gm2calc::detail::find_right_like_smuon(m->get_ZM()); }
double vx_ml2(const M* m) { return m->get_ml2(1,1); }
double vx_MSvmL_pole(const M* m) { return m->get_physical().MSvmL; }
void vx_convert_ml2(M* m) { m->convert_ml2(); }
double vx_os(const M* m, int k)
{
   switch (k) {
   case 0: return m->get_EL();
   case 1: return m->get_MW();
   case 2: return m->get_MZ();
   case 3: return m->get_MA0();
   case 4: return m->get_BMu();
   case 5: return m->get_MM();
   case 6: return m->get_MT();
   case 7: return m->get_Ye(1,1);
   case 8: return m->get_Yu(2,2);
   default: return m->get_TB();
   }
}
void vx_convert_sm_part(M* m) { m->convert_gauge_couplings(); m->convert_BMu(); m->convert_vev(); m->convert_yukawa_couplings_treelevel(); }
void vx_quiet(M* m) { m->verbose_output = false; }
void vx_calculate_MSm(M* m) { m->calculate_MSm(); }
void vx_calculate_chi_cha(M* m) { m->calculate_MChi(); m->calculate_MCha(); }
}
