// Harness TU for the decomposition wrappers of gm2_linalg.hpp (C12)
// IRFLAGS: -fno-inline-functions
#include "gm2_linalg.hpp"
#include "gm2_eigen_utils.hpp"
#include <complex>

using namespace gm2calc;
typedef std::complex<double> C;

extern "C" {
#define HERM(N) \
void vx_fs_herm##N(const double* m, double* w, double* z) \
{ \
   Eigen::Matrix<double,N,N> M_; Eigen::Array<double,N,1> W_; Eigen::Matrix<double,N,N> Z_; \
   for (int j = 0; j < N; j++) for (int i = 0; i < N; i++) M_(i,j) = m[i + N*j]; \
   fs_diagonalize_hermitian<double,double,N>(M_, W_, Z_); \
   for (int i = 0; i < N; i++) w[i] = W_(i); \
   for (int j = 0; j < N; j++) for (int i = 0; i < N; i++) z[i + N*j] = Z_(i,j); \
}
HERM(2) HERM(3) HERM(4)
#define TAKAGI(N) \
void vx_fs_symm##N(const double* m, double* s, double* u) \
{ \
   Eigen::Matrix<double,N,N> M_; Eigen::Array<double,N,1> S_; Eigen::Matrix<C,N,N> U_; \
   for (int j = 0; j < N; j++) for (int i = 0; i < N; i++) M_(i,j) = m[i + N*j]; \
   fs_diagonalize_symmetric<double,double,N>(M_, S_, U_); \
   for (int i = 0; i < N; i++) s[i] = S_(i); \
   for (int j = 0; j < N; j++) for (int i = 0; i < N; i++) { u[2*(i + N*j)] = std::real(U_(i,j)); u[2*(i + N*j) + 1] = std::imag(U_(i,j)); } \
}
TAKAGI(2) TAKAGI(3) TAKAGI(4)
#define SVDR(N) \
void vx_fs_svd##N(const double* m, double* s, double* u, double* v) \
{ \
   Eigen::Matrix<double,N,N> M_; Eigen::Array<double,N,1> S_; Eigen::Matrix<double,N,N> U_, V_; \
   for (int j = 0; j < N; j++) for (int i = 0; i < N; i++) M_(i,j) = m[i + N*j]; \
   fs_svd<double,double,N,N>(M_, S_, U_, V_); \
   for (int i = 0; i < N; i++) s[i] = S_(i); \
   for (int j = 0; j < N; j++) for (int i = 0; i < N; i++) { u[i + N*j] = U_(i,j); v[i + N*j] = V_(i,j); } \
}
SVDR(2) SVDR(3)
// error bounds
#define ERRB(N) \
void vx_herm_errbd##N(const double* m, double* out) \
{ \
   Eigen::Matrix<double,N,N> M_; Eigen::Array<double,N,1> W_, ZE_; Eigen::Matrix<double,N,N> Z_; double we = 0; \
   for (int j = 0; j < N; j++) for (int i = 0; i < N; i++) M_(i,j) = m[i + N*j]; \
   fs_diagonalize_hermitian_errbd<double,double,N>(M_, W_, &Z_, &we, &ZE_); \
   out[0] = we; for (int i = 0; i < N; i++) out[1 + i] = ZE_(i); \
}
ERRB(2) ERRB(3) ERRB(4)
#define DISNA(N) \
int vx_disna##N(int job, const double* d, double* sep) \
{ \
   Eigen::Array<double,N,1> D_, S_; int info = 0; \
   for (int i = 0; i < N; i++) { D_(i) = d[i]; S_(i) = 0; } \
   const char j = job == 0 ? 'E' : job == 1 ? 'L' : 'R'; \
   disna<N,N>(j, D_, S_, info); \
   for (int i = 0; i < N; i++) sep[i] = S_(i); \
   return info; \
}
DISNA(2) DISNA(3) DISNA(4)
// Goldstone reordering helper of gm2_eigen_utils.hpp (used by both models)
#define GOLD(N) \
void vx_move_goldstone##N(int idx, double mass, double* v, double* z) \
{ \
   Eigen::Array<double,N,1> V_; Eigen::Matrix<double,N,N> Z_; \
   for (int i = 0; i < N; i++) V_(i) = v[i]; \
   for (int j = 0; j < N; j++) for (int i = 0; i < N; i++) Z_(i,j) = z[i + N*j]; \
   move_goldstone_to(idx, mass, V_, Z_); \
   for (int i = 0; i < N; i++) v[i] = V_(i); \
   for (int j = 0; j < N; j++) for (int i = 0; i < N; i++) z[i + N*j] = Z_(i,j); \
}
GOLD(2) GOLD(3)
}
