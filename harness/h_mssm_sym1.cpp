// Harness TU for symmetry / dimensional checks of the MSSM contributions (C06, C07)
#include "MSSMNoFV/gm2_1loop.cpp"
#include "mssm_acc.inc"
