// Harness TU for the THDM / SM C interface (C17)
#include "THDM/THDM_c.cpp"
#include "THDM/gm2_1loop_c.cpp"
#include "THDM/gm2_2loop_c.cpp"
#include "THDM/gm2_uncertainty_c.cpp"
#include "SM/SM_c.cpp"
#include <typeinfo>
extern "C" const std::type_info* const vx_error_types_t[] = {
   &typeid(gm2calc::Error), &typeid(gm2calc::ESetupError), &typeid(gm2calc::EInvalidInput),
   &typeid(gm2calc::EPhysicalProblem), &typeid(gm2calc::EReadError)
};
