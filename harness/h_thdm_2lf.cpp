// Harness TU for the THDM fermionic two-loop contribution (C10)
#include "THDM/gm2_2loop_F.cpp"
extern "C" {
typedef gm2calc::thdm::THDM_F_parameters P;
static const Eigen::Matrix<std::complex<double>,3,3>& ymat(const P* p, int f, int s)
{
   switch (4*f + s) {
   case 0: return p->yuh;
   case 1: return p->yuH;
   case 2: return p->yuA;
   case 3: return p->yuHp;
   case 4: return p->ydh;
   case 5: return p->ydH;
   case 6: return p->ydA;
   case 7: return p->ydHp;
   case 8: return p->ylh;
   case 9: return p->ylH;
   case 10: return p->ylA;
   default: return p->ylHp;
   }
}
double vx_y_re(const P* p, int f, int s, int i, int j) { return std::real(ymat(p, f, s)(i,j)); }
double vx_y_im(const P* p, int f, int s, int i, int j) { return std::imag(ymat(p, f, s)(i,j)); }
double vx_m(const P* p, int f, int i) { return f == 0 ? p->mu(i) : f == 1 ? p->md(i) : p->ml(i); }
double vx_par(const P* p, int k)
{
   switch (k) {
   case 0: return p->alpha_em;
   case 1: return p->mm;
   case 2: return p->mw;
   case 3: return p->mz;
   case 4: return p->mhSM;
   case 5: return p->mA;
   case 6: return p->mHp;
   case 7: return p->mh(0);
   default: return p->mh(1);
   }
}
double vx_amu2L_F_neutral(const P* p) { return gm2calc::thdm::amu2L_F_neutral(*p); }
double vx_amu2L_F_charged(const P* p) { return gm2calc::thdm::amu2L_F_charged(*p); }
double vx_amu2L_F(const P* p) { return gm2calc::thdm::amu2L_F(*p); }
}
