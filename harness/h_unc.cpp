// Harness TU for the uncertainty estimates (C18): both model families.
#include "MSSMNoFV/gm2_uncertainty.cpp"
#include "THDM/gm2_uncertainty.cpp"
