// UBSan replay driver for C14 witnesses (float->int conversion, index arithmetic) in the SLHA reader.
// Built with clang++ -fsanitize=undefined -fno-sanitize-recover=undefined.
#include "gm2_slha_io.cpp"
#include "gm2_numerics.cpp"
#include <sstream>
#include <cstring>
#include <cstdio>

int main(int argc, char** argv)
{
   if (argc < 3) return 2;
   try {
      if (!std::strcmp(argv[1], "read_integer")) {
         const int r = gm2calc::read_integer(std::atof(argv[2]));
         std::printf("read_integer(%s) = %d\n", argv[2], r);
      } else if (!std::strcmp(argv[1], "config")) {
         gm2calc::Config_options o;
         gm2calc::process_gm2calcconfig_tuple(o, std::atoi(argv[2]), std::atof(argv[3]));
         std::printf("config accepted\n");
      } else if (!std::strcmp(argv[1], "matrix") || !std::strcmp(argv[1], "vector")) {
         std::istringstream is(argv[2]);
         SLHAea::Coll c(is);
         Eigen::Matrix<double,3,3> m = Eigen::Matrix<double,3,3>::Zero();
         Eigen::Matrix<double,3,1> v = Eigen::Matrix<double,3,1>::Zero();
         for (auto it = c.begin(); it != c.end(); ++it) {
            if (!std::strcmp(argv[1], "matrix")) gm2calc::GM2_slha_io::read_block(*it, m);
            else gm2calc::GM2_slha_io::read_block(*it, v);
         }
         std::printf("block read\n");
      }
   } catch (const gm2calc::Error& e) {
      std::printf("gm2calc::Error: %s\n", e.what());
      return 0;
   }
   return 0;
}
