// Harness TU for the SM layer (C20)
#include "SM/SM.cpp"
#include "gm2_numerics.cpp"

extern "C" {
void vx_ckm_from_angles(double* out, double t12, double t13, double t23, double delta)
{
   const auto m = gm2calc::get_ckm_from_angles(t12, t13, t23, delta);
   for (int i = 0; i < 3; i++)
      for (int k = 0; k < 3; k++) {
         out[2*(3*i + k)] = std::real(m(i,k));
         out[2*(3*i + k) + 1] = std::imag(m(i,k));
      }
}
void vx_ckm_from_wolfenstein(double* out, double l, double a, double r, double e)
{
   const auto m = gm2calc::get_ckm_from_wolfenstein(l, a, r, e);
   for (int i = 0; i < 3; i++)
      for (int k = 0; k < 3; k++) {
         out[2*(3*i + k)] = std::real(m(i,k));
         out[2*(3*i + k) + 1] = std::imag(m(i,k));
      }
}
int vx_ckm_from_wolfenstein_rc(double* out, double l, double a, double r, double e)
{
   try {
      vx_ckm_from_wolfenstein(out, l, a, r, e);
   } catch (const gm2calc::EInvalidInput&) {
      return 1;
   } catch (...) {
      return 2;
   }
   return 0;
}
}
