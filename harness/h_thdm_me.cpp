// Harness TU for the THDM tree-level spectrum (C08, C10)
#include <sstream>
#include <iostream>
#include <complex>
#include <string>
#include <Eigen/Core>
#define private public
#define protected public
#include "THDM/THDM_mass_eigenstates.cpp"
#undef private
#undef protected

extern "C" {
typedef gm2calc::THDM_mass_eigenstates M;
double vx_par(const M* m, int k)
{
   switch (k) {
   case 0: return m->get_g1();
   case 1: return m->get_g2();
   case 2: return m->get_v1();
   case 3: return m->get_v2();
   case 4: return m->get_lambda1();
   case 5: return m->get_lambda2();
   case 6: return m->get_lambda3();
   case 7: return m->get_lambda4();
   case 8: return m->get_lambda5();
   case 9: return m->get_lambda6();
   case 10: return m->get_lambda7();
   case 11: return m->get_m112();
   case 12: return m->get_m222();
   default: return m->get_m122();
   }
}
double vx_mm_hh(const M* m, int i, int j) { return m->get_mass_matrix_hh()(i,j); }
double vx_mm_Ah(const M* m, int i, int j) { return m->get_mass_matrix_Ah()(i,j); }
double vx_mm_Hm(const M* m, int i, int j) { return m->get_mass_matrix_Hm()(i,j); }
double vx_mm_VZ(const M* m) { return m->get_mass_matrix_VZ(); }
double vx_mm_VWm(const M* m) { return m->get_mass_matrix_VWm(); }
double vx_ewsb1(const M* m) { return m->get_ewsb_eq_hh_1(); }
double vx_ewsb2(const M* m) { return m->get_ewsb_eq_hh_2(); }
int vx_solve_ewsb(M* m) { return m->solve_ewsb_tree_level(); }
double vx_tan_beta(const M* m) { return m->get_tan_beta(); }
double vx_alpha_em(const M* m) { return m->get_alpha_em(); }
void vx_set_tan_beta_and_v(M* m, double tb, double v) { m->set_tan_beta_and_v(tb, v); }
void vx_set_alpha_em_and_cw(M* m, double a, double cw) { m->set_alpha_em_and_cw(a, cw); }
double vx_ZH(const M* m, int i, int j) { return m->get_ZH()(i,j); }
double vx_sba(const M* m) { return m->get_sin_beta_minus_alpha(); }
double vx_cba(const M* m) { return m->get_cos_beta_minus_alpha(); }
double vx_mm_F_re(const M* m, int f, int i, int j)
{
   return std::real(f == 0 ? m->get_mass_matrix_Fu()(i,j) : f == 1 ? m->get_mass_matrix_Fd()(i,j) : m->get_mass_matrix_Fe()(i,j));
}
double vx_MAh(const M* m, int i) { return m->get_MAh()(i); }
double vx_ZA(const M* m, int i, int j) { return m->get_ZA()(i,j); }
double vx_MHpm(const M* m, int i) { return m->get_MHm()(i); }
double vx_ZP(const M* m, int i, int j) { return m->get_ZP()(i,j); }
double vx_MVZ(const M* m) { return m->get_MVZ(); }
double vx_MVWm(const M* m) { return m->get_MVWm(); }
void vx_reorder(M* m) { m->reorder_MSbar_masses(); }
void vx_calc(M* m, int k)
{
   switch (k) {
   case 0: m->calculate_Mhh(); break;
   case 1: m->calculate_MAh(); break;
   default: m->calculate_MHm(); break;
   }
}
}
