// Harness TU for the MSSMNoFV C interface (C17)
#include "MSSMNoFV/MSSMNoFV_onshell_c.cpp"
#include "MSSMNoFV/gm2_1loop_c.cpp"
#include "MSSMNoFV/gm2_2loop_c.cpp"
#include "MSSMNoFV/gm2_uncertainty_c.cpp"
#include "gm2_error_c.cpp"
#include <typeinfo>
extern "C" const std::type_info* const vx_error_types_m[] = {
   &typeid(gm2calc::Error), &typeid(gm2calc::ESetupError), &typeid(gm2calc::EInvalidInput),
   &typeid(gm2calc::EPhysicalProblem), &typeid(gm2calc::EReadError)
};
