// Harness TU for the THDM one-loop contribution (C03, C10)
#include "THDM/gm2_1loop_H.cpp"
extern "C" {
typedef gm2calc::thdm::THDM_1L_parameters P;
double vx_y_re(const P* p, int which, int i, int j)
{
   const auto& y = which == 0 ? p->ylh : which == 1 ? p->ylH : which == 2 ? p->ylA : p->ylHp;
   return std::real(y(i,j));
}
double vx_y_im(const P* p, int which, int i, int j)
{
   const auto& y = which == 0 ? p->ylh : which == 1 ? p->ylH : which == 2 ? p->ylA : p->ylHp;
   return std::imag(y(i,j));
}
double vx_ml(const P* p, int i) { return p->ml(i); }
double vx_mv(const P* p, int i) { return p->mv(i); }
double vx_par(const P* p, int k)
{
   switch (k) {
   case 0: return p->alpha_em;
   case 1: return p->mm;
   case 2: return p->mw;
   case 3: return p->mz;
   case 4: return p->mhSM;
   case 5: return p->mA;
   case 6: return p->mHp;
   case 7: return p->mh(0);
   default: return p->mh(1);
   }
}
}
