// Harness TU for the command-line program (C14/C15/C16): gm2calc.cpp as a whole.
// IRFLAGS: -fno-inline-functions
#include "gm2calc.cpp"
#include <typeinfo>
// force the type_info objects (with their base-class links) of all error classes into this module
extern "C" const std::type_info* const vx_error_types[] = {
   &typeid(gm2calc::Error), &typeid(gm2calc::ESetupError), &typeid(gm2calc::EInvalidInput),
   &typeid(gm2calc::EPhysicalProblem), &typeid(gm2calc::EReadError)
};
