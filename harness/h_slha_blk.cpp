// Harness TU for the block readers of GM2_slha_io (C13/C14): read_matrix, read_vector, read_block,
// is_at_scale, read_scale on SLHAea::Block objects laid out by the check.
// IRFLAGS: -fno-inline-functions
#include "gm2_slha_io.cpp"
#include "gm2_numerics.cpp"
#include <sstream>

extern "C" {
void vx_read_matrix33(const SLHAea::Block* b, double* m)
{
   Eigen::Map<Eigen::Matrix<double,3,3>> mm(m);
   Eigen::Matrix<double,3,3> tmp = mm;
   gm2calc::GM2_slha_io::read_block(*b, tmp);
   mm = tmp;
}
void vx_read_vector3(const SLHAea::Block* b, double* m)
{
   Eigen::Map<Eigen::Matrix<double,3,1>> mm(m);
   Eigen::Matrix<double,3,1> tmp = mm;
   gm2calc::GM2_slha_io::read_block(*b, tmp);
   mm = tmp;
}
int vx_is_block_def(const SLHAea::Line* l) { return l->is_block_def(); }
int vx_is_data_line(const SLHAea::Line* l) { return l->is_data_line(); }
int vx_is_comment_line(const SLHAea::Line* l) { return l->is_comment_line(); }
// native-only: classification of the first line of a text by the real tokenizer: 1 block def, 2 data, 4 comment
int vx_native_line_class(const char* text)
{
   SLHAea::Line l;
   l.str(text);
   return (l.is_block_def() ? 1 : 0) | (l.is_data_line() ? 2 : 0) | (l.is_comment_line() ? 4 : 0);
}
int vx_is_at_scale(const SLHAea::Block* b, double scale)
{
   return gm2calc::GM2_slha_io::is_at_scale(*b, scale);
}
double vx_read_scale(const SLHAea::Block* b)
{
   return gm2calc::GM2_slha_io::read_scale(*b);
}
// native-only helpers (replay): build a real block from text
int vx_native_is_at_scale(const char* text, double scale)
{
   std::istringstream is(text);
   SLHAea::Coll c(is);
   return gm2calc::GM2_slha_io::is_at_scale(*c.begin(), scale);
}
int vx_native_read_matrix33(const char* text, double* m)
{
   try {
      std::istringstream is(text);
      SLHAea::Coll c(is);
      Eigen::Matrix<double,3,3> tmp;
      for (int i = 0; i < 9; i++) tmp.data()[i] = m[i];
      for (auto it = c.begin(); it != c.end(); ++it) gm2calc::GM2_slha_io::read_block(*it, tmp);
      for (int i = 0; i < 9; i++) m[i] = tmp.data()[i];
   } catch (const gm2calc::Error&) {
      return 1;
   } catch (...) {
      return 2;
   }
   return 0;
}
int vx_native_read_vector3(const char* text, double* m)
{
   try {
      std::istringstream is(text);
      SLHAea::Coll c(is);
      Eigen::Matrix<double,3,1> tmp;
      for (int i = 0; i < 3; i++) tmp.data()[i] = m[i];
      for (auto it = c.begin(); it != c.end(); ++it) gm2calc::GM2_slha_io::read_block(*it, tmp);
      for (int i = 0; i < 3; i++) m[i] = tmp.data()[i];
   } catch (const gm2calc::Error&) {
      return 1;
   } catch (...) {
      return 2;
   }
   return 0;
}
// native-only: keys handed to the processor by read_block(name, processor, scale), in order
int vx_native_select(const char* text, const char* name, double scale, int* keys, int max)
{
   int n = 0;
   try {
      std::istringstream is(text);
      gm2calc::GM2_slha_io io;
      io.read_from_stream(is);
      io.read_block(name, [&](int k, double) { if (n < max) keys[n++] = k; }, scale);
   } catch (...) {
      return -1;
   }
   return n;
}
// native-only: fill_block_entry("X", 7, 1.5, "result") (or the text overload) on a collection read from text;
// the resulting collection is written to out
int vx_native_fill_entry(const char* text, int with_value, char* out, int max)
{
   try {
      std::istringstream is(text);
      gm2calc::GM2_slha_io io;
      io.read_from_stream(is);
      if (with_value) io.fill_block_entry("X", 7, 1.5, "result");
      else io.fill_block_entry("X", 7, "result");
      std::ostringstream os;
      io.write_to_stream(os);
      const std::string s = os.str();
      int n = (int)s.size() < max - 1 ? (int)s.size() : max - 1;
      for (int i = 0; i < n; i++) out[i] = s[i];
      out[n] = 0;
   } catch (...) {
      return 1;
   }
   return 0;
}
}
