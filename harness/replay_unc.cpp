// Replay driver for C18 witnesses: the real uncertainty functions of the working tree, with the
// a_mu contributions they call replaced by given numbers.
#include "MSSMNoFV/gm2_uncertainty.cpp"
#include "THDM/gm2_uncertainty.cpp"
#include <cstdio>
#include <cstdlib>
#include <cstring>
#include <cmath>

static double g_a1, g_a2, g_cha, g_sferm, g_alpha;
namespace gm2calc {
double calculate_amu_1loop(const MSSMNoFV_onshell&) { return g_a1; }
double calculate_amu_2loop(const MSSMNoFV_onshell&) { return g_a2; }
double amu2LaCha(const MSSMNoFV_onshell&) { return g_cha; }
double amu2LaSferm(const MSSMNoFV_onshell&) { return g_sferm; }
double calculate_amu_1loop(const THDM&) { return g_a1; }
double calculate_amu_2loop(const THDM&) { return g_a2; }
double THDM_mass_eigenstates::get_alpha_em() const { return g_alpha; }
}

int main(int argc, char** argv)
{
   using namespace gm2calc;
   if (argc < 2) return 2;
   if (!std::strcmp(argv[1], "mssm")) {
      g_cha = std::atof(argv[2]); g_sferm = std::atof(argv[3]);
      alignas(64) static char buf[65536];
      const MSSMNoFV_onshell& m = *reinterpret_cast<const MSSMNoFV_onshell*>(buf);
      const double d2 = calculate_uncertainty_amu_2loop(m);
      const double doc = 2.3e-10 + 0.3*(std::abs(g_cha) + std::abs(g_sferm));
      std::printf("delta_2L = %.17g documented %.17g\n", d2, doc);
      return (std::isfinite(d2) && d2 >= 2.3e-10 && d2 == doc) ? 0 : 1;
   }
   if (!std::strcmp(argv[1], "thdm")) {
      // a1 a2 mass_ratio(mNP/mm)
      g_a1 = std::atof(argv[2]); g_a2 = std::atof(argv[3]);
      const double ratio = std::atof(argv[4]);
      g_alpha = 1.0/137.0;
      alignas(64) static char buf[sizeof(THDM) + 64];
      const THDM& m = *reinterpret_cast<const THDM*>(buf);
      const double mm = 0.1056583715;
      const_cast<Eigen::Array<double,3,1>&>(m.get_MFe())(1) = mm;
      const_cast<Eigen::Array<double,2,1>&>(m.get_Mhh())(1) = ratio*mm;
      const_cast<Eigen::Array<double,2,1>&>(m.get_MAh())(1) = 2*ratio*mm;
      const_cast<Eigen::Array<double,2,1>&>(m.get_MHm())(1) = 3*ratio*mm;
      const double d2 = calculate_uncertainty_amu_2loop(m, g_a1, g_a2);
      const double d1 = calculate_uncertainty_amu_1loop(m, g_a1, g_a2);
      std::printf("delta_2L = %.17g delta_1L = %.17g (floor 2e-12)\n", d2, d1);
      return (std::isfinite(d2) && d2 >= 2e-12 && d1 == std::abs(g_a2) + std::abs(d2)) ? 0 : 1;
   }
   return 2;
}
