"""replay of C20 witnesses against the native build of the SM layer"""
import sys
from .common import *
from .C20 import native_ckm, unit_dev


def main():
    kind = sys.argv[1]
    if kind == 'lqcd':
        lib = harness_native('h_mf')
        f = native_fn(lib, 'vx_lambda_qcd', 2)
        v = f(float(sys.argv[2]), float(sys.argv[3]))
        print('Lambda_QCD =', v)
        sys.exit(0 if v == v else 1)
    if kind == 'mf':
        import math
        sub, fname = sys.argv[2], sys.argv[3]
        vals = [float(v) for v in sys.argv[4:]]
        lib = harness_native('h_mf')
        if sub == 'monotone':
            nf = native_fn(lib, fname, len(vals) - 1)
            a, b = nf(*vals[:-1]), nf(*(vals[:-2] + [vals[-1]]))
            print(a, b)
            sys.exit(0 if a > b else 1)
        nf = native_fn(lib, fname, len(vals))
        if sub == 'compose':
            q0 = vals[-1]
            a, b, c = nf(*vals), nf(*(vals[:-1] + [2 * q0])), nf(*(vals[:-1] + [4 * q0]))
            print(a, b, c)
            sys.exit(0 if abs(a * c - b * b) <= 1e-9 * abs(b * b) else 1)
        got = nf(*vals)
        print(got)
        sys.exit(0 if (math.isfinite(got) and (sub != 'positive' or got > 0)) else 1)
    vals = [float(v) for v in sys.argv[2:]]
    lib = harness_native('h_sm')
    if kind == 'angles':
        dev = unit_dev(native_ckm(lib, 'vx_ckm_from_angles', *vals))
        print('deviation from unitarity', dev)
        sys.exit(1 if dev > 1e-14 else 0)
    got = native_ckm(lib, 'vx_ckm_from_wolfenstein', *vals)
    if kind == 'wolfenstein-unitary':
        dev = unit_dev(got)
        print('accepted' if got is not None else 'rejected', 'deviation from unitarity', dev)
        sys.exit(1 if dev > 1e-14 else 0)
    if kind == 'wolfenstein-reject':
        print('accepted' if got is not None else 'rejected')
        sys.exit(1 if got is not None else 0)
    if kind == 'wolfenstein-accept':
        print('accepted' if got is not None else 'rejected')
        sys.exit(1 if got is None else 0)
    if kind == 'ew':
        from . import C20
        print('EW relation witness: see check output')
        sys.exit(1)
    sys.exit(2)


if __name__ == '__main__':
    main()
