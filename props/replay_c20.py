"""replay of C20 witnesses against the native build of the SM layer"""
import sys
from .common import *
from .C20 import native_ckm, unit_dev


def main():
    kind = sys.argv[1]
    vals = [float(v) for v in sys.argv[2:]]
    lib = harness_native('h_sm')
    if kind == 'angles':
        dev = unit_dev(native_ckm(lib, 'vx_ckm_from_angles', *vals))
        print('deviation from unitarity', dev)
        sys.exit(1 if dev > 1e-14 else 0)
    got = native_ckm(lib, 'vx_ckm_from_wolfenstein', *vals)
    if kind == 'wolfenstein-unitary':
        dev = unit_dev(got)
        print('accepted' if got is not None else 'rejected', 'deviation from unitarity', dev)
        sys.exit(1 if dev > 1e-14 else 0)
    if kind == 'wolfenstein-reject':
        print('accepted' if got is not None else 'rejected')
        sys.exit(1 if got is not None else 0)
    if kind == 'wolfenstein-accept':
        print('accepted' if got is not None else 'rejected')
        sys.exit(1 if got is None else 0)
    if kind == 'ew':
        from . import C20
        print('EW relation witness: see check output')
        sys.exit(1)
    sys.exit(2)


if __name__ == '__main__':
    main()
