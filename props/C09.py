"""C09 - THDM Yukawa parametrisations are equivalent where they describe the same theory.

The Yukawa type enters every result only through get_zeta_f, get_rho_f, the twelve get_y{u,d,l}{h,H,A,Hp}
and init_yukawas (Gamma_f, Pi_f -> fermion masses).  These are executed symbolically on a THDM object whose
fields are all symbolic (type concrete, looped over the six types) and the solver decides:
  (a) get_zeta_f(type) == Table 1 of arXiv:1607.06292 (cot beta / -tan beta), aligned: the user's zeta_f
  (b) get_rho_f: sqrt2 m zeta_f/v + Delta_f (types I,II,X,Y,aligned);  Pi_f/cos(beta) - sqrt2 m tan(beta)/v (general)
      => type T == aligned with zeta_f = table(T);  aligned(zeta, Delta) == general with Pi_f = cb (rho + sqrt2 m tb/v)
  (c) the twelve Yukawa matrices in terms of rho_f (Eqs. (13)-(18) of arXiv:1607.06292)
  (d) none of these results mentions a field documented as ignored for the type
  (e) init_yukawas: (v1 Gamma_f + v2 Pi_f)/sqrt2 is the SM mass matrix for every type; divisions by zero reachable
      for admissible input are reported
  (f) the constructors copy each basis field into the corresponding member.
"""
from fractions import Fraction as Fr
import z3

from .common import *
from .C14b import demangled
from .modelprobe import probe, ext_handler, cmul, cadd, cconj, cscale
from . import C02


def QE(c):
    return []
from symx.exec import Ptr

S2 = z3.Real('const_sqrt2')
CONSTS = [(1.4142135623730950488, S2), (0.70710678118654752440, S2 / 2)]
CONST_AX = [S2 > 0, S2 * S2 == 2]
TYPES = {1: 'type I', 2: 'type II', 3: 'type X', 4: 'type Y', 5: 'aligned', 6: 'general'}
F = ['u', 'd', 'l']
# Table 1 of arXiv:1607.06292: zeta_f per type; +1 = cot(beta), -1 = -tan(beta)
TABLE = {1: (1, 1, 1), 2: (1, -1, -1), 3: (1, 1, -1), 4: (1, -1, 1)}


def spec():
    s = {'tb': ('vx_tb', []), 'v': ('vx_v', []), 'cb': ('vx_cb', []), 'sba': ('vx_sba', []), 'cba': ('vx_cba', []),
         'v1': ('vx_v1', []), 'v2': ('vx_v2', [])}
    for f in range(3):
        s['zeta_%s' % F[f]] = ('vx_zeta_field', [f])
        for i in range(3):
            for j in range(3):
                s['Delta_%s%d%d' % (F[f], i, j)] = ('vx_Delta', [f, i, j])
                s['Pi_%sr%d%d' % (F[f], i, j)] = ('vx_Pi_re', [f, i, j])
                s['Pi_%si%d%d' % (F[f], i, j)] = ('vx_Pi_im', [f, i, j])
    for i in range(3):
        for j in range(3):
            s['ckmr%d%d' % (i, j)] = ('vx_ckm_re', [i, j])
            s['ckmi%d%d' % (i, j)] = ('vx_ckm_im', [i, j])
    return s


class Ctx:
    pass


def setup(chk):
    c = Ctx()
    c.mod = harness_module('h_thdm_model')
    c.dem = demangled(c.mod)
    c.ex = executor(c.mod, RealDom(CONSTS), fork_select=False)
    c.ex.undefined_handler = ext_handler(c.dem)
    c.ex.div_no_fork = True
    c.ex.fast_throw = True
    st = X.State()
    reg = c.ex.new_region(st, None, 'input', 'thdm', lazy=True)
    c.mp = Ptr(reg.rid, 0)
    c.st, V = probe(c.ex, st, c.mp, spec())
    c.V = {k: zr(v) for k, v in V.items()}
    c.typed = {}
    for t in TYPES:
        s2 = c.ex.start('vx_set_type', [c.mp, t], c.st.fork())
        rr = c.ex.explore(s2)
        p = rr[0]
        p.outcome = None
        p.frames = []
        p.retval = None
        c.typed[t] = p
    return c


def call(c, st, fn, args):
    s2 = c.ex.start(fn, [c.mp] + list(args), st.fork())
    rr = c.ex.explore(s2)
    good = [p for p in rr if p.outcome[0] == 'ret']
    if len(good) != 1 or len(rr) != 1:
        raise Unsupported('%s%r: outcomes %r' % (fn, args, [p.outcome for p in rr][:4]))
    return good[0]


def ignored_fields(c, t):
    """z3 symbols of the fields documented as ignored for Yukawa type t"""
    V = c.V
    out = {}
    if t != 5:
        for f in F:
            out['zeta_' + f] = V['zeta_' + f]
    if t != 6:
        for f in F:
            for i in range(3):
                for j in range(3):
                    out['Pi_%s(%d,%d)' % (f, i, j)] = V['Pi_%sr%d%d' % (f, i, j)]
                    out['Im Pi_%s(%d,%d)' % (f, i, j)] = V['Pi_%si%d%d' % (f, i, j)]
    if t == 6:
        for f in F:
            for i in range(3):
                for j in range(3):
                    out['Delta_%s(%d,%d)' % (f, i, j)] = V['Delta_%s%d%d' % (f, i, j)]
    return out


def mentions(e, syms):
    ids = set()
    todo = [e]
    seen = set()
    while todo:
        t = todo.pop()
        if t.get_id() in seen:
            continue
        seen.add(t.get_id())
        if z3.is_const(t) and t.decl().kind() == z3.Z3_OP_UNINTERPRETED:
            ids.add(t.get_id())
        todo.extend(t.children())
    return [n for n, s in syms.items() if s.get_id() in ids]


def expand_quots(c, e):
    """replace quotient variables by their defining fractions (so that dependencies are visible)"""
    for _ in range(20):
        subs = []
        todo = [e]
        seen = set()
        while todo:
            t = todo.pop()
            if t.get_id() in seen:
                continue
            seen.add(t.get_id())
            qi = c.ex.quots.get(t.get_id())
            if qi is not None:
                subs.append((t, zr(qi[0]) / zr(qi[1])))
            todo.extend(t.children())
        if not subs:
            return e
        e = z3.substitute(e, *subs)
    return e


def independence(chk, c, t, what, e, p):
    bad = mentions(expand_quots(c, zr(e)), ignored_fields(c, t))
    tag = 'ignored:%s:%s' % (TYPES[t], what)
    if bad:
        # syntactic occurrence: confirm a semantic dependence with the solver (two values of the field, different result)
        V = c.V
        syms = ignored_fields(c, t)
        e1 = expand_quots(c, zr(e))
        s = syms[bad[0]]
        e2 = z3.substitute(e1, (s, s + 1))
        r, m = chk.solve(list(p.pc) + CONST_AX + [e1 != e2], 20000)
        if r == 'sat':
            chk.violation(tag, 'C09:ignored:%s:%s' % (TYPES[t], bad[0].split('(')[0]),
                          '%s of the %s model depends on %s, which is documented as ignored for this type' % (what, TYPES[t], bad[0]),
                          '#!/bin/sh\ncd %s && exec python3-vt -m props.replay_c09 ignored %d\n' % (VERIF, t))
            return
    chk.record(tag, 'discharged', family='ignored-parameters',
               sample={'obligation': '%s (%s): the symbolic result does not depend on zeta_f/Pi_f/Delta_f fields that are '
                       'documented as ignored for the type' % (what, TYPES[t])})
    chk.formulas.add(tag)


def zeta_and_rho(chk, c):
    V = c.V
    tb, v, cb = V['tb'], V['v'], V['cb']
    m = [z3.Real('mf%d' % i) for i in range(3)]
    c.rho = {}
    for t in TYPES:
        st = c.typed[t]
        for f in range(3):
            chk.functions.update(['THDM::get_zeta_' + F[f], 'THDM::get_rho_' + F[f]])
            p = call(c, st, 'vx_zeta', [f])
            z = zr(p.retval)
            if t in TABLE:
                orc = (1 / tb) if TABLE[t][f] == 1 else -tb
                txt = 'cot(beta)' if TABLE[t][f] == 1 else '-tan(beta)'
            elif t == 5:
                orc, txt = V['zeta_' + F[f]], 'the input zeta_' + F[f]
            else:
                orc, txt = None, None
            if orc is not None:
                r, mdl = chk.prove('zeta_%s:%s' % (F[f], TYPES[t]), list(p.pc) + QE(c) + [tb > 0, z != orc],
                                   family='zeta-table', sample={'obligation': 'get_zeta_%s() of the %s model is %s (Table 1 of '
                                                                'arXiv:1607.06292) for every tan(beta) > 0' % (F[f], TYPES[t], txt)})
                if r == 'sat':
                    chk.violation('zeta_%s:%s' % (F[f], TYPES[t]), 'C09:zeta:%s:%s' % (F[f], TYPES[t]),
                                  'get_zeta_%s() of the %s model is not %s' % (F[f], TYPES[t], txt),
                                  '#!/bin/sh\ncd %s && exec python3-vt -m props.replay_c09 types\n' % VERIF)
            independence(chk, c, t, 'get_zeta_' + F[f], z, p)
            # rho_f
            for i in range(3):
                for j in range(3):
                    pr = call(c, st, 'vx_rho_re', [f, i, j] + m)
                    pi = call(c, st, 'vx_rho_im', [f, i, j] + m)
                    re, im = zr(pr.retval), zr(pi.retval)
                    c.rho[(t, f, i, j)] = (re, im, pr)
                    mij = m[i] if i == j else z3.RealVal(0)
                    if t != 6:
                        ore = S2 * mij * z / v + V['Delta_%s%d%d' % (F[f], i, j)]
                        oim = z3.RealVal(0)
                        txt = 'sqrt2 m zeta_f/v + Delta_f'
                    else:
                        ore = V['Pi_%sr%d%d' % (F[f], i, j)] / cb - S2 * mij * tb / v
                        # documented inputs are real matrices; the code drops Im Pi_u and keeps Im Pi_d, Im Pi_l
                        oim = z3.RealVal(0) if f == 0 else V['Pi_%si%d%d' % (F[f], i, j)] / cb
                        txt = 'Pi_f/cos(beta) - sqrt2 m tan(beta)/v'
                    base = list(pr.pc) + list(pi.pc) + QE(c) + CONST_AX + [v != 0, cb != 0, tb > 0]
                    r, mdl = chk.prove('rho_%s[%d,%d]:%s' % (F[f], i, j, TYPES[t]), base + [z3.Or(re != ore, im != oim)], family='rho',
                                       sample={'obligation': 'get_rho_%s (%s) = %s for all masses, tan(beta), v, Delta/Pi' % (F[f], TYPES[t], txt)})
                    if r == 'sat':
                        chk.violation('rho_%s:%s' % (F[f], TYPES[t]), 'C09:rho:%s:%s' % (F[f], TYPES[t]),
                                      'get_rho_%s of the %s model differs from %s' % (F[f], TYPES[t], txt),
                                      '#!/bin/sh\ncd %s && exec python3-vt -m props.replay_c09 types\n' % VERIF)
                    independence(chk, c, t, 'get_rho_%s(%d,%d)' % (F[f], i, j), re + im, pr)
    # equivalences between models (consequences, stated explicitly as solver obligations on the executed expressions)
    for t in TABLE:
        for f in range(3):
            zt = (1 / tb) if TABLE[t][f] == 1 else -tb
            for i in range(3):
                for j in range(3):
                    re_t, im_t, p1 = c.rho[(t, f, i, j)]
                    re_a, im_a, p2 = c.rho[(5, f, i, j)]
                    sub = (V['zeta_' + F[f]], zt)
                    lhs_re = expand_quots(c, re_a)
                    r, mdl = chk.prove('equiv:%s=aligned:rho_%s[%d,%d]' % (TYPES[t], F[f], i, j),
                                       [tb > 0, v != 0] + CONST_AX + [z3.Or(z3.substitute(lhs_re, sub) != expand_quots(c, re_t),
                                                                            z3.substitute(expand_quots(c, im_a), sub) != expand_quots(c, im_t))],
                                       family='type-equivalence',
                                       sample={'obligation': 'rho_%s of the %s model equals rho_%s of the aligned model with zeta_%s = %s' % (
                                           F[f], TYPES[t], F[f], F[f], 'cot(beta)' if TABLE[t][f] == 1 else '-tan(beta)')})
                    if r == 'sat':
                        chk.violation('equiv:%s' % TYPES[t], 'C09:equiv:%s:%s' % (TYPES[t], F[f]),
                                      'the %s model and the aligned model with the corresponding zeta_%s have different rho_%s' % (
                                          TYPES[t], F[f], F[f]), '#!/bin/sh\ncd %s && exec python3-vt -m props.replay_c09 types\n' % VERIF)
    # aligned(zeta, Delta) == general with Pi = cb (rho + sqrt2 m tb/v)
    for f in range(3):
        for i in range(3):
            for j in range(3):
                re_a, im_a, p2 = c.rho[(5, f, i, j)]
                re_g, im_g, p3 = c.rho[(6, f, i, j)]
                mij = m[i] if i == j else z3.RealVal(0)
                ra = expand_quots(c, re_a)
                enc = cb * (ra + S2 * mij * tb / v)
                sub = [(V['Pi_%sr%d%d' % (F[f], i, j)], enc), (V['Pi_%si%d%d' % (F[f], i, j)], z3.RealVal(0))]
                r, mdl = chk.prove('equiv:aligned=general:rho_%s[%d,%d]' % (F[f], i, j),
                                   [tb > 0, v != 0, cb != 0] + CONST_AX + [z3.Or(z3.substitute(expand_quots(c, re_g), *sub) != ra,
                                                                                 z3.substitute(expand_quots(c, im_g), *sub) != 0)],
                                   family='type-equivalence',
                                   sample={'obligation': 'the general model with Pi_%s = cos(beta)(rho_%s + sqrt2 m tan(beta)/v) has the rho_%s of '
                                           'the aligned model (real Delta, Pi)' % (F[f], F[f], F[f])})
                if r == 'sat':
                    chk.violation('equiv:aligned=general', 'C09:equiv:general:%s' % F[f],
                                  'aligned and general parametrisations of the same couplings give different rho_%s' % F[f],
                                  '#!/bin/sh\ncd %s && exec python3-vt -m props.replay_c09 types\n' % VERIF)


def run(chk):
    chk.assumptions += [
        'REAL domain; sqrt2 and 1/sqrt2 literals idealised; tan(beta), cos(beta), v, sin/cos(beta-alpha) of the model are '
        'independent symbols (no relation between them is needed for these identities)',
        'the Yukawa type enters results only through get_zeta_f/get_rho_f/get_y*/init_yukawas (call structure of '
        'src/THDM/gm2_1loop.cpp, gm2_2loop.cpp, checked by the C19 frame analysis); equality of these for two '
        'parametrisations implies equality of every a_mu contribution computed from them',
    ]
    chk.not_covered += ['numerical (rounding-level) differences between parametrisations',
                        'running couplings: masses m_f(scale) are the same function for every type (argument of get_rho_f)']
    c = setup(chk)
    zeta_and_rho(chk, c)
    from . import C09b
    C09b.run(chk, c)
    chk.absorb_executor(c.ex)
