"""C07 - MSSM contributions decouple like 1/M_SUSY^2: dimensional analysis decided on the real code.

a_mu is dimensionless.  Every scalar function of gm2_1loop.cpp, gm2_2loop.cpp and gm2_uncertainty.cpp is executed on a
symbolic model and the solver decides that multiplying every dimensionful input (SUSY and SM masses, soft masses squared,
trilinears, renormalisation scale, VEVs) by k^dim leaves the result unchanged (log_scale scales with k): each term then
carries the right power of a mass, every loop function is evaluated at a dimensionless ratio and every logarithm is
normalised.  With the SM inputs fixed this is the statement a(k M_SUSY) = k^-2 F(MZ/(k M_SUSY), ...).
"""
import z3

from .common import *
from . import symm
from .C06 import FUNCS1, FUNCS2, FUNCS3, find_fn, extra_args, CONSTS, S2

DIM = {'log_scale': 1}


def functions(chk):
    fam = 'dimensional-analysis'
    replay = '#!/bin/sh\ncd %s && exec python3-vt -m props.replay_c07\n' % VERIF
    k = z3.Real('k')
    for harness, names in (('h_mssm_sym1', FUNCS1), ('h_mssm_sym2', FUNCS2), ('h_mssm_sym3', FUNCS3)):
        c = symm.setup(harness, CONSTS)
        sub = symm.scale_subst(c, k)
        for name in names:
            fns = find_fn(c, name)
            if not fns:
                chk.not_covered.append('scale: %s not found in %s' % (name, harness))
                continue
            chk.functions.add('gm2calc::' + name)
            for fn_ in fns:
                ea = extra_args(c, fn_)
                if ea is None:
                    continue
                variants = [ea]
                if None in ea:
                    variants = [[(g if a is None else a) for a in ea] for g in (0, 1, 2)]
                for vi, args in enumerate(variants):
                    label = name + ('' if len(fns) == 1 and len(variants) == 1 else '/%d%s' % (len(ea), '' if len(variants) == 1 else '.%d' % vi))
                    try:
                        paths = symm.run_function(c, fn_, args)
                    except Unsupported as e:
                        chk.record('scale:' + label, 'gap', str(e)[:100], family=fam)
                        chk.not_covered.append('scale: %s not executed (%s)' % (label, str(e)[:80]))
                        continue
                    factor = k ** DIM.get(name, 0) if DIM.get(name, 0) else z3.RealVal(1)
                    symm.analyse(chk, c, 'C07', label, paths, sub, factor, 'scale', fam, replay, extra_pc=[S2 > 0, S2 * S2 == 2, k >= 1],
                                 kvar=k, relations=[(S2, 2, 2)])
        chk.absorb_executor(c.ex)


def one_loop_homogeneity(chk):
    """amu1LChi0, amu1LChipm: degree -2 in (MSm, MChi, MCha, MSvmL) at fixed mixing matrices, couplings and m_mu"""
    fam = 'one-loop-homogeneity'
    replay = '#!/bin/sh\ncd %s && exec python3-vt -m props.replay_c07\n' % VERIF
    k = z3.Real('k')
    c = symm.setup('h_mssm_sym1', CONSTS)
    V = c.V
    sub = [(V['MSvmL'], k * V['MSvmL'])]
    for nm, n in (('MSm', 2), ('MChi', 4), ('MCha', 2)):
        for i in range(n):
            sub.append((V['%s%d' % (nm, i)], k * V['%s%d' % (nm, i)]))
    for name in ('amu1LChi0', 'amu1LChipm'):
        fns = find_fn(c, name)
        if not fns:
            continue
        paths = symm.run_function(c, fns[0], [])
        symm.analyse(chk, c, 'C07', name + ':1/M^2', paths, sub, 1 / (k * k), 'scale', fam, replay, extra_pc=[S2 > 0, S2 * S2 == 2, k > 0],
                     kvar=k, relations=[(S2, 2, 2)])
    chk.absorb_executor(c.ex)


def run(chk):
    chk.assumptions += [
        'REAL domain; loop functions and callees of other translation units are uninterpreted: the scaling is pushed through them only '
        'when all their arguments are invariant (dimensionless ratios), or - for Iabc - when all arguments scale with k (homogeneity of '
        'degree -2 proven on the code)',
        'mixing matrices, couplings and tan(beta) are dimensionless and kept fixed',
    ]
    chk.not_covered += ['numerical size of the O((MZ/M_SUSY)^2) corrections (|a1L(2k)/a1L(k) - 1/4| <= c (MZ/(k M))^2) and the band [0.2,0.35] '
                        'of the two-loop ratio: these depend on how the spectrum (mixing matrices) changes with the scale and on bounds of the '
                        'loop functions, which are not encoded; the uncertainty floor from above likewise',
                        '*_non_tan_beta_resummed variants']
    symm.iabc_homogeneous(chk)
    functions(chk)
