"""replay of C13/C14 witnesses against the native build of the SLHA reader units"""
import ctypes
import sys
from .common import *


def fill_guarded(lib, which, text):
    """run the native reader on `text`; the object sits in the middle of a guard buffer.
    returns (rc, object cells, guard_ok)"""
    n = 9 if which == 'matrix' else 3
    G = 64
    buf = (ctypes.c_double * (n + 2 * G))(*([-777.0] * G + [float(100 + i) for i in range(n)] + [-777.0] * G))
    f = getattr(lib, 'vx_native_read_matrix33' if which == 'matrix' else 'vx_native_read_vector3')
    f.restype = ctypes.c_int
    f.argtypes = [ctypes.c_char_p, ctypes.c_void_p]
    addr = ctypes.addressof(buf) + 8 * G
    rc = f(text.encode(), addr)
    vals = list(buf)
    guard_ok = all(v == -777.0 for v in vals[:G] + vals[G + n:])
    return rc, vals[G:G + n], guard_ok


def main():
    kind = sys.argv[1]
    if kind == 'block':
        from .C13b import native_expected
        which, text = sys.argv[2], eval(sys.argv[3])
        lib = harness_native('h_slha_blk')
        rc, cells, guard_ok = fill_guarded(lib, which, text)
        print('rc', rc, 'cells', cells, 'guards intact' if guard_ok else 'GUARD CELLS OVERWRITTEN')
        # expected content from the text itself
        idx = {}
        ntok = 3 if which == 'matrix' else 2
        for li, ln in enumerate(text.strip().split('\n')[1:]):
            t = ln.split()
            for ti in range(ntok - 1):
                idx[(li, ti)] = int(t[ti])
        exp = native_expected(which, idx, ntok)
        sys.exit(0 if (guard_ok and (rc != 0 or cells == exp)) else 1)
    if kind == 'scale':
        q, s = float(sys.argv[2]), float(sys.argv[3])
        lib = harness_native('h_slha_blk')
        f = lib.vx_native_is_at_scale
        f.restype = ctypes.c_int
        f.argtypes = [ctypes.c_char_p, ctypes.c_double]
        got = f(('Block X Q= %r\n 1 1\n' % q).encode(), s)
        want = (abs(s) < 2.220446049250313e-16) or abs(q - s) < 0.01
        print('block Q=%r scale=%r used=%r documented=%r' % (q, s, bool(got), want))
        sys.exit(0 if bool(got) == want else 1)
    if kind == 'select':
        from . import C13d
        lib = harness_native('h_slha_blk')
        got, want, text = C13d.native_select(lib, sys.argv[2])
        print(text + 'read_block("X", processor, 1000): keys processed %r, expected %r' % (got, want))
        sys.exit(0 if got == want else 1)
    if kind == 'lineclass':
        from . import C13e
        lib = harness_native('h_slha_blk')
        bad, n = C13e.native_layout_probe(lib, sys.argv[2])
        print('%d indented spellings classified by the real tokenizer' % n)
        for b in bad:
            print(b)
        sys.exit(1 if bad else 0)
    if kind == 'key':
        print('key-table witness: see check output')
        sys.exit(1)
    if kind == 'token':
        from . import C13c
        sys.exit(C13c.replay_token(sys.argv[2], sys.argv[3]))
    sys.exit(2)


if __name__ == '__main__':
    main()
