"""C02 part 2: small-argument expansions inside Phi (arguments of the dilogarithms)."""
import math
from fractions import Fraction as Fr
import mpmath
import z3

from .common import *
from .ffcommon import *

QDRT_EPS = (10 * 2.220446049250313e-16) ** 0.25


def mp_phi_pos(u, v):
    """Phi(u,v) (Davydychev-Tausk / arXiv:1607.06292 (68)) for lambda^2 > 0, u,v <= 1, with the exact roots"""
    mpmath.mp.dps = 60
    u, v = mpmath.mpf(u), mpmath.mpf(v)
    lam = mpmath.sqrt((1 - u - v) ** 2 - 4 * u * v)
    X = (1 - lam + u - v) / 2
    Y = (1 - lam - u + v) / 2
    return (-mpmath.log(u) * mpmath.log(v) + 2 * mpmath.log(X) * mpmath.log(Y) - 2 * mp_li2(X) - 2 * mp_li2(Y)
            + mpmath.pi ** 2 / 3) / lam


def run(chk, mod, lib):
    fn = 'vx_phi_pos'
    chk.functions.add('gm2calc::(anon)::phi_pos / luv / l00 / l0v / lv0')
    u, v = z3.Real('u'), z3.Real('v')
    L = z3.Real('lambda_exact')
    exact = [L >= 0, L * L == (1 - u - v) * (1 - u - v) - 4 * u * v]
    X = (1 - L + u - v) / 2
    Y = (1 - L - u + v) / 2
    nf = native_fn(lib, fn, 2)
    for mode in ('equal', 'ordered'):
        ex = executor(mod, RealDom(), ufs=LEAF_UFS)
        if mode == 'equal':
            args = [u, u]
            dom = [u >= zr(Fr(1, 10 ** 6)), u <= zr(Fr(24, 100)), v == u]
        else:
            args = [u, v]
            dom = [u >= zr(Fr(1, 10 ** 6)), v <= zr(Fr(98, 100)), u < v]
        st = ex.start(fn, args)
        st.pc += dom
        # lambda^2 > 0 is the precondition of phi_pos
        st.pc.append((1 - u - v) * (1 - u - v) - 4 * u * v > zr(Fr(1, 10 ** 6)))
        paths = ex.explore(st)
        chk.absorb_executor(ex)
        for i, p in enumerate(paths):
            tag = 'phi_pos:%s#%d' % (mode, i)
            if p.outcome[0] != 'ret' or isinstance(p.retval, float):
                chk.record(tag, 'inconclusive', 'abnormal path %r' % (p.outcome,))
                chk.inconclusive.append(tag)
                continue
            li = [(a[0], r) for (k, a, r) in [ex.leaves[j] for j in p.leaves] if k == 'li2']
            if not li:
                continue
            targets = [X] if len(li) == 1 else [X, Y]
            if len(li) != len(targets):
                chk.record(tag, 'inconclusive', '%d dilogarithm arguments on the path' % len(li))
                chk.inconclusive.append(tag)
                continue
            tol = zr(Fr(1, 10 ** 7))

            def close(a_, t_):
                return z3.And(a_ - t_ <= tol * t_, t_ - a_ <= tol * t_)
            if len(li) == 1:
                good = close(li[0][0], X)
            else:
                # Phi is symmetric in the two roots: the pair may be returned in either order
                good = z3.Or(z3.And(close(li[0][0], X), close(li[1][0], Y)),
                             z3.And(close(li[0][0], Y), close(li[1][0], X)))
            for nm in ('roots',):
                r, m = chk.prove(tag + ':' + nm, p.pc + dom + exact + [z3.Not(good)], timeout_ms=60000,
                                 family='phi-expansions',
                                 sample={'obligation': 'Phi: the dilogarithm arguments computed on this path (series in '
                                         'u,v or closed form) equal the roots (1 - lambda +- (u - v))/2 to 1e-7 relative '
                                         'for all u,v of the regime'})
                if r == 'sat':
                    uf_, vf_ = float(m.real(u)), float(m.real(v) if mode == 'ordered' else m.real(u))
                    got = nf(uf_, vf_)
                    ref = mp_phi_pos(uf_, vf_)
                    chk.traces_validated += 1
                    err = abs(mpmath.mpf(got) - ref) / abs(ref)
                    if err > 1e-6:
                        chk.violation(tag, 'C02:Phi:small-argument-series',
                                      'phi_pos(%r, %r) = %r but with exact roots the definition gives %s (rel. err %s)' % (
                                          uf_, vf_, got, mpmath.nstr(ref, 15), mpmath.nstr(err, 3)),
                                      '#!/bin/sh\ncd %s && exec python3-vt -m props.replay_phi %r %r\n' % (VERIF, uf_, vf_))
                    else:
                        # the series may be less accurate than 1e-10 without breaking 1e-6 on Phi: find the worst point
                        chk.record(tag + ':' + nm, 'inconclusive', 'argument deviates at u=%g v=%g but Phi agrees to %s' % (
                            uf_, vf_, mpmath.nstr(err, 3)))
                        chk.inconclusive.append(tag + ':' + nm)
