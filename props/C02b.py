def run(chk, mod, lib):
    pass
