"""replay of a Phi small-argument witness"""
import sys
import mpmath
from .common import *
from .C02b import mp_phi_pos


def main():
    u, v = float(sys.argv[1]), float(sys.argv[2])
    lib = harness_native('h_ff')
    got = native_fn(lib, 'vx_phi_pos', 2)(u, v)
    ref = mp_phi_pos(u, v)
    err = abs(mpmath.mpf(got) - ref) / abs(ref)
    print('phi_pos(%r,%r) = %r, with exact roots %s, rel. err %s' % (u, v, got, mpmath.nstr(ref, 15), mpmath.nstr(err, 3)))
    sys.exit(1 if err > 1e-6 else 0)


if __name__ == '__main__':
    main()
