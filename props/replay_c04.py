"""replay for C04: native tree-level spectrum of 200 random parameter points vs independent expressions"""
import os
import subprocess
import sys
from symx import build


def main():
    if len(sys.argv) > 1 and sys.argv[1] == 'polecopies':
        from . import C04c
        path = C04c.gen_harness(C04c.fields())
        bad = C04c.native_mismatches(path)
        print('copy_DRbar_masses_to_pole_masses on three computed spectra: %s' % ('; '.join(bad) if bad else 'all pole fields equal the DR-bar fields'))
        sys.exit(1 if bad else 0)
    exe = build.build_tool(os.path.join(os.path.dirname(os.path.dirname(os.path.abspath(__file__))), 'replay', 'c04_driver.cpp'),
                           'c04_driver')
    sys.exit(subprocess.call([exe]))


if __name__ == '__main__':
    main()
