"""replay for C04: native tree-level spectrum of 200 random parameter points vs independent expressions"""
import os
import subprocess
import sys
from symx import build


def main():
    exe = build.build_tool(os.path.join(os.path.dirname(os.path.dirname(os.path.abspath(__file__))), 'replay', 'c04_driver.cpp'),
                           'c04_driver')
    sys.exit(subprocess.call([exe]))


if __name__ == '__main__':
    main()
