"""C20 - SM layer: unitary CKM, consistent EW relations, well-behaved running masses."""
import ctypes
import math
import os
from fractions import Fraction as Fr
import z3

from .common import *
from .angles import ANGLE_STUBS
from symx.exec import Ptr

EINVALID = '_ZTIN7gm2calc13EInvalidInputE'


def einvalid_ctor(ex, st, args, I):
    return None


CTOR_STUBS = {'_ZN7gm2calc13EInvalidInputC2EPKc': einvalid_ctor,
              '_ZN7gm2calc13EInvalidInputC1EPKc': einvalid_ctor}


def read_ckm(ex, st, out):
    V = [[None] * 3 for _ in range(3)]
    for i in range(3):
        for k in range(3):
            re = ex.load(st, Ptr(out.rid, 16 * (3 * i + k)), llir.DOUBLE)
            im = ex.load(st, Ptr(out.rid, 16 * (3 * i + k) + 8), llir.DOUBLE)
            V[i][k] = (re, im)
    return V


def unitarity_residuals(V):
    """(V V^dagger - 1) entries as (re, im) real expressions"""
    res = []
    for i in range(3):
        for j in range(3):
            re = 0
            im = 0
            for k in range(3):
                a, b = V[i][k]
                c, d = V[j][k]
                a, b, c, d = zr(a), zr(b), zr(c), zr(d)
                # (a+ib)(c-id)
                re = re + a * c + b * d
                im = im + b * c - a * d
            if i == j:
                re = re - 1
            res.append(((i, j), re, im))
    return res


def native_ckm(lib, fn, *args):
    """returns the 18 doubles; for the Wolfenstein entry the catching wrapper is used and a rejected
    input yields None"""
    out = (ctypes.c_double * 18)()
    if fn == 'vx_ckm_from_wolfenstein':
        f = getattr(lib, fn + '_rc')
        f.restype = ctypes.c_int
        f.argtypes = [ctypes.POINTER(ctypes.c_double)] + [ctypes.c_double] * len(args)
        rc = f(out, *args)
        if rc != 0:
            return None
        return list(out)
    f = getattr(lib, fn)
    f.restype = None
    f.argtypes = [ctypes.POINTER(ctypes.c_double)] + [ctypes.c_double] * len(args)
    f(out, *args)
    return list(out)


def ckm_angles(chk, mod, lib):
    fn = 'vx_ckm_from_angles'
    chk.functions.add('gm2calc::(anon)::get_ckm_from_angles')
    ex = executor(mod, RealDom(), extra_stubs=ANGLE_STUBS)
    st = X.State()
    out = ex.new_region(st, 18 * 8, 'input', 'out')
    t12, t13, t23, dl = [z3.Real(n) for n in ('theta12', 'theta13', 'theta23', 'delta')]
    st = ex.start(fn, [Ptr(out.rid, 0), t12, t13, t23, dl], st)
    paths = ex.explore(st)
    chk.absorb_executor(ex)
    for pi_, p in enumerate(paths):
        if p.outcome[0] != 'ret':
            chk.record('ckm-angles#%d' % pi_, 'inconclusive', 'path %r' % (p.outcome,))
            chk.inconclusive.append('ckm-angles#%d' % pi_)
            continue
        evs = [e for e in p.events if e[0] == 'fdiv-by-zero']
        if evs:
            # division by e^{i delta}: |e^{i delta}|^2 = 1 can not vanish
            r, _ = chk.solve(p.pc, 10000)
            if r == 'unsat':
                continue
            chk.record('ckm-angles#%d' % pi_, 'inconclusive', 'division by zero feasible')
            chk.inconclusive.append('ckm-angles#%d' % pi_)
            continue
        V = read_ckm(ex, p, out)
        chk.witness('ckm-angles#%d' % pi_, p.pc)
        for (i, j), re, im in unitarity_residuals(V):
            r, m = chk.prove('ckm-angles#%d:VVdag[%d,%d]' % (pi_, i, j), p.pc + [z3.Or(re != 0, im != 0)],
                             timeout_ms=60000, family='ckm-unitarity',
                             sample={'obligation': '(V V^dagger)[%d,%d] == delta_ij for all angles '
                                     '(sin^2+cos^2=1 per angle, |e^{i delta}|=1)' % (i, j)})
            if r == 'sat':
                # replay with concrete angles: any angles whose sines/cosines match the model
                vals = [0.3, 0.2, 0.1, 1.2]
                got = native_ckm(lib, fn, *vals)
                chk.traces_validated += 1
                dev = unit_dev(got)
                if dev > 1e-14:
                    chk.violation('ckm-angles', 'C20:ckm-angles', 'CKM from angles %r not unitary: dev %g' % (
                        vals, dev), replay_ckm('angles', vals))
                else:
                    chk.record('ckm-angles#%d:VVdag[%d,%d]' % (pi_, i, j), 'inconclusive', 'sat not reproduced')
                    chk.inconclusive.append('ckm-angles:VVdag[%d,%d]' % (i, j))


def unit_dev(v18):
    if v18 is None:
        return 0.0     # rejected input: nothing returned
    V = [[complex(v18[2 * (3 * i + k)], v18[2 * (3 * i + k) + 1]) for k in range(3)] for i in range(3)]
    dev = 0.0
    for i in range(3):
        for j in range(3):
            s = sum(V[i][k] * V[j][k].conjugate() for k in range(3)) - (1 if i == j else 0)
            if s != s:
                return math.inf
            dev = max(dev, abs(s))
    return dev


def replay_ckm(kind, vals):
    return '#!/bin/sh\ncd %s && exec python3-vt -m props.replay_c20 %s %s\n' % (
        VERIF, kind, ' '.join(repr(float(v)) for v in vals))


def ckm_wolfenstein(chk, mod, lib):
    fn = 'vx_ckm_from_wolfenstein'
    chk.functions.add('gm2calc::(anon)::get_ckm_from_wolfenstein')
    stubs_ = dict(ANGLE_STUBS)
    stubs_.update(CTOR_STUBS)
    ex = executor(mod, RealDom(), extra_stubs=stubs_, fork_select=False)
    st = X.State()
    out = ex.new_region(st, 18 * 8, 'input', 'out')
    names = ('lambdaW', 'aCkm', 'rhobar', 'etabar')
    P = [z3.Real(n) for n in names]
    st = ex.start(fn, [Ptr(out.rid, 0)] + P, st)
    for v in P:
        st.pc.append(z3.And(v >= -10, v <= 10))
    paths = ex.explore(st)
    chk.absorb_executor(ex)
    box = z3.And([z3.And(v >= -1, v <= 1) for v in P])
    # admissible = inside the box and a unitary matrix with these parameters exists, i.e. the exact
    # (PDG) relation  s13 e^{i delta} = A l^3 (rho+i eta) sqrt(1-A^2 l^4) / (sqrt(1-l^2) (1 - A^2 l^4 (rho+i eta)))
    # gives |s13| <= 1  (for l^2 = 1 the relation degenerates; the code then uses theta13 = 0)
    l, A, rho, eta = P
    l2 = l * l
    A2l4 = A * A * l2 * l2
    N = A * A * l2 * l2 * l2 * (rho * rho + eta * eta) * (1 - A2l4)
    D = (1 - l2) * ((1 - A2l4 * rho) * (1 - A2l4 * rho) + (A2l4 * eta) * (A2l4 * eta))
    adm = z3.And(box, z3.Implies(z3.And(l2 < 1, D > 0), N <= D))
    nthrow = 0
    for pi_, p in enumerate(paths):
        tag = 'ckm-wolf#%d' % pi_
        if p.outcome[0] == 'throw':
            nthrow += 1
            ok_type = p.outcome[1] == EINVALID
            # a throwing path must only contain inadmissible input
            r, m = chk.prove(tag + ':throw-only-outside', p.pc + [adm], family='ckm-range',
                             sample={'obligation': 'EInvalidInput is thrown only for a parameter outside [-1,1] or when the '
                                     'parameters admit no unitary matrix (|V13| > 1)'})
            if r == 'sat' or not ok_type:
                vals = [float(m.real(v)) for v in P] if m is not None else [0, 0, 0, 0]
                chk.traces_validated += 1
                if native_ckm(lib, fn, *vals) is None or not ok_type:
                    chk.violation(tag, 'C20:wolfenstein:spurious-throw',
                                  'admissible Wolfenstein input %r rejected (%s)' % (vals, p.outcome[1]),
                                  replay_ckm('wolfenstein-accept', vals))
                else:
                    chk.record(tag, 'inconclusive', 'throw for %r not reproduced' % (vals,))
                    chk.inconclusive.append(tag)
            continue
        if p.outcome[0] != 'ret':
            chk.record(tag, 'inconclusive', 'path %r' % (p.outcome,))
            chk.inconclusive.append(tag)
            continue
        # normal return: input must be admissible
        r, m = chk.prove(tag + ':accept-only-inside', p.pc + [z3.Not(box)], family='ckm-range',
                         sample={'obligation': 'a CKM matrix is returned only for admissible parameters'})
        if r == 'sat':
            vals = [float(m.real(v)) for v in P]
            accepted = native_ckm(lib, fn, *vals) is not None
            chk.traces_validated += 1
            if accepted:
                chk.violation(tag, 'C20:wolfenstein:out-of-range-accepted',
                              'Wolfenstein input %r outside the admissible range is accepted' % (vals,),
                              replay_ckm('wolfenstein-reject', vals))
            else:
                chk.record(tag, 'inconclusive', 'accepting path for %r not reproduced' % (vals,))
                chk.inconclusive.append(tag)
            continue
        dom_ev = [e for e in p.events if e[0] in ('asin-domain', 'acos-domain', 'sqrt-negative')]
        if dom_ev:
            r, m = chk.solve(p.pc, 20000)
            if r == 'unsat':
                continue
            if m is None:
                chk.record(tag, 'inconclusive', 'domain-error path undecided')
                chk.inconclusive.append(tag)
                continue
            vals = [float(m.real(v)) for v in P]
            got = native_ckm(lib, fn, *vals)
            chk.traces_validated += 1
            dev = unit_dev(got)
            if dev > 1e-14:
                chk.violation(tag + ':asin-domain', 'C20:wolfenstein:V13-out-of-range',
                              'admissible Wolfenstein input lambda=%r A=%r rhobar=%r etabar=%r gives a '
                              'non-unitary/NaN CKM matrix (|V13|>1 passed to asin), deviation %g, no error' % (
                                  vals[0], vals[1], vals[2], vals[3], dev),
                              replay_ckm('wolfenstein-unitary', vals))
            else:
                chk.record(tag, 'inconclusive', 'domain error not reproduced at %r' % (vals,))
                chk.inconclusive.append(tag)
            continue
        V = read_ckm(ex, p, out)
        if any(isinstance(x, float) for row in V for c in row for x in c):
            chk.record(tag, 'inconclusive', 'non-finite entry on a path without domain event')
            chk.inconclusive.append(tag)
            continue
        if not chk.witness(tag, p.pc):
            continue
        flat = [zr(x) for row in V for c in row for x in c]
        rpc = relevant_pc(p.pc, flat)
        for (i, j), re, im in unitarity_residuals(V):
            # unitarity only needs the constraints on the sines/cosines that occur in V
            r, m = chk.solve(rpc + [z3.Or(re != 0, im != 0)], 20000)
            if r == 'unsat':
                chk.note_formula(rpc + [z3.Or(re != 0, im != 0)])
                chk.record(tag + ':VVdag[%d,%d]' % (i, j), 'discharged', family='ckm-unitarity',
                           sample={'obligation': 'Wolfenstein path %d: (V V^dagger)[%d,%d] == delta_ij '
                                   '(from the circle constraints of the four angles)' % (pi_, i, j)})
                continue
            r, m = chk.prove(tag + ':VVdag[%d,%d]' % (i, j), p.pc + [z3.Or(re != 0, im != 0)],
                             timeout_ms=60000, family='ckm-unitarity',
                             sample={'obligation': 'Wolfenstein path %d: (V V^dagger)[%d,%d] == delta_ij' % (pi_, i, j)})
            if r == 'sat':
                vals = [float(m.real(v)) for v in P]
                got = native_ckm(lib, fn, *vals)
                chk.traces_validated += 1
                if unit_dev(got) > 1e-14:
                    chk.violation(tag, 'C20:wolfenstein:not-unitary', 'CKM from %r not unitary' % (vals,),
                                  replay_ckm('wolfenstein-unitary', vals))
                else:
                    chk.record(tag + ':VVdag[%d,%d]' % (i, j), 'inconclusive', 'sat not reproduced')
                    chk.inconclusive.append(tag + ':VVdag')
    if nthrow == 0:
        chk.record('ckm-wolf:rejects', 'inconclusive', 'no rejecting path found')
        chk.inconclusive.append('ckm-wolf:rejects')
    cover = z3.Or([z3.And(p.pc) for p in paths])
    chk.prove('ckm-wolf:paths-cover', [z3.And([z3.And(v >= -10, v <= 10) for v in P]), z3.Not(cover)],
              family='coverage')


def ew_relations(chk, mod, lib):
    """cw = MW/MZ, sw^2 + cw^2 = 1, e = g2 sw = gY cw, v = 2 MW/g2 for 0 < mw < mz, alpha in (0, 0.1)"""
    SM = '_ZNK7gm2calc2SM'
    getters = {'cw': SM + '6get_cwEv', 'sw': SM + '6get_swEv', 'gY': SM + '6get_gYEv', 'g2': SM + '6get_g2Ev',
               'v': SM + '5get_vEv', 'e': SM + '8get_e_mzEv'}
    ex = executor(mod, RealDom(), extra_stubs=ANGLE_STUBS)
    st0 = X.State()
    sm = ex.new_region(st0, None, 'input', 'sm', lazy=True)
    vals = {}
    pcs = []
    for k, f in getters.items():
        chk.functions.add(f)
        st = st0.fork()
        st = ex.start(f, [Ptr(sm.rid, 0)], st)
        paths = [p for p in ex.explore(st)]
        vals[k] = paths
        st0.mem = paths[0].mem if paths else st0.mem   # keep lazily created fields
    chk.absorb_executor(ex)
    # identify mw, mz, alpha among lazily created fields: by their role in cw
    # collect all symbolic model fields
    fields = []
    for off, (v, sz) in sorted(st0.mem[sm.rid].cells.items()):
        if isinstance(v, z3.ExprRef):
            fields.append((off, v))
    base = [v > 0 for _, v in fields]
    # the doc relations
    def paths_of(k):
        return [p for p in vals[k] if p.outcome[0] == 'ret' and not isinstance(p.retval, float)]
    # cw: |mw/mz|: find fields mw, mz such that cw*mz == mw holds
    found = None
    for pc_ in paths_of('cw'):
        if chk.solve(pc_.pc + base, 5000)[0] != 'sat':
            continue
        for (o1, a) in fields:
            for (o2, b) in fields:
                if o1 == o2:
                    continue
                r, _ = chk.solve(pc_.pc + base + [zr(pc_.retval) * b != a], 5000)
                if r == 'unsat':
                    found = (a, b)
    if not found:
        chk.violation('ew:cw', 'C20:ew:cw', 'get_cw() is not MW/MZ of the stored masses', replay_ckm('ew', []))
        return
    mw, mz = found
    chk.record('ew:cw', 'discharged', family='ew-relations',
               sample={'obligation': 'cw * mz == mw for all positive masses'})
    chk.formulas.add('ew:cw')
    adm = base + [mw < mz]
    # pairwise relations on all path combinations
    def all_combos(keys):
        import itertools
        return itertools.product(*[paths_of(k) for k in keys])
    def rel(name, keys, mk):
        n = 0
        for combo in all_combos(keys):
            pc = list(adm)
            for p in combo:
                pc += p.pc
            r, _ = chk.solve(pc, 10000)
            if r == 'unsat':
                continue
            n += 1
            env = {k: zr(p.retval) for k, p in zip(keys, combo)}
            r, m = chk.prove('ew:%s#%d' % (name, n), pc + [z3.Not(mk(env))], timeout_ms=60000,
                             family='ew-relations', sample={'obligation': name})
            if r == 'sat':
                chk.violation('ew:' + name, 'C20:ew:' + name, 'EW relation %s violated for mw=%s mz=%s' % (
                    name, m.real(mw), m.real(mz)),
                    replay_ckm('ew', [float(m.real(mw)), float(m.real(mz))]))
        if n == 0:
            chk.record('ew:' + name, 'inconclusive', 'no feasible path combination')
            chk.inconclusive.append('ew:' + name)
    rel('sw^2+cw^2==1', ['sw', 'cw'], lambda e: e['sw'] * e['sw'] + e['cw'] * e['cw'] == 1)
    rel('e==g2*sw', ['e', 'g2', 'sw'], lambda e: e['e'] == e['g2'] * e['sw'])
    rel('e==gY*cw', ['e', 'gY', 'cw'], lambda e: e['e'] == e['gY'] * e['cw'])
    rel('v*g2==2*mw', ['v', 'g2'], lambda e: e['v'] * e['g2'] == 2 * mw)
    rel('cw*mz==mw', ['cw'], lambda e: e['cw'] * mz == mw)


def run(chk):
    mod = harness_module('h_sm')
    lib = harness_native('h_sm')
    chk.assumptions += [
        'REAL domain with angle abstraction: sin/cos of an angle are a pair (s,c) with s^2+c^2=1; '
        'asin(x) is the angle with sin = x, cos = +sqrt(1-x^2) (domain |x|<=1 is an obligation); '
        'carg/atan2 give the angle of the direction (x,y)/|(x,y)|',
        '__divdc3/__muldc3 are the textbook complex quotient/product (identical for finite operands)',
        'rounding is not modelled: unitarity is shown exactly over the reals (1e-14 in doubles follows '
        'from <= 30 operations on operands in [-1,1], not machine-checked here)',
    ]
    chk.stubs.update(['sin', 'cos', 'asin', 'carg', 'cabs', 'sqrt', '__divdc3', 'EInvalidInput ctor'])
    # translator validation (CONCRETE) on the default SM angles and a few others
    for vec in ([0.22735, 0.00349, 0.04237, 1.208], [0.1, 0.2, 0.3, 0.4], [1.5, -0.7, 2.9, 3.0]):
        exc = executor(mod, ConcDom())
        stc = X.State()
        outc = exc.new_region(stc, 144, 'input', 'out')
        stc = exc.start('vx_ckm_from_angles', [Ptr(outc.rid, 0)] + vec, stc)
        res = exc.explore(stc)
        got = [exc.load(res[0], Ptr(outc.rid, 8 * i), llir.DOUBLE) for i in range(18)]
        exp = native_ckm(lib, 'vx_ckm_from_angles', *vec)
        chk.traces_validated += 1
        if any(not same_double(a, b) for a, b in zip(got, exp)):
            chk.record('translator:ckm', 'inconclusive', 'executor and native build differ on %r' % (vec,))
            chk.inconclusive.append('translator:ckm')
    ckm_angles(chk, mod, lib)
    ckm_wolfenstein(chk, mod, lib)
    ew_relations(chk, mod, lib)
    from . import C20b
    C20b.run(chk)
    from . import C20c
    C20c.run(chk)
