"""C13 - SLHA input is interpreted by content, not by layout (the units GM2Calc itself writes on top of
the SLHAea tokenizer: key tables, scale selection, numeric token conversion, config readers)."""
import ctypes
import math
import os
from fractions import Fraction as Fr
import z3

from .common import *
from . import slhagen
from oracle import slha_keys as K
from symx.exec import Ptr, ThrowSignal, PathEnd, NULL
from symx.domains import FPDom, fpval, FP64, RNE

EINVALID = '_ZTIN7gm2calc13EInvalidInputE'
EREAD = '_ZTIN7gm2calc10EReadErrorE'

# message formatting: no influence on the decided properties (DESIGN 2.4)
STRING_PREFIXES = (
    '_ZNSt7__cxx1112basic_stringIcSt11char_traitsIcESaIcEE',    # std::string members
    '_ZNKSt7__cxx1112basic_stringIcSt11char_traitsIcESaIcEE',
    '_ZStplIcSt11char_traitsIcESaIcEE',                          # operator+
    '_ZN5boost', '_ZNK5boost',
    '_ZN7gm2calc12_GLOBAL__N_19to_string',                        # lexical_cast wrapper
    '_ZN7gm2calc13EInvalidInputC', '_ZN7gm2calc10EReadErrorC', '_ZN7gm2calc5ErrorC',
    '_ZN7gm2calc13EInvalidInputD', '_ZN7gm2calc10EReadErrorD',
    '_ZNSt13runtime_errorC', '_ZNSt13runtime_errorD', '_ZNSt11logic_errorC', '_ZNSt11logic_errorD',
    '_ZNSt9exceptionD', '_ZNSt16invalid_argumentC', '_ZNSt12out_of_rangeC', '_ZNSt12domain_errorC',
    '_ZNSt8ios_base', '_ZNSt6locale', '_ZNSt9basic_ios', '_ZNSt15basic_streambuf',
    '_ZNSt7__cxx1115basic_stringbuf', '_ZNSt7__cxx1119basic_ostringstream',
    '_ZNSt7__cxx1118basic_stringstream', '_ZNSt13basic_ostream', '_ZNSt14basic_iostream',
)


def skip_formatting(ex):
    """route message-formatting library calls to a no-op"""
    orig_do_call = ex.do_call

    def is_fmt(name):
        return name is not None and name.startswith(STRING_PREFIXES)

    def noop(ex_, st, args, I):
        st.event('formatting-call', name=ex_.callee_name(st, st.frames[-1], I)[:60])
        rt = ex_.m.resolve(I['ty'])
        if isinstance(rt, llir.VoidT):
            return None
        return ex_.fresh_of(st, rt, 'fmt')

    class Lookup(dict):
        def get(self, k, d=None):
            v = dict.get(self, k)
            if v is not None:
                return v
            if is_fmt(k):
                return noop
            return d
    ex.stubs = Lookup(ex.stubs)
    ex.fast_throw = True
    return ex


def undefined_call_recorder(ex, st, name, args, I):
    st.event('extcall', name=name, args=list(args))
    rt = ex.m.resolve(I['ty'])
    if isinstance(rt, llir.VoidT):
        return None
    if isinstance(rt, llir.PtrT):
        # accessor returning a reference (e.g. get_physical()): the same sub-object every time
        key = ('extptr', name.replace('_ZNK', '_ZN')) + tuple((a.rid, a.off) if isinstance(a, Ptr) else None for a in args)
        hit = ex.leaf_memo.get(key)
        if hit is None:
            reg = ex.new_region(st, None, 'input', 'obj', lazy=True)
            hit = reg.rid
            ex.leaf_memo[key] = hit
            ex.extra_obj_rids = getattr(ex, 'extra_obj_rids', set()) | {hit}
        if hit not in st.mem:
            from symx.exec import Region
            st.mem[hit] = Region(hit, None, 'input', 'obj', lazy=True)
        return Ptr(hit, 0)
    return ex.fresh_of(st, rt, 'ext')


def write_recorder(obj_rid):
    def hook(st, r, off, size, v):
        if r.rid == obj_rid or (r.kind == 'input' and r.name == 'obj'):
            st.data['writes'] = st.data.get('writes', ()) + (((r.rid, off), size, v),)
    return hook


def transform_neg(tr, ret, v, old):
    """constraints expressing: ret is NOT the documented transform of v"""
    ret = zr(ret)
    if tr == 'id':
        return [ret != v]
    if tr == 'signed_sqr':
        return [ret != z3.If(v >= 0, v * v, -(v * v))]
    if tr == 'inv':
        return [v != 0, ret * v != 1]
    if tr == 'sqrt4pi':
        fourpi = zr(Fr(4 * 3.14159265358979323846))
        return [v >= 0, z3.Or(ret < 0, ret * ret - fourpi * v > zr(Fr(1, 10 ** 15)) * fourpi * v,
                              fourpi * v - ret * ret > zr(Fr(1, 10 ** 15)) * fourpi * v)]
    raise ValueError(tr)


def processors(chk, mod):
    key = z3.BitVec('key', 32)
    val = z3.Real('value')
    for pname, (ctype, fn, table) in K.PROCESSORS.items():
        fsym = 'vx_proc_' + pname
        chk.functions.add('gm2calc::(anon)::%s(%s&,int,double)' % (fn, ctype))
        ex = skip_formatting(executor(mod, RealDom(), fork_select=False))
        ex.undefined_handler = undefined_call_recorder
        st = X.State()
        obj = ex.new_region(st, None, 'input', 'obj', lazy=True)
        ex.write_hook = write_recorder(obj.rid)
        st = ex.start(fsym, [Ptr(obj.rid, 0), key, val], st)
        try:
            paths = ex.explore(st)
        except Unsupported as e:
            chk.record('keys:%s' % pname, 'inconclusive', 'executor: %s' % e)
            chk.inconclusive.append('keys:%s' % pname)
            continue
        chk.absorb_executor(ex)
        seen_keys = {}
        offsets = {}
        for p in paths:
            # which key does this path handle?
            r, m = chk.solve(p.pc, 10000)
            if r != 'sat':
                continue
            k = m.bv(key)
            if k >= 1 << 31:
                k -= 1 << 32
            single, _ = chk.solve(p.pc + [key != z3.BitVecVal(k, 32)], 10000)
            writes = [w for w in p.data.get('writes', ()) if True]
            tag = 'keys:%s[%s]' % (pname, k if single == 'unsat' else 'other')
            if p.outcome[0] != 'ret':
                if p.outcome[0] in ('throw', 'ub') and any(sp and sp[0] == 'call' for sp in [table.get(k)]):
                    continue      # e.g. invalid Yukawa type: decided in C16
                chk.record(tag, 'inconclusive', 'path %r' % (p.outcome,))
                chk.inconclusive.append(tag)
                continue
            if single != 'unsat':
                # default path: all keys not handled individually -> must not touch the object
                docd = [kk for kk in table if chk.solve(p.pc + [key == z3.BitVecVal(kk & 0xffffffff, 32)], 5000)[0] == 'sat']
                missing = [kk for kk in docd if table[kk] is not None]
                if writes:
                    chk.violation(tag, 'C13:%s:unknown-key-writes' % pname,
                                  '%s: an undocumented key (e.g. %d) modifies the model' % (fn, k), None)
                elif missing:
                    chk.violation(tag, 'C13:%s:key-%d-ignored' % (pname, missing[0]),
                                  '%s: documented key %d is ignored' % (fn, missing[0]),
                                  replay_key(pname, missing[0]))
                else:
                    chk.record(tag, 'discharged', family='key-tables',
                               sample={'obligation': '%s: every key outside the documented table leaves the '
                                       'object untouched (%d documented keys)' % (fn, len(table))})
                    chk.formulas.add(tag)
                continue
            seen_keys[k] = True
            spec = table.get(k, 'undocumented')
            if spec == 'undocumented':
                if writes:
                    chk.violation(tag, 'C13:%s:undocumented-key-%d' % (pname, k),
                                  '%s: key %d is not documented but modifies the model' % (fn, k), None)
                else:
                    chk.record(tag, 'discharged', family='key-tables')
                    chk.formulas.add(tag)
                continue
            if spec is None:
                if writes:
                    chk.violation(tag, 'C13:%s:ignored-key-%d-writes' % (pname, k),
                                  '%s: key %d is documented as ignored but modifies the model' % (fn, k),
                                  replay_key(pname, k))
                else:
                    chk.record(tag, 'discharged', family='key-tables')
                    chk.formulas.add(tag)
                continue
            if spec[0] == 'call':
                calls = [e for e in p.events if e[0] == 'extcall' and spec[1] in e[1]['name']]
                if not calls:
                    chk.violation(tag, 'C13:%s:key-%d' % (pname, k),
                                  '%s: key %d does not reach %s' % (fn, k, spec[1]), replay_key(pname, k))
                else:
                    chk.record(tag, 'discharged', family='key-tables',
                               sample={'obligation': '%s: key %d forwards the value to %s' % (fn, k, spec[1])})
                    chk.formulas.add(tag)
                continue
            accessor, tr = spec
            # run the documented accessor on the post-state
            st2 = p.fork()
            st2.outcome = None
            st2.frames = []
            ex.write_hook = None
            st2 = ex.start('vx_acc_%s_%s' % (pname, slhagen.keyname(k)), [Ptr(obj.rid, 0)], st2)
            acc_paths = ex.explore(st2)
            ex.write_hook = write_recorder(obj.rid)
            ok_all = True
            for ap in acc_paths:
                if ap.outcome[0] != 'ret':
                    ok_all = False
                    continue
                if isinstance(ap.retval, float):
                    # NaN from sqrt of a negative value: only outside the transform's domain
                    r, _ = chk.solve(ap.pc + ([val >= 0] if tr == 'sqrt4pi' else [val != 0] if tr == 'inv' else []), 5000)
                    if r != 'unsat':
                        chk.record(tag, 'inconclusive', 'accessor returns a non-finite value')
                        chk.inconclusive.append(tag)
                    continue
                if tr == 'nonzero':
                    # MASS[24]: the W mass is overwritten unless the entry is (numerically) zero
                    eps = zr(Fr(2.220446049250313e-16))
                    neg = [z3.Or(val >= eps, val <= -eps), zr(ap.retval) != val]
                else:
                    neg = transform_neg(tr, ap.retval, val, None)
                r, m2 = chk.prove(tag, ap.pc + neg, family='key-tables',
                                  sample={'obligation': '%s: after key %d the documented accessor `%s` returns '
                                          '%s(value), for every value' % (fn, k, accessor, tr)})
                if r == 'sat':
                    ok_all = False
                    chk.violation(tag, 'C13:%s:key-%d' % (pname, k),
                                  '%s: key %d does not set %s to %s(value) (value=%s)' % (
                                      fn, k, accessor, tr, m2.real(val)), replay_key(pname, k))
            # exactly one parameter written
            dbl_writes = [w for w in writes if w[1] == 8]
            if len(set(w[0] for w in dbl_writes)) > 1:
                chk.violation(tag + ':extra-writes', 'C13:%s:key-%d-extra' % (pname, k),
                              '%s: key %d modifies %d parameters' % (fn, k, len(set(w[0] for w in dbl_writes))),
                              replay_key(pname, k))
            for w in dbl_writes:
                offsets.setdefault(w[0], []).append(k)
        for off, ks in offsets.items():
            if len(set(ks)) > 1:
                chk.violation('keys:%s:alias' % pname, 'C13:%s:alias-%s' % (pname, '-'.join(map(str, sorted(set(ks))))),
                              '%s: keys %r write the same parameter' % (fn, sorted(set(ks))), None)
        for k, spec in table.items():
            if k not in seen_keys and spec is not None:
                chk.violation('keys:%s[%d]:unhandled' % (pname, k), 'C13:%s:key-%d-ignored' % (pname, k),
                              '%s: documented key %d is not handled' % (fn, k), replay_key(pname, k))


def replay_key(pname, k):
    return '#!/bin/sh\ncd %s && exec python3-vt -m props.replay_c13 key %s %d\n' % (VERIF, pname, k)


def run(chk):
    mod = slhagen.module()
    chk.assumptions += [
        'message formatting (std::string operations, boost::lexical_cast/format, exception constructors) '
        'has no influence on the decided properties and is skipped',
        'out-of-line model setters reached from the key tables (set_alpha_MZ, set_alpha_thompson, set_TB, '
        'int_to_cpp_yukawa_type) are recorded as calls; their effect is the subject of C04/C16',
        'strtod/strtol follow their C contract (see convert_to obligations)',
    ]
    chk.not_covered += [
        'layout independence of the text layer: splitting a line into tokens (SLHAea::Line::str), case folding of block names '
        'and float spellings are not encoded (std::vector<std::string> and Boost string algorithms); block selection and '
        'line classification are decided on contract models of the containers (C13d, C13e)',
    ]
    processors(chk, mod)
    from . import C13b
    C13b.run(chk, mod)
