"""C19 - purity: no hidden state, arguments preserved (frame conditions decided per function on every path).

Compositional argument:  a calculation function is a deterministic function of its arguments, leaves them
unchanged and is race-free if, on every feasible path of every function of the calculation layer,
  (W1) no store goes to a global / function-static object (outside static initialisers that run before main),
  (W2) no store goes to an object received through a pointer/reference-to-const (or `this` of a const method),
  (W3) no such protected pointer is handed to a callee parameter that is a pointer/reference to non-const,
  (R)  every global that is read is never written after static initialisation (library-wide).
W1-W3 are decided by symbolic execution of each function's IR with lazily symbolic arguments: every store the
executor performs reports the region written; the path condition of a path with an offending store is given to
the solver, and a feasible one is a violation.  Callees defined in other translation units are opaque here and
are covered when their own translation unit is processed.
"""
import os
import re
import time
import z3

from .common import *
from .C14b import demangled
from symx.exec import Ptr, PathEnd

TUS = ['src/MSSMNoFV/gm2_1loop.cpp', 'src/MSSMNoFV/gm2_2loop.cpp', 'src/MSSMNoFV/gm2_uncertainty.cpp',
       'src/THDM/gm2_1loop.cpp', 'src/THDM/gm2_1loop_H.cpp', 'src/THDM/gm2_2loop.cpp', 'src/THDM/gm2_2loop_B.cpp',
       'src/THDM/gm2_2loop_F.cpp', 'src/THDM/gm2_uncertainty.cpp', 'src/gm2_mf.cpp', 'src/gm2_ffunctions.cpp',
       'src/gm2_dilog.cpp', 'src/SM.cpp']
STATEFUL_LIBC = {'rand', 'srand', 'random', 'srandom', 'drand48', 'lrand48', 'strtok', 'localtime', 'gmtime', 'asctime',
                 'ctime', 'setlocale', 'tmpnam', 'lgamma', 'lgammaf', 'strerror', 'getenv', 'putenv', 'setenv', 'time',
                 'clock', 'gettimeofday', 'clock_gettime'}
STD_OPAQUE = ('std::vector<std::__cxx11::basic_string<', 'std::__cxx11::basic_string<')
INIT_FN = re.compile(r'^(__cxx_global_var_init|_GLOBAL__sub_I_)')


def split_params(sig):
    """parameter strings of a demangled signature"""
    i = sig.find('(')
    if i < 0:
        return [], False
    depth = 0
    out = []
    cur = ''
    j = i
    end = None
    for j in range(i, len(sig)):
        c = sig[j]
        if c in '(<':
            depth += 1
            if depth == 1 and c == '(':
                continue
        elif c in ')>':
            depth -= 1
            if depth == 0 and c == ')':
                end = j
                break
        if c == ',' and depth == 1:
            out.append(cur.strip())
            cur = ''
        else:
            cur += c
    if cur.strip():
        out.append(cur.strip())
    const_method = end is not None and sig[end + 1:].strip().startswith('const')
    if out == ['void']:
        out = []
    return out, const_method


def is_const_ref(p):
    p = p.strip()
    return bool(re.search(r'const\s*[&*]$', p)) or bool(re.search(r'const\s*\*\s*const$', p))


def is_mut_ref(p):
    p = p.strip()
    return (p.endswith('&') or p.endswith('*')) and not is_const_ref(p)


def global_scan(chk):
    """library-wide: mutable globals and the functions that mention them outside a load"""
    suspicious = {}
    nglob = 0
    for src, ll in sorted(build.library_ir().items()):
        txt = open(ll).read()
        rel = os.path.relpath(src, REPO)
        muts = []
        for m in re.finditer(r'^(@[^\s=]+|@"[^"]+")\s*=\s*(?:(?:internal|private|dso_local|linkonce_odr|weak_odr|local_unnamed_addr|'
                             r'unnamed_addr|hidden|thread_local(?:\([a-z]+\))?|available_externally|external)\s+)*(global|constant)\b',
                             txt, re.M):
            if m.group(2) == 'global':
                name = m.group(1)
                if name.strip('@"') in ('_ZStL8__ioinit', '__dso_handle', 'llvm.global_ctors', 'llvm.used'):
                    continue
                if ' external ' in m.group(0) + ' ' or re.search(r'=\s*external\b', m.group(0)):
                    continue
                muts.append(name)
        nglob += len(muts)
        if not muts:
            continue
        # function bodies
        for fm in re.finditer(r'^define [^@]*@("?[^"(\s]+"?)\(.*?\{\n(.*?)^\}', txt, re.M | re.S):
            fname = fm.group(1).strip('"')
            if INIT_FN.match(fname):
                continue
            body = fm.group(2)
            for g in muts:
                if g not in body:
                    continue
                for line in body.split('\n'):
                    if g not in line:
                        continue
                    s = line.strip()
                    # a plain (non-atomic or atomic) load from the global itself is a read
                    if re.match(r'%\S+ = load (atomic )?(volatile )?[^,]+, [^,]+ ' + re.escape(g) + r'\b', s):
                        suspicious.setdefault((rel, fname), set())
                        continue
                    suspicious.setdefault((rel, fname), set()).add((g, s[:160]))
    chk.note('mutable globals in the library IR (outside stream initialisers): %d' % nglob)
    return suspicious, nglob


def libc_scan(chk):
    bad = []
    for src, ll in sorted(build.library_ir().items()):
        txt = open(ll).read()
        for m in re.finditer(r'^declare [^@]*@([A-Za-z_0-9]+)\(', txt, re.M):
            if m.group(1) in STATEFUL_LIBC:
                bad.append((os.path.relpath(src, REPO), m.group(1)))
    return bad


class Watch:
    """write hook + call hook of one function exploration"""

    def __init__(self, ex, dem):
        self.ex = ex
        self.dem = dem
        self.protected = {}     # rid -> description
        self.hits = []          # (kind, description, state-pc snapshot)
        self.why = 'step limit'

    def on_write(self, st, r, off, size, v):
        if r.kind == 'global':
            if r.name.startswith('_ZGV') or 'vtable' in r.name:
                return
            if v is not None and not isinstance(v, z3.ExprRef) and not isinstance(v, Ptr) and not isinstance(v, list):
                # a compile-time constant stored once (guarded initialisation of a function-local static constant):
                # no dependence on arguments or history
                return
            self.hits.append(('global-write', 'store to global %s' % r.name, list(st.pc), r.name))
        elif r.rid in self.protected:
            self.hits.append(('const-arg-write', 'store to %s at offset %s' % (self.protected[r.rid], off), list(st.pc),
                              self.protected[r.rid]))

    def on_call(self, st, d, args):
        params, const_method = split_params(d)
        ptr_args = [a for a in args]
        # align: member functions have `this` first; sret may come first as well -> align from the right
        k = len(params)
        tail = ptr_args[len(ptr_args) - k:] if k else []
        head = ptr_args[:len(ptr_args) - k] if k else ptr_args
        for a, p in zip(tail, params):
            if isinstance(a, Ptr) and a.rid in self.protected and is_mut_ref(p):
                self.hits.append(('const-arg-escapes', 'pointer to %s passed to non-const parameter `%s` of %s' % (
                    self.protected[a.rid], p, d[:80]), list(st.pc), d[:80]))
        if head and '::' in d.split('(')[0]:
            # last of the head arguments is `this` for a non-static member; static/free functions have no head
            a = head[-1]
            if isinstance(a, Ptr) and a.rid in self.protected and not const_method and len(head) <= 2:
                base = d.split('(')[0]
                cls = base.rsplit('::', 1)[0]
                # only for genuine member functions: heuristically, classes of the library
                if re.search(r'(MSSMNoFV_onshell\w*|THDM\w*|SM|Problems|Physical\w*)$', cls):
                    self.hits.append(('const-this-escapes', 'non-const member %s called on %s' % (
                        d[:80], self.protected[a.rid]), list(st.pc), d[:80]))


def want(d):
    return d.startswith('gm2calc::') or '(anonymous namespace)' in d.split('(')[0] or d.startswith('gm2calc_')


def run_function(chk, mod, dem, fname, budget_s):
    w, complete, npaths = run_function1(chk, mod, dem, fname, budget_s, chk.tier == 'quick')
    if not complete and not w.hits and 'path limit' in w.why and chk.tier == 'quick':
        # the unpruned over-approximation has too many syntactic paths: prune with the solver
        w, complete, npaths = run_function1(chk, mod, dem, fname, budget_s, False)
    return w, complete, npaths


def run_function1(chk, mod, dem, fname, budget_s, no_prune):
    d = dem[fname]
    fn = mod.functions[fname]
    ex = executor(mod, RealDom(), fork_select=False)
    ex.div_no_fork = True
    ex.fast_throw = True
    ex.no_prune = no_prune
    ex.symbolic_new = True
    ex.tolerant = True
    ex.fork_bound = 3      # loops with a symbolic trip count (container copies): 3 iterations
    ex.max_steps = 400000
    ex.max_paths = 400
    ex.deadline = time.time() + budget_s
    w = Watch(ex, dem)
    from .modelprobe import ext_handler
    inner = ext_handler(dem, on_call=w.on_call)

    def handler(ex_, st_, name, args_, I):
        sig = mod.functions.get(name)
        pl = sig.params if sig is not None else (mod.declares.get(name) or (None, []))[1]
        for (pty, pn, pat), a in zip(pl, args_):
            if isinstance(a, Ptr) and 'sret' in str(pat or ''):
                # result object written by the callee: arbitrary contents afterwards
                r_ = ex_.region(st_, a)
                r_.cells.clear()
                r_.fills = []
                r_.lazy = True
        dn = dem.get(name, name)
        if dn.startswith(STD_OPAQUE):
            # standard containers of strings (problem lists of the model): trusted library code; a non-const
            # member leaves *this with arbitrary contents, sources are taken by reference-to-const
            ps_, cm_ = split_params(dn)
            if not cm_ and args_ and isinstance(args_[0], Ptr) and len(args_) == len(ps_) + 1:
                if args_[0].rid in w.protected:
                    w.hits.append(('const-arg-write', 'non-const container member %s on %s' % (dn[:60], w.protected[args_[0].rid]),
                                   list(st_.pc), w.protected[args_[0].rid]))
                r_ = ex_.region(st_, args_[0])
                for k_ in [k for k in r_.cells if not isinstance(k, tuple) and k >= args_[0].off and k < args_[0].off + 32]:
                    del r_.cells[k_]
                # a valid empty container (the contents are irrelevant for the frame conditions; an empty one keeps
                # the inlined element loops of destructors trivial)
                from symx.exec import NULL
                o0 = args_[0].off
                if dn.startswith('std::vector<'):
                    for o_ in (0, 8, 16):
                        r_.cells[o0 + o_] = (NULL, 8)
                else:
                    r_.cells[o0] = (Ptr(r_.rid, o0 + 16), 8)
                    r_.cells[o0 + 8] = (0, 8)
            rt_ = ex_.m.resolve(I['ty'])
            if isinstance(rt_, llir.VoidT):
                return None
            return ex_.fresh_of(st_, rt_, 'std')
        return inner(ex_, st_, name, args_, I)
    ex.undefined_handler = handler
    # modular: library functions that are checked on their own are opaque at their call sites
    ex.opaque_defined = set(n for n in mod.functions if n != fname and (want(dem.get(n, n)) or dem.get(n, n).startswith(STD_OPAQUE)))
    st = X.State()
    params, const_method = split_params(d)
    args = []
    irp = list(fn.params)
    nhead = len(irp) - len(params)
    for k, (ty, pn, at) in enumerate(irp):
        ty = ex.m.resolve(ty)
        if isinstance(ty, llir.PtrT):
            r = ex.new_region(st, None, 'input', 'arg%d' % k, lazy=True)
            args.append(Ptr(r.rid, 0))
            if 'sret' in (at or ''):
                continue
            if k < nhead:
                if const_method:
                    w.protected[r.rid] = '*this (const method)'
            else:
                p = params[k - nhead]
                if is_const_ref(p):
                    w.protected[r.rid] = 'argument %d (%s)' % (k - nhead, p)
        elif isinstance(ty, llir.FloatT):
            args.append(z3.Real('arg%d' % k))
        elif isinstance(ty, llir.IntT):
            if ty.bits == 1:
                args.append(z3.Bool('arg%d' % k))
            else:
                v = z3.BitVec('arg%d' % k, ty.bits)
                st.pc.append(z3.ULT(v, 3))       # generation / component indices
                args.append(v)
        else:
            raise Unsupported('argument type %r' % (ty,))
    ex.run_global_ctors()
    ex.write_hook = w.on_write
    st = ex.start(fname, args, st)
    complete = True
    npaths = 0
    try:
        paths = ex.explore(st)
        npaths = len(paths)
        for p in paths:
            if p.outcome and p.outcome[0] in ('steplimit', 'unsupported'):
                complete = False
                w.why = '%s %s' % (p.outcome[0], str(p.outcome[1])[:90])
    except Unsupported as e:
        complete = False
        w.why = str(e)[:120]
    return w, complete, npaths


def run(chk):
    chk.assumptions += [
        'purity is decided compositionally: every function defined in the calculation translation units (%s) is executed '
        'symbolically on lazily symbolic arguments; callees defined in other translation units are opaque (their own '
        'unit is checked separately, spectrum/model classes through const-qualified signatures)' % ', '.join(TUS),
        'thread-safety follows from the absence of writes to shared objects (globals, function statics, const arguments); '
        'no interleavings are enumerated',
        'integer arguments (generation / component indices) restricted to 0..2',
        'const-qualification is read from the demangled signatures',
    ]
    chk.not_covered += ['model classes\' non-const members (spectrum calculation, setters): they may write *this by contract',
                        'SLHA reader / CLI (not calculation functions)',
                        'const_cast through integer casts or memcpy of pointers is invisible to the frame analysis',
                        'bit-identical repeatability under different FPU states (rounding mode is process state outside the library)']
    susp, nglob = global_scan(chk)
    for (rel, lc) in libc_scan(chk):
        chk.record('libc:' + lc, 'inconclusive', '%s declares stateful libc function %s' % (rel, lc))
    irs = build.library_ir()
    by_rel = dict((os.path.relpath(s, REPO), p) for s, p in irs.items())
    todo = []
    mods = {}
    tier_budget = 20 if chk.tier == 'quick' else 60
    targets = list(TUS)
    # translation units outside the calculation layer that mention a mutable global outside a load are added
    for (rel, fname), uses in susp.items():
        if uses and rel not in targets:
            targets.append(rel)
    for rel in targets:
        if rel not in by_rel:
            continue
        mod = llir.load_module(by_rel[rel])
        mods[rel] = mod
        dem = demangled(mod)
        for fname in mod.functions:
            d = dem.get(fname, fname)
            if INIT_FN.match(fname):
                continue
            if not want(d) or '::~' in d.split('(')[0]:
                continue
            if rel not in TUS and not any(u for (r_, f_), u in susp.items() if r_ == rel and f_ == fname):
                continue
            todo.append((rel, fname))
    chk.note('functions to execute: %d in %d translation units' % (len(todo), len(mods)))

    def work(job):
        rel, fname = job
        mod = mods[rel]
        dem = demangled(mod)
        try:
            w, complete, npaths = run_function(chk, mod, dem, fname, tier_budget)
        except (Unsupported, PathEnd, RecursionError, KeyError, ValueError, AssertionError, TypeError, AttributeError, IndexError) as e:
            return {'fn': fname, 'rel': rel, 'status': 'gap', 'why': '%s: %s' % (type(e).__name__, str(e)[:100]), 'hits': []}
        hits = []
        seen = set()
        for kind, desc, pc, key in w.hits:
            if (kind, key) in seen:
                continue
            r, m = chk.solve(pc, 10000)
            if r == 'unsat':
                continue
            seen.add((kind, key))
            hits.append({'kind': kind, 'desc': desc, 'key': key, 'feasible': r})
        return {'fn': fname, 'rel': rel, 'status': 'complete' if complete else 'partial', 'paths': npaths, 'hits': hits,
                'stats': dict(w.ex.stats), 'why': w.why}
    results = chk.map_fork(work, todo) if hasattr(chk, 'map_fork') else [work(j) for j in todo]
    for res in results:
        mod = mods[res['rel']]
        d = demangled(mod).get(res['fn'], res['fn'])
        tag = 'frame:%s:%s' % (os.path.basename(res['rel']), d[:90])
        chk.functions.add(d.split('(')[0])
        if res['status'] == 'gap':
            chk.record(tag, 'gap', res['why'], family='frame-conditions')
            chk.not_covered.append('%s not executed (%s)' % (d[:80], res['why'][:80]))
            continue
        stt = res.get('stats', {})
        chk.paths += stt.get('paths', 0)
        chk.steps += stt.get('steps', 0)
        chk.queries += stt.get('solver_calls', 0)
        chk.solver_s += stt.get('solver_s', 0)
        if res['hits']:
            for h in res['hits']:
                if h['feasible'] != 'sat':
                    chk.record(tag, 'inconclusive', 'feasibility of %s undecided' % h['desc'], family='frame-conditions')
                    chk.inconclusive.append(tag)
                    continue
                chk.violation(tag, 'C19:%s:%s:%s' % (h['kind'], d.split('(')[0], h['key']),
                              '%s: %s on a feasible path (hidden state / argument modified: results depend on history and '
                              'concurrent calls race)' % (d[:100], h['desc']),
                              '#!/bin/sh\ncd %s && exec python3-vt -m props.replay_c19 %s\n' % (VERIF, h['kind']))
            continue
        chk.record(tag, 'discharged' if res['status'] == 'complete' else 'gap',
                   None if res['status'] == 'complete' else 'exploration incomplete: ' + res.get('why', ''), family='frame-conditions',
                   sample={'obligation': 'on each of the %d paths of %s: no store to a global/static object, no store through a '
                           'pointer/reference-to-const argument, no such pointer passed to a non-const parameter' % (
                               res.get('paths', 0), d[:80])})
        if res['status'] == 'complete':
            chk.formulas.add(tag)
        else:
            chk.not_covered.append('%s explored partially (%s)' % (d[:80], res.get('why', '')[:80]))
    # reads of mutable globals: every mutable global that a function mentions must be written only by static initialisers;
    # mentions outside loads were executed above (targets), so what remains is the census
    chk.record('global-census', 'discharged', family='global-state',
               sample={'obligation': 'library-wide IR scan: %d mutable globals (excluding iostream initialisers); functions that '
                       'mention one outside a load: %s' % (nglob, sorted(set(f for (r_, f), u in susp.items() if u))[:6])})
