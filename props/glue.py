"""THDM glue: calculate_amu_1loop / calculate_amu_2loop_fermionic / _bosonic fill the parameter structs of the loop-level
functions from the model.  Each field must carry the model quantity its documentation names (struct comments in
src/THDM/gm2_1loop_helpers.hpp, gm2_2loop_helpers.hpp): executed symbolically on an arbitrary model, with the loop-level
function replaced by a stub that dumps the struct; every field is compared with the value of the corresponding getter."""
import z3

from .common import *
from .C14b import demangled
from .modelprobe import probe, ext_handler
from symx.exec import Ptr

MATS = {'1L': ['ylh', 'ylH', 'ylA', 'ylHp'],
        'F': ['yuh', 'yuH', 'yuA', 'yuHp', 'ydh', 'ydH', 'ydA', 'ydHp', 'ylh', 'ylH', 'ylA', 'ylHp', 'vckm']}


def layout(kind):
    """[(field name, expected source)] in the order of vx_dump_<kind>; source: ('field', name) | ('uf', getter) | ('ret', getter, k)"""
    L = [('alpha_em', ('uf', 'get_alpha_em')), ('mm', ('field', 'MFe1')), ('mw', ('field', 'MVWm')), ('mz', ('field', 'MVZ')),
         ('mhSM', ('field', 'sm_mh')), ('mA', ('field', 'MAh1')), ('mHp', ('field', 'MHm1'))]
    if kind == '1L':
        L += [('ml(%d)' % i, ('field', 'MFe%d' % i)) for i in range(3)]
        L += [('mv(%d)' % i, ('field', 'MFv%d' % i)) for i in range(3)]
        L += [('mh(%d)' % i, ('field', 'Mhh%d' % i)) for i in range(2)]
    elif kind == 'F':
        L += [('mh(%d)' % i, ('field', 'Mhh%d' % i)) for i in range(2)]
        L += [('ml(%d)' % i, ('field', 'MFe%d' % i)) for i in range(3)]
        L += [('mu(%d)' % i, ('field', 'MFu%d' % i)) for i in range(3)]
        L += [('md(%d)' % i, ('field', 'MFd%d' % i)) for i in range(3)]
    else:
        L += [('mh(%d)' % i, ('field', 'Mhh%d' % i)) for i in range(2)]
        L += [('tb', ('uf', 'get_tan_beta')), ('zetal', ('uf', 'get_zeta_l')), ('cos_beta_minus_alpha', ('uf', 'get_cos_beta_minus_alpha')),
              ('lambda5', ('uf', 'get_LambdaFive')), ('lambda67', ('uf', 'get_LambdaSixSeven'))]
    for mname in MATS.get(kind, []):
        for i in range(3):
            for j in range(3):
                for c_, part in enumerate('ri'):
                    if mname == 'vckm':
                        L.append(('vckm(%d,%d).%s' % (i, j, part), ('field', 'ckm%s%d%d' % (part, i, j))))
                    else:
                        L.append(('%s(%d,%d).%s' % (mname, i, j, part), ('ret', 'get_' + mname, 2 * (i + 3 * j) + c_)))
    return L


def run(chk, pid):
    fam = 'thdm-glue'
    mod = harness_module('h_thdm_glue')
    dem = demangled(mod)
    rets = {}
    dumps = {}

    def handler_factory(ex):
        inner = ext_handler(dem)

        def handler(ex_, st_, name, args_, I):
            d = dem.get(name, name)
            base = d.split('(')[0]
            for kind, fn in (('1L', 'gm2calc::thdm::amu1L'), ('F', 'gm2calc::thdm::amu2L_F'), ('B', 'gm2calc::thdm::amu2L_B')):
                if base == fn:
                    # dump the struct through the harness (same state, no caller frames)
                    s2 = st_.fork()
                    s2.frames = []
                    s2.outcome = None
                    out = ex_.new_region(s2, 8 * 400, 'stack', 'dump')
                    s3 = ex_.start('vx_dump_' + kind, [args_[0], Ptr(out.rid, 0)], s2)
                    rr = ex_.explore(s3)
                    n = len(layout(kind))
                    dumps[kind] = [ex_.load(rr[0], Ptr(out.rid, 8 * k), llir.DOUBLE) for k in range(n)]
                    return ex_.leaf(st_, 'uf:' + base, [])
            sig = mod.declares.get(name)
            if sig is not None and sig[1] and 'sret' in str(sig[1][0][2] or '') and 'THDM::get_y' in d:
                # Yukawa matrix returned by value: stable symbols per getter and element
                g = base.split('::')[-1]
                outp = args_[0]
                for k in range(18):
                    key = (g, k)
                    if key not in rets:
                        rets[key] = z3.Real('ret:%s[%d]' % (g, k))
                    ex_.store(st_, Ptr(outp.rid, outp.off + 8 * k), llir.DOUBLE, rets[key])
                return None
            return inner(ex_, st_, name, args_, I)
        return handler
    ex = executor(mod, RealDom(), fork_select=False)
    ex.undefined_handler = handler_factory(ex)
    ex.tolerant = True
    st = X.State()
    reg = ex.new_region(st, None, 'input', 'thdm', lazy=True)
    mp = Ptr(reg.rid, 0)
    spec = {'MVWm': ('vx_model', [4, 0, 0]), 'MVZ': ('vx_model', [5, 0, 0]), 'sm_mh': ('vx_model', [9, 0, 0])}
    for i in range(3):
        spec['MFe%d' % i] = ('vx_model', [0, i, 0])
        spec['MFu%d' % i] = ('vx_model', [1, i, 0])
        spec['MFd%d' % i] = ('vx_model', [2, i, 0])
        spec['MFv%d' % i] = ('vx_model', [3, i, 0])
        for j in range(3):
            spec['ckmr%d%d' % (i, j)] = ('vx_model', [10, i, j])
            spec['ckmi%d%d' % (i, j)] = ('vx_model', [11, i, j])
    for i in range(2):
        spec['MAh%d' % i] = ('vx_model', [6, i, 0])
        spec['MHm%d' % i] = ('vx_model', [7, i, 0])
        spec['Mhh%d' % i] = ('vx_model', [8, i, 0])
    st, V = probe(ex, st, mp, spec)
    V = {k: zr(v) for k, v in V.items()}
    for kind, fn, what in (('1L', 'vx_run_1L', 'calculate_amu_1loop(THDM)'), ('F', 'vx_run_F', 'calculate_amu_2loop_fermionic(THDM)'),
                           ('B', 'vx_run_B', 'calculate_amu_2loop_bosonic(THDM)')):
        chk.functions.add('gm2calc::' + what)
        dumps.pop(kind, None)
        try:
            rr = ex.explore(ex.start(fn, [mp], st.fork()))
        except Unsupported as e:
            chk.record('glue:' + kind, 'gap', str(e)[:100], family=fam)
            chk.not_covered.append('%s glue not executed (%s)' % (what, str(e)[:80]))
            continue
        if kind not in dumps:
            chk.record('glue:' + kind, 'gap', 'loop-level function not reached: %r' % [p.outcome for p in rr][:2], family=fam)
            chk.not_covered.append('%s: loop-level function not reached' % what)
            continue
        vals = dumps[kind]
        bad = []
        for (fname, src), v in zip(layout(kind), vals):
            v = zr(v) if not isinstance(v, float) else None
            ok = False
            if v is not None:
                if src[0] == 'field':
                    ok = z3.eq(z3.simplify(v), z3.simplify(V[src[1]]))
                elif src[0] == 'ret':
                    ok = (src[1].replace('get_', 'get_'), src[2]) in rets and z3.eq(z3.simplify(v), rets[(src[1], src[2])])
                else:
                    nm = v.decl().name() if z3.is_const(v) else ''
                    ok = ('::' + src[1] + '#') in nm or nm.startswith('uf:') and src[1] in nm
            if not ok:
                bad.append((fname, src, str(v)[:60]))
        tag = 'glue:%s' % kind
        # the same statement as one solver obligation (field- and matrix-valued sources)
        neq = []
        for (fname, src), v in zip(layout(kind), vals):
            if isinstance(v, float):
                continue
            if src[0] == 'field':
                neq.append(zr(v) != V[src[1]])
            elif src[0] == 'ret' and (src[1], src[2]) in rets:
                neq.append(zr(v) != rets[(src[1], src[2])])
        if neq:
            r_, m_ = chk.solve([z3.Or(*neq)], 30000)
            chk.queries += 0
            if r_ == 'sat' and not bad:
                bad.append(('?', ('field', '?'), 'solver'))
        if bad:
            f0 = bad[0]
            chk.violation(tag, '%s:glue:%s:%s' % (pid, kind, f0[0].split('(')[0]),
                          '%s fills field %s of the parameter struct with %s instead of the model quantity %s (%d fields differ)' % (
                              what, f0[0], f0[2], f0[1][1], len(bad)), '#!/bin/sh\ncd %s && exec python3-vt -m props.replay_c10 glue\n' % VERIF)
        else:
            chk.record(tag, 'discharged', family=fam,
                       sample={'obligation': '%s: each of the %d fields of the parameter struct is the model quantity its documentation names '
                               '(masses, alpha_em, SM Higgs mass from the SM input, Yukawa matrices element by element, CKM)' % (what, len(vals))})
            chk.formulas.add(tag)
    chk.absorb_executor(ex)
