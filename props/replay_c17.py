"""replay of C17 witnesses: entry point on a freshly allocated model, in a separate process"""
import subprocess
import sys
from .common import *


def main():
    kind = sys.argv[1]
    if kind == 'probe':
        from .C17 import probe_exe
        which, fname, sig = sys.argv[2:5]
        lib = build.build_library()
        r = subprocess.run([probe_exe(), lib, fname, which, sig], capture_output=True, text=True)
        print(r.stdout, r.stderr)
        print('exit status', r.returncode)
        sys.exit(1 if r.returncode != 0 else 0)
    if kind == 'strlen0':
        from .C17b import string_probe
        sys.exit(string_probe(sys.argv[2], int(sys.argv[3]) if len(sys.argv) > 3 else 0))
    sys.exit(2)


if __name__ == '__main__':
    main()
