"""replay of a C18 witness against the native build of the uncertainty functions"""
import os
import subprocess
import sys
from .common import *


def main():
    exe = build.compile_native(os.path.join(HARNESS, 'replay_unc.cpp'), 'replay_unc')
    kind = sys.argv[1]
    if kind == 'mssm':
        args = [kind, sys.argv[2], sys.argv[3]]
    else:
        a1, a2, larg = sys.argv[2], sys.argv[3], sys.argv[4]
        try:
            ratio = float(larg)
        except ValueError:
            ratio = 0.5
        if not (ratio == ratio) or ratio <= 0:
            ratio = 0.5
        args = [kind, a1, a2, repr(ratio)]
    r = subprocess.run([exe] + args)
    sys.exit(r.returncode)


if __name__ == '__main__':
    main()
