"""C01 - one-variable loop and special functions equal their mathematical definitions."""
import math
import os
from fractions import Fraction as Fr
import mpmath
import z3

from .common import *
from .ffcommon import *
from oracle import ffunctions as O

TOL = Fr(1, 10 ** 7)
D0 = Fr(1, 8)        # radius in which the series oracle around x=1 is used
KSER = 18

XLO = Fr(1, 10 ** 14)
XHI = Fr(10 ** 12)


def domain(x):
    return z3.Or(x == 0, z3.And(x >= zr(XLO), x <= zr(XHI)))


def native_err(lib, name, sym, xf):
    f = native_fn(lib, sym, 1)
    got = f(xf)
    ref = mp_oracle(name, Fr(xf))
    if got != got:
        return got, ref, math.inf
    if ref == 0:
        return got, ref, (0.0 if got == 0 else math.inf)
    return got, ref, float(abs((mpmath.mpf(got) - ref) / ref))


def replay_script(name, sym, xf, tol):
    return '''#!/bin/sh
# replay: %s(%r) against its definition (mpmath, 50 digits)
cd %s && exec python3-vt -m props.replay_ff %s %s %r %s
''' % (name, xf, VERIF, name, sym, xf, float(tol))


def confirm(chk, lib, name, sym, xq, why, tol=TOL):
    """replay a solver witness x against the native build; returns True if reproduced"""
    xf = float(xq)
    for cand in (xf, math.nextafter(xf, math.inf), math.nextafter(xf, -math.inf)):
        if not (cand == 0 or 1e-14 <= abs(cand) <= 1e12):
            continue
        got, ref, err = native_err(lib, name, sym, cand)
        chk.traces_validated += 1
        if err > float(tol):
            chk.violation('%s:%s' % (name, why), 'C01:%s:%s' % (name, why),
                          '%s(%r) = %r but definition gives %s (rel.err %.3g > %.1g) [%s]' % (
                              name, cand, got, mpmath.nstr(ref, 17), err, float(tol), why),
                          replay_script(name, sym, cand, tol))
            return True
    return False


def check_ratlog(chk, mod, lib, name):
    sym = mangle_fn(name, 'd')
    chk.functions.add(sym)
    ex = executor(mod, RealDom(), ufs=LEAF_UFS)
    x = z3.Real('x')
    st = ex.start(sym, [x])
    st.pc.append(domain(x))
    paths = ex.explore(st)
    chk.absorb_executor(ex)
    spoly, (sd, srl, srd), used = series_def_poly(name, KSER)
    d = z3.Real('d')
    rlb = Fr(1) / ((KSER + 1) * (1 - D0))
    rdb = Fr(1) / ((KSER + 1) ** 2 * (1 - D0))
    Apoly, Eb = split_remainder(spoly, sd, [srl, srd], D0, [rlb, rdb])
    defser = horner_z3(Apoly, sd, d, {})
    nreg = 0
    for p in paths:
        nreg += 1
        tag = '%s#%d' % (name, nreg)
        if p.outcome[0] != 'ret':
            chk.record(tag, 'inconclusive', 'path ended with %r' % (p.outcome,))
            chk.inconclusive.append(tag)
            continue
        ret = p.retval
        if isinstance(ret, float):   # NaN / inf returned on the admissible domain
            r, m = chk.solve(p.pc)
            xq = model_real(m, x) if m is not None else Fr(0)
            if xq == 0 and name not in O.AT_ZERO:
                # no documented value at 0 (the definition diverges): nothing is claimed
                chk.record(tag + ':x=0-undocumented', 'discharged', 'diverging limit, not claimed')
                continue
            if not confirm(chk, lib, name, sym, xq, 'nonfinite'):
                chk.record(tag, 'inconclusive', 'non-finite return not reproduced at x=%s' % xq)
                chk.inconclusive.append(tag)
            continue
        retz = zr(ret)
        # --- regime containing x == 0 ?
        r0, _ = chk.solve(p.pc + [x == 0], 5000)
        if r0 == 'sat':
            if name in O.AT_ZERO:
                want = O.AT_ZERO[name]
                if want == 'pi':
                    # -3/4 (pi^2 - 9): enclose pi^2 to 1e-15
                    pi2 = Fr(str(mpmath.nstr(mpmath.pi ** 2, 40)))
                    lo = -Fr(3, 4) * (pi2 - 9) - Fr(1, 10 ** 15)
                    hi = -Fr(3, 4) * (pi2 - 9) + Fr(1, 10 ** 15)
                    neg = z3.Or(retz < zr(lo), retz > zr(hi))
                else:
                    neg = z3.Or(retz - zr(want) > zr(abs(want) * Fr(1, 10 ** 15)),
                                zr(want) - retz > zr(abs(want) * Fr(1, 10 ** 15)))
                r, m = chk.prove(tag + ':value-at-0', p.pc + [x == 0, neg], family='special-values',
                                 sample={'obligation': '%s(0) == documented value' % name,
                                         'value': str(want)})
                if r == 'sat':
                    if not confirm(chk, lib, name, sym, Fr(0), 'value-at-0', tol=Fr(1, 10 ** 15)):
                        chk.record(tag + ':value-at-0', 'inconclusive', 'sat not reproduced')
                        chk.inconclusive.append(tag + ':value-at-0')
            # the zero regime must not extend into [1e-14, ..): else the limit constant is used
            # where the definition is required to 1e-7
            if ex.dom.is_conc(ret) or not any(True for _ in [1]):
                pass
        # --- the same path for x > 0
        rp, _ = chk.solve(p.pc + [x >= zr(XLO)], 5000)
        if rp != 'sat':
            continue
        pcx = p.pc + [x >= zr(XLO)]
        lv = Leaves(ex, pcx)
        num, den = O.RATLOG[name](x, lv.log, lv.li2)
        # (1) exact identity with free leaves (generic closed-form regime)
        # (constants such as 4.0/105.0 are doubles: allow 1e-12 relative slack on the numerator)
        anum = z3.Real('absnum')
        idneg = [z3.Or(anum == num, anum == -num), anum >= 0,
                 z3.Or(retz * den - num > zr(Fr(1, 10 ** 12)) * anum,
                       num - retz * den > zr(Fr(1, 10 ** 12)) * anum)]
        r, m = chk.solve(pcx + [x != 1] + idneg, 20000)
        chk.note_formula(pcx + idneg)
        if r == 'unsat':
            chk.record(tag + ':identity', 'discharged', family='closed-form-identity',
                       sample={'obligation': '%s: code expression == definition for every x on the '
                               'path (log, Li2 as free leaves)' % name,
                               'path_condition': [str(c) for c in p.pc[:6]]})
            # x == 1 inside a closed-form path would be a 0/0: must be excluded by the path
            r1, _ = chk.solve(pcx + [x == 1], 5000)
            if r1 != 'unsat':
                chk.record(tag + ':pole', 'inconclusive', 'closed form reachable at x=1')
                chk.inconclusive.append(tag + ':pole')
            continue
        # (2) expansion regime: compare with the series form of the definition on |d| <= D0
        # definition(x) in [defser - Eb, defser + Eb]; claim |code - def| <= tol |def| is implied by
        # |code - defser| <= tol (|defser| - Eb) - Eb
        inner = pcx + [d == x - 1, d <= zr(D0), d >= -zr(D0)]
        adef = z3.Real('absdef')
        slack = zr(TOL) * (adef - zr(Eb)) - zr(Eb)
        neg = [z3.Or(adef == defser, adef == -defser), adef >= 0,
               z3.Or(retz - defser > slack, defser - retz > slack)]
        r, m = chk.prove(tag + ':series', inner + neg, timeout_ms=60000, family='expansion-vs-definition',
                         sample={'obligation': '%s: |expansion(x) - definition(x)| <= 1e-7 |definition| '
                                 'on its whole window; definition as %d-term series of log/Li2 around 1 '
                                 'with Lagrange remainders, pole cancelled symbolically' % (name, KSER)})
        if r == 'sat':
            xq = model_real(m, x)
            if not confirm(chk, lib, name, sym, xq, 'expansion'):
                chk.record(tag + ':series', 'inconclusive', 'sat at x=%s not reproduced' % float(xq))
                chk.inconclusive.append(tag + ':series')
        # outside D0 an expansion path must not exist
        r, m = chk.prove(tag + ':window-extent', pcx + [z3.Or(x - 1 > zr(D0), x - 1 < -zr(D0))],
                         family='expansion-vs-definition')
        if r == 'sat':
            xq = model_real(m, x)
            if not confirm(chk, lib, name, sym, xq, 'window-too-wide'):
                # look harder: the far end of the window
                opt = z3.Optimize()
                opt.add(pcx)
                opt.maximize(x)
                if opt.check() == z3.sat:
                    from symx.smt import Model
                    xq2 = model_real(Model(z3model=opt.model()), x)
                    if confirm(chk, lib, name, sym, xq2, 'window-too-wide'):
                        continue
                chk.record(tag + ':window-extent', 'inconclusive', 'expansion used at x=%s' % float(xq))
                chk.inconclusive.append(tag + ':window-extent')
        # value at exactly 1
        r1, _ = chk.solve(pcx + [x == 1], 5000)
        if r1 == 'sat':
            w1 = O.AT_ONE[name]
            r, m = chk.prove(tag + ':value-at-1', pcx + [x == 1, z3.Or(retz - zr(w1) > zr(w1 * Fr(1, 10 ** 15)),
                                                                    zr(w1) - retz > zr(w1 * Fr(1, 10 ** 15)))],
                             family='special-values',
                             sample={'obligation': '%s(1) == %s' % (name, O.AT_ONE[name])})
            if r == 'sat':
                if not confirm(chk, lib, name, sym, Fr(1), 'value-at-1', tol=Fr(1, 10 ** 15)):
                    chk.inconclusive.append(tag + ':value-at-1')
    # coverage of the domain by the explored paths (no x lost)
    cover = z3.Or([z3.And(p.pc) for p in paths]) if paths else z3.BoolVal(False)
    chk.prove(name + ':paths-cover-domain', [domain(x), z3.Not(cover)], family='coverage')
    # negative arguments -> NaN
    ex2 = executor(mod, RealDom(), ufs=LEAF_UFS)
    st = ex2.start(sym, [x])
    st.pc.append(x <= -zr(XLO))
    st.pc.append(x >= -zr(XHI))
    npaths = ex2.explore(st)
    chk.absorb_executor(ex2)
    for i, p in enumerate(npaths):
        tag = '%s:neg#%d' % (name, i)
        if p.outcome[0] == 'ret' and isinstance(p.retval, float) and p.retval != p.retval:
            chk.record(tag, 'discharged', family='negative-argument-NaN',
                       sample={'obligation': '%s(x<0) is NaN' % name, 'events': [e[0] for e in p.events]})
            chk.formulas.add(('neg', name, i))
        else:
            r, m = chk.solve(p.pc)
            xq = model_real(m, x) if m is not None else Fr(-1)
            xf = float(xq)
            got = native_fn(lib, sym, 1)(xf)
            chk.traces_validated += 1
            if got == got:
                chk.violation(tag, 'C01:%s:negative-not-nan' % name,
                              '%s(%r) = %r, expected NaN for a negative argument' % (name, xf, got),
                              replay_script(name, sym, xf, 0))
            else:
                chk.record(tag, 'inconclusive', 'executor path not NaN but native NaN')
                chk.inconclusive.append(tag)
    return len(paths) + len(npaths)


def run(chk):
    mod = harness_module('h_ff')
    lib = harness_native('h_ff')
    chk.assumptions += [
        'REAL domain: the code is executed with exact real arithmetic (same operation DAG, no rounding); '
        'rounding of the closed forms is not modelled in this tier',
        'log(1+d) and Li2(-d) are represented on |d|<=1/8 by their %d-term Maclaurin series plus a '
        'Lagrange remainder variable (mathematics trusted)' % KSER,
        'dilog/clausen_2 are leaves (contract: = Li2/Cl2) inside the loop functions; they are checked '
        'in their own obligations',
        'libm log/sqrt/atan2 return the correctly rounded mathematical value up to 1 ulp (not modelled '
        'in REAL)',
    ]
    chk.bounds.update({'x': '{0} u [1e-14, 1e12]; negative: [-1e12,-1e-14]',
                       'series_order': KSER, 'series_radius': str(D0), 'tolerance': '1e-7'})
    chk.stubs.update(['log (leaf)', 'dilog (leaf)', 'clausen_2 (leaf)', 'llvm.fabs', 'ostream (trace)'])
    # translator validation on the repository's own tables
    for name in O.RATLOG:
        sym = mangle_fn(name, 'd')
        rows = read_table(os.path.join(REPO, 'test', 'data', name + '.txt'))
        vec = [(r[0],) for r in rows[:40]] + [(0.0,), (1.0,), (0.97,), (1.03,), (1.0601,), (1e-14,), (1e12,)]
        translator_validation(chk, mod, lib, sym, vec, label=name)
    for name in O.RATLOG:
        check_ratlog(chk, mod, lib, name)
    from . import C01b
    C01b.run(chk, mod, lib)
    from . import C01c
    C01c.run(chk)
    C01c.clausen_reduction(chk)
