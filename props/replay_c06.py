"""replay for C06: native metamorphic relations of the MSSM contributions (replay/c06_driver.cpp)"""
import os
import subprocess
import sys
from symx import build


def main():
    exe = build.build_tool(os.path.join(os.path.dirname(os.path.dirname(os.path.abspath(__file__))), 'replay', 'c06_driver.cpp'),
                           'c06_driver')
    sys.exit(subprocess.call([exe, 'flip']))


if __name__ == '__main__':
    main()
