"""C04 - the MSSM tree-level spectrum is the spectrum of the MSSM mass matrices.

Decided on the real code (IR of MSSMNoFV_onshell_mass_eigenstates.cpp through harness/h_mssm_me.cpp):
  * every generated mass matrix entry, as a polynomial in the Lagrangian parameters, equals an oracle written
    from quantum numbers (sfermions, sneutrinos, gauge bosons, fermions, neutralinos, charginos) or obtained
    by differentiating the tree-level Higgs potential (hh, Ah, Hpm, tadpoles),
  * the tree-level EWSB elimination solves the tadpole equations, the Higgs-sector sum rules and Goldstone
    eigen-equations hold as identities,
  * each calculate_M*: the matrix handed to the decomposition is the oracle matrix, a tachyon is flagged iff
    the smallest returned eigenvalue is negative, the stored masses are sqrt|w| (decomposition = its contract),
  * move_goldstone_to puts the state closest to MZ/MW at index 0 and permutes the rows of Z consistently,
  * exchanging generation parameters exchanges the mass matrices.
"""
import re
from fractions import Fraction as Fr
import sympy
import z3

from .common import *
from .C14b import demangled
from .modelprobe import probe, ext_handler
from . import C02
from symx.exec import Ptr

SRC = 'src/MSSMNoFV/MSSMNoFV_onshell_mass_eigenstates.cpp'
S2 = z3.Real('const_sqrt2')
S35 = z3.Real('const_sqrt_3_5')
CONST_AX = [S2 > 0, S2 * S2 == 2, S35 > 0, S35 * S35 == Fr(3, 5)]
PARS = ['g1', 'g2', 'vd', 'vu', 'Mu', 'BMu', 'MassB', 'MassWB', 'mHd2', 'mHu2', 'g3', 'MassG']
DIAG = ['mq2', 'ml2', 'md2', 'mu2', 'me2', 'Yd', 'Yu', 'Ye', 'TYd', 'TYu', 'TYe']


def decimal_consts():
    """decimal literals of the source denote their decimal value; the three irrational ones are symbols"""
    txt = open(os.path.join(REPO, SRC)).read()
    out = [(0.7071067811865475, S2 / 2), (0.7745966692414834, S35), (0.3872983346207417, S35 / 2)]
    seen = set()
    for lit in set(re.findall(r'(?<![\w.])(\d+\.\d+)(?![\w.])', txt)):
        f = float(lit)
        if f in seen or any(abs(f - v) < 1e-12 for v, _ in out[:3]):
            continue
        seen.add(f)
        fr = Fr(lit)
        if Fr(f) != fr:
            out.append((f, z3.RealVal(str(fr))))
    return out


def spec():
    s = {}
    for k, nm in enumerate(PARS):
        s[nm] = ('vx_par', [k])
    for w, nm in enumerate(DIAG):
        for i in range(3):
            s['%s%d' % (nm, i)] = ('vx_diag', [w, i])
    return s


# --------------------------------------------------------------------------- oracles
def sfermion_oracle(V, kind, gen):
    """2x2 sfermion mass matrix from quantum numbers: D = (T3 g2^2 - Y/2 g'^2)(vd^2 - vu^2)/4, g'^2 = 3/5 g1^2"""
    g1, g2, vd, vu, Mu = V['g1'], V['g2'], V['vd'], V['vu'], V['Mu']
    gp2 = Fr(3, 5) * g1 * g1
    dv = (vd * vd - vu * vu) / 4

    def D(T3, Y):
        return (T3 * g2 * g2 - Fr(Y) / 2 * gp2) * dv
    if kind == 'd':
        mL, mR, Yf, T = V['mq2%d' % gen], V['md2%d' % gen], V['Yd%d' % gen], V['TYd%d' % gen]
        LL = mL + Yf * Yf * vd * vd / 2 + D(Fr(-1, 2), Fr(1, 3))
        RR = mR + Yf * Yf * vd * vd / 2 + D(0, Fr(2, 3))     # scalar of the conjugate superfield d^c: T3 = 0, Y = +2/3
        LR = (vd * T - vu * Yf * Mu) / S2
    elif kind == 'u':
        mL, mR, Yf, T = V['mq2%d' % gen], V['mu2%d' % gen], V['Yu%d' % gen], V['TYu%d' % gen]
        LL = mL + Yf * Yf * vu * vu / 2 + D(Fr(1, 2), Fr(1, 3))
        RR = mR + Yf * Yf * vu * vu / 2 + D(0, Fr(-4, 3))
        LR = (vu * T - vd * Yf * Mu) / S2
    else:
        mL, mR, Yf, T = V['ml2%d' % gen], V['me2%d' % gen], V['Ye%d' % gen], V['TYe%d' % gen]
        LL = mL + Yf * Yf * vd * vd / 2 + D(Fr(-1, 2), -1)
        RR = mR + Yf * Yf * vd * vd / 2 + D(0, 2)
        LR = (vd * T - vu * Yf * Mu) / S2
    return [[LL, LR], [LR, RR]]


def sneutrino_oracle(V, gen):
    g1, g2, vd, vu = V['g1'], V['g2'], V['vd'], V['vu']
    gp2 = Fr(3, 5) * g1 * g1
    return V['ml2%d' % gen] + (Fr(1, 2) * g2 * g2 + Fr(1, 2) * gp2) * (vd * vd - vu * vu) / 4


def higgs_oracle():
    """Hessians and tadpoles of the tree-level MSSM Higgs potential (sympy), FlexibleSUSY field conventions:
    Hd = (Hd0, Hd-), Hu = (Hu+, Hu0), Hd0 = (vd + phid + i sigd)/sqrt2, Hu0 = (vu + phiu + i sigu)/sqrt2"""
    g1, g2, vd, vu, Mu, BMu, mHd2, mHu2 = sympy.symbols('g1 g2 vd vu Mu BMu mHd2 mHu2', real=True)
    pd, pu, sd, su = sympy.symbols('pd pu sd su', real=True)
    a1, a2, b1, b2 = sympy.symbols('a1 a2 b1 b2', real=True)       # Hd- = (a1 + i a2)/sqrt2, Hu+ = (b1 + i b2)/sqrt2
    I = sympy.I
    r2 = sympy.sqrt(2)
    Hd0 = (vd + pd + I * sd) / r2
    Hu0 = (vu + pu + I * su) / r2
    Hdm = (a1 + I * a2) / r2
    Hup = (b1 + I * b2) / r2
    gp2 = sympy.Rational(3, 5) * g1 ** 2

    def n2(x):
        return sympy.expand(x * sympy.conjugate(x))
    HdHd = n2(Hd0) + n2(Hdm)
    HuHu = n2(Hu0) + n2(Hup)
    eps = Hup * Hdm - Hu0 * Hd0                     # Hu.Hd
    V = (Mu ** 2 + mHd2) * HdHd + (Mu ** 2 + mHu2) * HuHu + BMu * (eps + sympy.conjugate(eps)) \
        + (gp2 + g2 ** 2) / 8 * (HdHd - HuHu) ** 2 + g2 ** 2 / 2 * n2(sympy.conjugate(Hd0) * Hup + sympy.conjugate(Hdm) * Hu0)
    V = sympy.expand(sympy.re(sympy.expand(V)))
    zero = {pd: 0, pu: 0, sd: 0, su: 0, a1: 0, a2: 0, b1: 0, b2: 0}

    def hess(xs):
        return [[sympy.expand(sympy.diff(V, x, y).subs(zero)) for y in xs] for x in xs]
    tad = [sympy.expand(sympy.diff(V, x).subs(zero)) for x in (pd, pu)]
    # charged sector in the complex basis (Hd-, conj(Hu+)): d^2V / d conj(phi_i) d phi_j
    # with real components: M_11 = (V_a1a1 + V_a2a2)/2 ..., computed from the real Hessian
    H = hess([a1, a2, b1, b2])
    # phi1 = Hd- = (a1 + i a2)/sqrt2 ; phi2 = conj(Hu+) = (b1 - i b2)/sqrt2
    ch = [[sympy.expand((H[0][0] + H[1][1]) / 2), sympy.expand((H[0][2] - H[1][3]) / 2)],
          [sympy.expand((H[0][2] - H[1][3]) / 2), sympy.expand((H[2][2] + H[3][3]) / 2)]]
    syms = dict(g1=g1, g2=g2, vd=vd, vu=vu, Mu=Mu, BMu=BMu, mHd2=mHd2, mHu2=mHu2)
    return {'hh': hess([pd, pu]), 'Ah': hess([sd, su]), 'Hpm': ch, 'tad': tad, 'syms': syms}


def to_z3(expr, syms, V):
    from .ffcommon import sympy_to_z3
    env = dict((s, V[n]) for n, s in syms.items())
    return sympy_to_z3(expr, env)


# --------------------------------------------------------------------------- checks
class Ctx:
    pass


def setup(chk):
    c = Ctx()
    c.mod = harness_module('h_mssm_me')
    c.dem = demangled(c.mod)
    c.ex = executor(c.mod, RealDom(decimal_consts()), fork_select=False)
    c.ex.undefined_handler = ext_handler(c.dem)
    c.ex.div_no_fork = True
    st = X.State()
    reg = c.ex.new_region(st, None, 'input', 'model', lazy=True)
    c.mp = Ptr(reg.rid, 0)
    c.st, V = probe(c.ex, st, c.mp, spec())
    c.V = {k: zr(v) for k, v in V.items()}
    return c


def call(c, fn, args, st=None):
    s2 = c.ex.start(fn, [c.mp] + list(args), (st or c.st).fork())
    rr = c.ex.explore(s2)
    good = [p for p in rr if p.outcome[0] == 'ret']
    if len(good) != 1:
        raise Unsupported('%s%r: %d returning paths' % (fn, args, len(good)))
    return good[0]


def entry(c, name, i=None, j=None, st=None):
    p = call(c, 'vx_mm_' + name, [] if i is None else [i, j], st)
    return zr(p.retval), p


def prove_eq(chk, c, tag, lhs, rhs, p, family, what, extra=()):
    cons = list(p.pc) + C02.quotient_equalities(c.ex) + CONST_AX + list(extra) + [lhs != rhs]
    r, m = chk.prove(tag, cons, timeout_ms=60000, family=family, sample={'obligation': what})
    if r == 'sat':
        chk.violation(tag, 'C04:%s' % tag.split('[')[0], '%s: the code\'s expression differs from the independent one (%s)' % (tag, what),
                      '#!/bin/sh\ncd %s && exec python3-vt -m props.replay_c04 matrices\n' % VERIF)
    return r


def matrices(chk, c):
    V = c.V
    fam = 'mass-matrices'
    sf = [('Sd', 'd', 0), ('Ss', 'd', 1), ('Sb', 'd', 2), ('Su', 'u', 0), ('Sc', 'u', 1), ('St', 'u', 2),
          ('Se', 'e', 0), ('Sm', 'e', 1), ('Stau', 'e', 2)]
    c.mats = {}
    for name, kind, gen in sf:
        chk.functions.add('get_mass_matrix_' + name)
        orc = sfermion_oracle(V, kind, gen)
        for i in range(2):
            for j in range(2):
                e, p = entry(c, name, i, j)
                c.mats[(name, i, j)] = e
                prove_eq(chk, c, '%s[%d,%d]' % (name, i, j), e, orc[i][j], p, fam,
                         'sfermion mass matrix from quantum numbers (T3, Y): m_soft^2 + m_f^2 + D-term; LR = (v T - v\' y mu)/sqrt2')
    for name, gen in (('SveL', 0), ('SvmL', 1), ('SvtL', 2)):
        chk.functions.add('get_mass_matrix_' + name)
        e, p = entry(c, name)
        c.mats[(name,)] = e
        prove_eq(chk, c, name, e, sneutrino_oracle(V, gen), p, fam, 'sneutrino mass^2 = ml2 + (g2^2 + g\'^2)(vd^2 - vu^2)/8')
    g1, g2, vd, vu = V['g1'], V['g2'], V['vd'], V['vu']
    gp2 = Fr(3, 5) * g1 * g1
    v2 = vd * vd + vu * vu
    for name, orc in (('Fd', V['Yd0'] * vd / S2), ('Fs', V['Yd1'] * vd / S2), ('Fb', V['Yd2'] * vd / S2),
                      ('Fu', V['Yu0'] * vu / S2), ('Fc', V['Yu1'] * vu / S2), ('Ft', V['Yu2'] * vu / S2),
                      ('Fe', V['Ye0'] * vd / S2), ('Fm', V['Ye1'] * vd / S2), ('Ftau', V['Ye2'] * vd / S2),
                      ('Fve', z3.RealVal(0)), ('Fvm', z3.RealVal(0)), ('Fvt', z3.RealVal(0)), ('VG', z3.RealVal(0)),
                      ('VP', z3.RealVal(0)), ('Glu', V['MassG']), ('VWm', g2 * g2 * v2 / 4), ('VZ', (gp2 + g2 * g2) * v2 / 4)):
        chk.functions.add('get_mass_matrix_' + name)
        e, p = entry(c, name)
        c.mats[(name,)] = e
        prove_eq(chk, c, name, e, orc, p, fam, 'fermion mass y v/sqrt2, MW^2 = g2^2 v^2/4, MZ^2 = (g\'^2 + g2^2) v^2/4',
                 extra=[g2 != 0])
    # neutralino / chargino
    gp = S35 * g1
    chi = [[V['MassB'], 0, -gp * vd / 2, gp * vu / 2], [0, V['MassWB'], g2 * vd / 2, -g2 * vu / 2],
           [-gp * vd / 2, g2 * vd / 2, 0, -V['Mu']], [gp * vu / 2, -g2 * vu / 2, -V['Mu'], 0]]
    chk.functions.add('get_mass_matrix_Chi')
    for i in range(4):
        for j in range(4):
            e, p = entry(c, 'Chi', i, j)
            c.mats[('Chi', i, j)] = e
            prove_eq(chk, c, 'Chi[%d,%d]' % (i, j), e, zr(chi[i][j]), p, fam, 'neutralino mass matrix in the (bino, wino, Hd, Hu) basis')
    cha = [[V['MassWB'], g2 * vu / S2], [g2 * vd / S2, V['Mu']]]
    chk.functions.add('get_mass_matrix_Cha')
    for i in range(2):
        for j in range(2):
            e, p = entry(c, 'Cha', i, j)
            c.mats[('Cha', i, j)] = e
            prove_eq(chk, c, 'Cha[%d,%d]' % (i, j), e, cha[i][j], p, fam, 'chargino mass matrix ((M2, g2 vu/sqrt2),(g2 vd/sqrt2, mu))')
    # chargino / neutralino trace and determinant relations (of the matrices the code diagonalises)
    M = [[c.mats[('Cha', i, j)] for j in range(2)] for i in range(2)]
    det = M[0][0] * M[1][1] - M[0][1] * M[1][0]
    r, m = chk.prove('Cha:det', CONST_AX + [det != V['MassWB'] * V['Mu'] - g2 * g2 * vd * vu / 2], family=fam,
                     sample={'obligation': 'det X = M2 mu - g2^2 vd vu/2 (= M2 mu - MW^2 sin 2beta)'})
    tr2 = sum(M[i][j] * M[i][j] for i in range(2) for j in range(2))
    r, m = chk.prove('Cha:trace', CONST_AX + [tr2 != V['MassWB'] * V['MassWB'] + V['Mu'] * V['Mu'] + g2 * g2 * v2 / 2], family=fam,
                     sample={'obligation': 'tr X^T X = M2^2 + mu^2 + 2 MW^2 (sum of squared chargino masses)'})
    N = [[c.mats[('Chi', i, j)] for j in range(4)] for i in range(4)]
    trN = sum(N[i][i] for i in range(4))
    r, m = chk.prove('Chi:trace', CONST_AX + [trN != V['MassB'] + V['MassWB']], family=fam,
                     sample={'obligation': 'tr Y = M1 + M2 (sum of signed neutralino masses)'})
    tr2N = sum(N[i][j] * N[j][i] for i in range(4) for j in range(4))
    r, m = chk.prove('Chi:trace2', CONST_AX + [tr2N != V['MassB'] * V['MassB'] + V['MassWB'] * V['MassWB'] + 2 * V['Mu'] * V['Mu']
                                               + (gp2 + g2 * g2) * v2 / 2], family=fam,
                     sample={'obligation': 'tr Y^2 = M1^2 + M2^2 + 2 mu^2 + 2 MZ^2 (sum of squared neutralino masses)'})


def higgs(chk, c):
    V = c.V
    fam = 'higgs-sector'
    H = higgs_oracle()
    syms = H['syms']
    for name in ('hh', 'Ah', 'Hpm'):
        chk.functions.add('get_mass_matrix_' + name)
    chk.functions.update(['get_ewsb_eq_hh_1', 'get_ewsb_eq_hh_2', 'solve_ewsb_tree_level_via_soft_higgs_masses'])
    g1, g2, vd, vu = V['g1'], V['g2'], V['vd'], V['vu']
    gp2 = Fr(3, 5) * g1 * g1
    v2 = vd * vd + vu * vu
    MZ2 = (gp2 + g2 * g2) * v2 / 4
    MW2 = g2 * g2 * v2 / 4
    # tadpoles
    for k, fn in enumerate(('vx_ewsb1', 'vx_ewsb2')):
        p = call(c, fn, [])
        prove_eq(chk, c, 'tadpole%d' % (k + 1), zr(p.retval), to_z3(H['tad'][k], syms, V), p, fam,
                 'get_ewsb_eq_hh_%d = dV/dphi at the vacuum (differentiated tree-level potential)' % (k + 1))
    # hh: the code's matrix is the Hessian of the potential
    code = {}
    for name in ('hh', 'Ah', 'Hpm'):
        for i in range(2):
            for j in range(2):
                e, p = entry(c, name, i, j)
                code[(name, i, j)] = (e, p)
    for i in range(2):
        for j in range(2):
            e, p = code[('hh', i, j)]
            prove_eq(chk, c, 'hh[%d,%d]' % (i, j), e, to_z3(H['hh'][i][j], syms, V), p, fam,
                     'CP-even mass matrix = Hessian of the tree-level potential in (phi_d, phi_u)')
    # Ah / Hpm: Hessian + gauge-fixing term xi=1: MZ^2 (resp. MW^2) times the projector on the Goldstone direction
    for name, M2, gvec in (('Ah', MZ2, (vd, -vu)), ('Hpm', MW2, (vd, -vu))):
        for i in range(2):
            for j in range(2):
                e, p = code[(name, i, j)]
                orc = to_z3(H[name][i][j], syms, V) * v2 + M2 * gvec[i] * gvec[j]
                prove_eq(chk, c, '%s[%d,%d]' % (name, i, j), e * v2, orc, p, fam,
                         '%s mass matrix = Hessian of the potential + Feynman-gauge Goldstone term M_V^2 g g^T/v^2, g = (vd, -vu)' % name,
                         extra=[g2 != 0, v2 != 0])
    # EWSB elimination: after solve_ewsb the tadpoles vanish; before/after calculate_DRbar_masses mHd2/mHu2 are restored (RAII)
    s2 = c.ex.start('vx_solve_ewsb', [c.mp], c.st.fork())
    rr = [p for p in c.ex.explore(s2) if p.outcome[0] == 'ret']
    ok = [p for p in rr if isinstance(p.retval, int) and p.retval == 0 or (z3.is_bv_value(zr_bv(p.retval)) and zr_bv(p.retval).as_long() == 0)]
    if len(ok) != 1:
        chk.record('ewsb', 'inconclusive', 'solve_ewsb: %d paths' % len(rr))
        chk.inconclusive.append('ewsb')
        return
    pe = ok[0]
    post = pe
    post.outcome = None
    post.frames = []
    post.retval = None
    for k, fn in enumerate(('vx_ewsb1', 'vx_ewsb2')):
        p = call(c, fn, [], st=post)
        cons = list(p.pc) + C02.quotient_equalities(c.ex) + CONST_AX + [vd != 0, vu != 0, zr(p.retval) != 0]
        r, m = chk.prove('ewsb:tadpole%d-vanishes' % (k + 1), cons, timeout_ms=60000, family=fam,
                         sample={'obligation': 'after solve_ewsb_tree_level the tadpole equation %d is satisfied for all parameters '
                                 '(vd, vu != 0)' % (k + 1)})
        if r == 'sat':
            chk.violation('ewsb:tadpole%d' % (k + 1), 'C04:ewsb', 'the EWSB elimination of mHd2/mHu2 does not solve tadpole equation %d' % (k + 1),
                          '#!/bin/sh\ncd %s && exec python3-vt -m props.replay_c04 ewsb\n' % VERIF)
    # sum rules with the eliminated soft masses
    ent = {}
    for name in ('hh', 'Ah', 'Hpm'):
        for i in range(2):
            for j in range(2):
                e, p = entry(c, name, i, j, st=post)
                ent[(name, i, j)] = (e, p)
    base = list(post.pc) + C02.quotient_equalities(c.ex) + CONST_AX + [vd != 0, vu != 0, g2 != 0]

    def tr(n):
        return ent[(n, 0, 0)][0] + ent[(n, 1, 1)][0]

    def det(n):
        return ent[(n, 0, 0)][0] * ent[(n, 1, 1)][0] - ent[(n, 0, 1)][0] * ent[(n, 1, 0)][0]
    pcs = []
    for k_ in ent.values():
        pcs += list(k_[1].pc)
    base = base + pcs
    # Goldstone: (vd, -vu) is an eigenvector of M_Ah with eigenvalue MZ^2 and of M_Hpm with MW^2
    for name, M2 in (('Ah', MZ2), ('Hpm', MW2)):
        for i in range(2):
            lhs = ent[(name, i, 0)][0] * vd - ent[(name, i, 1)][0] * vu
            rhs = M2 * (vd if i == 0 else -vu)
            r, m = chk.prove('goldstone:%s:%d' % (name, i), base + [lhs != rhs], timeout_ms=60000, family=fam,
                             sample={'obligation': 'with the EWSB solution, (vd,-vu) is an eigenvector of the %s mass matrix with '
                                     'eigenvalue %s (Goldstone mode at the gauge-boson mass)' % (name, 'MZ^2' if name == 'Ah' else 'MW^2')})
            if r == 'sat':
                chk.violation('goldstone:%s' % name, 'C04:goldstone:%s' % name, 'Goldstone mode of %s is not at the gauge-boson mass' % name,
                              '#!/bin/sh\ncd %s && exec python3-vt -m props.replay_c04 sumrules\n' % VERIF)
    mA2 = tr('Ah') - MZ2
    rules = [('mHpm2 = mA2 + MW2', tr('Hpm') - MW2, mA2 + MW2),
             ('mh2 + mH2 = mA2 + MZ2', tr('hh'), mA2 + MZ2),
             ('mh2 mH2 = mA2 MZ2 cos^2(2 beta)', det('hh') * v2 * v2, mA2 * MZ2 * (vd * vd - vu * vu) * (vd * vd - vu * vu))]
    for nm, lhs, rhs in rules:
        r, m = chk.prove('sumrule:' + nm, base + [lhs != rhs], timeout_ms=60000, family=fam,
                         sample={'obligation': 'tree-level identity %s from traces/determinants of the code\'s mass matrices after EWSB' % nm})
        if r == 'sat':
            chk.violation('sumrule:' + nm, 'C04:sumrule:' + nm.split(' ')[0], 'tree-level identity %s violated' % nm,
                          '#!/bin/sh\ncd %s && exec python3-vt -m props.replay_c04 sumrules\n' % VERIF)


def zr_bv(v):
    if isinstance(v, int):
        return z3.BitVecVal(v, 32)
    return z3.simplify(v)


def generations(chk, c):
    """exchanging the parameters of two generations exchanges the sfermion mass matrices"""
    V = c.V
    fam = 'generation-exchange'
    groups = [('d', ['Sd', 'Ss', 'Sb']), ('u', ['Su', 'Sc', 'St']), ('e', ['Se', 'Sm', 'Stau'])]
    for kind, names in groups:
        for a in range(3):
            for b in range(a + 1, 3):
                sub = []
                for nm in DIAG:
                    sub.append((V['%s%d' % (nm, a)], V['%s%d' % (nm, b)]))
                    sub.append((V['%s%d' % (nm, b)], V['%s%d' % (nm, a)]))
                for i in range(2):
                    for j in range(i, 2):
                        ea = c.mats[(names[a], i, j)]
                        eb = c.mats[(names[b], i, j)]
                        r, m = chk.prove('exchange:%s<->%s[%d,%d]' % (names[a], names[b], i, j),
                                         CONST_AX + [z3.substitute(ea, *sub) != eb], family=fam,
                                         sample={'obligation': 'mass matrix of %s with the parameters of generations %d and %d exchanged '
                                                 'is the mass matrix of %s' % (names[a], a + 1, b + 1, names[b])})
                        if r == 'sat':
                            chk.violation('exchange:%s' % names[a], 'C04:exchange:%s:%s' % (names[a], names[b]),
                                          'exchanging generations %d and %d does not exchange %s and %s' % (a + 1, b + 1, names[a], names[b]),
                                          '#!/bin/sh\ncd %s && exec python3-vt -m props.replay_c04 matrices\n' % VERIF)
    sn = ['SveL', 'SvmL', 'SvtL']
    for a in range(3):
        for b in range(a + 1, 3):
            sub = []
            for nm in DIAG:
                sub.append((V['%s%d' % (nm, a)], V['%s%d' % (nm, b)]))
                sub.append((V['%s%d' % (nm, b)], V['%s%d' % (nm, a)]))
            r, m = chk.prove('exchange:%s<->%s' % (sn[a], sn[b]), CONST_AX + [z3.substitute(c.mats[(sn[a],)], *sub) != c.mats[(sn[b],)]],
                             family=fam, sample={'obligation': 'sneutrino masses exchange with the generation parameters'})


def run(chk):
    chk.assumptions += [
        'REAL domain; decimal literals of the generated code denote their decimal value (0.025 = 1/40, ...), '
        '0.7071.. = 1/sqrt2, 0.7745.. = sqrt(3/5), 0.3872.. = sqrt(3/5)/2 as algebraic symbols',
        'oracles: sfermion/sneutrino matrices from quantum numbers (T3, Y) with D = (T3 g2^2 - Y/2 g\'^2)(vd^2-vu^2)/4; Higgs '
        'matrices and tadpoles by symbolic differentiation (sympy) of the tree-level potential; neutralino/chargino '
        'matrices in the standard basis',
        'decomposition routines (fs_diagonalize_hermitian, fs_svd, fs_diagonalize_symmetric) are represented by their '
        'documented contract (property C12); their outputs are fresh symbols constrained only by the ordering |w0| <= |w1|',
    ]
    chk.not_covered += ['numerical accuracy of the decompositions (C12)']
    c = setup(chk)
    matrices(chk, c)
    generations(chk, c)
    higgs(chk, c)
    from . import C04b
    C04b.run(chk, c)
    chk.absorb_executor(c.ex)
    from . import C04c
    C04c.run(chk)
