"""C08 - a constructed THDM reproduces the inputs it was constructed from.

Decided on the real code:
  (1) THDM_mass_eigenstates: every Higgs mass matrix and both tadpoles equal the Hessians/derivatives of the general
      THDM potential (sympy, Feynman-gauge Goldstone terms), the EWSB elimination solves the tadpoles, the Goldstone
      directions are eigenvectors at MZ/MW, MW/MZ/alpha_em/tan(beta) relations, Goldstone reordering;
  (2) THDM::set_basis(Mass_basis): the closed-form lambda_1..5, substituted into these matrices, give
      tr/eigen-relations with exactly the input masses and mixing angle: M_hh = R(alpha)^T diag(mh^2, mH^2) R(alpha),
      m_A, m_H+ from the traces, lambda_6,7, m12^2, tan(beta) passed through;
  (3) get_sin_beta_minus_alpha/get_cos_beta_minus_alpha for an arbitrary unit eigenvector row ZH(1,:) of either sign:
      the reported value is the input with cos(beta-alpha) >= 0.
"""
from fractions import Fraction as Fr
import sympy
import z3

from .common import *
from .C14b import demangled
from .modelprobe import probe, ext_handler
from . import angles
from symx.exec import Ptr

S2 = z3.Real('const_sqrt2')
S35 = z3.Real('const_sqrt_3_5')
PI4 = z3.Real('const_4pi')
CONST_AX = [S2 > 0, S2 * S2 == 2, S35 > 0, S35 * S35 == Fr(3, 5), PI4 > 12, PI4 < 13]
CONSTS = [(0.70710678118654752, S2 / 2), (1.4142135623730950, S2), (0.77459666924148338, S35), (0.3872983346207417, S35 / 2),
          (12.566370614359173, PI4), (0.15, z3.RealVal('3/20'))]
PARS = ['g1', 'g2', 'v1', 'v2', 'lambda1', 'lambda2', 'lambda3', 'lambda4', 'lambda5', 'lambda6', 'lambda7', 'm112', 'm222', 'm122']


def potential_oracle():
    """general THDM potential, Phi_i = (phi_i^+, (v_i + rho_i + i eta_i)/sqrt2)"""
    names = 'g1 g2 v1 v2 lambda1 lambda2 lambda3 lambda4 lambda5 lambda6 lambda7 m112 m222 m122'
    sy = dict(zip(names.split(), sympy.symbols(names, real=True)))
    v1, v2 = sy['v1'], sy['v2']
    r1, r2, e1, e2, a1, b1, a2, b2 = sympy.symbols('r1 r2 e1 e2 a1 b1 a2 b2', real=True)
    I = sympy.I
    rt = sympy.sqrt(2)
    P1 = [(a1 + I * b1) / rt, (v1 + r1 + I * e1) / rt]
    P2 = [(a2 + I * b2) / rt, (v2 + r2 + I * e2) / rt]

    def dag(A, B):
        return sympy.expand(sympy.conjugate(A[0]) * B[0] + sympy.conjugate(A[1]) * B[1])
    p11, p22, p12, p21 = dag(P1, P1), dag(P2, P2), dag(P1, P2), dag(P2, P1)
    V = sy['m112'] * p11 + sy['m222'] * p22 - sy['m122'] * (p12 + p21) + sy['lambda1'] / 2 * p11 ** 2 + sy['lambda2'] / 2 * p22 ** 2 \
        + sy['lambda3'] * p11 * p22 + sy['lambda4'] * p12 * p21 \
        + sy['lambda5'] / 2 * (p12 ** 2 + p21 ** 2) + sy['lambda6'] * p11 * (p12 + p21) + sy['lambda7'] * p22 * (p12 + p21)
    V = sympy.expand(sympy.re(sympy.expand(V)))
    zero = {x: 0 for x in (r1, r2, e1, e2, a1, b1, a2, b2)}

    def hess(xs):
        return [[sympy.expand(sympy.diff(V, x, y).subs(zero)) for y in xs] for x in xs]
    tad = [sympy.expand(sympy.diff(V, x).subs(zero)) for x in (r1, r2)]
    Hc = hess([a1, b1, a2, b2])
    # charged: complex basis (phi1^+, phi2^+): M_ij = d^2 V/d conj(phi_i) d phi_j ; for a CP-conserving real potential
    ch = [[sympy.expand((Hc[0][0] + Hc[1][1]) / 2), sympy.expand((Hc[0][2] + Hc[1][3]) / 2)],
          [sympy.expand((Hc[0][2] + Hc[1][3]) / 2), sympy.expand((Hc[2][2] + Hc[3][3]) / 2)]]
    return {'hh': hess([r1, r2]), 'Ah': hess([e1, e2]), 'Hm': ch, 'tad': tad, 'syms': sy}


def to_z3(expr, syms, V):
    from .ffcommon import sympy_to_z3
    env = dict((s, V[n]) for n, s in syms.items())
    return sympy_to_z3(expr, env)


class Ctx:
    pass


def setup():
    angles.RANGES = True
    c = Ctx()
    c.mod = harness_module('h_thdm_me')
    c.dem = demangled(c.mod)
    c.ex = executor(c.mod, RealDom(CONSTS), extra_stubs=None, ufs=dict(angles.ANGLE_STUBS), fork_select=False)
    c.ex.undefined_handler = ext_handler(c.dem)
    c.ex.div_no_fork = True
    st = X.State()
    reg = c.ex.new_region(st, None, 'input', 'model', lazy=True)
    c.mp = Ptr(reg.rid, 0)
    spec = dict((nm, ('vx_par', [k])) for k, nm in enumerate(PARS))
    c.st, V = probe(c.ex, st, c.mp, spec)
    c.V = {k: zr(v) for k, v in V.items()}
    return c


def call(c, fn, args, st=None):
    s2 = c.ex.start(fn, [c.mp] + list(args), (st or c.st).fork())
    rr = c.ex.explore(s2)
    good = [p for p in rr if p.outcome[0] == 'ret']
    if len(good) != 1:
        raise Unsupported('%s%r: %d returning paths of %d' % (fn, args, len(good), len(rr)))
    return good[0]


def QE(c, exprs):
    from . import C02
    return C02.quotient_equalities(c.ex, relevant=exprs)


def prove_eq(chk, c, tag, lhs, rhs, pcs, family, what, extra=(), key=None):
    cons = list(pcs) + CONST_AX + list(extra) + [lhs != rhs]
    r, m = chk.prove(tag, cons, timeout_ms=60000, family=family, sample={'obligation': what})
    if r == 'sat':
        chk.violation(tag, key or ('C08:%s' % tag.split('[')[0]), '%s: %s fails' % (tag, what),
                      '#!/bin/sh\ncd %s && exec python3-vt -m props.replay_c08 spectrum\n' % VERIF)
    return r


def spectrum(chk, c):
    V = c.V
    fam = 'thdm-mass-matrices'
    H = potential_oracle()
    syms = H['syms']
    g1, g2, v1, v2 = V['g1'], V['g2'], V['v1'], V['v2']
    gp2 = Fr(3, 5) * g1 * g1
    vv = v1 * v1 + v2 * v2
    MZ2 = (gp2 + g2 * g2) * vv / 4
    MW2 = g2 * g2 * vv / 4
    chk.functions.update(['THDM_mass_eigenstates::get_mass_matrix_hh', 'get_mass_matrix_Ah', 'get_mass_matrix_Hm', 'get_mass_matrix_VZ',
                          'get_mass_matrix_VWm', 'get_ewsb_eq_hh_1', 'get_ewsb_eq_hh_2', 'solve_ewsb_tree_level', 'get_tan_beta',
                          'get_alpha_em', 'set_tan_beta_and_v', 'set_alpha_em_and_cw'])
    c.mat = {}
    for k, fn in enumerate(('vx_ewsb1', 'vx_ewsb2')):
        p = call(c, fn, [])
        prove_eq(chk, c, 'tadpole%d' % (k + 1), zr(p.retval), to_z3(H['tad'][k], syms, V), p.pc, fam,
                 'get_ewsb_eq_hh_%d = dV/drho_%d of the general THDM potential' % (k + 1, k + 1))
    for name in ('hh', 'Ah', 'Hm'):
        for i in range(2):
            for j in range(2):
                p = call(c, 'vx_mm_' + name, [i, j])
                c.mat[(name, i, j)] = (zr(p.retval), p)
    for i in range(2):
        for j in range(2):
            e, p = c.mat[('hh', i, j)]
            prove_eq(chk, c, 'hh[%d,%d]' % (i, j), e, to_z3(H['hh'][i][j], syms, V), p.pc, fam, 'CP-even mass matrix = Hessian of the potential')
    for name, M2 in (('Ah', MZ2), ('Hm', MW2)):
        gv = (v1, v2)
        for i in range(2):
            for j in range(2):
                e, p = c.mat[(name, i, j)]
                orc = to_z3(H[name][i][j], syms, V) * vv + M2 * gv[i] * gv[j]
                prove_eq(chk, c, '%s[%d,%d]' % (name, i, j), e * vv, orc, p.pc, fam,
                         '%s mass matrix = Hessian + Feynman-gauge Goldstone term M_V^2 g g^T/v^2, g = (v1, v2)' % name, extra=[g2 != 0, vv != 0])
    p = call(c, 'vx_mm_VZ', [])
    prove_eq(chk, c, 'VZ', zr(p.retval), MZ2, p.pc, fam, 'MZ^2 = (g\'^2 + g2^2)(v1^2+v2^2)/4', extra=[g2 != 0])
    p = call(c, 'vx_mm_VWm', [])
    prove_eq(chk, c, 'VWm', zr(p.retval), MW2, p.pc, fam, 'MW^2 = g2^2 (v1^2+v2^2)/4')
    p = call(c, 'vx_tan_beta', [])
    prove_eq(chk, c, 'tan_beta', zr(p.retval) * v1, v2, p.pc, fam, 'get_tan_beta() = v2/v1', extra=[v1 != 0])
    p = call(c, 'vx_alpha_em', [])
    prove_eq(chk, c, 'alpha_em', zr(p.retval) * PI4 * (gp2 + g2 * g2), gp2 * g2 * g2, p.pc, fam,
             'alpha_em = g\'^2 g2^2/((g\'^2+g2^2) 4 pi)', extra=[g2 != 0, g1 != 0])
    # setters: v1 = v cos(beta), v2 = v sin(beta); g1, g2 from alpha_em and cos(theta_W)
    tb, v = z3.Real('in_tb'), z3.Real('in_v')
    s2 = c.ex.start('vx_set_tan_beta_and_v', [c.mp, tb, v], c.st.fork())
    s2.pc += [tb > 0, v > 0]
    rr = [p_ for p_ in c.ex.explore(s2) if p_.outcome[0] == 'ret']
    for pi, p_ in enumerate(rr):
        p_.outcome = None
        p_.frames = []
        p_.retval = None
        st2, W = probe(c.ex, p_, c.mp, {'v1': ('vx_par', [2]), 'v2': ('vx_par', [3])})
        w1, w2 = zr(W['v1']), zr(W['v2'])
        r, m = chk.prove('set_tan_beta_and_v#%d' % pi, list(st2.pc) + CONST_AX + [z3.Or(w2 != tb * w1, w1 * w1 + w2 * w2 != v * v, w1 <= 0)],
                         family=fam, sample={'obligation': 'set_tan_beta_and_v: v2/v1 = tan(beta), v1^2 + v2^2 = v^2, v1 > 0'})
        if r == 'sat':
            chk.violation('set_tan_beta_and_v', 'C08:set_tan_beta_and_v', 'set_tan_beta_and_v does not store v1 = v cos(beta), v2 = v sin(beta)',
                          '#!/bin/sh\ncd %s && exec python3-vt -m props.replay_c08 spectrum\n' % VERIF)
    # EWSB
    s2 = c.ex.start('vx_solve_ewsb', [c.mp], c.st.fork())
    rr = [p_ for p_ in c.ex.explore(s2) if p_.outcome[0] == 'ret']
    ok = []
    for p_ in rr:
        rv = p_.retval
        if (isinstance(rv, int) and rv == 0) or (not isinstance(rv, int) and z3.is_bv_value(z3.simplify(rv)) and z3.simplify(rv).as_long() == 0):
            ok.append(p_)
    if len(ok) != 1:
        chk.record('ewsb', 'inconclusive', 'solve_ewsb: %d paths' % len(rr))
        chk.inconclusive.append('ewsb')
        return
    post = ok[0]
    post.outcome = None
    post.frames = []
    post.retval = None
    c.post = post
    for k, fn in enumerate(('vx_ewsb1', 'vx_ewsb2')):
        p = call(c, fn, [], st=post)
        r, m = chk.prove('ewsb:tadpole%d-vanishes' % (k + 1), list(p.pc) + CONST_AX + [v1 != 0, v2 != 0, zr(p.retval) != 0],
                         timeout_ms=60000, family=fam, sample={'obligation': 'after solve_ewsb_tree_level tadpole %d vanishes' % (k + 1)})
        if r == 'sat':
            chk.violation('ewsb:tadpole%d' % (k + 1), 'C08:ewsb', 'EWSB elimination of m11^2/m22^2 does not solve tadpole equation %d' % (k + 1),
                          '#!/bin/sh\ncd %s && exec python3-vt -m props.replay_c08 spectrum\n' % VERIF)
    c.pmat = {}
    for name in ('hh', 'Ah', 'Hm'):
        for i in range(2):
            for j in range(2):
                p = call(c, 'vx_mm_' + name, [i, j], st=post)
                c.pmat[(name, i, j)] = (zr(p.retval), p)
    base = list(post.pc) + CONST_AX + [v1 != 0, v2 != 0, g2 != 0]
    for k_ in c.pmat.values():
        base += list(k_[1].pc)
    c.base = base
    for name, M2 in (('Ah', MZ2), ('Hm', MW2)):
        for i in range(2):
            lhs = c.pmat[(name, i, 0)][0] * v1 + c.pmat[(name, i, 1)][0] * v2
            rhs = M2 * (v1 if i == 0 else v2)
            r, m = chk.prove('goldstone:%s:%d' % (name, i), base + [lhs != rhs], timeout_ms=60000, family=fam,
                             sample={'obligation': 'with the EWSB solution (v1, v2) is an eigenvector of the %s mass matrix with eigenvalue '
                                     '%s' % (name, 'MZ^2' if name == 'Ah' else 'MW^2')})
            if r == 'sat':
                chk.violation('goldstone:' + name, 'C08:goldstone:' + name, 'Goldstone mode of %s is not at the gauge boson mass' % name,
                              '#!/bin/sh\ncd %s && exec python3-vt -m props.replay_c08 spectrum\n' % VERIF)


def run(chk):
    chk.assumptions += [
        'REAL domain; decimal literals idealised (0.15 = 3/20), sqrt2, sqrt(3/5), 4 pi as symbols with their algebraic relations',
        'oracle: Hessians and tadpoles of the general THDM potential by symbolic differentiation (sympy)',
        'angles (asin, atan, sin, cos) through the angle abstraction: exact addition theorems, asin/atan ranges',
        'eigen-decompositions are represented by their contract (C12); the CP-even eigenvector row ZH(1,:) is an arbitrary unit '
        'vector proportional to the true eigenvector, of either sign',
    ]
    chk.not_covered += ['fermion sector SVD (C12) beyond (v1 Gamma + v2 Pi)/sqrt2 = SM mass matrix (C09)',
                        'rounding: tolerances that scale with the mass hierarchy']
    c = setup()
    spectrum(chk, c)
    from . import C08b
    C08b.run(chk, c)
    chk.absorb_executor(c.ex)
