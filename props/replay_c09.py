"""replay for C09: native comparison of THDM parametrisations (modes: types | ignored | singular | ctor)"""
import os
import subprocess
import sys
from symx import build


def main():
    exe = build.build_tool(os.path.join(os.path.dirname(os.path.dirname(os.path.abspath(__file__))), 'replay', 'c09_driver.cpp'),
                           'c09_driver')
    mode = sys.argv[1] if len(sys.argv) > 1 else 'types'
    if mode == 'ctor':
        mode = 'types'
    sys.exit(subprocess.call([exe, mode]))


if __name__ == '__main__':
    main()
