"""C11 part 3: conditioning of the removable Kaellen-zero singularity in phi_over_y (f_CSd, f_CSu).

phi_over_y(xu, xd) = Phi(xd, xu, 1)/y with y = (xu-xd)^2 - 2(xu+xd) + 1 is finite where y = 0, but the quotient is formed
from two numbers that both vanish there.  In exact arithmetic any non-empty window around y = 0 in which the limit formula
is used keeps the division defined, so the REAL domain cannot tell a window of 1e-8 from one of 1e-15.  The property's
1% band can: y is a sum of O(1) terms, its double value carries an absolute error of a few 1e-16 of their magnitude M, so
phi/y is meaningless unless |y| >= ~100 * 2e-16 * M.  Obligation (solver): on every path of f_CSd/f_CSu that divides by a
cancelling denominator, |den| >= 2e-14 * M for all physical quark arguments.  A witness is replayed natively with the
property's own continuity criterion along m_H+ (xu, xd scale together), also snapped to the exact zero."""
import math
from fractions import Fraction as Fr
import z3

from .common import *
from .ffcommon import *
from . import C02
from .C11b import probe

THR = Fr(2, 10 ** 14)


def uf_phi(ex, st, args, I):
    a = [zr(x) if not isinstance(x, float) else None for x in args]
    if any(x is None for x in a):
        return math.nan
    return ex.leaf(st, 'Phi', a)


def cancelling(den, pos_vars):
    """den is a sum with terms of both signs (variables are positive): candidates for cancellation"""
    d = z3.simplify(den, som=True)
    if not z3.is_add(d):
        return None
    pos = neg = 0
    terms = []
    for t in d.children():
        c = Fr(1)
        mon = t
        if z3.is_mul(t) and z3.is_rational_value(t.arg(0)):
            c = Fr(t.arg(0).numerator_as_long(), t.arg(0).denominator_as_long())
            mon = z3.Product(*t.children()[1:]) if t.num_args() > 2 else t.arg(1)
        elif z3.is_rational_value(t):
            c = Fr(t.numerator_as_long(), t.denominator_as_long())
            mon = zr(1)
        if c > 0:
            pos += 1
        else:
            neg += 1
        terms.append((c, mon))
    if not (pos and neg):
        return None
    return z3.Sum(*[zr(abs(c)) * m for c, m in terms])


def specs():
    xu, xd, qu, qd, r = z3.Real('xu'), z3.Real('xd'), z3.Real('qu'), z3.Real('qd'), z3.Real('r')
    x, y, yu, yd = z3.Real('x'), z3.Real('y'), z3.Real('yu'), z3.Real('yd')
    charges = [qu == zr(Fr(2, 3)), qd == zr(Fr(-1, 3))]
    # physical quark arguments: xu/xd = (m_u/m_d)^2 in [1000, 4000] (top/bottom), m_H+ in [50, 5000] GeV
    quark = charges + [xu == r * xd, r >= 1000, r <= 4000, xd >= zr(Fr(1, 10 ** 7)), xd <= zr(Fr(1, 100))]
    box = [x >= zr(Fr(1, 10 ** 6)), x <= zr(Fr(10 ** 6)), y >= zr(Fr(1, 10 ** 6)), y <= zr(Fr(10 ** 6))]
    # FCWu/FCWd: (xu, xd) = (mt^2, mb^2)/mH+^2 and (yu, yd) = (mt^2, mb^2)/mW^2, mH+/mW in [0.5, 60]
    k = z3.Real('k')
    quark2 = quark + [yu == k * xu, yd == k * xd, k >= zr(Fr(1, 4)), k <= 3600]
    out = [('f_CSd', 'dddd', [xu, xd, qu, qd], quark, 'xu/xd in [1000,4000], xd in [1e-7,1e-2]', 'hp'),
           ('f_CSu', 'dddd', [xu, xd, qu, qd], quark, 'xu/xd in [1000,4000], xd in [1e-7,1e-2]', 'hp'),
           ('FPZ', 'dd', [x, y], box, 'x, y in [1e-6,1e6]', 'each'),
           ('FSZ', 'dd', [x, y], box, 'x, y in [1e-6,1e6]', 'each'),
           ('FCWl', 'dd', [x, y], box, 'x, y in [1e-6,1e6]', 'each'),
           ('FCWu', 'dddddd', [xu, xd, yu, yd, qu, qd], quark2, 'top/bottom arguments, (mH+/mW)^2 in [1/4,3600]', 'hp'),
           ('FCWd', 'dddddd', [xu, xd, yu, yd, qu, qd], quark2, 'top/bottom arguments, (mH+/mW)^2 in [1/4,3600]', 'hp')]
    return out


def run(chk, mod, lib):
    PHI = mangle_fn('Phi', 'ddd')
    for name, sig, vs, dom, domtxt, move in specs():
        sym = mangle_fn(name, sig)
        chk.functions.add(sym)
        if name.startswith('f_CS'):
            ufs = dict(LEAF_UFS)
            ufs[PHI] = uf_phi
        else:
            ufs = dict(C02.UFS)
        ex = executor(mod, RealDom(), ufs=ufs)
        ex.max_steps = 200000
        st = ex.start(sym, vs)
        st.pc += dom
        try:
            paths = ex.explore(st)
        except Unsupported as e:
            chk.record('conditioning:' + name, 'gap', 'executor: %s' % e)
            chk.not_covered.append('conditioning of %s not executed (%s)' % (name, str(e)[:80]))
            continue
        chk.absorb_executor(ex)
        nf = native_fn(lib, sym, len(vs))
        nret = 0
        cands = []
        for i, p in enumerate(paths):
            if p.outcome[0] != 'ret':
                continue
            nret += 1
            used = C02.reachable_quots(ex, list(p.pc) + ([p.retval] if isinstance(p.retval, z3.ExprRef) else []))
            seen = set()
            for qid, (num, den) in ex.quots.items():
                if qid not in used or den.get_id() in seen:
                    continue
                seen.add(den.get_id())
                M = cancelling(den, None)
                if M is None:
                    continue
                tag = 'conditioning:%s#%d:%d' % (name, i, len(seen))
                cands.append((p, den, M))
                r_, m = chk.prove(tag, p.pc + [den < zr(THR) * M, -den < zr(THR) * M], family='conditioning',
                                  sample={'obligation': '%s: a denominator formed by cancellation (%s) is at least 2e-14 of the '
                                          'magnitude of its terms on every path that divides by it (%s)'
                                          % (name, str(z3.simplify(den, som=True))[:80], domtxt)})
                if r_ != 'sat':
                    continue
                pt = [float(m.real(v)) for v in vs]
                pts = [pt]
                if name.startswith('f_CS'):
                    for sg in (1, -1):
                        s_ = math.sqrt(pt[1])
                        pts.append([(1 + sg * s_) ** 2, pt[1], pt[2], pt[3]])

                def coupled(v, base, d):
                    v[1] = base[1] * (1 + d)
                bad = None
                for q_ in pts:
                    for idx in ([0] if move == 'hp' else range(len(vs))):
                        msg = probe(name, nf, q_, idx, coupled if move == 'hp' else None)
                        chk.traces_validated += 22
                        if msg:
                            bad = (q_, msg)
                            break
                    if bad:
                        break
                key = 'C11:%s:ill-conditioned-quotient' % name
                if bad:
                    chk.violation(tag, key, '%s divides by %s although it can be as small as %.3g of its terms; at %r: %s'
                                  % (name, str(z3.simplify(den, som=True))[:60], float(THR), bad[0], bad[1]),
                                  '#!/bin/sh\ncd %s && exec python3-vt -m props.replay_c11 quotient %s %s %s\n' % (
                                      VERIF, name, sig, ' '.join(repr(float(x)) for x in bad[0])))
                else:
                    chk.record(tag, 'gap', 'ill-conditioned quotient reachable in exact arithmetic but native values inside the 1% band',
                               family='conditioning')
        if nret == 0:
            chk.record('conditioning:' + name, 'gap', 'no returning path')
        # vacuity guard: with a relaxed threshold the same query must have a solution on some path; the smallest
        # relaxation (of 1e3, 1e6, 1e9, 1e12) that is satisfiable also documents the margin the code keeps
        wit = False
        margin = None
        for fac in (10 ** 3, 10 ** 6, 10 ** 9, 10 ** 12):
            for p, den, M in cands:
                r_, m = chk.solve(p.pc + [den < zr(fac * THR) * M, -den < zr(fac * THR) * M], 20000)
                if r_ == 'sat':
                    wit = True
                    margin = fac
                    break
            if wit:
                break
        chk.extra.setdefault('conditioning_margin', {})[name] = ('|den| < %g * terms reachable' % float(margin * THR)) if wit else None
        chk.record('conditioning:%s:witness' % name, 'discharged' if wit else 'gap',
                   '' if wit else 'no path divides by a cancelling denominator within 2e-2 of zero: the obligation is vacuous',
                   family='conditioning-witness',
                   sample={'obligation': '%s: the conditioning query with a relaxed threshold is satisfiable '
                           '(the obligation is not vacuous)' % name, 'relaxed_threshold': float(margin * THR) if wit else None})
