"""setup / self test: tool versions, oracle validation against mpmath quadrature and the repo tables"""
import os
import subprocess
import sys
import mpmath


def main():
    ok = True
    import z3
    print('z3', z3.get_version_string())
    try:
        out = subprocess.run(['cvc5', '--version'], capture_output=True, text=True).stdout.split('\n')[0]
        print(out)
    except OSError:
        print('cvc5 missing')
        ok = False
    out = subprocess.run(['clang++-14', '--version'], capture_output=True, text=True).stdout.split('\n')[0]
    print(out)
    # oracle validation: closed forms of the f_PS family against numerical quadrature of the
    # integral definitions (hep-ph/0609168 (70)-(72), arXiv:1502.04199 (25)-(28))
    from .ffcommon import mp_fPS, mp_fPS_closed, mp_family, mpf
    mpmath.mp.dps = 30
    worst = 0
    for z in ['0.01', '0.1', '0.2', '0.3', '1', '7.5', '150']:
        a, b = mp_fPS(mpf(mpmath.mpf(z))), mp_fPS_closed(mpmath.mpf(z))
        worst = max(worst, abs(a - b) / abs(b))
    print('f_PS closed form vs quadrature: max rel. diff %s' % mpmath.nstr(worst, 3))
    if worst > mpmath.mpf(10) ** -15:
        ok = False

    def quad_F(kind, w):
        w = mpmath.mpf(w)
        lg = lambda x: mpmath.log(w / (x * (1 - x)))
        den = lambda x: w - x * (1 - x)
        if kind == 'F1':
            f = lambda x: (2 * x * (1 - x) - 1) / den(x) * lg(x)
            return w / 2 * mpmath.quad(f, [0, 0.5, 1])
        if kind == 'F1t':
            f = lambda x: 1 / den(x) * lg(x)
            return w / 2 * mpmath.quad(f, [0, 0.5, 1])
        if kind == 'F2':
            f = lambda x: x * (x - 1) / den(x) * lg(x)
            return mpmath.quad(f, [0, 0.5, 1]) / 2
        if kind == 'F3':
            f = lambda x: (x * w * (3 * x * (4 * x - 1) + 10) - x * (1 - x)) / den(x) * lg(x)
            return mpmath.quad(f, [0, 0.5, 1]) / 2
    for kind in ('F1', 'F1t', 'F2', 'F3'):
        w_ = 0
        for w in ['0.4', '1', '3.3', '40']:
            a, b = quad_F(kind, w), mp_family(kind, mpmath.mpf(w))
            w_ = max(w_, abs(a - b) / abs(b))
        print('%s relation to f_PS vs quadrature of arXiv:1502.04199: max rel. diff %s' % (kind, mpmath.nstr(w_, 3)))
        if w_ > mpmath.mpf(10) ** -12:
            ok = False
    # differential equation of f_PS used for the equal-argument limits (C11):
    #   z (1-4z) f_PS'(z) = (1-2z) f_PS(z) + 2 z ln z
    w_ = 0
    for z in ['0.05', '0.2', '0.6', '2', '30']:
        zz = mpmath.mpf(z)
        lhs = zz * (1 - 4 * zz) * mpmath.diff(lambda t: mp_fPS(t), zz)
        rhs = (1 - 2 * zz) * mp_fPS(zz) + 2 * zz * mpmath.log(zz)
        w_ = max(w_, abs(lhs - rhs) / max(abs(rhs), 1))
    print('f_PS differential equation vs numerical derivative of the integral: max rel. diff %s' % mpmath.nstr(w_, 3))
    if w_ > mpmath.mpf(10) ** -10:
        ok = False
    print('selftest', 'ok' if ok else 'FAILED')
    return 0 if ok else 1
