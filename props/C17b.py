"""C17 part 2: string getters stay inside their buffer, setter/getter round trips, THDM constructor
arguments mirror the C structs, error-code mapping of the constructors, free(NULL)."""
import ctypes
import os
import re
import subprocess
import z3

from .common import *
from .C14b import demangled
from symx.exec import Ptr, ThrowSignal, NULL, PathEnd
from symx import stubs as S

_S = '_ZNKSt7__cxx1112basic_stringIcSt11char_traitsIcESaIcEE'


# ---------------------------------------------------------------------------- string getters

def string_getters(chk, mod, lib_so):
    dem = demangled(mod)
    for fname in ('gm2calc_mssmnofv_get_problems', 'gm2calc_mssmnofv_get_warnings'):
        if fname not in mod.functions:
            continue
        chk.functions.add(fname)
        Slen = z3.BitVec('message_length', 64)

        def ext(ex, st, name, args, I):
            d = dem.get(name, name)
            rt = ex.m.resolve(I['ty'])
            if 'std::__cxx11::basic_string' in d and args and isinstance(args[0], Ptr) and \
                    ('get_problems' in d or 'get_warnings' in d) and isinstance(rt, llir.VoidT):
                # returns std::string by value (sret): arbitrary content, arbitrary length
                s = args[0]
                r = ex.region(st, s)
                chars = ex.new_region(st, None, 'input', 'message', lazy=True)
                r.cells[s.off] = (Ptr(chars.rid, 0), 8)
                r.cells[s.off + 8] = (Slen, 8)
                return None
            if isinstance(rt, llir.VoidT):
                return None
            if isinstance(rt, llir.PtrT):
                reg = ex.new_region(st, None, 'input', 'obj', lazy=True)
                return Ptr(reg.rid, 0)
            return ex.fresh_of(st, rt, 'ext')

        def copy_stub(ex, st, args, I):
            this, dst, n = args[0], args[1], args[2]
            pos = args[3] if len(args) > 3 else 0
            size = ex.load(st, Ptr(this.rid, this.off + 8), llir.I64)
            nn = n if is_z3v(n) else z3.BitVecVal(n, 64)
            sz = size if is_z3v(size) else z3.BitVecVal(size, 64)
            rlen = z3.If(z3.ULT(nn, sz), nn, sz)
            st.data['copied'] = (dst, rlen)
            return rlen
        st_ = dict(S.STRING_MODEL_STUBS)
        for n_ in list(mod.declares) + list(mod.functions):
            if n_.startswith(_S + '4copyEPcmm'):
                st_[n_] = copy_stub
        ex = executor(mod, RealDom(), extra_stubs=st_, fork_select=False)
        ex.undefined_handler = ext
        ex.opaque_calls = True
        writes = []
        st = X.State()
        model = ex.new_region(st, None, 'input', 'model', lazy=True)
        msg = ex.new_region(st, None, 'input', 'msgbuf', lazy=True)
        ln = z3.BitVec('len', 32)

        def hook(st_, r, off, size, v):
            if r.rid == msg.rid:
                st_.data['msg_writes'] = st_.data.get('msg_writes', ()) + ((off, size),)
        ex.write_hook = hook
        st = ex.start(fname, [Ptr(model.rid, 0), Ptr(msg.rid, 0), ln], st)
        try:
            paths = ex.explore(st)
        except (Unsupported, PathEnd) as e:
            chk.record('strbuf:' + fname, 'inconclusive', 'executor: %s' % e)
            chk.inconclusive.append('strbuf:' + fname)
            continue
        chk.absorb_executor(ex)
        L64 = z3.ZeroExt(32, ln)
        for i, p in enumerate(paths):
            tag = 'strbuf:%s#%d' % (fname, i)
            if p.outcome[0] != 'ret':
                chk.record(tag, 'inconclusive', 'path %r' % (p.outcome,))
                chk.inconclusive.append(tag)
                continue
            bad = []
            cp = p.data.get('copied')
            if cp is not None:
                bad.append(z3.UGT(cp[1], L64))              # bytes [0, rlen) must fit
            for off, size in p.data.get('msg_writes', ()):
                o = off if is_z3v(off) else z3.BitVecVal(off, 64)
                bad.append(z3.UGE(o, L64))                  # every single store below len
            if not bad:
                chk.record(tag, 'discharged', family='string-getters')
                chk.formulas.add(tag)
                continue
            r, m = chk.prove(tag, p.pc + [z3.ULE(Slen, z3.BitVecVal(1 << 20, 64)), z3.Or(bad)], family='string-getters',
                             sample={'obligation': '%s: every byte written through msg lies below len, for every '
                                     'len (0 included) and every message length' % fname})
            if r == 'sat':
                lv = m.bv(ln)
                rc = string_probe(fname, lv, lib_so)
                chk.traces_validated += 1
                if rc != 0:
                    chk.violation(tag, 'C17:string-getter-overflow:%s' % fname,
                                  '%s(model, msg, len=%d) writes outside the given buffer (message length %d in the '
                                  'solver witness; native run on a fresh model overwrites a guard byte)' % (
                                      fname, lv, m.bv(Slen)),
                                  '#!/bin/sh\ncd %s && exec python3-vt -m props.replay_c17 strlen0 %s %d\n' % (VERIF, fname, lv))
                else:
                    chk.record(tag, 'inconclusive', 'witness len=%d not reproduced' % lv)
                    chk.inconclusive.append(tag)


def is_z3v(x):
    return isinstance(x, z3.ExprRef)


def string_probe(fname, length=0, lib_so=None):
    """native: call the string getter with guarded buffers of several lengths (the witness length
    first) on a fresh model and on a model that carries a problem and a warning message;
    1 if a guard byte changed"""
    lib_so = lib_so or build.build_library()
    code = r'''
import ctypes, sys
lib = ctypes.CDLL(%r)
lib.gm2calc_mssmnofv_new.restype = ctypes.c_void_p
V = ctypes.c_void_p
def fresh():
    return lib.gm2calc_mssmnofv_new()
def troubled():
    m = lib.gm2calc_mssmnofv_new()
    D = ctypes.c_double
    U = ctypes.c_uint
    def call(n, *a):
        f = getattr(lib, n); f.argtypes = [V] + [type(x) for x in a]; f(V(m), *a)
    call('gm2calc_mssmnofv_set_alpha_MZ', D(0.0078)); call('gm2calc_mssmnofv_set_alpha_thompson', D(0.0073))
    call('gm2calc_mssmnofv_set_g3', D(1.2)); call('gm2calc_mssmnofv_set_MW_pole', D(80.385))
    call('gm2calc_mssmnofv_set_MZ_pole', D(91.1876)); call('gm2calc_mssmnofv_set_MM_pole', D(0.1056583715))
    call('gm2calc_mssmnofv_set_MT_pole', D(173.34)); call('gm2calc_mssmnofv_set_MB_running', D(2.8))
    call('gm2calc_mssmnofv_set_ML_pole', D(1.777)); call('gm2calc_mssmnofv_set_TB', D(10.0))
    call('gm2calc_mssmnofv_set_Mu', D(350.0)); call('gm2calc_mssmnofv_set_MassB', D(150.0))
    call('gm2calc_mssmnofv_set_MassWB', D(300.0)); call('gm2calc_mssmnofv_set_MassG', D(1000.0))
    call('gm2calc_mssmnofv_set_MAh_pole', D(1500.0)); call('gm2calc_mssmnofv_set_scale', D(454.7))
    for nm in ('ml2', 'me2', 'mq2', 'mu2', 'md2'):
        for i in range(3):
            call('gm2calc_mssmnofv_set_' + nm, U(i), U(i), D(-250000.0 if nm in ('ml2', 'me2') else 1e6))
    lib.gm2calc_mssmnofv_calculate_masses.argtypes = [V]
    lib.gm2calc_mssmnofv_calculate_masses(V(m))
    return m
bad = 0
f = getattr(lib, %r)
f.argtypes = [V, V, ctypes.c_uint]
for mk in (fresh, troubled):
    try:
        m = mk()
    except Exception as e:
        continue
    for length in [%d, 0, 1, 2, 3, 8, 16, 32, 33, 34, 64, 187, 188, 256]:
        G = 4096
        buf = ctypes.create_string_buffer(b"\xAA" * (2 * G + length), 2 * G + length)
        f(V(m), V(ctypes.addressof(buf) + G), length)
        raw = buf.raw
        ok = all(b == 0xAA for b in raw[:G]) and all(b == 0xAA for b in raw[G + length:])
        if not ok:
            print("GUARD BYTE OVERWRITTEN for len=%%d on a %%s model" %% (length, mk.__name__))
            bad = 1
print("guards intact" if not bad else "violation")
sys.exit(bad)
''' % (lib_so, fname, length)
    r = subprocess.run(['python3-vt', '-c', code], capture_output=True, text=True)
    print(r.stdout.strip(), r.stderr.strip()[-300:])
    return 0 if r.returncode == 0 else 1


# ---------------------------------------------------------------------------- set / get round trip

def roundtrip(chk, mod):
    names = [n for n in mod.functions if n.startswith('gm2calc_mssmnofv_set_')]
    for sname in sorted(names):
        gname = sname.replace('_set_', '_get_')
        base = sname[len('gm2calc_mssmnofv_set_'):]
        if gname not in mod.functions:
            continue
        sf, gf = mod.functions[sname], mod.functions[gname]
        # setter (model, [idx...], value) ; getter (model, [idx...])
        if len(sf.params) != len(gf.params) + 1:
            continue
        chk.functions.update([sname, gname])
        ex = executor(mod, RealDom(), fork_select=False)
        ext_seen = []

        def ext(ex_, st, name, args, I):
            ext_seen.append(name)
            rt = ex_.m.resolve(I['ty'])
            if isinstance(rt, llir.VoidT):
                return None
            if isinstance(rt, llir.PtrT):
                key = ('extptr', name.replace('_ZNK', '_ZN'))
                hit = ex_.leaf_memo.get(key)
                if hit is None:
                    reg = ex_.new_region(st, None, 'input', 'sub', lazy=True)
                    hit = reg.rid
                    ex_.leaf_memo[key] = hit
                if hit not in st.mem:
                    from symx.exec import Region
                    st.mem[hit] = Region(hit, None, 'input', 'sub', lazy=True)
                return Ptr(hit, 0)
            return ex_.fresh_of(st, rt, 'ext')
        ex.undefined_handler = ext
        st = X.State()
        model = ex.new_region(st, None, 'input', 'model', lazy=True)
        idx = [z3.BitVec('i%d' % k, 32) for k in range(len(gf.params) - 1)]
        val = z3.Real('v')
        # pole-mass setters of SLHA spectra are documented to take the value as is
        try:
            st = ex.start(sname, [Ptr(model.rid, 0)] + idx + [val], st)
            sp = ex.explore(st)
            ok = True
            npaths = 0
            for p in sp:
                if p.outcome[0] != 'ret':
                    ok = False
                    continue
                st2 = p.fork()
                st2.outcome = None
                st2.frames = []
                st2 = ex.start(gname, [Ptr(model.rid, 0)] + idx, st2)
                for q_ in ex.explore(st2):
                    npaths += 1
                    if q_.outcome[0] != 'ret':
                        ok = False
                        continue
                    rv = q_.retval
                    if is_z3v(rv) and rv.eq(val):
                        continue
                    r, m = chk.solve(q_.pc + [zr(rv) != val], 10000)
                    if r != 'unsat':
                        ok = False
        except (Unsupported, PathEnd) as e:
            chk.not_covered.append('round trip %s/%s not executed (%s)' % (sname, gname, str(e)[:60]))
            continue
        chk.absorb_executor(ex)
        external_setter = any('set_' in demangled(mod).get(n, '') for n in ext_seen)
        if external_setter:
            chk.not_covered.append('round trip %s/%s goes through an out-of-line C++ setter (not in this unit)' % (sname, gname))
            continue
        if ok and npaths:
            chk.record('roundtrip:' + base, 'discharged', family='set-get-roundtrip',
                       sample={'obligation': '%s(m, idx.., v); %s(m, idx..) == v for every v and index, from an '
                               'arbitrary model state' % (sname, gname)})
            chk.formulas.add(('roundtrip', base))
        else:
            chk.violation('roundtrip:' + base, 'C17:roundtrip:%s' % base,
                          '%s followed by %s does not return the value set' % (sname, gname), None)


# ---------------------------------------------------------------------------- THDM constructor mirror

FIELDS_MASS = ['mh', 'mH', 'mA', 'mHp', 'sin_beta_minus_alpha', 'lambda_6', 'lambda_7', 'tan_beta', 'm122',
               'zeta_u', 'zeta_d', 'zeta_l']
FIELDS_GAUGE = ['tan_beta', 'm122', 'zeta_u', 'zeta_d', 'zeta_l'] + ['lambda[%d]' % i for i in range(7)]
MATS = ['Delta_u', 'Delta_d', 'Delta_l', 'Pi_u', 'Pi_d', 'Pi_l']


def mirror_harness():
    L = ['// generated: accessors for the C structs and the C++ objects of the THDM constructors',
         '#include "THDM/THDM_c.cpp"', 'extern "C" {']
    acc = {'mass': [], 'gauge': [], 'config': [], 'sm': []}
    def add(kind, cexpr, cppexpr, ctype, cpptype):
        i = len(acc[kind])
        L.append('double vx_c_%s_%d(const %s* o) { return static_cast<double>(o->%s); }' % (kind, i, ctype, cexpr))
        L.append('double vx_cpp_%s_%d(const %s* op) { const %s& o = *op; return static_cast<double>(%s); }' % (
            kind, i, cpptype, cpptype, cppexpr))
        acc[kind].append((cexpr, cppexpr))
    for f in FIELDS_MASS:
        add('mass', f, 'o.' + f, 'gm2calc_THDM_mass_basis', 'gm2calc::thdm::Mass_basis')
    add('mass', 'yukawa_type + 0u', 'static_cast<unsigned>(static_cast<int>(o.yukawa_type))', 'gm2calc_THDM_mass_basis', 'gm2calc::thdm::Mass_basis')
    for f in FIELDS_GAUGE:
        add('gauge', f, 'o.' + f.replace('[', '(').replace(']', ')'), 'gm2calc_THDM_gauge_basis', 'gm2calc::thdm::Gauge_basis')
    add('gauge', 'yukawa_type + 0u', 'static_cast<unsigned>(static_cast<int>(o.yukawa_type))', 'gm2calc_THDM_gauge_basis', 'gm2calc::thdm::Gauge_basis')
    for kind, ct, cpt in (('mass', 'gm2calc_THDM_mass_basis', 'gm2calc::thdm::Mass_basis'),
                          ('gauge', 'gm2calc_THDM_gauge_basis', 'gm2calc::thdm::Gauge_basis')):
        for mname in MATS:
            for i in range(3):
                for k in range(3):
                    add(kind, '%s[%d][%d]' % (mname, i, k), 'o.%s(%d,%d)' % (mname, i, k), ct, cpt)
    add('config', 'force_output != 0', 'o.force_output', 'gm2calc_THDM_config', 'gm2calc::thdm::Config')
    add('config', 'running_couplings != 0', 'o.running_couplings', 'gm2calc_THDM_config', 'gm2calc::thdm::Config')
    for f in ('alpha_em_0', 'alpha_em_mz', 'alpha_s_mz', 'mh', 'mw', 'mz'):
        add('sm', f, 'o.get_%s()' % f, 'gm2calc_SM', 'gm2calc::SM')
    for v in ('mu', 'md', 'mv', 'ml'):
        for i in range(3):
            add('sm', '%s[%d]' % (v, i), 'o.get_%s(%d)' % (v, i), 'gm2calc_SM', 'gm2calc::SM')
    for i in range(3):
        for k in range(3):
            add('sm', 'ckm_real[%d][%d]' % (i, k), 'std::real(o.get_ckm(%d,%d))' % (i, k), 'gm2calc_SM', 'gm2calc::SM')
            add('sm', 'ckm_imag[%d][%d]' % (i, k), 'std::imag(o.get_ckm(%d,%d))' % (i, k), 'gm2calc_SM', 'gm2calc::SM')
    L.append('}')
    path = os.path.join(build.scratch(), 'h_thdm_mirror.cpp')
    if not (os.environ.get('VERIF_SCRATCH_CHILD') and os.path.exists(path)):
        open(path, 'w').write('\n'.join(L) + '\n')
    return path, acc


def thdm_mirror(chk):
    from .C17 import fill_struct, CODE, MENU
    path, acc = mirror_harness()
    mod = llir.load_module(build.compile_ir(path, 'h_thdm_mirror'))
    dem = demangled(mod)
    for basis, fname in (('mass', 'gm2calc_thdm_new_with_mass_basis'), ('gauge', 'gm2calc_thdm_new_with_gauge_basis')):
        chk.functions.add(fname)
        captured = {}

        def ext(ex, st, name, args, I):
            d = dem.get(name, name)
            rt = ex.m.resolve(I['ty'])
            if d.startswith('gm2calc::THDM::THDM('):
                # the C++ constructor: capture (basis, sm, config); may throw any class
                st.data['ctor'] = (args[1], args[2], args[3])
                st.data['ctor_mem'] = dict((a.rid, st.mem[a.rid].copy()) for a in args[1:4] if a.rid in st.mem)
                for k, t in enumerate(MENU):
                    if ex.decide(st, z3.Bool('ctor_throw_%d' % k)):
                        st.event('callee-throw', tinfo=t)
                        raise ThrowSignal(t, NULL)
                return None
            if d.startswith('gm2calc::SM::SM()'):
                # default SM: arbitrary contents
                return None
            if isinstance(rt, llir.VoidT):
                return None
            return ex.fresh_of(st, rt, 'ext')
        ex = executor(mod, RealDom(), fork_select=False)
        ex.undefined_handler = ext
        ex.opaque_calls = True
        st = X.State()
        fn = mod.functions[fname]
        regs = []
        args = []
        for k, (ty, pn, at) in enumerate(fn.params):
            ty = mod.resolve(ty)
            r = ex.new_region(st, None, 'input', 'arg%d' % k, lazy=True)
            pointee = mod.resolve(ty.to)
            if isinstance(pointee, llir.StructT) and pointee.els:
                fill_struct(ex, st, r, 0, pointee, 'arg%d' % k)
                r.size = mod.sizeof(pointee)
            elif k == 0:
                r.size = 8
            regs.append(r)
            args.append(Ptr(r.rid, 0))
        st = ex.start(fname, args, st)
        try:
            paths = ex.explore(st)
        except (Unsupported, PathEnd) as e:
            chk.record('mirror:' + fname, 'inconclusive', 'executor: %s' % e)
            chk.inconclusive.append('mirror:' + fname)
            continue
        chk.absorb_executor(ex)
        for i, p in enumerate(paths):
            tag = 'mirror:%s#%d' % (fname, i)
            th = [e for e in p.events if e[0] == 'callee-throw']
            if p.outcome[0] != 'ret':
                chk.violation(tag, 'C17:escape:%s' % fname, '%s: %r' % (fname, p.outcome), None)
                continue
            out = ex.load(p, Ptr(regs[0].rid, 0), llir.PtrT(llir.I8))
            if th:
                t = th[-1][1]['tinfo']
                okc = isinstance(p.retval, int) and p.retval == CODE[t]
                okn = isinstance(out, Ptr) and out.rid == 0
                if okc and okn:
                    chk.record(tag, 'discharged', family='error-codes',
                               sample={'obligation': '%s: constructor throws %s => code %d and *model = NULL' % (fname, t, CODE[t])})
                    chk.formulas.add((fname, t))
                else:
                    chk.violation(tag, 'C17:ctor-error:%s' % fname,
                                  '%s: constructor throws %s -> code %r, model %r' % (fname, t, p.retval, out), None)
                continue
            ctor = p.data.get('ctor')
            if ctor is None:
                chk.record(tag, 'inconclusive', 'constructor not reached')
                chk.inconclusive.append(tag)
                continue
            # compare every documented field of the three argument objects with the C structs
            for kind, cptr, cppptr in ((basis, args[1], ctor[0]), ('sm', args[2], ctor[1]), ('config', args[3], ctor[2])):
                mism = []
                for j, (cexpr, cppexpr) in enumerate(acc[kind]):
                    vals = []
                    for fnm, ptr in (('vx_c_%s_%d' % (kind, j), cptr), ('vx_cpp_%s_%d' % (kind, j), cppptr)):
                        s2 = p.fork()
                        s2.outcome = None
                        s2.frames = []
                        for rid_, reg_ in p.data.get('ctor_mem', {}).items():
                            s2.mem[rid_] = reg_.copy()
                        s2 = ex.start(fnm, [ptr], s2)
                        rr = ex.explore(s2)
                        vals.append(rr[0].retval if len(rr) == 1 and rr[0].outcome[0] == 'ret' else None)
                    a, b = vals
                    if a is None or b is None:
                        mism.append(cexpr + ' (not evaluated)')
                        continue
                    if is_z3v(a) and is_z3v(b) and a.eq(b):
                        continue
                    r, m = chk.solve(p.pc + [zr(a) != zr(b)], 10000)
                    if r != 'unsat':
                        mism.append(cexpr)
                if mism:
                    chk.violation(tag + ':' + kind, 'C17:mirror:%s:%s' % (fname, mism[0]),
                                  '%s: the C++ %s object differs from the C struct in %s' % (fname, kind, ', '.join(mism[:6])),
                                  None)
                else:
                    chk.record(tag + ':' + kind, 'discharged', family='struct-mirror',
                               sample={'obligation': '%s: each of the %d fields of the C %s struct arrives unchanged '
                                       'in the C++ constructor argument' % (fname, len(acc[kind]), kind)})
                    chk.formulas.add((fname, kind))


def run(chk, lib_so):
    mod = harness_module('h_capi_mssm')
    string_getters(chk, mod, lib_so)
    roundtrip(chk, mod)
    thdm_mirror(chk)
