"""Shared helpers for the property checks."""
import ctypes
import math
import os
import struct
import subprocess
import sys
from fractions import Fraction
import z3

sys.path.insert(0, os.path.dirname(os.path.dirname(os.path.abspath(__file__))))
from symx import llir, build, stubs, domains            # noqa: E402
from symx import exec as X                              # noqa: E402
from symx.domains import RealDom, FPDom, ConcDom, Unsupported, q   # noqa: E402

VERIF = build.VERIF
REPO = build.REPO
HARNESS = os.path.join(VERIF, 'harness')

_mod_cache = {}


def harness_module(name):
    """compile /verif/harness/<name>.cpp (which #includes repo sources) to IR and parse it"""
    if name not in _mod_cache:
        src = os.path.join(HARNESS, name + '.cpp')
        extra = []
        for ln in open(src):
            if ln.startswith('// IRFLAGS:'):
                extra += ln.split(':', 1)[1].split()
        ll = build.compile_ir(src, extra=extra)
        _mod_cache[name] = (llir.load_module(ll), ll)
    return _mod_cache[name][0]


def harness_ir_path(name):
    harness_module(name)
    return _mod_cache[name][1]


_so_cache = {}


def harness_native(name, extra=()):
    """g++ -O2 build of the same harness TU as a shared object (translator validation, replay)"""
    if name not in _so_cache:
        _so_cache[name] = load_native(os.path.join(HARNESS, name + '.cpp'), 'lib' + name + '.so', extra)
    return _so_cache[name]


def load_native(src, soname, extra=()):
    """build a harness TU as shared object; library symbols the unit does not define (it is driven in
    isolation) are satisfied by trapping weak stubs so that the object can be loaded"""
    so = build.compile_native(src, soname, extra=['-shared', '-fPIC'] + list(extra))
    if os.environ.get('VERIF_SCRATCH_CHILD'):
        return ctypes.CDLL(so)
    r = subprocess.run(['nm', '-D', '--undefined-only', so], capture_output=True, text=True)
    und = [ln.split()[-1] for ln in r.stdout.splitlines() if 'gm2calc' in ln and ln.split()[-1].startswith('_Z')]
    if und:
        stub = os.path.join(build.scratch(), soname + '.stubs.c')
        with open(stub, 'w') as f:
            for sym in und:
                if sym.startswith(('_ZTV', '_ZTI', '_ZTS', '_ZTT')):
                    f.write('__attribute__((weak)) char %s[256];\n' % sym)
                else:
                    f.write('__attribute__((weak)) void %s(void) { __builtin_trap(); }\n' % sym)
        obj = stub[:-2] + '.o'
        subprocess.check_call(['gcc', '-c', '-fPIC', '-w', stub, '-o', obj])
        so = build.compile_native(src, soname, extra=['-shared', '-fPIC', obj] + list(extra))
    return ctypes.CDLL(so)


def native_fn(lib, name, nargs, restype=ctypes.c_double):
    f = getattr(lib, name)
    f.restype = restype
    f.argtypes = [ctypes.c_double] * nargs
    return f


def executor(mod, dom, extra_stubs=None, ufs=None, **kw):
    st = stubs.all_base_stubs()
    if extra_stubs:
        st.update(extra_stubs)
    return X.Executor(mod, dom, st, ufs=ufs, **kw)


def bits(f):
    return struct.unpack('<Q', struct.pack('<d', f))[0]


def same_double(a, b):
    if a != a and b != b:
        return True
    return bits(a) == bits(b)


def run_concrete(mod, fname, args, extra_stubs=None, ufs=None):
    ex = executor(mod, ConcDom(), extra_stubs, ufs)
    st = ex.start(fname, list(args))
    res = ex.explore(st)
    assert len(res) == 1, 'concrete run produced %d paths' % len(res)
    return res[0]


def translator_validation(chk, mod, lib, fname, vectors, extra_stubs=None, ufs=None, label=None):
    """execute the IR concretely and compare bit-for-bit with the native build of the same TU"""
    nf = native_fn(lib, fname, len(vectors[0]))
    bad = 0
    for v in vectors:
        try:
            s = run_concrete(mod, fname, v, extra_stubs, ufs)
        except Unsupported as e:
            raise RuntimeError('translator validation: executor cannot run %s%r: %s' % (fname, v, e))
        got = s.retval
        exp = nf(*v)
        chk.traces_validated += 1
        if not same_double(got, exp):
            bad += 1
            print('TRANSLATOR MISMATCH %s%r: executor %r native %r' % (label or fname, v, got, exp))
    if bad:
        chk.record('translator:' + (label or fname), 'inconclusive',
                   '%d/%d vectors differ between IR executor and native build' % (bad, len(vectors)))
        chk.inconclusive.append('translator:' + (label or fname))
    return bad == 0


def rat(x):
    """exact rational of a python float / int / str"""
    if isinstance(x, str):
        return Fraction(x)
    return Fraction(x)


def zr(x):
    """python number -> z3 real (exact)"""
    if isinstance(x, z3.ExprRef):
        return x
    return z3.RealVal(str(Fraction(x)))


def model_real(m, v):
    """value of a z3 real in a model as Fraction (algebraic numbers approximated to 40 digits)"""
    return m.real(v)


def mangle_fn(ns_name, sig):
    """_ZN7gm2calc<len><name>E<sig>"""
    return '_ZN7gm2calc%d%sE%s' % (len(ns_name), ns_name, sig)


def read_table(path):
    rows = []
    for ln in open(path):
        ln = ln.strip()
        if not ln or ln.startswith('#'):
            continue
        try:
            rows.append([float(t.replace('*^', 'e')) for t in ln.split()])
        except ValueError:
            continue
    return rows


def vars_of(e, acc=None):
    acc = {} if acc is None else acc
    seen = set()

    def walk(t):
        if t.get_id() in seen:
            return
        seen.add(t.get_id())
        if z3.is_const(t) and t.decl().kind() == z3.Z3_OP_UNINTERPRETED:
            acc[t.get_id()] = t
        for c in t.children():
            walk(c)
    walk(e)
    return acc


def relevant_pc(pc, exprs):
    """sub-list of the path condition mentioning only variables of `exprs` (sound weakening of the
    assumptions for an unsat query)"""
    vs = {}
    for e in exprs:
        if isinstance(e, z3.ExprRef):
            vars_of(e, vs)
    out = []
    for c in pc:
        cv = vars_of(c)
        if cv and all(k in vs for k in cv):
            out.append(c)
    return out


def depends_on(ex, expr, var, depth=0):
    """does expr depend on var, looking through quotient variables introduced by the executor"""
    if depth > 20:
        return False
    for v in vars_of(expr).values():
        if v.eq(var):
            return True
        qi = ex.quots.get(v.get_id())
        if qi is not None:
            if depends_on(ex, qi[0], var, depth + 1) or depends_on(ex, qi[1], var, depth + 1):
                return True
    return False
