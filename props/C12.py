"""C12 - the decomposition wrappers satisfy their documented factorisation contracts.

The Eigen kernels (JacobiSVD, SelfAdjointEigenSolver) are iterative floating-point algorithms and are not encoded;
the two places where they are called (gm2calc::hermitian_eigen, gm2calc::svd_eigen) are replaced by their contract:
arbitrary factors with  m = Z diag(w) Z^T, Z orthogonal, w ascending  (resp.  m = U diag(s) Vh, s >= 0 descending).
Everything GM2Calc adds on top - sorting by |w|, permutations, reversal, transposition/adjoint, the phase i for negative
eigenvalues of the Takagi factorisation, the LAPACK-style error bounds (disna) - is executed symbolically from the IR of
src/gm2_linalg.hpp for every ordering/sign pattern, and the solver decides the documented post-conditions:
  fs_diagonalize_hermitian: m == z^T diag(w) z, z orthogonal, |w| ascending
  fs_diagonalize_symmetric: m == u^T diag(s) u, u unitary, s >= 0 ascending
  fs_svd:                   m == u^T diag(s) v, u, v orthogonal, s >= 0 ascending
  disna / *_errbd:          reciprocal condition numbers >= threshold > 0: error bounds finite and non-negative,
                            also for exactly degenerate spectra.
"""
from fractions import Fraction as Fr
import itertools
import z3

from .common import *
from .C14b import demangled
from symx.exec import Ptr

EPS = Fr(2.220446049250313e-16)


def setup():
    mod = harness_module('h_linalg')
    dem = demangled(mod)
    return mod, dem


def find(mod, dem, prefix):
    return [n for n in mod.functions if dem.get(n, '').startswith(prefix)]


def ld(ex, st, p, k):
    return zr(ex.load(st, Ptr(p.rid, p.off + 8 * k), llir.DOUBLE))


def sd(ex, st, p, k, v):
    ex.store(st, Ptr(p.rid, p.off + 8 * k), llir.DOUBLE, v)


def herm_stub(N, store):
    """contract of hermitian_eigen<double,double,N>(m, w, z*): w ascending, Z orthogonal, m = Z diag(w) Z^T.
    The input matrix is *defined* by fresh factors: its cells are overwritten with Z diag(w) Z^T (any symmetric matrix
    has such factors), so the post-conditions become polynomial statements about the factors."""
    def f(ex, st, args, I):
        mptr, wptr, zptr = args[0], args[1], args[2]
        w = store['w']
        Z = store['Z']
        for i in range(N):
            sd(ex, st, wptr, i, w[i])
        if isinstance(zptr, Ptr) and zptr.rid != 0:
            for j in range(N):
                for i in range(N):
                    sd(ex, st, zptr, i + N * j, Z[i][j])
        # check that the matrix handed over is the caller's matrix
        store['m_seen'] = [[ld(ex, st, mptr, i + N * j) for j in range(N)] for i in range(N)]
        return None
    return f


def eigen_solver_stubs(mod, dem, N, store):
    """contract stubs placed at Eigen::SelfAdjointEigenSolver<Matrix<double,N,N>>::computeDirect / compute, so that the body of
    gm2calc::hermitian_eigen itself is executed.  If the matrix handed to Eigen is the caller's matrix the stored factors are
    returned; otherwise fresh factors constrained by the contract for the matrix actually passed."""
    names = [n for n in mod.functions if dem.get(n, '').startswith('Eigen::SelfAdjointEigenSolver<Eigen::Matrix<double, %d, %d' % (N, N)) and
             (('::computeDirect(' in dem[n]) or ('::compute(' in dem[n]))]
    if not names:
        return None
    off_vec, off_val = 0, 8 * N * N

    def stub(ex, st, args, I):
        this, mptr = args[0], args[1]
        A = [[ex.load(st, Ptr(mptr.rid, mptr.off + 8 * (i + N * j)), llir.DOUBLE) for j in range(N)] for i in range(N)]
        if any(isinstance(x, float) for row in A for x in row):
            st.event('nonfinite-matrix-to-eigen', where=ex.where(st))
            from symx.exec import PathEnd
            raise PathEnd('nonfinite-to-eigen')
        A = [[zr(x) for x in row] for row in A]
        M = store['M']
        same = all(z3.eq(z3.simplify(A[i][j]), z3.simplify(M[i][j])) for i in range(N) for j in range(N))
        if same:
            w, Z = store['w'], store['Z']
        else:
            # the wrapper hands Eigen a matrix that is not syntactically the caller's matrix (e.g. a rescaled copy): the factor
            # contract for an arbitrary related matrix is not encoded - the path ends here and is reported as not covered
            store['rescaled'] = True
            st.event('matrix-differs', where=ex.where(st))
            from symx.exec import PathEnd
            raise PathEnd('matrix-differs')
        for i in range(N):
            ex.store(st, Ptr(this.rid, this.off + off_val + 8 * i), llir.DOUBLE, w[i])
            for j in range(N):
                ex.store(st, Ptr(this.rid, this.off + off_vec + 8 * (i + N * j)), llir.DOUBLE, Z[i][j])
        return this
    return {n: stub for n in names}


def orth(Z, N):
    cons = []
    for i in range(N):
        for j in range(i, N):
            cons.append(sum(Z[k][i] * Z[k][j] for k in range(N)) == (1 if i == j else 0))
            cons.append(sum(Z[i][k] * Z[j][k] for k in range(N)) == (1 if i == j else 0))
    return cons


def herm(chk, mod, dem, N, tier):
    fam = 'fs_diagonalize_hermitian'
    name = 'fs_diagonalize_hermitian<double,double,%d>' % N
    chk.functions.add(name)
    st_names = find(mod, dem, 'void gm2calc::hermitian_eigen<double, double, %d>' % N)
    if not st_names:
        chk.record(name, 'inconclusive', 'hermitian_eigen instantiation not found')
        chk.inconclusive.append(name)
        return
    w = [z3.Real('w%d' % i) for i in range(N)]
    Z = [[z3.Real('Z%d%d' % (i, j)) for j in range(N)] for i in range(N)]
    M = [[sum(Z[i][k] * w[k] * Z[j][k] for k in range(N)) for j in range(N)] for i in range(N)]
    store = {'w': w, 'Z': Z, 'M': M}
    inner = eigen_solver_stubs(mod, dem, N, store)
    ex = executor(mod, RealDom(), extra_stubs=inner if inner else {st_names[0]: herm_stub(N, store)}, fork_select=True)
    ex.max_steps = 2000000
    ex.no_prune = False
    st = X.State()
    rm = ex.new_region(st, 8 * N * N, 'input', 'm')
    rw = ex.new_region(st, 8 * N, 'stack', 'w')
    rz = ex.new_region(st, 8 * N * N, 'stack', 'z')
    for j in range(N):
        for i in range(N):
            sd(ex, st, Ptr(rm.rid, 0), i + N * j, M[i][j])
    pre = [w[i] <= w[i + 1] for i in range(N - 1)] + orth(Z, N)
    s2 = ex.start('vx_fs_herm%d' % N, [Ptr(rm.rid, 0), Ptr(rw.rid, 0), Ptr(rz.rid, 0)], st)
    s2.pc += pre
    rr = ex.explore(s2)
    chk.absorb_executor(ex)
    jobs = []
    for pi, p in enumerate(rr):
        if nonfinite_path(chk, p, name, pi, w, fam, 'herm', N):
            continue
        if p.outcome[0] == 'matrix-differs':
            if not store.get('reported_differs'):
                store['reported_differs'] = True
                chk.record(name + ':matrix-differs', 'gap', 'matrix passed to the eigen-solver is not the input matrix', family=fam)
                chk.not_covered.append('%s: the wrapper passes a transformed matrix to Eigen; factor contract for it not encoded' % name)
            continue
        if p.outcome[0] != 'ret':
            r, m = chk.solve(list(p.pc), 20000)
            if r != 'unsat':
                chk.record('%s#%d' % (name, pi), 'inconclusive', 'path %r' % (p.outcome,), family=fam)
                chk.inconclusive.append('%s#%d' % (name, pi))
            continue
        wo = [ld(ex, p, Ptr(rw.rid, 0), i) for i in range(N)]
        zo = [[ld(ex, p, Ptr(rz.rid, 0), i + N * j) for j in range(N)] for i in range(N)]
        # the matrix given to Eigen is the input
        seen = store.get('m_seen')
        bad = []
        for i in range(N):
            for j in range(N):
                rec = sum(zo[k][i] * wo[k] * zo[k][j] for k in range(N))      # (z^T diag(w) z)_ij
                bad.append(rec != M[i][j])
        for i in range(N):
            for j in range(i, N):
                bad.append(sum(zo[i][k] * zo[j][k] for k in range(N)) != (1 if i == j else 0))
        for i in range(N - 1):
            bad.append(wo[i] * wo[i] > wo[i + 1] * wo[i + 1])
        jobs.append({'name': '%s#%d' % (name, pi), 'constraints': list(p.pc) + [z3.Or(*bad)], 'family': fam,
                     'sample': {'obligation': '%s: m == z^T diag(w) z, z z^T = 1, |w| ascending, for every ordering of the eigenvalues '
                                'returned by the eigen-solver (arbitrary symmetric m, incl. degenerate and negative eigenvalues)' % name}})
    res = chk.prove_many(jobs, timeout_ms=60000 if tier == 'quick' else 300000)
    for job, (r, m) in zip(jobs, res):
        if r == 'sat':
            vals = [float(m.real(x)) for x in w]
            chk.violation(job['name'], 'C12:%s' % name, '%s violates its factorisation contract for eigenvalues %r' % (name, vals),
                          '#!/bin/sh\ncd %s && exec python3-vt -m props.replay_c12 herm %d %s\n' % (VERIF, N, ' '.join(repr(v) for v in vals)))


def takagi(chk, mod, dem, N, tier):
    fam = 'fs_diagonalize_symmetric'
    name = 'fs_diagonalize_symmetric<double,double,%d>' % N
    chk.functions.add(name)
    st_names = find(mod, dem, 'void gm2calc::hermitian_eigen<double, double, %d>' % N)
    w = [z3.Real('w%d' % i) for i in range(N)]
    Z = [[z3.Real('Z%d%d' % (i, j)) for j in range(N)] for i in range(N)]
    M = [[sum(Z[i][k] * w[k] * Z[j][k] for k in range(N)) for j in range(N)] for i in range(N)]
    store = {'w': w, 'Z': Z, 'M': M}
    inner = eigen_solver_stubs(mod, dem, N, store)
    ex = executor(mod, RealDom(), extra_stubs=inner if inner else {st_names[0]: herm_stub(N, store)}, fork_select=True)
    ex.max_steps = 4000000
    st = X.State()
    rm = ex.new_region(st, 8 * N * N, 'input', 'm')
    rs = ex.new_region(st, 8 * N, 'stack', 's')
    ru = ex.new_region(st, 16 * N * N, 'stack', 'u')
    for j in range(N):
        for i in range(N):
            sd(ex, st, Ptr(rm.rid, 0), i + N * j, M[i][j])
    pre = [w[i] <= w[i + 1] for i in range(N - 1)] + orth(Z, N)
    s2 = ex.start('vx_fs_symm%d' % N, [Ptr(rm.rid, 0), Ptr(rs.rid, 0), Ptr(ru.rid, 0)], st)
    s2.pc += pre
    try:
        rr = ex.explore(s2)
    except Unsupported as e:
        chk.record(name, 'gap', str(e)[:100], family=fam)
        chk.not_covered.append('%s not executed (%s)' % (name, str(e)[:80]))
        return
    chk.absorb_executor(ex)
    jobs = []
    for pi, p in enumerate(rr):
        if nonfinite_path(chk, p, name, pi, w, fam, 'symm', N):
            continue
        if p.outcome[0] == 'matrix-differs':
            if not store.get('reported_differs'):
                store['reported_differs'] = True
                chk.record(name + ':matrix-differs', 'gap', 'matrix passed to the eigen-solver is not the input matrix', family=fam)
                chk.not_covered.append('%s: the wrapper passes a transformed matrix to Eigen; factor contract for it not encoded' % name)
            continue
        if p.outcome[0] != 'ret':
            r, m = chk.solve(list(p.pc), 20000)
            if r != 'unsat':
                chk.record('%s#%d' % (name, pi), 'inconclusive', 'path %r' % (p.outcome,), family=fam)
                chk.inconclusive.append('%s#%d' % (name, pi))
            continue
        so = [ld(ex, p, Ptr(rs.rid, 0), i) for i in range(N)]
        uo = [[(ld(ex, p, Ptr(ru.rid, 0), 2 * (i + N * j)), ld(ex, p, Ptr(ru.rid, 0), 2 * (i + N * j) + 1)) for j in range(N)] for i in range(N)]
        bad = []
        for i in range(N):
            for j in range(N):
                # (u^T diag(s) u)_ij = sum_k u_ki s_k u_kj  (complex, no conjugation)
                re = sum(so[k] * (uo[k][i][0] * uo[k][j][0] - uo[k][i][1] * uo[k][j][1]) for k in range(N))
                im = sum(so[k] * (uo[k][i][0] * uo[k][j][1] + uo[k][i][1] * uo[k][j][0]) for k in range(N))
                bad += [re != M[i][j], im != 0]
        for i in range(N):
            for j in range(i, N):
                # (u u^dagger)_ij = sum_k u_ik conj(u_jk)
                re = sum(uo[i][k][0] * uo[j][k][0] + uo[i][k][1] * uo[j][k][1] for k in range(N))
                im = sum(uo[i][k][1] * uo[j][k][0] - uo[i][k][0] * uo[j][k][1] for k in range(N))
                bad += [re != (1 if i == j else 0), im != 0]
        for i in range(N):
            bad.append(so[i] < 0)
        for i in range(N - 1):
            bad.append(so[i] > so[i + 1])
        jobs.append({'name': '%s#%d' % (name, pi), 'constraints': list(p.pc) + [z3.Or(*bad)], 'family': fam,
                     'sample': {'obligation': '%s: m == u^T diag(s) u, u unitary, s >= 0 ascending, for every sign pattern and ordering of '
                                'the eigenvalues' % name}})
    res = chk.prove_many(jobs, timeout_ms=60000 if tier == 'quick' else 300000)
    for job, (r, m) in zip(jobs, res):
        if r == 'sat':
            vals = [float(m.real(x)) for x in w]
            chk.violation(job['name'], 'C12:%s' % name, '%s violates its factorisation contract for eigenvalues %r' % (name, vals),
                          '#!/bin/sh\ncd %s && exec python3-vt -m props.replay_c12 symm %d %s\n' % (VERIF, N, ' '.join(repr(v) for v in vals)))


def svd_stub(N, store):
    """contract of svd_eigen<double,double,N,N>(m, s, u*, vh*): m = U diag(s) Vh, s >= 0 descending, U, Vh orthogonal"""
    def f(ex, st, args, I):
        mptr, sptr, uptr, vptr = args[0], args[1], args[2], args[3]
        for i in range(N):
            sd(ex, st, sptr, i, store['s'][i])
        if isinstance(uptr, Ptr) and uptr.rid != 0:
            for j in range(N):
                for i in range(N):
                    sd(ex, st, uptr, i + N * j, store['U'][i][j])
        if isinstance(vptr, Ptr) and vptr.rid != 0:
            for j in range(N):
                for i in range(N):
                    sd(ex, st, vptr, i + N * j, store['Vh'][i][j])
        return None
    return f


def jacobi_stub(ex, mod, dem, N, store):
    """contract stub on the constructor Eigen::JacobiSVD<Matrix<double,N,N>>::JacobiSVD(matrix, options): the body of
    gm2calc::svd_eigen (singularValues(), matrixU(), matrixV().adjoint()) is executed on top of it"""
    pre = 'Eigen::JacobiSVD<Eigen::Matrix<double, %d, %d, 0, %d, %d>, 2>::JacobiSVD(Eigen::Matrix<double' % (N, N, N, N)
    ctor = [n for n in mod.functions if dem.get(n, '').startswith(pre)]
    base = 'Eigen::SVDBase<Eigen::JacobiSVD<Eigen::Matrix<double, %d, %d, 0, %d, %d>, 2> >::' % (N, N, N, N)
    acc = {}
    for what in ('singularValues', 'matrixU', 'matrixV'):
        fn = [n for n in mod.functions if dem.get(n, '').startswith(base + what + '()')]
        if not fn:
            return False
        st0 = X.State()
        r0 = ex.new_region(st0, None, 'input', 'svdobj', lazy=True)
        try:
            rr = ex.explore(ex.start(fn[0], [Ptr(r0.rid, 0)], st0))
        except Unsupported:
            return False
        if len(rr) != 1 or not isinstance(rr[0].retval, Ptr) or rr[0].retval.rid != r0.rid or not isinstance(rr[0].retval.off, int):
            return False
        acc[what] = rr[0].retval.off
    if not ctor:
        return False

    def stub(ex_, st_, args, I):
        this, mptr = args[0], args[1]
        A = [[ex_.load(st_, Ptr(mptr.rid, mptr.off + 8 * (i + N * j)), llir.DOUBLE) for j in range(N)] for i in range(N)]
        from symx.exec import PathEnd
        if any(isinstance(x, float) for row in A for x in row):
            st_.event('nonfinite-matrix-to-eigen', where=ex_.where(st_))
            raise PathEnd('nonfinite-to-eigen')
        M = store['M']
        if not all(z3.eq(z3.simplify(zr(A[i][j])), z3.simplify(M[i][j])) for i in range(N) for j in range(N)):
            st_.event('matrix-differs', where=ex_.where(st_))
            raise PathEnd('matrix-differs')
        for i in range(N):
            ex_.store(st_, Ptr(this.rid, this.off + acc['singularValues'] + 8 * i), llir.DOUBLE, store['s'][i])
            for j in range(N):
                ex_.store(st_, Ptr(this.rid, this.off + acc['matrixU'] + 8 * (i + N * j)), llir.DOUBLE, store['U'][i][j])
                # V with V^T = Vh
                ex_.store(st_, Ptr(this.rid, this.off + acc['matrixV'] + 8 * (i + N * j)), llir.DOUBLE, store['Vh'][j][i])
        return None
    for n in ctor:
        ex.stubs[n] = stub
    return True


def svd(chk, mod, dem, N, tier):
    fam = 'fs_svd'
    name = 'fs_svd<double,double,%d,%d>' % (N, N)
    chk.functions.add(name)
    st_names = find(mod, dem, 'void gm2calc::svd_eigen<double, double, %d, %d>' % (N, N))
    if not st_names:
        chk.record(name, 'inconclusive', 'svd_eigen instantiation not found')
        chk.inconclusive.append(name)
        return
    s = [z3.Real('s%d' % i) for i in range(N)]
    U = [[z3.Real('U%d%d' % (i, j)) for j in range(N)] for i in range(N)]
    Vh = [[z3.Real('Vh%d%d' % (i, j)) for j in range(N)] for i in range(N)]
    M = [[sum(U[i][k] * s[k] * Vh[k][j] for k in range(N)) for j in range(N)] for i in range(N)]
    store = {'s': s, 'U': U, 'Vh': Vh, 'M': M}
    ex = executor(mod, RealDom(), fork_select=True)
    ex.max_steps = 2000000
    if not jacobi_stub(ex, mod, dem, N, store):
        ex.stubs[st_names[0]] = svd_stub(N, store)
        chk.not_covered.append('%s: contract placed on gm2calc::svd_eigen (Eigen::JacobiSVD members not located)' % name)
    st = X.State()
    rm = ex.new_region(st, 8 * N * N, 'input', 'm')
    rs = ex.new_region(st, 8 * N, 'stack', 's')
    ru = ex.new_region(st, 8 * N * N, 'stack', 'u')
    rv = ex.new_region(st, 8 * N * N, 'stack', 'v')
    for j in range(N):
        for i in range(N):
            sd(ex, st, Ptr(rm.rid, 0), i + N * j, M[i][j])
    pre = [s[i] >= s[i + 1] for i in range(N - 1)] + [s[N - 1] >= 0] + orth(U, N) + orth(Vh, N)
    s2 = ex.start('vx_fs_svd%d' % N, [Ptr(rm.rid, 0), Ptr(rs.rid, 0), Ptr(ru.rid, 0), Ptr(rv.rid, 0)], st)
    s2.pc += pre
    try:
        rr = ex.explore(s2)
    except Unsupported as e:
        chk.record(name, 'gap', str(e)[:100], family=fam)
        chk.not_covered.append('%s not executed (%s)' % (name, str(e)[:80]))
        return
    chk.absorb_executor(ex)
    jobs = []
    for pi, p in enumerate(rr):
        if p.outcome[0] == 'matrix-differs':
            if not store.get('reported_differs'):
                store['reported_differs'] = True
                chk.record(name + ':matrix-differs', 'gap', 'matrix passed to the eigen-solver is not the input matrix', family=fam)
                chk.not_covered.append('%s: the wrapper passes a transformed matrix to Eigen; factor contract for it not encoded' % name)
            continue
        if p.outcome[0] != 'ret':
            r, m = chk.solve(list(p.pc), 20000)
            if r != 'unsat':
                chk.record('%s#%d' % (name, pi), 'inconclusive', 'path %r' % (p.outcome,), family=fam)
                chk.inconclusive.append('%s#%d' % (name, pi))
            continue
        so = [ld(ex, p, Ptr(rs.rid, 0), i) for i in range(N)]
        uo = [[ld(ex, p, Ptr(ru.rid, 0), i + N * j) for j in range(N)] for i in range(N)]
        vo = [[ld(ex, p, Ptr(rv.rid, 0), i + N * j) for j in range(N)] for i in range(N)]
        bad = []
        for i in range(N):
            for j in range(N):
                bad.append(sum(uo[k][i] * so[k] * vo[k][j] for k in range(N)) != M[i][j])      # (u^T diag(s) v)_ij
        for A in (uo, vo):
            for i in range(N):
                for j in range(i, N):
                    bad.append(sum(A[i][k] * A[j][k] for k in range(N)) != (1 if i == j else 0))
        for i in range(N):
            bad.append(so[i] < 0)
        for i in range(N - 1):
            bad.append(so[i] > so[i + 1])
        jobs.append({'name': '%s#%d' % (name, pi), 'constraints': list(p.pc) + [z3.Or(*bad)], 'family': fam,
                     'sample': {'obligation': '%s: m == u^T diag(s) v, u and v orthogonal, s >= 0 ascending (Haber-Kane convention)' % name}})
    res = chk.prove_many(jobs, timeout_ms=60000 if tier == 'quick' else 300000)
    for job, (r, m) in zip(jobs, res):
        if r == 'sat':
            chk.violation(job['name'], 'C12:%s' % name, '%s violates its factorisation contract' % name,
                          '#!/bin/sh\ncd %s && exec python3-vt -m props.replay_c12 svd %d\n' % (VERIF, N))


def disna(chk, mod, dem, N):
    """reciprocal condition numbers >= threshold > 0 for ascending (eigen) and descending non-negative (singular) input"""
    fam = 'error-bounds'
    name = 'disna<%d,%d>' % (N, N)
    chk.functions.add(name)
    for job, jn in ((0, 'E'), (1, 'L'), (2, 'R')):
        d = [z3.Real('d%d' % i) for i in range(N)]
        ex = executor(mod, RealDom(), fork_select=True)
        st = X.State()
        rd = ex.new_region(st, 8 * N, 'input', 'd')
        rs = ex.new_region(st, 8 * N, 'stack', 'sep')
        for i in range(N):
            sd(ex, st, Ptr(rd.rid, 0), i, d[i])
        s2 = ex.start('vx_disna%d' % N, [job, Ptr(rd.rid, 0), Ptr(rs.rid, 0)], st)
        if job == 0:
            s2.pc += [d[i] <= d[i + 1] for i in range(N - 1)]
        else:
            s2.pc += [d[i] >= d[i + 1] for i in range(N - 1)] + [d[N - 1] >= 0]
        try:
            rr = ex.explore(s2)
        except Unsupported as e:
            chk.record('%s:%s' % (name, jn), 'gap', str(e)[:100], family=fam)
            chk.not_covered.append('%s job %s not executed (%s)' % (name, jn, str(e)[:80]))
            continue
        chk.absorb_executor(ex)
        jobs = []
        for pi, p in enumerate(rr):
            if p.outcome[0] != 'ret':
                continue
            info = p.retval
            sep = [ld(ex, p, Ptr(rs.rid, 0), i) for i in range(N)]
            anorm = z3.If(z3.If(d[0] >= 0, d[0], -d[0]) >= z3.If(d[N - 1] >= 0, d[N - 1], -d[N - 1]),
                          z3.If(d[0] >= 0, d[0], -d[0]), z3.If(d[N - 1] >= 0, d[N - 1], -d[N - 1]))
            thresh = z3.If(anorm == 0, zr(EPS), zr(EPS) * anorm)
            bad = [z3.Or(s_ < thresh, s_ <= 0) for s_ in sep]
            if not (isinstance(info, int) and info == 0):
                bad.append(z3.BoolVal(True) if isinstance(info, int) else zr_int(info) != 0)
            jobs.append({'name': '%s:%s#%d' % (name, jn, pi), 'constraints': list(p.pc) + [z3.Or(*bad)], 'family': fam,
                         'sample': {'obligation': '%s job %s: every reciprocal condition number is >= eps*max|d| (eps if all zero) > 0, INFO = 0, '
                                    'for every sorted input incl. exactly degenerate values - the error bounds eps*norm/RCOND are finite and '
                                    'non-negative' % (name, jn)}})
        res = chk.prove_many(jobs, timeout_ms=30000)
        for jb, (r, m) in zip(jobs, res):
            if r == 'sat':
                vals = [float(m.real(x)) for x in d]
                chk.violation(jb['name'], 'C12:disna:%s' % jn, 'disna<%d> (job %s) leaves a reciprocal condition number below the threshold for '
                              'd = %r: the error bound of the decomposition is infinite' % (N, jn, vals),
                              '#!/bin/sh\ncd %s && exec python3-vt -m props.replay_c12 disna %d %d %s\n' % (
                                  VERIF, N, job, ' '.join(repr(v) for v in vals)))


def goldstone(chk, mod, dem, N):
    """move_goldstone_to(0, mass, v, z): afterwards v(0) is an element closest to mass, v is a permutation of the input that keeps
    the relative order of the other states, and the rows of z are permuted with v"""
    fam = 'move_goldstone_to'
    name = 'move_goldstone_to<%d>' % N
    chk.functions.add(name)
    v = [z3.Real('v%d' % i) for i in range(N)]
    Z = [[z3.Real('Z%d%d' % (i, j)) for j in range(N)] for i in range(N)]
    mass = z3.Real('mass')
    ex = executor(mod, RealDom(), fork_select=True)
    st = X.State()
    rv = ex.new_region(st, 8 * N, 'stack', 'v')
    rz = ex.new_region(st, 8 * N * N, 'stack', 'z')
    for i in range(N):
        sd(ex, st, Ptr(rv.rid, 0), i, v[i])
        for j in range(N):
            sd(ex, st, Ptr(rz.rid, 0), i + N * j, Z[i][j])
    s2 = ex.start('vx_move_goldstone%d' % N, [0, mass, Ptr(rv.rid, 0), Ptr(rz.rid, 0)], st)
    try:
        rr = ex.explore(s2)
    except Unsupported as e:
        chk.record(name, 'gap', str(e)[:100], family=fam)
        chk.not_covered.append('%s not executed (%s)' % (name, str(e)[:80]))
        return
    chk.absorb_executor(ex)
    jobs = []
    for pi, p in enumerate(rr):
        if p.outcome[0] != 'ret':
            continue
        vo = [ld(ex, p, Ptr(rv.rid, 0), i) for i in range(N)]
        zo = [[ld(ex, p, Ptr(rz.rid, 0), i + N * j) for j in range(N)] for i in range(N)]

        def ab(x):
            return z3.If(x >= 0, x, -x)
        # admissible outcomes: position k (a closest element) moved to the front, the others keep their order
        outs = []
        for k in range(N):
            perm = [k] + [i for i in range(N) if i != k]
            closest = z3.And([ab(v[k] - mass) <= ab(v[i] - mass) for i in range(N)])
            same = z3.And([vo[a] == v[perm[a]] for a in range(N)] + [zo[a][j] == Z[perm[a]][j] for a in range(N) for j in range(N)])
            outs.append(z3.And(closest, same))
        jobs.append({'name': '%s#%d' % (name, pi), 'constraints': list(p.pc) + [z3.Not(z3.Or(*outs))], 'family': fam,
                     'sample': {'obligation': '%s: the state closest to the given mass is moved to index 0, the other states keep their order and the '
                                'rows of the mixing matrix are permuted together with the masses' % name}})
    res = chk.prove_many(jobs, timeout_ms=60000)
    for job, (r, m) in zip(jobs, res):
        if r == 'sat':
            chk.violation(job['name'], 'C12:move_goldstone_to', 'move_goldstone_to does not permute the mixing-matrix rows with the masses / does '
                          'not move the closest state to the front', '#!/bin/sh\ncd %s && exec python3-vt -m props.replay_c04\n' % VERIF)


def nonfinite_path(chk, p, name, pi, w, fam, kind, N):
    """a path on which the wrapper divides by zero or hands a non-finite matrix to the eigen-solver although the input is finite"""
    evs = [e for e in p.events if e[0] in ('fdiv-by-zero', 'nonfinite-matrix-to-eigen')]
    if not evs and not (p.outcome and p.outcome[0] == 'nonfinite-to-eigen'):
        return False
    r, m = chk.solve(list(p.pc), 30000)
    if r == 'unsat':
        return True
    if r != 'sat':
        chk.record('%s#%d' % (name, pi), 'inconclusive', 'feasibility of a division-by-zero path undecided', family=fam)
        chk.inconclusive.append('%s#%d' % (name, pi))
        return True
    vals = [float(m.real(x)) for x in w]
    chk.violation('%s#%d' % (name, pi), 'C12:%s:nonfinite' % name,
                  '%s divides by zero / passes a non-finite matrix to the eigen-solver for the finite input with eigenvalues %r (e.g. a matrix '
                  'with zero diagonal): factors and error bounds are NaN' % (name, vals),
                  '#!/bin/sh\ncd %s && exec python3-vt -m props.replay_c12 %s %d %s\n' % (VERIF, kind, N, ' '.join(repr(v) for v in vals)))
    return True


def zr_int(v):
    return v if isinstance(v, z3.ExprRef) else z3.IntVal(v)


def run(chk):
    chk.assumptions += [
        'Eigen::SelfAdjointEigenSolver / JacobiSVD are represented by their contract at gm2calc::hermitian_eigen / svd_eigen (exact '
        'factors, documented order); their iterative floating-point kernels are not encoded',
        'REAL domain (exact arithmetic): the post-conditions hold exactly; rounding of the wrappers (permutations, sign/phase, transposition) '
        'is nil - they only move and negate entries',
        'real symmetric / real square inputs of sizes 2, 3 (and 4 for the symmetric case in the thorough tier); complex instantiations '
        'share the same template code',
    ]
    chk.not_covered += ['accuracy and convergence of the Eigen kernels (rank-deficient, hierarchical inputs): floating-point iterations',
                        'complex hermitian / complex SVD instantiations (same wrapper templates, not separately executed)',
                        'closed-form 2x2/3x3 solver of Eigen (computeDirect)']
    mod, dem = setup()
    sizes = (2, 3) if chk.tier == 'quick' else (2, 3, 4)
    for N in (2, 3, 4):
        disna(chk, mod, dem, N)
    for N in (2, 3):
        goldstone(chk, mod, dem, N)
    for N in sizes:
        herm(chk, mod, dem, N, chk.tier)
    for N in sizes:
        takagi(chk, mod, dem, N, chk.tier)
    for N in (2, 3):
        svd(chk, mod, dem, N, chk.tier)
