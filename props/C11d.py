"""C11 part 4: the CP-even Higgs mixing angle tan(alpha) of the MSSM two-loop corrections (gm2_2loop.cpp).

tan_alpha(model) has a pole of tan(2 alpha) at MA0 = MZ (and at tan(beta) = 1) that is removable in tan(alpha).
The function is executed over the reals with get_TB, get_MZ, get_MA0 as free positive inputs.  Obligations, for all
tb in (0, 1e3] \\ {1}, MA0, MZ in [1, 1e5], MA0 != MZ:
  * the result r solves tan(2 alpha) = 2 r / (1 - r^2) for the documented tree-level tan(2 alpha),
  * r < 0 (documented: "the result is < 0", alpha in (-pi/2, 0)) - this selects the root and is what makes the
    function continuous across MA0 = MZ,
and natively: the property's chord criterion along MA0 through MZ (value at MA0 = MZ included)."""
import ctypes
import math
import os
from fractions import Fraction as Fr
import z3

from .common import *
from .C14b import find, demangled
from symx import exec as X
from symx.exec import Ptr


_so = {}


def native_lib():
    """native build of the harness linked against the library of the working tree"""
    if 'so' not in _so:
        lib = build.build_library()
        so = build.compile_native(os.path.join(HARNESS, 'h_mssm_ta.cpp'), 'libh_mssm_ta_full.so', extra=['-shared', '-fPIC'],
                                  libs=[lib, '-Wl,-rpath,' + os.path.dirname(lib)])
        _so['so'] = ctypes.CDLL(so)
    return _so['so']


def native(lib):
    f = lib.vx_native_tan_alpha
    f.restype = ctypes.c_double
    f.argtypes = [ctypes.c_double] * 3
    return f


def chord_probe(f, tb, mz, report_jump=False):
    def at(d):
        return f(tb, mz * (1 + d), mz)
    lo, hi = at(-1e-3), at(1e-3)
    if not (math.isfinite(lo) and math.isfinite(hi)):
        return 'endpoints not finite (%r, %r)' % (lo, hi)
    scale = max(abs(lo), abs(hi))
    if abs(hi - lo) > 0.2 * scale:
        # outside the property's quantifier (restricted to paths that change by less than 20%): only informative
        return ('jumps from %r to %r between MA0 = MZ(1-1e-3) and MZ(1+1e-3)' % (lo, hi)) if report_jump else None
    for d in [0.0] + [s * 10.0 ** e for e in range(-13, -3) for s in (1, -1)]:
        v = at(d)
        chord = lo + (hi - lo) * (d + 1e-3) / 2e-3
        if not math.isfinite(v):
            return 'value at d=%g is %r' % (d, v)
        if abs(v - chord) > 0.01 * scale:
            return 'deviates by %.3g of the magnitude from the chord at d=%g' % (abs(v - chord) / scale, d)
    return None


def run(chk):
    mod = harness_module('h_mssm_ta')
    lib = native_lib()
    chk.functions.add('gm2calc::tan_alpha (MSSMNoFV/gm2_2loop.cpp)')
    tb, mz, ma = z3.Real('TB'), z3.Real('MZ'), z3.Real('MA0')
    ex = executor(mod, RealDom(), fork_select=False)

    def getter(v):
        return lambda ex_, st_, args, I: v
    for frag, v in (('MSSMNoFV_onshell::get_TB()', tb), ('MSSMNoFV_onshell::get_MZ()', mz), ('MSSMNoFV_onshell::get_MA0()', ma)):
        for n in find(mod, frag):
            ex.stubs[n] = getter(v)
    st = X.State()
    model = ex.new_region(st, None, 'input', 'model', lazy=True)
    st = ex.start('vx_tan_alpha', [Ptr(model.rid, 0)], st)
    dom = [tb > 0, tb <= 1000, tb != 1, mz >= 1, mz <= 100000, ma >= 1, ma <= 100000, ma != mz]
    st.pc += dom
    try:
        paths = ex.explore(st)
    except Unsupported as e:
        chk.record('tan_alpha', 'gap', 'executor: %s' % e)
        chk.not_covered.append('MSSM tan_alpha (%s)' % str(e)[:80])
        return
    chk.absorb_executor(ex)
    f = native(lib)
    nret = 0
    for i, p in enumerate(paths):
        tag = 'tan_alpha#%d' % i
        if p.outcome[0] != 'ret' or isinstance(p.retval, float):
            r, m = chk.solve(p.pc, 10000)
            if r == 'unsat':
                continue
            chk.record(tag, 'inconclusive', 'path %r feasible on the domain' % (p.outcome,))
            chk.inconclusive.append(tag)
            continue
        nret += 1
        r_ = zr(p.retval)
        # tan(2 alpha) = tan(2 beta) (MA0^2 + MZ^2)/(MA0^2 - MZ^2), tan(2 beta) = 2 tb/(1 - tb^2):
        # t (1 - r^2) = 2 r  <=>  2 tb (ma^2+mz^2) (1 - r^2) = 2 r (1 - tb^2)(ma^2 - mz^2)
        eq = 2 * tb * (ma * ma + mz * mz) * (1 - r_ * r_) == 2 * r_ * (1 - tb * tb) * (ma * ma - mz * mz)
        r1, m1 = chk.prove(tag + ':definition', p.pc + [z3.Not(eq)], family='mixing-angle',
                           sample={'obligation': 'tan_alpha: the result r satisfies tan(2 alpha)(1 - r^2) = 2 r with the tree-level '
                                   'tan(2 alpha), for all tb, MA0 != MZ'})
        r2, m2 = chk.prove(tag + ':negative', p.pc + [r_ >= 0], family='mixing-angle',
                           sample={'obligation': 'tan_alpha: the result is < 0 (documented; selects the root that is continuous across MA0 = MZ)'})
        for rr, mm, what in ((r1, m1, 'definition'), (r2, m2, 'negative')):
            if rr != 'sat':
                continue
            pt = [float(mm.real(v)) for v in (tb, ma, mz)]
            got = f(*pt)
            chk.traces_validated += 1
            t2 = 2 * pt[0] / (1 - pt[0] ** 2) * (pt[1] ** 2 + pt[2] ** 2) / (pt[1] ** 2 - pt[2] ** 2)
            ok_def = abs(t2 * (1 - got * got) - 2 * got) <= 1e-9 * (abs(t2) * (1 + got * got) + 2 * abs(got))
            if (what == 'negative' and not got < 0) or (what == 'definition' and not ok_def):
                msg = chord_probe(f, pt[0], pt[2], report_jump=True)
                chk.violation(tag + ':' + what, 'C11:tan_alpha:%s' % what,
                              'tan_alpha(tb=%r, MA0=%r, MZ=%r) = %r %s%s' % (
                                  pt[0], pt[1], pt[2], got, 'is not negative' if what == 'negative' else 'does not solve tan(2 alpha) = %r' % t2,
                                  ('; along MA0 through MZ: ' + msg) if msg else ''),
                              '#!/bin/sh\ncd %s && exec python3-vt -m props.replay_c11 tan_alpha %r %r %r\n' % (VERIF, pt[0], pt[1], pt[2]))
            else:
                chk.record(tag + ':' + what, 'inconclusive', 'witness not reproduced natively')
                chk.inconclusive.append(tag + ':' + what)
    if nret == 0:
        chk.record('tan_alpha', 'gap', 'no returning path')
    # native continuity at the removable pole itself (the REAL paths exclude MA0 == MZ)
    worst = None
    for tbv in (0.5, 2.0, 5.0, 10.0, 50.0):
        for mzv in (91.1876, 80.0):
            msg = chord_probe(f, tbv, mzv)
            chk.traces_validated += 23
            if msg and worst is None:
                worst = (tbv, mzv, msg)
    if worst:
        chk.violation('tan_alpha:continuity', 'C11:tan_alpha:continuity', 'tan_alpha with tb=%r along MA0 = MZ(1+d), MZ=%r: %s' % worst,
                      '#!/bin/sh\ncd %s && exec python3-vt -m props.replay_c11 tan_alpha %r %r %r\n' % (VERIF, worst[0], worst[1], worst[1]))
    else:
        chk.record('tan_alpha:continuity', 'discharged', family='mixing-angle',
                   sample={'obligation': 'native: tan_alpha along MA0 = MZ(1+d) satisfies the chord criterion, value at d=0 included (10 (tb, MZ) pairs)'})
