"""C01 part 2: f_PS family, dilog, Clausen."""
import math
import os
from fractions import Fraction as Fr
import mpmath
import sympy
import z3

from .common import *
from .ffcommon import *
from oracle import ffunctions as O

TOL = Fr(1, 10 ** 7)
FPS = '_ZN7gm2calc4f_PSEd'
FAMILY_SIG = {'f_PS': 'd', 'f_S': 'd', 'f_sferm': 'd', 'f_CSl': 'd', 'F1': 'd', 'F1t': 'd',
              'F2': 'd', 'F3': 'd'}


def uf_fps(ex, st, args, I):
    a = args[0]
    if isinstance(a, (Fr, int)):
        a = zr(a)
    if isinstance(a, float):
        return math.nan
    return ex.leaf(st, 'fps', [a])


def err_stub(ex, st, args, I):
    return args[0]


def abs_rel_neg(val, ref, tol, tag):
    """constraints expressing |val - ref| > tol*|ref|"""
    a = z3.Real('abs_' + tag)
    return [z3.Or(a == ref, a == -ref), a >= 0, z3.Or(val - ref > zr(tol) * a, ref - val > zr(tol) * a)]


def confirm1(chk, lib, name, sym, xq, why, tol=TOL):
    from .C01 import confirm
    return confirm(chk, lib, name, sym, xq, why, tol)


def family_identities(chk, mod, lib):
    z = z3.Real('z')
    pi26 = Fr(str(mpmath.nstr(mpmath.pi ** 2 / 6, 40)))
    for name in ['f_S', 'f_sferm', 'F1', 'F1t', 'F2', 'F3', 'f_CSl']:
        sym = mangle_fn(name, 'd')
        chk.functions.add(sym)
        ufs = dict(LEAF_UFS)
        ufs[FPS] = uf_fps
        ex = executor(mod, RealDom(), ufs=ufs)
        st = ex.start(sym, [z])
        st.pc.append(z3.And(z >= zr(Fr(1, 10 ** 14)), z <= zr(Fr(10 ** 12))))
        paths = ex.explore(st)
        chk.absorb_executor(ex)
        for i, p in enumerate(paths):
            tag = '%s#%d' % (name, i)
            if p.outcome[0] != 'ret' or isinstance(p.retval, float):
                r, m = chk.solve(p.pc)
                xq = model_real(m, z) if m is not None else Fr(1)
                if not confirm1(chk, lib, name, sym, xq, 'nonfinite'):
                    chk.record(tag, 'inconclusive', 'non-finite/abnormal path %r' % (p.outcome,))
                    chk.inconclusive.append(tag)
                continue
            retz = zr(p.retval)
            lv = Leaves(ex, p.pc)
            lz = lv.log(z)
            if name == 'f_CSl':
                # li2(1 - 1/z): the code computes 1/z by a quotient variable; find the li2 leaf
                li = None
                for (k, args, res) in ex.leaves:
                    if k == 'li2':
                        s = z3.Solver()
                        s.set('timeout', 5000)
                        s.add(p.pc)
                        s.add((1 - args[0]) * z != 1)
                        if s.check() == z3.unsat:
                            li = res
                if li is None:
                    li = z3.Real('oracle_li2_1m1oz')
                ref = O.f_CSl_def(z, lz, li, zr(pi26))
                tolid = Fr(1, 10 ** 12)
                # pi^2/6 enters as a double constant: compare with absolute slack scaled by z^2(z+1)
                slack = zr(Fr(1, 10 ** 15)) * (z * z * (z + 1) + 1)
                neg = [z3.Or(retz - ref > slack, ref - retz > slack)]
            else:
                fps = lv.get('fps', z)
                ref = O.FPS_FAMILY[name](z, fps, lz)
                neg = [retz != ref]
            r, m = chk.solve(p.pc + neg, 20000)
            chk.note_formula(p.pc + neg)
            if r == 'unsat':
                chk.record(tag + ':identity', 'discharged', family='closed-form-identity',
                           sample={'obligation': '%s(z) == published combination of f_PS(z), log z '
                                   '(leaves free)' % name})
                continue
            # special-value or expansion path: decided elsewhere if the path is a single point or
            # the asymptotic regime
            rq, _ = chk.solve(p.pc + [z != Fr(1, 4)], 5000)
            if rq == 'unsat':
                continue   # z == 1/4 handled in special_values
            if r == 'sat' or r == 'unknown':
                handled = asymptotic(chk, mod, lib, name, sym, ex, p, z, tag)
                if not handled:
                    xq = model_real(m, z) if m is not None else Fr(1)
                    if not confirm1(chk, lib, name, sym, xq, 'identity'):
                        chk.record(tag + ':identity', 'inconclusive', 'not an identity, not reproduced')
                        chk.inconclusive.append(tag + ':identity')


def asymptotic(chk, mod, lib, name, sym, ex, p, z, tag):
    """large-argument expansion regime of f_S / F3 against the series form of the definition"""
    r, _ = chk.solve(p.pc + [z < 50], 5000)
    if r != 'unsat':
        return False
    N = 12
    iz, lz, tl = sympy.symbols('iz lz tail')
    fps = sum(sympy.Rational(B.numerator, B.denominator) * iz ** n *
              (lz + sympy.Rational(c.numerator, c.denominator))
              for n, (B, c) in enumerate(O.fps_series_coeffs(N))) + tl
    zz = 1 / iz
    ref = sympy.expand(O.FPS_FAMILY[name](zz, fps, lz))
    # must be polynomial in iz after expansion except for the tail term (which carries 1/iz)
    ref_nt = sympy.expand(ref.subs(tl, 0))
    P = sympy.Poly(ref_nt, iz, lz)      # raises if negative powers remain
    tail_coeff = sympy.expand(sympy.diff(ref, tl))      # a/iz + b
    # bounds: z in [50, 1e12]: |tail| <= (lz+4) (iz/4)^N * 4/3 ; |tail_coeff| <= 15/iz + 5
    IZ, LZ = z3.Real('iz'), None
    lv = Leaves(ex, p.pc)
    LZ = lv.log(z)
    refz = sympy_to_z3(ref_nt, {iz: IZ, lz: LZ})
    izmax = Fr(1, 50)
    lzmax = Fr(28)
    tail_abs = (lzmax + 4) * (izmax / 4) ** (N - 1) * Fr(4, 3) * (Fr(15, 4) + 5 * izmax / 4)
    retz = zr(p.retval)
    a = z3.Real('abs_ref')
    slack = zr(TOL) * (a - zr(tail_abs)) - zr(tail_abs)
    cons = p.pc + [IZ * z == 1, IZ > 0, LZ >= zr(Fr(39, 10)), LZ <= zr(lzmax),
                   z3.Or(a == refz, a == -refz), a >= 0,
                   z3.Or(retz - refz > slack, refz - retz > slack)]
    r, m = chk.prove(tag + ':asymptotic', cons, timeout_ms=60000, family='expansion-vs-definition',
                     sample={'obligation': '%s: large-argument expansion within 1e-7 of the definition '
                             '(integral expanded in 1/z, %d terms + geometric tail bound) for all z on '
                             'the path, log z free in [3.9, 28]' % (name, N)})
    if r == 'sat':
        xq = model_real(m, z)
        if not confirm1(chk, lib, name, sym, xq, 'asymptotic'):
            chk.record(tag + ':asymptotic', 'inconclusive', 'sat at z=%s not reproduced' % float(xq))
            chk.inconclusive.append(tag + ':asymptotic')
    return True


def regime_audit(chk, mod, lib):
    """every path on the admissible domain returns a finite number; special values; negatives"""
    z = z3.Real('z')
    ln4 = mpmath.log(4)
    for name in FAMILY_SIG:
        sym = mangle_fn(name, 'd')
        chk.functions.add(sym)
        nf = native_fn(lib, sym, 1)
        ex = executor(mod, RealDom(), ufs=LEAF_UFS)
        st = ex.start(sym, [z])
        st.pc.append(z3.Or(z == 0, z3.And(z >= zr(Fr(1, 10 ** 14)), z <= zr(Fr(10 ** 12)))))
        paths = ex.explore(st)
        chk.absorb_executor(ex)
        for i, p in enumerate(paths):
            tag = '%s:audit#%d' % (name, i)
            bad = p.outcome[0] != 'ret' or isinstance(p.retval, float)
            evs = [e[0] for e in p.events if e[0] in ('sqrt-negative', 'log-negative', 'log-zero',
                                                      'fdiv-by-zero')]
            if bad or evs:
                r, m = chk.solve(p.pc)
                xq = model_real(m, z) if m is not None else Fr(0)
                if xq == 0 and name not in O.AT_ZERO:
                    chk.record(tag, 'discharged', 'diverging limit at 0, not claimed')
                    continue
                if not confirm1(chk, lib, name, sym, xq, 'nonfinite'):
                    chk.record(tag, 'inconclusive', 'events %r outcome %r at z=%s' % (evs, p.outcome, xq))
                    chk.inconclusive.append(tag)
                continue
            chk.record(tag, 'discharged', family='finite-on-domain',
                       sample={'obligation': '%s: path returns a real number, no log/sqrt/division '
                               'domain error reachable' % name, 'pc': [str(c) for c in p.pc[:4]]})
            chk.formulas.add(('audit', name, i))
            # a path that returns a constant is a special-cased point: it must not extend over a window of arguments
            # (a plateau has relative error slope*width and a jump at its edge)
            if ex.dom.is_conc(p.retval):
                r0, m0 = chk.solve(p.pc, 10000)
                if r0 == 'sat':
                    z0 = model_real(m0, z)
                    sc = max(Fr(1, 10 ** 14), abs(z0))
                    wit = None
                    for w in (Fr(1, 10 ** 3), Fr(1, 10 ** 5), Fr(1, 10 ** 7), Fr(1, 10 ** 9)):
                        r1, m1 = chk.solve(p.pc + [z3.Or(z - zr(z0) > zr(w * sc), zr(z0) - z > zr(w * sc))], 10000)
                        if r1 == 'sat':
                            wit = model_real(m1, z)
                            break
                        if r1 != 'unsat':
                            wit = 'unknown'
                            break
                    ptag = '%s:constant-path#%d' % (name, i)
                    if wit is None:
                        chk.record(ptag, 'discharged', family='special-case-is-a-point',
                                   sample={'obligation': '%s: the path returning the constant %s is confined to |z - z0| <= 1e-9 max(|z0|,1e-14)'
                                           % (name, float(p.retval)), 'z0': float(z0)})
                        chk.formulas.add(('constant-path', name, i))
                    elif wit == 'unknown':
                        chk.record(ptag, 'inconclusive', 'extent of the constant path undecided')
                        chk.inconclusive.append(ptag)
                    elif not confirm1(chk, lib, name, sym, wit, 'constant-plateau'):
                        chk.record(ptag, 'gap', 'constant returned on a window around z=%s but accurate to 1e-7 at the witness %s'
                                   % (float(z0), float(wit)), family='special-case-is-a-point')
            # special points
            for pt, table in ((Fr(0), O.AT_ZERO), (Fr(1, 4), O.AT_QUARTER)):
                r, _ = chk.solve(p.pc + [z == zr(pt)], 5000)
                if r != 'sat' or name not in table:
                    continue
                got = nf(float(pt))
                chk.traces_validated += 1
                want = table[name]
                if pt == 0:
                    wantv = mpmath.mpf(0)
                else:
                    wantv = want[1].numerator * ln4 / want[1].denominator if isinstance(want[1], Fr) \
                        else want[1] * ln4
                    wantv = wantv + mpmath.mpf(want[2].numerator) / want[2].denominator \
                        if isinstance(want[2], Fr) else wantv + want[2]
                retz = zr(p.retval)
                lo = Fr(str(mpmath.nstr(wantv - abs(wantv) * mpmath.mpf(10) ** -15 - mpmath.mpf(10) ** -300, 40)))
                hi = Fr(str(mpmath.nstr(wantv + abs(wantv) * mpmath.mpf(10) ** -15 + mpmath.mpf(10) ** -300, 40)))
                # leaves on a single-point path are constants only if the path returned a constant
                if ex.dom.is_conc(p.retval):
                    ok = lo <= p.retval <= hi
                    chk.formulas.add(('special', name, str(pt)))
                    if ok:
                        chk.record('%s:value-at-%s' % (name, pt), 'discharged', family='special-values',
                                   sample={'obligation': '%s(%s) == documented value' % (name, pt),
                                           'value': mpmath.nstr(wantv, 17)})
                    else:
                        chk.violation('%s:value-at-%s' % (name, pt), 'C01:%s:value-at-%s' % (name, pt),
                                      '%s(%s) = %r, documented %s' % (name, pt, got, mpmath.nstr(wantv, 17)),
                                      None)
                else:
                    # value depends on leaves: decide by replay at the point
                    err = abs(mpmath.mpf(got) - wantv)
                    if err <= abs(wantv) * mpmath.mpf(10) ** -14 + mpmath.mpf(10) ** -300:
                        chk.record('%s:value-at-%s' % (name, pt), 'discharged', family='special-values')
                    else:
                        chk.violation('%s:value-at-%s' % (name, pt), 'C01:%s:value-at-%s' % (name, pt),
                                      '%s(%s) = %r, documented %s' % (name, pt, got, mpmath.nstr(wantv, 17)),
                                      None)
        cover = z3.Or([z3.And(p.pc) for p in paths]) if paths else z3.BoolVal(False)
        chk.prove(name + ':paths-cover-domain',
                  [z3.Or(z == 0, z3.And(z >= zr(Fr(1, 10 ** 14)), z <= zr(Fr(10 ** 12)))), z3.Not(cover)],
                  family='coverage')
        # negative arguments
        ex2 = executor(mod, RealDom(), ufs=LEAF_UFS)
        st = ex2.start(sym, [z])
        st.pc += [z <= -zr(Fr(1, 10 ** 14)), z >= -zr(Fr(10 ** 12))]
        for i, p in enumerate(ex2.explore(st)):
            tag = '%s:neg#%d' % (name, i)
            if p.outcome[0] == 'ret' and isinstance(p.retval, float) and p.retval != p.retval:
                chk.record(tag, 'discharged', family='negative-argument-NaN')
                chk.formulas.add(('neg', name, i))
            else:
                r, m = chk.solve(p.pc)
                xf = float(model_real(m, z)) if m is not None else -1.0
                got = nf(xf)
                chk.traces_validated += 1
                if got == got:
                    from .C01 import replay_script
                    chk.violation(tag, 'C01:%s:negative-not-nan' % name,
                                  '%s(%r) = %r, expected NaN' % (name, xf, got),
                                  replay_script(name, sym, xf, 0))
                else:
                    chk.record(tag, 'inconclusive', 'REAL path not NaN, native NaN')
                    chk.inconclusive.append(tag)
        chk.absorb_executor(ex2)


# ---------------------------------------------------------------------------- dilog / Cl2 kernels

def li2_series(y, K):
    return sum(sympy.Rational(1, k * k) * y ** k for k in range(1, K + 1))


def dilog_kernel(chk, mod, lib):
    """Pade kernel y p(y)/q(y) against the Maclaurin series of Li2 on [0, 1/2]"""
    sym = '_ZN7gm2calc5dilogEd'
    chk.functions.add(sym)
    x = z3.Real('x')
    ex = executor(mod, RealDom())
    st = ex.start(sym, [x])
    st.pc += [x > 0, x < zr(Fr(1, 2))]
    paths = ex.explore(st)
    chk.absorb_executor(ex)
    K = 50
    ys = sympy.symbols('y')
    ser = horner_z3(li2_series(ys, K), ys, x, {})
    # tail of the series: sum_{k>K} x^k/k^2 <= 2 x^(K+1)/(K+1)^2 for x <= 1/2 (x-dependent: the
    # claim is relative and Li2(x) ~ x for small x)
    xk = x
    for _ in range(K):
        xk = xk * x
    tail = xk * zr(Fr(2, (K + 1) ** 2))
    for i, p in enumerate(paths):
        retz = zr(p.retval)
        tol = Fr(1, 10 ** 13)
        slack = zr(tol) * (ser - tail) - tail
        qi = ex.quots.get(retz.get_id())
        if qi is not None:
            # ret = a/b: clear the denominator -> univariate polynomial inequalities
            a, b = qi
            pcq = [c for c in p.pc if not (z3.is_eq(c) and c.arg(0).get_id() == (retz * b).get_id())]
            chk.prove('dilog:kernel-denominator#%d' % i, pcq + [b <= 0], timeout_ms=60000,
                      family='special-function-kernel')
            neg = [z3.Or(a - ser * b > slack * b, ser * b - a > slack * b)]
            r, m = chk.prove('dilog:kernel#%d' % i, pcq + neg, timeout_ms=120000,
                             family='special-function-kernel',
                             sample={'obligation': 'dilog(x) on (0,1/2): |x P(x) - S_50(x) Q(x)| <= '
                                     '(1e-13 Li2(x)) Q(x), Q > 0 shown separately'})
        else:
            r, m = chk.prove('dilog:kernel#%d' % i,
                             p.pc + [z3.Or(retz - ser > slack, ser - retz > slack)],
                             timeout_ms=120000, family='special-function-kernel')
        if r == 'sat':
            xq = model_real(m, x)
            got = native_fn(lib, 'vx_dilog_re', 1)(float(xq))
            ref = mp_li2(mpf(xq))
            chk.traces_validated += 1
            if abs(got - ref) > 1e-13 * abs(ref):
                chk.violation('dilog:kernel', 'C01:dilog:kernel',
                              'dilog(%r) = %r, Li2 = %s' % (float(xq), got, mpmath.nstr(ref, 17)), None)
            else:
                chk.record('dilog:kernel#%d' % i, 'inconclusive', 'sat not reproduced')
                chk.inconclusive.append('dilog:kernel#%d' % i)


def bern_abs(n2):
    return abs(sympy.bernoulli(n2))


def cl2_kernels(chk, mod, lib):
    sym = '_ZN7gm2calc9clausen_2Ed'
    chk.functions.add(sym)
    x = z3.Real('x')
    ln2 = Fr(str(mpmath.nstr(mpmath.log(2), 40)))
    PI_D = Fr(3.14159265358979324)         # the double the code uses
    # branch 1: 0 < x < pi/2 :  Cl2(x) = x(1 - ln x) + sum_{n>=1} |B_2n| x^(2n+1) / (2n (2n+1)!)
    ex = executor(mod, RealDom())
    st = ex.start(sym, [x])
    st.pc += [x > zr(Fr(1, 10 ** 6)), x < zr(Fr(157, 100))]
    N = 14
    xs = sympy.symbols('xs')
    ser1 = sum(bern_abs(2 * n) * xs ** (2 * n + 1) / (2 * n * sympy.factorial(2 * n + 1))
               for n in range(1, N + 1))
    # tail: |B_2n|/(2n)! <= 4/(2pi)^(2n)  => term <= 4 x (x/2pi)^(2n) / (2n(2n+1)) ; x<=1.57
    tail1 = Fr(4) * Fr(157, 100) * Fr(1, 4) ** (2 * (N + 1)) * Fr(16, 15)
    for i, p in enumerate(ex.explore(st)):
        if p.outcome[0] != 'ret' or isinstance(p.retval, float):
            chk.record('cl2:k1#%d' % i, 'inconclusive', 'abnormal path')
            chk.inconclusive.append('cl2:k1#%d' % i)
            continue
        lv = Leaves(ex, p.pc)
        lx = lv.log(x)
        retz = zr(p.retval)
        ref = x * (1 - lx) + horner_z3(ser1, xs, x, {})
        diff = retz - ref
        d0 = z3.substitute(diff, (lx, z3.RealVal(0)))
        d1 = z3.substitute(diff, (lx, z3.RealVal(1)))
        d2 = z3.substitute(diff, (lx, z3.RealVal(2)))
        pc0 = [z3.substitute(c, (lx, z3.RealVal(0))) for c in p.pc]
        # linear in log x with equal coefficient on both sides: diff independent of lx
        chk.prove('cl2:kernel-small-loglinear#%d' % i, pc0 + [z3.Or(d1 != d0, d2 != d0)],
                  timeout_ms=60000, family='special-function-kernel')
        slack = zr(Fr(1, 10 ** 13)) * x - zr(tail1)     # Cl2(x) >= x on (0, pi/2)
        chk.prove('cl2:kernel-small#%d' % i, pc0 + [z3.Or(d0 > slack, -d0 > slack)],
                  timeout_ms=120000, family='special-function-kernel',
                  sample={'obligation': 'clausen_2(x) on (1e-6, 1.57): |x(1-log x)+x^3 P/Q - Bernoulli '
                          'series| <= 1e-13 x, for every value of the leaf log x'})
    chk.absorb_executor(ex)
    # branch 2: pi/2 <= x < pi: Cl2(pi - y) = y ln2 - sum (2^(2n)-1)|B_2n| y^(2n+1)/(2n(2n+1)!)
    ex = executor(mod, RealDom())
    st = ex.start(sym, [x])
    st.pc += [x > zr(Fr(158, 100)), x < zr(Fr(314, 100))]
    M = 22
    ser2 = sum((2 ** (2 * n) - 1) * bern_abs(2 * n) * xs ** (2 * n + 1) / (2 * n * sympy.factorial(2 * n + 1))
               for n in range(1, M + 1))
    # term_n <= 4 y (y/pi)^(2n)/(2n(2n+1)), y <= 1.562 -> ratio <= 1/4
    tail2 = Fr(4) * Fr(1562, 1000) * Fr(1, 4) ** (M + 1) * Fr(4, 3)
    for i, p in enumerate(ex.explore(st)):
        if p.outcome[0] != 'ret' or isinstance(p.retval, float):
            chk.record('cl2:k2#%d' % i, 'inconclusive', 'abnormal path')
            chk.inconclusive.append('cl2:k2#%d' % i)
            continue
        retz = zr(p.retval)
        y = zr(PI_D) - x
        ref = y * zr(ln2) - horner_z3(ser2, xs, y, {})
        # |pi - PI_D| <= 1.3e-16 and |Cl2'| <= 0.7 on the branch: absolute slack 1e-16;
        # Cl2(pi - y) >= 0.36 y on [0, 1.58]
        slack = zr(Fr(1, 10 ** 13)) * y * zr(Fr(36, 100)) - zr(tail2) + zr(Fr(1, 10 ** 16))
        chk.prove('cl2:kernel-large#%d' % i, p.pc + [z3.Or(retz - ref > slack, ref - retz > slack)],
                  timeout_ms=120000, family='special-function-kernel',
                  sample={'obligation': 'clausen_2(x) on (1.58, 3.14): |Pade form - series around pi| <= '
                          '1e-13 * 0.36 (pi - x) + 1e-16'})
    chk.absorb_executor(ex)


def run(chk, mod, lib):
    chk.assumptions += [
        'f_PS(z) for z>=50: integral definition expanded termwise in 1/z (12 terms) with geometric tail bound',
        'Cl2 Bernoulli series with tail bound from |B_2n|/(2n)! <= 4/(2 pi)^(2n)',
    ]
    chk.not_covered += [
        'closed-form regimes of f_PS (Li2 form for z<1/4, Clausen form for z>1/4) are not compared with the '
        'integral definition in this tier (only audited for finiteness, special values, and through the '
        'identities of the dependent functions)',
        'range-reduction identities of dilog/clausen_2 and the complex dilogarithm',
        'rounding error of the closed forms (REAL domain)',
    ]
    for name in FAMILY_SIG:
        sym = mangle_fn(name, 'd')
        fn = {'f_PS': 'fPS', 'f_S': 'fS', 'f_sferm': 'fsferm', 'f_CSl': 'fCl'}.get(name, name)
        path = os.path.join(REPO, 'test', 'data', fn + '.txt')
        vec = [(0.0,), (0.25,), (0.2499,), (0.2501,), (1e-14,), (99.0,), (101.0,), (1e12,), (1e3,)]
        if os.path.exists(path):
            vec += [(r[0],) for r in read_table(path)[:25] if r[0] >= 0]
        translator_validation(chk, mod, lib, sym, vec, label=name)
    for v in [(-5.0,), (-1.0,), (-0.3,), (0.0,), (0.2,), (0.7,), (1.0,), (1.5,), (7.0,)]:
        translator_validation(chk, mod, lib, '_ZN7gm2calc5dilogEd', [v], label='dilog')
    for v in [(0.3,), (1.0,), (2.0,), (3.0,), (4.0,), (-1.0,), (7.0,)]:
        translator_validation(chk, mod, lib, '_ZN7gm2calc9clausen_2Ed', [v], label='clausen_2')
    family_identities(chk, mod, lib)
    regime_audit(chk, mod, lib)
    dilog_kernel(chk, mod, lib)
    cl2_kernels(chk, mod, lib)
