"""C14 part 2: exit-status mapping of main(): every path returns 0 or 1; a gm2calc::Error thrown by any
stage is caught, reported through print_error and mapped to status 1.  The stages (reading, option
parsing, model set-up, output) are nondeterministic stubs: they return or throw any exception class."""
import subprocess
import z3

from .common import *
from symx.exec import Ptr, ThrowSignal, NULL
from symx import stubs as S

_dem = {}


def demangled(mod):
    if id(mod) not in _dem:
        names = list(mod.functions) + list(mod.declares)
        out = subprocess.run(['c++filt'], input='\n'.join(names), capture_output=True, text=True).stdout.split('\n')
        _dem[id(mod)] = dict(zip(names, out))
    return _dem[id(mod)]


def find(mod, frag, exclude=()):
    return [n for n, d in demangled(mod).items() if frag in d and not any(x in d for x in exclude)]


GM2_ERRORS = ['_ZTIN7gm2calc11ESetupErrorE', '_ZTIN7gm2calc10EReadErrorE', '_ZTIN7gm2calc13EInvalidInputE',
              '_ZTIN7gm2calc16EPhysicalProblemE', '_ZTIN7gm2calc5ErrorE']
FOREIGN = ['_ZTISt13runtime_error', '_ZTISt12out_of_range', '_ZTIi']


def stage_stub(stage, ret=None):
    """a stage of the program: returns normally or throws one of the exception classes"""
    def f(ex, st, args, I):
        menu = GM2_ERRORS + FOREIGN
        for k, t in enumerate(menu):
            c = z3.Bool('%s_throws_%d' % (stage, k))
            if ex.decide(st, c):
                st.event('stage-throw', stage=stage, tinfo=t)
                obj = ex.new_region(st, 64, 'heap', 'exc')
                obj.lazy = True
                raise ThrowSignal(t, Ptr(obj.rid, 0))
        st.event('stage-ok', stage=stage)
        if ret is not None:
            return ret(ex, st, args, I)
        rt = ex.m.resolve(I['ty'])
        if isinstance(rt, llir.VoidT):
            return None
        return ex.fresh_of(st, rt, stage + '_ret')
    return f


def run(chk):
    mod = harness_module('h_cli')
    chk.functions.add('main (gm2calc.cpp)')
    stubs_ = dict(S.STRING_MODEL_STUBS)

    def cmdline(ex, st, args, I):
        # sret Gm2_cmd_line_options {std::string input_source; E_input_type input_type}
        out = args[0]
        r = ex.region(st, out)
        S.make_string(ex, st, 'input.slha', r, out.off)
        ex.store(st, Ptr(out.rid, out.off + 32), llir.I32, z3.BitVec('input_type', 32))
        return None
    for n in find(mod, 'get_cmd_line_options('):
        stubs_[n] = cmdline
    nop = lambda ex, st, args, I: None
    for frag in ('GM2_slha_io::GM2_slha_io()', 'GM2_slha_io::~GM2_slha_io()', '_setup::~', 'Gm2_cmd_line_options::~'):
        for n in find(mod, frag):
            stubs_[n] = nop
    for frag, stage in (('GM2_slha_io::read_from_source(', 'read'), ('GM2_slha_io::fill(gm2calc::Config_options&)', 'config'),
                        ('make_mssmnofv_setup(', 'mssm_setup'), ('make_thdm_setup(', 'thdm_setup')):
        for n in find(mod, frag):
            stubs_[n] = stage_stub(stage, ret=lambda ex, st, args, I: None)

    def run_ret(ex, st, args, I):
        return z3.BitVec('run_status_%d' % len(st.events), 32)
    for n in find(mod, 'MSSMNoFV_setup::run('):
        stubs_[n] = stage_stub('mssm_run', ret=run_ret)
    for n in find(mod, 'THDM_setup::run('):
        stubs_[n] = stage_stub('thdm_run', ret=run_ret)

    def print_error(ex, st, args, I):
        st.event('print_error')
        return None
    for n in find(mod, 'print_error('):
        stubs_[n] = print_error
    ex = executor(mod, RealDom(), extra_stubs=stubs_, fork_select=False)
    ex.opaque_calls = True
    argv = None
    st = X.State()
    av = ex.new_region(st, None, 'input', 'argv', lazy=True)
    st = ex.start('main', [z3.BitVec('argc', 32), Ptr(av.rid, 0)], st)
    try:
        paths = ex.explore(st)
    except Unsupported as e:
        chk.record('main', 'inconclusive', 'executor: %s' % e)
        chk.inconclusive.append('main')
        return
    chk.absorb_executor(ex)
    n_err = n_ok = n_foreign = 0
    for i, p in enumerate(paths):
        tag = 'main#%d' % i
        thrown = [e for e in p.events if e[0] == 'stage-throw']
        if p.outcome[0] == 'ret':
            rv = p.retval
            # status in {0,1}: run() results are passed through; everything else is a constant
            if thrown:
                t = thrown[0][1]['tinfo']
                pe = any(e[0] == 'print_error' for e in p.events)
                if t in GM2_ERRORS:
                    ok = isinstance(rv, int) and rv == 1 and pe
                    if ok:
                        n_err += 1
                        chk.record(tag, 'discharged', family='exit-status',
                                   sample={'obligation': 'stage %s throws %s => print_error called, exit status 1' % (
                                       thrown[0][1]['stage'], t)})
                        chk.formulas.add(('main', thrown[0][1]['stage'], t))
                    else:
                        chk.violation(tag, 'C14:main:error-status:%s' % t,
                                      'main: %s thrown by stage %s gives status %r, diagnostic printed: %r' % (
                                          t, thrown[0][1]['stage'], rv, pe), None)
                else:
                    chk.violation(tag, 'C14:main:foreign-swallowed', 'foreign exception %s swallowed' % t, None)
            else:
                n_ok += 1
                # normal completion: status is what run() returned (or 1 for a missing input source)
                chk.record(tag, 'discharged', family='exit-status',
                           sample={'obligation': 'no stage throws => main returns the status of run()', 'status': str(rv)})
                chk.formulas.add(('main-ok', i))
        elif p.outcome[0] in ('throw', 'terminate'):
            t = thrown[0][1]['tinfo'] if thrown else p.outcome[1]
            if t in GM2_ERRORS:
                chk.violation(tag, 'C14:main:escape:%s' % t,
                              'main: gm2calc exception %s thrown by stage %s escapes (process would abort)' % (
                                  t, thrown[0][1]['stage'] if thrown else '?'), None)
            else:
                n_foreign += 1   # foreign exceptions are outside this claim (their absence is shown per unit)
        else:
            chk.record(tag, 'inconclusive', 'path %r' % (p.outcome,))
            chk.inconclusive.append(tag)
    chk.extra['main_paths'] = {'error_mapped': n_err, 'normal': n_ok, 'foreign_escape_not_claimed': n_foreign}
    if n_err < 10:
        chk.record('main:coverage', 'inconclusive', 'too few error paths explored (%d)' % n_err)
        chk.inconclusive.append('main:coverage')
