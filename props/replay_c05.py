"""replay for C05: native conversion of 400 SLHA-type points generated from on-shell points (replay/c05_driver.cpp)"""
import os
import subprocess
import sys
from symx import build


def main():
    exe = build.build_tool(os.path.join(os.path.dirname(os.path.dirname(os.path.abspath(__file__))), 'replay', 'c05_driver.cpp'),
                           'c05_driver')
    mode = sys.argv[1] if len(sys.argv) > 1 else 'loose'
    sys.exit(subprocess.call([exe, 'strict' if mode == 'strict' else 'loose']))


if __name__ == '__main__':
    main()
