"""C06 - MSSM a_mu is invariant under the joint sign flip of mu, M1, M2, M3 and A_f.

 (1) the flipped Lagrangian parameters give mass matrices related by Y' = -D Y D (neutralinos), X' = -s3 X s3
     (charginos), M' = s3 M s3 (sfermions), Higgs/sneutrino matrices unchanged: decided on the real mass-matrix code;
     by the documented contracts of the decompositions the eigen-systems then transform as N' = i N D,
     U' = i U s3, V' = i V s3, Z_f' = Z_f s3 with unchanged masses;
 (2) every scalar function of src/MSSMNoFV/gm2_1loop.cpp, gm2_2loop.cpp, gm2_uncertainty.cpp is executed on a symbolic
     model and its result at the transformed point is compared with the result at the original point.
"""
from fractions import Fraction as Fr
import z3

from .common import *
from . import symm

FUNCS1 = ['delta_down_lepton_correction', 'amu1LChi0', 'amu1LChipm', 'calculate_amu_1loop', 'amu1LWHnu', 'amu1LWHmuL', 'amu1LBHmuL', 'amu1LBHmuR', 'amu1LBmuLmuR',
          'amu1Lapprox', 'tan_beta_cor', 'delta_mu_correction', 'delta_tau_correction', 'delta_bottom_correction']
FUNCS2 = ['log_scale', 'delta_g1', 'delta_yuk_higgsino', 'delta_yuk_bino_higgsino', 'delta_g2', 'delta_yuk_wino_higgsino', 'delta_tan_beta',
          'amu2LWHnu', 'amu2LWHmuL', 'amu2LBHmuL', 'amu2LBHmuR', 'amu2LBmuLmuR', 'amu2LFSfapprox', 'amu2LChipmPhotonic',
          'amu2LChi0Photonic', 'tan_alpha', 'amu2LaSferm', 'amu2LaCha', 'calculate_amu_2loop']
FUNCS3 = ['calculate_uncertainty_amu_0loop', 'calculate_uncertainty_amu_1loop', 'calculate_uncertainty_amu_2loop']
S2 = z3.Real('const_sqrt2')
CONSTS = [(1.4142135623730950488, S2), (0.70710678118654752440, S2 / 2)]


def find_fn(c, name):
    """[(mangled name, number of extra double/int arguments)] of all overloads taking the model first"""
    out = []
    for n in c.mod.functions:
        d = c.dem.get(n, n)
        if d.startswith('gm2calc::%s(gm2calc::MSSMNoFV_onshell const&' % name):
            out.append(n)
    return out


def extra_args(c, n):
    fn = c.mod.functions[n]
    args = []
    for k, (ty, pn, at) in enumerate(fn.params[1:]):
        ty = c.mod.resolve(ty)
        if isinstance(ty, llir.FloatT):
            args.append(z3.Real('argd%d' % k))
        elif isinstance(ty, llir.IntT):
            args.append(None)
        else:
            return None
    return args


def matrices(chk):
    """mass-matrix transformation lemmas on the real mass-matrix code (context of C04)"""
    from . import C04
    fam = 'flip-mass-matrices'
    c = C04.setup(chk)
    V = c.V
    sub = [(V[n], -V[n]) for n in ('Mu', 'MassB', 'MassWB', 'MassG')]
    for nm in ('TYd', 'TYu', 'TYe'):
        for i in range(3):
            sub.append((V['%s%d' % (nm, i)], -V['%s%d' % (nm, i)]))
    D = (1, 1, -1, -1)
    jobs = []

    def add(tag, e, target, what):
        jobs.append({'name': 'flip:%s' % tag, 'constraints': C04.CONST_AX + [z3.substitute(e, *sub) != target], 'family': fam,
                     'sample': {'obligation': what}})
    for i in range(4):
        for j in range(4):
            e, p = C04.entry(c, 'Chi', i, j)
            add('Chi[%d,%d]' % (i, j), e, -D[i] * D[j] * e, 'neutralino mass matrix at the flipped point is -D Y D, D = diag(1,1,-1,-1)')
    s3 = (1, -1)
    for i in range(2):
        for j in range(2):
            e, p = C04.entry(c, 'Cha', i, j)
            add('Cha[%d,%d]' % (i, j), e, -s3[i] * s3[j] * e, 'chargino mass matrix at the flipped point is -s3 X s3')
    for nm in ('Sd', 'Ss', 'Sb', 'Su', 'Sc', 'St', 'Se', 'Sm', 'Stau'):
        for i in range(2):
            for j in range(2):
                e, p = C04.entry(c, nm, i, j)
                add('%s[%d,%d]' % (nm, i, j), e, s3[i] * s3[j] * e, 'sfermion mass matrix at the flipped point is s3 M s3')
    for nm in ('hh', 'Ah', 'Hpm'):
        for i in range(2):
            for j in range(2):
                e, p = C04.entry(c, nm, i, j)
                add('%s[%d,%d]' % (nm, i, j), e, e, 'Higgs mass matrices do not change')
    for nm in ('SveL', 'SvmL', 'SvtL', 'VZ', 'VWm'):
        e, p = C04.entry(c, nm)
        add(nm, e, e, 'sneutrino and vector boson masses do not change')
    e, p = C04.entry(c, 'Glu')
    add('Glu', e, -e, 'gluino mass parameter changes sign (its mass |M3| does not)')
    chk.functions.update(['get_mass_matrix_Chi', 'get_mass_matrix_Cha', 'get_mass_matrix_S*', 'get_mass_matrix_hh/Ah/Hpm'])
    res = chk.prove_many(jobs)
    for job, (r, m) in zip(jobs, res):
        if r == 'sat':
            chk.violation(job['name'], 'C06:%s' % job['name'].split('[')[0], '%s fails' % job['sample']['obligation'],
                          '#!/bin/sh\ncd %s && exec python3-vt -m props.replay_c06\n' % VERIF)
    chk.absorb_executor(c.ex)


def functions(chk):
    fam = 'flip-invariance'
    replay = '#!/bin/sh\ncd %s && exec python3-vt -m props.replay_c06\n' % VERIF
    for harness, names in (('h_mssm_sym1', FUNCS1), ('h_mssm_sym2', FUNCS2), ('h_mssm_sym3', FUNCS3)):
        c = symm.setup(harness, CONSTS)
        sub = symm.flip_subst(c)
        for name in names:
            fns = find_fn(c, name)
            if not fns:
                chk.not_covered.append('flip: %s not found in %s' % (name, harness))
                continue
            chk.functions.add('gm2calc::' + name)
            for fn_ in fns:
                ea = extra_args(c, fn_)
                if ea is None:
                    continue
                variants = [ea]
                if None in ea:
                    variants = [[(g if a is None else a) for a in ea] for g in (0, 1, 2)]     # generation index
                for vi, args in enumerate(variants):
                    label = name + ('' if len(fns) == 1 and len(variants) == 1 else '/%d%s' % (len(ea), '' if len(variants) == 1 else '.%d' % vi))
                    try:
                        paths = symm.run_function(c, fn_, args)
                    except Unsupported as e:
                        chk.record('flip:' + label, 'gap', str(e)[:100], family=fam)
                        chk.not_covered.append('flip: %s not executed (%s)' % (label, str(e)[:80]))
                        continue
                    symm.analyse(chk, c, 'C06', label, paths, sub, z3.RealVal(1), 'flip', fam, replay, extra_pc=[S2 > 0, S2 * S2 == 2],
                                 relations=[(S2, 2, 2)])
        chk.absorb_executor(c.ex)


def run(chk):
    chk.assumptions += [
        'the eigen-systems of the flipped point are those induced by the documented decomposition contracts (C12): N\' = i N D, '
        'U\' = i U s3, V\' = i V s3, Z_f\' = Z_f s3, masses unchanged (non-degenerate spectra; for degenerate ones the statement holds for '
        'a suitable choice of basis)',
        'REAL domain; loop functions and callees from other translation units are uninterpreted; the transformation is pushed through '
        'them only when their arguments are invariant (decided by the solver)',
    ]
    chk.not_covered += ['*_non_tan_beta_resummed variants (same functions on a converted copy of the model)']
    matrices(chk)
    symm.iabc_even(chk)
    functions(chk)
