"""C05 - DR-bar -> on-shell conversion: reproduces the defining pole masses or warns.

The conversion iterates complete spectrum calculations (Jacobi SVD / eigen-solvers inside a fixed-point loop); that
numerical fixed point is not encoded.  What is decided here is the *logic that makes the property true whatever the
spectrum calculation returns*: the spectrum routines are replaced by uninterpreted functions of the parameters they depend
on (same parameters -> same spectrum, otherwise arbitrary) and the iteration code is executed symbolically for
max_iterations <= 2 (all loop exits unrolled):
  (S1) convert_me2_fpi_modify returns |MSm(i) - sorted pole mass(i)| for i = index of the mostly right-handed smuon *of the
       spectrum it leaves behind*;
  (S2) convert_me2 raises the me2 non-convergence flag iff the achieved precision exceeds the goal;
  (S3) convert_Mu_M1_M2 raises its flag iff, for the spectrum it leaves behind, max(|MCha - MCha_pole|, |MChi(bino_DR) -
       MChi_pole(bino_pole)|) exceeds the goal, with the bino index taken from the current mixing matrix;
  (S4) convert_to_onshell never clears the convergence warnings after the two fits.
"""
from fractions import Fraction as Fr
import z3

from .common import *
from .C14b import demangled
from .modelprobe import probe, ext_handler
from symx.exec import Ptr
from symx import stubs as S

MAXIT = 2


def base_ctx(on_call=None, spectrum=None):
    mod = harness_module('h_mssm_conv')
    dem = demangled(mod)
    ex = executor(mod, RealDom([(0.15, z3.RealVal('3/20')), (0.6, z3.RealVal('3/5'))]), extra_stubs=dict(S.STRING_MODEL_STUBS), fork_select=True)      # decimal literals denote their decimal value
    inner = ext_handler(dem, on_call=on_call)

    def handler(ex_, st_, name, args_, I):
        d = dem.get(name, name)
        if spectrum is not None:
            r = spectrum(ex_, st_, d, args_)
            if r is not NotImplemented:
                return r
        return inner(ex_, st_, name, args_, I)
    ex.undefined_handler = handler
    ex.div_no_fork = True
    ex.fast_throw = True
    ex.tolerant = True
    ex.fork_bound = 8
    st = X.State()
    reg = ex.new_region(st, None, 'input', 'model', lazy=True)
    mp = Ptr(reg.rid, 0)
    # verbose_output = false: the diagnostic printing is not part of the property and only multiplies paths
    s0 = ex.start('vx_quiet', [mp], st)
    st = ex.explore(s0)[0]
    st.outcome = None
    st.frames = []
    st.retval = None
    return mod, dem, ex, st, mp


def field_ptr(ex, st, mp, accessor, args):
    """address of the cell an accessor reads (by executing it and observing the loaded cell)"""
    seen = []
    old = ex.write_hook
    s2 = ex.start(accessor, [mp] + list(args), st)
    rr = ex.explore(s2)
    p = rr[0]
    v = p.retval
    p.outcome = None
    p.frames = []
    p.retval = None
    return p, v


def find_cell(st, mp, val):
    reg = st.mem[mp.rid]
    for off, (v, sz) in reg.cells.items():
        if isinstance(off, int) and isinstance(v, z3.ExprRef) and isinstance(val, z3.ExprRef) and v.get_id() == val.get_id():
            return off
    return None


NEED_ME2 = ['me2', 'MSm0', 'MSm1', 'ZM00', 'ZM01', 'ZM10', 'ZM11']


def me2_fpi(chk):
    fam = 'me2-fixed-point-logic'
    chk.functions.update(['MSSMNoFV_onshell::convert_me2_fpi_modify', 'detail::find_right_like_smuon'])
    cells = {}

    def spectrum(ex_, st_, d, args_):
        if 'calculate_MSm()' in d:
            # smuon spectrum as an uninterpreted function of me2(1,1) (all other parameters are fixed during this fit)
            mp_ = cells['mp']
            me2 = zr(ex_.load(st_, Ptr(mp_.rid, cells['me2']), llir.DOUBLE))
            if cells.get('in_fn'):
                snap = {k: zr(ex_.load(st_, Ptr(mp_.rid, cells[k]), llir.DOUBLE)) for k in NEED_ME2}
                st_.event('me2-update', snap=snap)
            for i in range(2):
                ex_.store(st_, Ptr(mp_.rid, cells['MSm%d' % i]), llir.DOUBLE, ex_.leaf(st_, 'uf:MSm%d' % i, [me2]))
                for j in range(2):
                    ex_.store(st_, Ptr(mp_.rid, cells['ZM%d%d' % (i, j)]), llir.DOUBLE, ex_.leaf(st_, 'uf:ZM%d%d' % (i, j), [me2]))
            return None
        return NotImplemented
    mod, dem, ex, st, mp = base_ctx(spectrum=spectrum)
    cells['mp'] = mp
    ex.fork_select = False
    spec = {'me2': ('vx_me2', []), 'P0': ('vx_MSm_pole', [0]), 'P1': ('vx_MSm_pole', [1])}
    for i in range(2):
        spec['MSm%d' % i] = ('vx_MSm', [i])
        for j in range(2):
            spec['ZM%d%d' % (i, j)] = ('vx_ZM', [i, j])
    st, V = probe(ex, st, mp, spec)
    for k, v in V.items():
        cells[k] = find_cell(st, mp, v)
    if any(cells[k] is None for k in NEED_ME2):
        chk.record('S1', 'inconclusive', 'model fields not located', family=fam)
        chk.inconclusive.append('S1')
        return
    ex.fork_select = False
    # the spectrum in the model on entry is the spectrum of the current me2
    s1 = ex.start('vx_calculate_MSm', [mp], st)
    st = ex.explore(s1)[0]
    st.outcome = None
    st.frames = []
    st.retval = None
    goal = z3.Real('precision_goal')
    P0, P1 = zr(V['P0']), zr(V['P1'])
    lo = z3.If(P0 <= P1, P0, P1)
    hi = z3.If(P0 <= P1, P1, P0)
    jobs = []
    # named parameters of the smuon mass matrix
    ex.fork_select = False
    stq, Q = probe(ex, st, mp, {'vd': ('vx_par', [3]), 'vu': ('vx_par', [4]), 'g1': ('vx_par', [5]), 'ymu': ('vx_par', [7])})
    st = stq
    Q = {k: zr(v) for k, v in Q.items()}
    cells['in_fn'] = True
    seen_upd = set()
    for maxit in range(0, MAXIT + 1):
        s2 = ex.start('vx_convert_me2_fpi_modify', [mp, goal, maxit], st.fork())
        s2.pc += [goal > 0]
        rr = ex.explore(s2)
        for pi, p in enumerate(rr):
            tag = 'S1:maxit%d#%d' % (maxit, pi)
            ups = [e[1]['snap'] for e in p.events if e[0] == 'me2-update']
            if ups:
                sn = ups[0]
                key = sn['me2'].get_id()
                if key not in seen_upd:
                    seen_upd.add(key)
                    # first iteration: the goal masses are the two sorted pole masses
                    g0, g1_ = lo, hi
                    m11 = sn['ZM01'] * sn['ZM01'] * g0 * g0 + sn['ZM11'] * sn['ZM11'] * g1_ * g1_
                    # RR entry of the smuon mass matrix (C04): me2 + y^2 vd^2/2 + D(T3=0, Y=2) with D = -(3/5) g1^2 (vd^2 - vu^2)/4
                    rest = Q['ymu'] * Q['ymu'] * Q['vd'] * Q['vd'] / 2 - zr(Fr(3, 20)) * Q['g1'] * Q['g1'] * (Q['vd'] * Q['vd'] - Q['vu'] * Q['vu'])
                    pole_ids = {P0.get_id(), P1.get_id()}

                    def only_poles(e_):
                        ok_ = False
                        todo_ = [e_]
                        while todo_:
                            t_ = todo_.pop()
                            if z3.is_const(t_) and t_.decl().kind() == z3.Z3_OP_UNINTERPRETED:
                                if t_.get_id() not in pole_ids:
                                    return False
                                ok_ = True
                            todo_.extend(t_.children())
                        return ok_
                    consu = [k_ for k_ in p.pc if only_poles(k_)] + [sn['me2'] != m11 - rest]
                    # the first-iteration snapshot does not depend on later branches: only the ordering of the pole masses matters
                    jobs.append({'name': tag + ':update-formula', 'constraints': consu, 'family': fam, 'update': True,
                                 'sample': {'obligation': 'convert_me2_fpi_modify, first iteration: me2(2,2) = (ZM^T diag(MSm_goal^2) ZM)(1,1) - '
                                            '(y_mu^2 vd^2/2 + D-term of the right-handed smuon), MSm_goal = sorted pole masses'}})
            if p.outcome[0] != 'ret':
                r, m = chk.solve(list(p.pc), 20000)
                if r != 'unsat':
                    chk.not_covered.append('convert_me2_fpi_modify: path %r not analysed' % (p.outcome,))
                continue
            if isinstance(p.retval, float):
                continue           # DBL_MAX / NaN signal: handled by the caller (reset)
            got = zr(p.retval)
            ms = [zr(ex.load(p, Ptr(mp.rid, cells['MSm%d' % i]), llir.DOUBLE)) for i in range(2)]
            zm = [[zr(ex.load(p, Ptr(mp.rid, cells['ZM%d%d' % (i, j)]), llir.DOUBLE)) for j in range(2)] for i in range(2)]
            right1 = zm[0][0] * zm[0][0] > zm[0][1] * zm[0][1]
            d1 = ms[1] - hi
            d0 = ms[0] - lo
            want = z3.If(right1, z3.If(d1 >= 0, d1, -d1), z3.If(d0 >= 0, d0, -d0))
            jobs.append({'name': tag, 'constraints': list(p.pc) + [got != want], 'family': fam,
                         'sample': {'obligation': 'convert_me2_fpi_modify (max_iterations = %d): the returned precision is |MSm(i) - sorted pole '
                                    'mass(i)| with i the mostly right-handed smuon of the spectrum left in the model, for every behaviour of the '
                                    'spectrum calculation' % maxit}})
    chk.absorb_executor(ex)
    res = chk.prove_many(jobs, timeout_ms=60000)
    for job, (r, m) in zip(jobs, res):
        if r == 'sat' and job.get('update'):
            chk.violation(job['name'], 'C05:me2-fpi:update-formula', 'convert_me2_fpi_modify does not set me2(2,2) to the RR entry reconstructed from '
                          'the goal masses minus the F- and D-terms', '#!/bin/sh\ncd %s && exec python3-vt -m props.replay_c05 loose\n' % VERIF)
        elif r == 'sat':
            chk.violation(job['name'], 'C05:me2-fpi:precision-of-wrong-state',
                          'convert_me2_fpi_modify reports a precision that is not the distance of the right-handed smuon of the final '
                          'spectrum from its pole mass (the right-like smuon is not re-identified after the spectrum changed)',
                          '#!/bin/sh\ncd %s && exec python3-vt -m props.replay_c05 me2\n' % VERIF)


def me2_flag(chk):
    fam = 'convergence-flags'
    chk.functions.add('MSSMNoFV_onshell::convert_me2')
    ev = []

    def on_call(st, d, args):
        if 'flag_no_convergence_me2' in d:
            st.event('flag', what='unflag' if 'unflag' in d else 'flag')
    mod, dem, ex, st, mp = base_ctx(on_call=on_call)
    fpi = [n for n in mod.functions if dem.get(n, '').startswith('gm2calc::MSSMNoFV_onshell::convert_me2_fpi(')]
    root = [n for n in mod.functions if dem.get(n, '').startswith('gm2calc::MSSMNoFV_onshell::convert_me2_root(')]
    ex.opaque_defined = set(fpi + root)
    goal = z3.Real('precision_goal')
    s2 = ex.start('vx_convert_me2', [mp, goal, z3.BitVec('maxit', 32)], st)
    s2.pc += [goal > 0]
    rr = ex.explore(s2)
    chk.absorb_executor(ex)
    for pi, p in enumerate(rr):
        if p.outcome[0] != 'ret':
            continue
        leaves = {ex.leaves[j][0].split('#')[0]: ex.leaves[j][2] for j in p.leaves if 'convert_me2_' in ex.leaves[j][0]}
        pf = [v for k, v in leaves.items() if 'fpi' in k]
        pr = [v for k, v in leaves.items() if 'root' in k]
        flags = [e[1]['what'] for e in p.events if e[0] == 'flag']
        if not pf or len(flags) != 1:
            chk.record('S2#%d' % pi, 'inconclusive', 'unexpected structure (flags %r)' % flags, family=fam)
            chk.inconclusive.append('S2#%d' % pi)
            continue
        final = pr[0] if pr else pf[0]
        cond = (final > goal) if flags[0] == 'unflag' else (final <= goal)
        r, m = chk.prove('S2#%d' % pi, list(p.pc) + [cond], family=fam,
                         sample={'obligation': 'convert_me2: the me2 non-convergence warning is %s on this path only if the precision achieved by '
                                 'the last method %s the goal; the root finder is tried iff the fixed-point iteration missed the goal' % (
                                     'cleared' if flags[0] == 'unflag' else 'raised', 'meets' if flags[0] == 'unflag' else 'exceeds')})
        if r == 'sat':
            chk.violation('S2#%d' % pi, 'C05:me2-flag', 'convert_me2 %s the non-convergence warning although the achieved precision %s the goal' % (
                'clears' if flags[0] == 'unflag' else 'raises', 'exceeds' if flags[0] == 'unflag' else 'meets'),
                '#!/bin/sh\ncd %s && exec python3-vt -m props.replay_c05 me2\n' % VERIF)
        if pr:
            r, m = chk.prove('S2#%d:root-only-if-needed' % pi, list(p.pc) + [pf[0] <= goal], family=fam,
                             sample={'obligation': 'convert_me2: the root finder runs only when the fixed-point iteration missed the goal'})


def mu_m1_m2(chk):
    fam = 'Mu-M1-M2-fixed-point-logic'
    chk.functions.update(['MSSMNoFV_onshell::convert_Mu_M1_M2', 'MSSMNoFV_onshell::find_bino_like_neutralino', 'detail::find_bino_like_neutralino'])
    cells = {}

    def write_spectrum(ex_, st_):
        mp_ = cells['mp']
        par = [zr(ex_.load(st_, Ptr(mp_.rid, cells[k]), llir.DOUBLE)) for k in ('MassB', 'MassWB', 'Mu')]
        for i in range(2):
            ex_.store(st_, Ptr(mp_.rid, cells['MCha%d' % i]), llir.DOUBLE, ex_.leaf(st_, 'uf:MCha%d' % i, par[1:]))
        for i in range(4):
            ex_.store(st_, Ptr(mp_.rid, cells['MChi%d' % i]), llir.DOUBLE, ex_.leaf(st_, 'uf:MChi%d' % i, par))
            for j in range(4):
                ex_.store(st_, Ptr(mp_.rid, cells['ZNr%d%d' % (i, j)]), llir.DOUBLE, ex_.leaf(st_, 'uf:ZNr%d%d' % (i, j), par))
                ex_.store(st_, Ptr(mp_.rid, cells['ZNi%d%d' % (i, j)]), llir.DOUBLE, ex_.leaf(st_, 'uf:ZNi%d%d' % (i, j), par))
        for nm in ('UM', 'UP'):
            for i in range(2):
                for j in range(2):
                    for c_ in 'ri':
                        if cells.get('%s%s%d%d' % (nm, c_, i, j)) is not None:
                            ex_.store(st_, Ptr(mp_.rid, cells['%s%s%d%d' % (nm, c_, i, j)]), llir.DOUBLE,
                                      ex_.leaf(st_, 'uf:%s%s%d%d' % (nm, c_, i, j), par[1:]))

    def spectrum(ex_, st_, d, args_):
        if 'calculate_MChi()' in d or 'calculate_MCha()' in d or 'calculate_DRbar_masses()' in d:
            if 'calculate_MChi()' in d and 'UMr00' in cells:
                # first spectrum call after the parameter update of an iteration: record what the update was computed from
                mp_ = cells['mp']

                def rd(k):
                    return zr(ex_.load(st_, Ptr(mp_.rid, cells[k]), llir.DOUBLE))
                snap = {k: rd(k) for k in cells if k != 'mp' and cells[k] is not None and not k.startswith('P')}
                binos_ = [e[1]['idx'] for e in st_.events if e[0] == 'bino']
                st_.event('update', snap=snap, idx_pole=binos_[0] if binos_ else None, idx_dr=binos_[-1] if binos_ else None)
                if cells.get('stop_after_update') and binos_:
                    from symx.exec import PathEnd
                    raise PathEnd('update-recorded')
            write_spectrum(ex_, st_)
            return None
        return NotImplemented

    def on_call(st, d, args):
        if 'no_convergence_Mu_MassB_MassWB' in d:
            st.event('flag', what='unflag' if 'unflag' in d else 'flag')
    mod, dem, ex, st, mp = base_ctx(on_call=on_call, spectrum=spectrum)
    cells['mp'] = mp
    # the arg-max over the bino column is verified separately (bino_index); here it is an arbitrary index in 0..3 that is
    # recorded together with the matrix it was computed from
    cnt = [0]

    def bino_stub(ex_, st_, args, I):
        cnt[0] += 1
        v = z3.BitVec('bino_idx!%d' % cnt[0], 32)
        st_.add(z3.ULT(v, 4))
        snap = None
        if isinstance(args[0], Ptr) and args[0].rid == cells['mp'].rid and 'ZNr00' in cells:
            snap = [zr(ex_.load(st_, Ptr(cells['mp'].rid, cells['ZN%s%d0' % (c_, i)]), llir.DOUBLE)) for i in range(4) for c_ in 'ri']
        st_.event('bino', idx=v, rid=args[0].rid if isinstance(args[0], Ptr) else None, snap=snap)
        return v
    for n in mod.functions:
        if dem.get(n, '').startswith('unsigned int gm2calc::detail::find_bino_like_neutralino<') or \
                dem.get(n, '').startswith('gm2calc::MSSMNoFV_onshell::find_bino_like_neutralino('):
            ex.stubs[n] = bino_stub
    ex.fork_select = False
    spec = {'MassB': ('vx_par', [0]), 'MassWB': ('vx_par', [1]), 'Mu': ('vx_par', [2])}
    for i in range(2):
        spec['MCha%d' % i] = ('vx_MCha', [i])
        spec['PCha%d' % i] = ('vx_MCha_pole', [i])
    for i in range(4):
        spec['MChi%d' % i] = ('vx_MChi', [i])
        spec['PChi%d' % i] = ('vx_MChi_pole', [i])
        for j in range(4):
            spec['ZNr%d%d' % (i, j)] = ('vx_ZN_re', [i, j])
            spec['ZNi%d%d' % (i, j)] = ('vx_ZN_im', [i, j])
    for i in range(2):
        for j in range(2):
            spec['UMr%d%d' % (i, j)] = ('vx_UM_re', [i, j])
            spec['UMi%d%d' % (i, j)] = ('vx_UM_im', [i, j])
            spec['UPr%d%d' % (i, j)] = ('vx_UP_re', [i, j])
            spec['UPi%d%d' % (i, j)] = ('vx_UP_im', [i, j])
    st, V = probe(ex, st, mp, spec)
    for k, v in V.items():
        cells[k] = find_cell(st, mp, v)
    if any(cells[k] is None for k in spec if not k.startswith('P')):
        chk.record('S3', 'inconclusive', 'model fields not located', family=fam)
        chk.inconclusive.append('S3')
        return
    ex.fork_select = False
    s1 = ex.start('vx_calculate_chi_cha', [mp], st)
    st = ex.explore(s1)[0]
    st.outcome = None
    st.frames = []
    st.retval = None
    goal = z3.Real('precision_goal')
    jobs = []
    seen_updates = set()
    ex.max_paths = 20000
    # dedicated pass for the update formula: first iteration only, both sides of every branch, stop right after the update
    cells['stop_after_update'] = True
    ex.no_prune = True
    ex.sqrt_no_fork = True
    ex.stats['paths'] = 0
    try:
        s2 = ex.start('vx_convert_Mu_M1_M2', [mp, goal, 1], st.fork())
        s2.pc += [goal > 0]
        upaths = ex.explore(s2)
    except Unsupported as e:
        upaths = []
        chk.not_covered.append('convert_Mu_M1_M2 update formula not analysed (%s)' % str(e)[:60])
    finally:
        ex.no_prune = False
        ex.sqrt_no_fork = False
        cells['stop_after_update'] = False
    upaths = [p_ for p_ in upaths if p_.outcome and p_.outcome[0] == 'update-recorded']
    if not upaths:
        chk.record('S3:update-formula', 'gap', 'no path reaches the parameter update', family=fam)
        chk.not_covered.append('convert_Mu_M1_M2: the parameter update was not reached in the dedicated pass')
    for maxit in range(0, (1 if chk.tier == 'quick' else MAXIT) + 1):
        import time
        ex.deadline = time.time() + (150 if chk.tier == 'quick' else 1200)
        ex.stats['paths'] = 0
        ex.no_prune = maxit == 0    # maxit 0: follow both sides of every branch (infeasible paths fall out in the final queries); else prune
        s2 = ex.start('vx_convert_Mu_M1_M2', [mp, goal, maxit], st.fork())
        s2.pc += [goal > 0]
        try:
            rr = ex.explore(s2)
        except Unsupported as e:
            chk.record('S3:maxit%d' % maxit, 'gap', str(e)[:100], family=fam)
            chk.not_covered.append('convert_Mu_M1_M2 with max_iterations = %d not fully explored (%s)' % (maxit, str(e)[:60]))
            rr = []
            if maxit != 1:
                continue
        finally:
            ex.deadline = None
            ex.no_prune = False
        if maxit == 1:
            rr = list(upaths) + list(rr)
        for pi, p in enumerate(rr):
            tag = 'S3:maxit%d#%d' % (maxit, pi)
            if p.outcome[0] not in ('ret', 'update-recorded'):
                continue
            ups = [e[1] for e in p.events if e[0] == 'update' and e[1]['idx_pole'] is not None]
            if ups:
                u0 = ups[0]
                sn = u0['snap']

                def selk(vals, idx):
                    e_ = vals[3]
                    for k_ in (2, 1, 0):
                        e_ = z3.If(idx == k_, vals[k_], e_)
                    return e_
                pch = [zr(V['PCha%d' % k_]) for k_ in range(2)]
                # X = Re(U^T diag(MCha_pole) V): M2 = X(0,0), mu = X(1,1)
                def xel(a, b):
                    return sum(pch[k_] * (sn['UMr%d%d' % (k_, a)] * sn['UPr%d%d' % (k_, b)] - sn['UMi%d%d' % (k_, a)] * sn['UPi%d%d' % (k_, b)])
                               for k_ in range(2))
                ukey = (sn['MassWB'].get_id(), sn['Mu'].get_id(), sn['MassB'].get_id())
                if ukey in seen_updates:
                    ups = []
            if ups:
                # the indices are pinned by the path condition (symbolic-index accesses were resolved by forking): use their values
                pins = [k__ for k__ in p.pc if z3.is_eq(k__) and any(k__.arg(a_).get_id() in (u0['idx_dr'].get_id(), u0['idx_pole'].get_id())
                                                                         for a_ in range(2))]

                def pinned(sym):
                    vals_ = []
                    for k_ in range(4):
                        r__, m__ = chk.solve([z3.ULT(sym, 4)] + [c_ for c_ in p.pc if c_.get_id() in pin_ids] + [sym == k_], 5000)
                        if r__ != 'unsat':
                            vals_.append(k_)
                    return vals_
                pin_ids = set()
                for c_ in p.pc:
                    todo_ = [c_]
                    seen_ = set()
                    hit_ = False
                    while todo_ and not hit_:
                        t_ = todo_.pop()
                        if t_.get_id() in seen_:
                            continue
                        seen_.add(t_.get_id())
                        if t_.get_id() in (u0['idx_dr'].get_id(), u0['idx_pole'].get_id()):
                            hit_ = True
                        todo_.extend(t_.children())
                    if hit_:
                        pin_ids.add(c_.get_id())
                vd_, vp_ = pinned(u0['idx_dr']), pinned(u0['idx_pole'])
                if len(vd_) == 1 and len(vp_) == 1:
                    goalchi = [zr(V['PChi%d' % vp_[0]]) if k_ == vd_[0] else sn['MChi%d' % k_] for k_ in range(4)]
                else:
                    goalchi = [z3.If(u0['idx_dr'] == k_, selk([zr(V['PChi%d' % q_]) for q_ in range(4)], u0['idx_pole']), sn['MChi%d' % k_])
                               for k_ in range(4)]
                y00 = sum(goalchi[k_] * (sn['ZNr%d0' % k_] * sn['ZNr%d0' % k_] - sn['ZNi%d0' % k_] * sn['ZNi%d0' % k_]) for k_ in range(4))
                wrong = z3.Or(sn['MassWB'] != xel(0, 0), sn['Mu'] != xel(1, 1), sn['MassB'] != y00)
                ukey = (sn['MassWB'].get_id(), sn['Mu'].get_id(), sn['MassB'].get_id())
                if ukey in seen_updates:
                    wrong = None
                else:
                    seen_updates.add(ukey)
            else:
                wrong = None
            if wrong is not None:
                ids_ = {u0['idx_dr'].get_id(), u0['idx_pole'].get_id()}

                def has_idx(e_):
                    todo_ = [e_]
                    seen_ = set()
                    while todo_:
                        t_ = todo_.pop()
                        if t_.get_id() in seen_:
                            continue
                        seen_.add(t_.get_id())
                        if t_.get_id() in ids_:
                            return True
                        todo_.extend(t_.children())
                    return False
                rng = [z3.ULT(u0['idx_dr'], 4), z3.ULT(u0['idx_pole'], 4)] + [k_ for k_ in p.pc if has_idx(k_)]
                jobs.append({'name': tag + ':update-formula', 'constraints': rng + [wrong], 'family': fam, 'update': True,
                             'sample': {'obligation': 'convert_Mu_M1_M2, first iteration: M2 = Re(U^T diag(MCha_pole) V)(0,0), mu = Re(...)(1,1), '
                                        'M1 = Re(N^T diag(MChi_goal) N)(0,0) with MChi_goal the current masses except the bino-like one replaced by '
                                        'its pole mass - for arbitrary complex mixing matrices (so the on-shell point, signs included, is a fixed '
                                        'point of the map)'}})
            if p.outcome[0] == 'update-recorded':
                continue
            flags = [e[1]['what'] for e in p.events if e[0] == 'flag']
            if len(flags) != 1:
                jobs.append({'name': tag, 'constraints': list(p.pc), 'family': fam, 'expect_unsat_structure': True,
                             'sample': {'obligation': 'convert_Mu_M1_M2: exactly one of flag/unflag is called on every feasible path'}})
                continue
            cha = [zr(ex.load(p, Ptr(mp.rid, cells['MCha%d' % i]), llir.DOUBLE)) for i in range(2)]
            chi = [zr(ex.load(p, Ptr(mp.rid, cells['MChi%d' % i]), llir.DOUBLE)) for i in range(4)]
            binos = [e[1] for e in p.events if e[0] == 'bino']
            if len(binos) < 2:
                chk.record(tag, 'inconclusive', 'bino index computed %d times' % len(binos), family=fam)
                chk.inconclusive.append(tag)
                continue
            idx_pole = binos[0]['idx']          # from the pole (or, if absent, DR-bar) mixing matrix on entry
            idx_dr = binos[-1]['idx']           # has to come from the mixing matrix of the spectrum left in the model:
            final_col = [zr(ex.load(p, Ptr(mp.rid, cells['ZN%s%d0' % (c_, i)]), llir.DOUBLE)) for i in range(4) for c_ in 'ri']
            snap = binos[-1].get('snap')
            if snap is None:
                chk.record(tag, 'inconclusive', 'last bino index not computed from the DR-bar mixing matrix', family=fam)
                chk.inconclusive.append(tag)
                continue
            stale = z3.Or([a_ != b_ for a_, b_ in zip(snap, final_col)])
            jobs.append({'name': tag + ':index-current', 'constraints': list(p.pc) + [stale], 'family': fam, 'stale': True,
                         'sample': {'obligation': 'convert_Mu_M1_M2: the bino-like index used for the final precision was determined from the mixing '
                                    'matrix of the spectrum left in the model'}})

            def ab(x):
                return z3.If(x >= 0, x, -x)

            def sel(vals, idx):
                e = vals[3]
                for k in (2, 1, 0):
                    e = z3.If(idx == k, vals[k], e)
                return e
            dcha = z3.If(ab(zr(V['PCha0']) - cha[0]) >= ab(zr(V['PCha1']) - cha[1]), ab(zr(V['PCha0']) - cha[0]), ab(zr(V['PCha1']) - cha[1]))
            dchi = ab(sel([zr(V['PChi%d' % k]) for k in range(4)], idx_pole) - sel(chi, idx_dr))
            prec = z3.If(dcha >= dchi, dcha, dchi)
            cond = (prec <= goal) if flags[0] == 'flag' else (prec > goal)
            jobs.append({'name': tag, 'constraints': list(p.pc) + [cond], 'family': fam,
                         'sample': {'obligation': 'convert_Mu_M1_M2 (max_iterations = %d): the non-convergence warning is %s exactly when, for the '
                                    'spectrum left in the model, max(|MCha - pole|, |MChi(bino index of the current mixing matrix) - pole mass of '
                                    'the bino-like pole state|) %s the goal' % (maxit, 'raised' if flags[0] == 'flag' else 'cleared',
                                                                                'exceeds' if flags[0] == 'flag' else 'meets')}})
    chk.absorb_executor(ex)
    res = chk.prove_many(jobs, timeout_ms=60000)
    for job, (r, m) in zip(jobs, res):
        if r == 'sat' and job.get('update'):
            chk.violation(job['name'], 'C05:Mu-M1-M2:update-formula', 'convert_Mu_M1_M2 does not set (M2, mu, M1) to the real parts of '
                          'U^T diag(MCha_pole) V and N^T diag(MChi_goal) N: the on-shell parameters (with their signs) are not a fixed point',
                          '#!/bin/sh\ncd %s && exec python3-vt -m props.replay_c05 loose\n' % VERIF)
        elif r == 'sat' and job.get('stale'):
            chk.violation(job['name'], 'C05:Mu-M1-M2:stale-bino-index', 'convert_Mu_M1_M2: the bino-like neutralino is not re-identified after the '
                          'spectrum changed (index from an outdated mixing matrix)', '#!/bin/sh\ncd %s && exec python3-vt -m props.replay_c05 gauginos\n' % VERIF)
        elif r == 'sat':
            chk.violation(job['name'], 'C05:Mu-M1-M2:flag', 'convert_Mu_M1_M2: the non-convergence warning does not correspond to the precision of '
                          'the spectrum left in the model', '#!/bin/sh\ncd %s && exec python3-vt -m props.replay_c05 gauginos\n' % VERIF)


def index_functions(chk):
    """find_bino_like_neutralino = arg max_i |ZN(i,0)|^2 ; find_right_like_smuon = 1 iff |ZM(0,0)|^2 > |ZM(0,1)|^2"""
    fam = 'state-identification'
    mod, dem, ex, st, mp = base_ctx()
    ex.fork_select = True
    spec = {}
    for i in range(4):
        spec['r%d' % i] = ('vx_ZN_re', [i, 0])
        spec['i%d' % i] = ('vx_ZN_im', [i, 0])
    spec['z00'] = ('vx_ZM', [0, 0])
    spec['z01'] = ('vx_ZM', [0, 1])
    ex.fork_select = False
    st, V = probe(ex, st, mp, spec)
    ex.fork_select = True
    V = {k: zr(v) for k, v in V.items()}
    n2 = [V['r%d' % i] * V['r%d' % i] + V['i%d' % i] * V['i%d' % i] for i in range(4)]
    rr = ex.explore(ex.start('vx_find_bino', [mp], st.fork()))
    for pi, p in enumerate(rr):
        if p.outcome[0] != 'ret':
            continue
        rv = p.retval
        idx = rv if isinstance(rv, int) else (z3.simplify(rv).as_long() if z3.is_bv_value(z3.simplify(rv)) else None)
        if idx is None:
            chk.record('bino-index#%d' % pi, 'inconclusive', 'symbolic index', family=fam)
            chk.inconclusive.append('bino-index#%d' % pi)
            continue
        r, m = chk.prove('bino-index#%d' % pi, list(p.pc) + [z3.Or([n2[idx] < n2[k] for k in range(4)])], family=fam,
                         sample={'obligation': 'detail::find_bino_like_neutralino returns an index of maximal |ZN(i,0)|^2'})
        if r == 'sat':
            chk.violation('bino-index#%d' % pi, 'C05:bino-index', 'find_bino_like_neutralino does not return the state with the largest bino component',
                          '#!/bin/sh\ncd %s && exec python3-vt -m props.replay_c05 loose\n' % VERIF)
    rr = ex.explore(ex.start('vx_find_right', [mp], st.fork()))
    for pi, p in enumerate(rr):
        if p.outcome[0] != 'ret':
            continue
        rv = p.retval
        idx = rv if isinstance(rv, int) else (z3.simplify(rv).as_long() if z3.is_bv_value(z3.simplify(rv)) else None)
        if idx is None:
            continue
        left0 = V['z00'] * V['z00'] > V['z01'] * V['z01']
        r, m = chk.prove('right-index#%d' % pi, list(p.pc) + [left0 if idx == 0 else z3.Not(left0)], family=fam,
                         sample={'obligation': 'detail::find_right_like_smuon returns 1 iff smuon 0 is mostly left-handed (|ZM(0,0)|^2 > |ZM(0,1)|^2)'})
        if r == 'sat':
            chk.violation('right-index#%d' % pi, 'C05:right-index', 'find_right_like_smuon selects the wrong state',
                          '#!/bin/sh\ncd %s && exec python3-vt -m props.replay_c05 loose\n' % VERIF)
    chk.absorb_executor(ex)


def ml2_formula(chk):
    """convert_ml2: ml2(2,2) = MSvm_pole^2 - D-term of the sneutrino (so that the sneutrino mass matrix of C04 gives the pole mass)"""
    fam = 'ml2-closed-form'
    chk.functions.add('MSSMNoFV_onshell::convert_ml2')
    mod, dem, ex, st, mp = base_ctx()
    ex.fork_select = False
    st, V = probe(ex, st, mp, {'vd': ('vx_par', [3]), 'vu': ('vx_par', [4]), 'g1': ('vx_par', [5]), 'g2': ('vx_par', [6]),
                               'P': ('vx_MSvmL_pole', [])})
    ex.fork_select = True
    V = {k: zr(v) for k, v in V.items()}
    rr = ex.explore(ex.start('vx_convert_ml2', [mp], st.fork()))
    n = 0
    for pi, p in enumerate(rr):
        if p.outcome[0] != 'ret':
            continue
        if any(e[0] == 'call' for e in p.events):
            pass
        p.outcome = None
        p.frames = []
        p.retval = None
        q = ex.explore(ex.start('vx_ml2', [mp], p.fork()))
        got = zr(q[0].retval)
        gp2 = zr(Fr(3, 5)) * V['g1'] * V['g1']
        want = V['P'] * V['P'] - (V['g2'] * V['g2'] + gp2) * (V['vd'] * V['vd'] - V['vu'] * V['vu']) / 8
        # the NaN guard path leaves ml2 untouched; it is infeasible for real inputs
        r, m = chk.prove('S5:convert_ml2#%d' % pi, list(q[0].pc) + [got != want], family=fam,
                         sample={'obligation': 'convert_ml2: ml2(2,2) = MSvm_pole^2 - (g2^2 + g\'^2)(vd^2 - vu^2)/8, the inverse of the sneutrino mass '
                                 'formula verified in C04'})
        n += 1
        if r == 'sat':
            chk.violation('S5:convert_ml2#%d' % pi, 'C05:ml2-formula', 'convert_ml2 does not invert the sneutrino mass formula',
                          '#!/bin/sh\ncd %s && exec python3-vt -m props.replay_c05 loose\n' % VERIF)
    if n == 0:
        chk.record('S5:convert_ml2', 'gap', 'no returning path', family=fam)
        chk.not_covered.append('convert_ml2 not analysed')
    chk.absorb_executor(ex)


def onshell_relations(chk):
    """convert_gauge_couplings, convert_BMu, convert_vev, convert_yukawa_couplings_treelevel: the on-shell definitions"""
    fam = 'on-shell-definitions'
    chk.functions.update(['MSSMNoFV_onshell::convert_gauge_couplings', 'convert_BMu', 'convert_vev', 'convert_yukawa_couplings_treelevel'])
    S53 = z3.Real('const_sqrt_5_3')
    S2 = z3.Real('const_sqrt2')
    mod = harness_module('h_mssm_conv')
    dem = demangled(mod)
    ex = executor(mod, RealDom([(1.2909944487358056, S53), (1.4142135623730951, S2), (0.6, z3.RealVal('3/5'))]),
                  extra_stubs=dict(S.STRING_MODEL_STUBS), fork_select=False)
    ex.undefined_handler = ext_handler(dem)
    ex.div_no_fork = True
    ex.sqrt_no_fork = True
    ex.tolerant = True
    st = X.State()
    reg = ex.new_region(st, None, 'input', 'model', lazy=True)
    mp = Ptr(reg.rid, 0)
    pre = {'EL': ('vx_os', [0]), 'MW': ('vx_os', [1]), 'MZ': ('vx_os', [2]), 'MA': ('vx_os', [3]), 'MM': ('vx_os', [5]), 'MT': ('vx_os', [6]),
           'vd0': ('vx_par', [3]), 'vu0': ('vx_par', [4])}
    st, P = probe(ex, st, mp, pre)
    P = {k: zr(v) for k, v in P.items()}
    rr = ex.explore(ex.start('vx_convert_sm_part', [mp], st.fork()))
    rets = [p for p in rr if p.outcome[0] == 'ret']
    if len(rets) != 1:
        chk.record('S6', 'gap', 'paths %r' % [p.outcome for p in rr][:3], family=fam)
        chk.not_covered.append('on-shell definitions not analysed')
        return
    p = rets[0]
    p.outcome = None
    p.frames = []
    p.retval = None
    post = {'g1': ('vx_par', [5]), 'g2': ('vx_par', [6]), 'vd': ('vx_par', [3]), 'vu': ('vx_par', [4]), 'BMu': ('vx_os', [4]),
            'ymu': ('vx_os', [7]), 'yt': ('vx_os', [8])}
    st2, Q = probe(ex, p, mp, post)
    Q = {k: zr(v) for k, v in Q.items()}
    from . import C02
    base = list(st2.pc) + [S53 > 0, S53 * S53 == zr(Fr(5, 3)), S2 > 0, S2 * S2 == 2, P['MW'] > 0, P['MZ'] > P['MW'], P['EL'] > 0, P['vd0'] > 0, P['vu0'] > 0,
                           P['MM'] > 0, P['MT'] > 0]
    gp2 = zr(Fr(3, 5)) * Q['g1'] * Q['g1']
    v2 = Q['vd'] * Q['vd'] + Q['vu'] * Q['vu']
    obl = [('g2 = e/sin(theta_W), sin^2 = 1 - MW^2/MZ^2', z3.And(Q['g2'] > 0, Q['g2'] * Q['g2'] * (P['MZ'] * P['MZ'] - P['MW'] * P['MW']) == P['EL'] * P['EL'] * P['MZ'] * P['MZ'])),
           ('gY = e/cos(theta_W)', z3.And(Q['g1'] > 0, gp2 * P['MW'] * P['MW'] == P['EL'] * P['EL'] * P['MZ'] * P['MZ'])),
           ('tree-level MW: g2^2 (vd^2 + vu^2)/4 = MW_pole^2', Q['g2'] * Q['g2'] * v2 == 4 * P['MW'] * P['MW']),
           ('tree-level MZ: (g\'^2 + g2^2)(vd^2 + vu^2)/4 = MZ_pole^2', (gp2 + Q['g2'] * Q['g2']) * v2 == 4 * P['MZ'] * P['MZ']),
           ('vu/vd = tan(beta) (the ratio of the input VEVs), vd, vu > 0', z3.And(Q['vu'] * P['vd0'] == P['vu0'] * Q['vd'], Q['vd'] > 0, Q['vu'] > 0)),
           ('B mu (tan(beta) + cot(beta)) = MA^2', Q['BMu'] * (P['vu0'] * P['vu0'] + P['vd0'] * P['vd0']) == P['MA'] * P['MA'] * P['vu0'] * P['vd0']),
           ('y_mu vd/sqrt2 = m_mu, y_t vu/sqrt2 = m_t', z3.And(Q['ymu'] * Q['vd'] == S2 * P['MM'], Q['yt'] * Q['vu'] == S2 * P['MT']))]
    for nm, good in obl:
        r, m = chk.prove('S6:' + nm.split(':')[0].split(',')[0][:40], base + [z3.Not(good)], timeout_ms=60000, family=fam,
                         sample={'obligation': 'after the SM part of the conversion: ' + nm})
        if r == 'sat':
            chk.violation('S6:' + nm[:30], 'C05:on-shell-definition:' + nm.split(' ')[0], 'on-shell definition violated: ' + nm,
                          '#!/bin/sh\ncd %s && exec python3-vt -m props.replay_c05 loose\n' % VERIF)
    chk.absorb_executor(ex)


def top_level(chk):
    fam = 'warning-lifetime'
    chk.functions.add('MSSMNoFV_onshell::convert_to_onshell')
    trace = []

    def on_call(st, d, args):
        base = d.split('(')[0]
        st.event('call', name=base)
    mod, dem, ex, st, mp = base_ctx(on_call=on_call)
    ex.opaque_defined = set(n for n in mod.functions if dem.get(n, '').startswith('gm2calc::MSSMNoFV_onshell::') and
                            'convert_to_onshell' not in dem.get(n, '') and 'get_problems' not in dem.get(n, ''))
    s2 = ex.start('vx_convert_to_onshell', [mp, z3.Real('precision_goal'), z3.BitVec('maxit', 32)], st)
    rr = ex.explore(s2)
    chk.absorb_executor(ex)
    n = 0
    for pi, p in enumerate(rr):
        calls = [e[1]['name'] for e in p.events if e[0] == 'call']
        fits = [i for i, c in enumerate(calls) if c.endswith('convert_Mu_M1_M2') or c.endswith('convert_me2')]
        if not fits:
            continue
        n += 1
        after = calls[fits[0]:]
        bad = [c for c in after if c.endswith('problems::clear') or c.endswith('problems::clear_warnings')]
        order_ok = [c.split('::')[-1] for c in calls if c.split('::')[-1] in ('convert_Mu_M1_M2', 'convert_ml2', 'convert_me2')] == \
            ['convert_Mu_M1_M2', 'convert_ml2', 'convert_me2'] or p.outcome[0] != 'ret'
        if bad:
            r, m = chk.solve(list(p.pc), 20000)
            if r != 'unsat':
                chk.violation('S4#%d' % pi, 'C05:warnings-cleared', 'convert_to_onshell calls %s after the parameter fits: a non-convergence warning '
                              'raised by convert_Mu_M1_M2 / convert_me2 is discarded' % bad[0],
                              '#!/bin/sh\ncd %s && exec python3-vt -m props.replay_c05 warnings\n' % VERIF)
                continue
        # parameters of the smuon mass matrix must not change between the me2 fit and the final spectrum
        names = [c.split('::')[-1] for c in calls]
        if 'convert_me2' in names:
            late = [c for c in names[names.index('convert_me2') + 1:] if c.startswith('convert_yukawa_couplings') or c in (
                'convert_ml2', 'convert_Mu_M1_M2', 'convert_vev', 'convert_gauge_couplings')]
            if late:
                chk.violation('S4#%d:post-fit' % pi, 'C05:yukawa-updated-after-me2-fit',
                              'convert_to_onshell calls %s after convert_me2: the muon Yukawa coupling (which enters the smuon mass matrix) is '
                              'changed after the right-handed smuon mass was fitted, so the final spectrum misses the pole mass by more than the '
                              'requested precision without a warning' % late[0],
                              '#!/bin/sh\ncd %s && exec python3-vt -m props.replay_c05 strict\n' % VERIF)
        if not order_ok:
            chk.violation('S4#%d' % pi, 'C05:fit-order', 'convert_to_onshell does not fit (Mu,M1,M2), ml2, me2 in this order: %r' % calls[:20],
                          '#!/bin/sh\ncd %s && exec python3-vt -m props.replay_c05 warnings\n' % VERIF)
            continue
        chk.record('S4#%d' % pi, 'discharged', family=fam,
                   sample={'obligation': 'convert_to_onshell: (Mu,M1,M2), ml2(2,2), me2(2,2) are fitted in this order and no call clears the convergence '
                           'warnings afterwards (only clear_problems before the final spectrum)', 'calls': [c.split('::')[-1] for c in calls][:30]})
        chk.formulas.add('S4#%d' % pi)
    if n == 0:
        chk.record('S4', 'inconclusive', 'no path through the fits')
        chk.inconclusive.append('S4')


def run(chk):
    chk.assumptions += [
        'spectrum calculations inside the iterations are uninterpreted functions of the parameters being fitted (equal parameters give equal '
        'spectra, otherwise arbitrary): the statements hold for every behaviour of the eigen-solvers',
        'max_iterations <= %d (all exits of the loops unrolled), REAL domain' % MAXIT,
    ]
    chk.not_covered += ['convergence of the fixed-point iterations and recovery of on-shell parameters from perturbed guesses (numerical '
                        'fixed point of full spectrum calculations: not encodable)', 'the root-finder fallback convert_me2_root_modify (boost toms748)',
                        ]
    index_functions(chk)
    onshell_relations(chk)
    ml2_formula(chk)
    me2_fpi(chk)
    me2_flag(chk)
    mu_m1_m2(chk)
    top_level(chk)
