def run(chk):
    pass
