"""C03 part 2: THDM one-loop contribution amu1L(pars) against the flavour-summed formula."""
from fractions import Fraction as Fr
import z3

from .common import *
from .C14b import demangled
from .modelprobe import probe, cmul, cconj, cabs2, ext_handler
from . import C02
from symx.exec import Ptr

PI = z3.Real('const_pi')
PI2 = z3.Real('const_pi2')
CONSTS = [(3.1415926535897932, PI), (9.8696044010893586, PI2), (8 * 9.8696044010893586, 8 * PI2),
          (4 * 3.1415926535897932, 4 * PI), (1 / (8 * 9.8696044010893586), 1 / (8 * PI2))]
CONST_AX = [PI > 3, PI < 4, PI2 > 9, PI2 < 10]
YN = ['h', 'H', 'A', 'Hp']
PARS = ['alpha_em', 'mm', 'mw', 'mz', 'mhSM', 'mA', 'mHp', 'mh0', 'mh1']


def spec():
    s = {}
    for k, nm in enumerate(PARS):
        s[nm] = ('vx_par', [k])
    for i in range(3):
        s['ml%d' % i] = ('vx_ml', [i])
        s['mv%d' % i] = ('vx_mv', [i])
    for w, nm in enumerate(YN):
        for i in range(3):
            for j in range(3):
                s['y%sr%d%d' % (nm, i, j)] = ('vx_y_re', [w, i, j])
                s['y%si%d%d' % (nm, i, j)] = ('vx_y_im', [w, i, j])
    return s


def leaf_of(ex, p, fname, num, den):
    from .C03 import find_leaf
    return find_leaf(ex, p, fname, num, den)


def run(chk):
    from .C03 import prove_linear_in_leaves
    chk.functions.update(['gm2calc::thdm::amu1L', 'gm2calc::thdm::(anon)::AS', 'gm2calc::thdm::(anon)::AA',
                          'gm2calc::thdm::(anon)::AHp'])
    mod = harness_module('h_thdm_1l')
    dem = demangled(mod)
    ex = executor(mod, RealDom(CONSTS), fork_select=False)
    ex.undefined_handler = ext_handler(dem)
    ex.div_no_fork = True
    st = X.State()
    reg = ex.new_region(st, None, 'input', 'pars', lazy=True)
    pp = Ptr(reg.rid, 0)
    st, V = probe(ex, st, pp, spec())
    V = {k: zr(v) for k, v in V.items()}
    dom = [V[n] > 0 for n in PARS] + [V['mw'] < V['mz']] + [V['ml%d' % i] > 0 for i in range(3)] + CONST_AX
    fn = [n for n in mod.functions if 'amu1L' in n and 'approx' not in n and 'THDM_1L_parameters' in n][0]
    s2 = ex.start(fn, [pp], st.fork())
    s2.pc += dom
    rr = [p for p in ex.explore(s2)]
    chk.absorb_executor(ex)
    good = [p for p in rr if p.outcome[0] == 'ret' and not isinstance(p.retval, float)]
    if len(good) != 1 or len(rr) != 1:
        # a sqrt-negative path may exist syntactically: it has to be infeasible under the domain
        for p in rr:
            if p in good:
                continue
            r, m = chk.solve(p.pc, 20000)
            if r != 'unsat':
                chk.record('thdm:amu1L', 'inconclusive', 'extra path %r (%s)' % (p.outcome, r))
                chk.inconclusive.append('thdm:amu1L')
                return
        if len(good) != 1:
            chk.record('thdm:amu1L', 'inconclusive', 'paths %r' % [p.outcome for p in rr][:3])
            chk.inconclusive.append('thdm:amu1L')
            return
    p = good[0]
    mm = V['mm']
    y = {nm: [[(V['y%sr%d%d' % (nm, i, j)], V['y%si%d%d' % (nm, i, j)]) for j in range(3)] for i in range(3)] for nm in YN}
    ml = [V['ml%d' % i] for i in range(3)]
    mv = [V['mv%d' % i] for i in range(3)]
    m2 = {'h': V['mh0'] * V['mh0'], 'H': V['mh1'] * V['mh1'], 'A': V['mA'] * V['mA'], 'Hp': V['mHp'] * V['mHp'],
          'SM': V['mhSM'] * V['mhSM']}
    total = 0           # sum of terms, each already divided by its scalar mass squared
    missing = []

    def L(fname, num, den):
        r = leaf_of(ex, p, fname, num, den)
        if r is None:
            missing.append('%s(%s/%s)' % (fname, num, den))
            return z3.RealVal(0)
        return r
    for g in range(3):
        for nm, sign in (('h', 1), ('H', 1), ('A', -1)):
            Y = y[nm]
            # (|y_g2|^2 + |y_2g|^2) F1C(x)/24 +- Re(y_g2^* y_2g^*) m_g/m_2 F2C(x)/3,  x = m_g^2/m_S^2
            f1 = L('F1C', ml[g] * ml[g], m2[nm])
            f2 = L('F2C', ml[g] * ml[g], m2[nm])
            re = cmul(cconj(Y[g][1]), cconj(Y[1][g]))[0]
            total = total + ((cabs2(Y[g][1]) + cabs2(Y[1][g])) * f1 / 24 + sign * re * ml[g] / ml[1] * f2 / 3) / m2[nm]
        # charged Higgs: -|y_g2|^2/48 (F1N(m_nu2^2/m^2) + F1N(m_nug^2/m^2))
        fa = L('F1N', mv[1] * mv[1], m2['Hp'])
        fb = L('F1N', mv[g] * mv[g], m2['Hp'])
        total = total - cabs2(y['Hp'][g][1]) / 48 * (fa + fb) / m2['Hp']
    # SM Higgs with y = m_mu/v, v = 2 mw/g2, g2^2 = 4 pi alpha/(1 - mw^2/mz^2); evaluated at x = ml_2^2/mhSM^2
    sw2 = 1 - V['mw'] * V['mw'] / (V['mz'] * V['mz'])
    ysm2 = mm * mm * (4 * PI * V['alpha_em'] / sw2) / (4 * V['mw'] * V['mw'])
    f1 = L('F1C', ml[1] * ml[1], m2['SM'])
    f2 = L('F2C', ml[1] * ml[1], m2['SM'])
    total = total - ysm2 * (f1 / 12 + f2 / 3) / m2['SM']
    if missing:
        chk.violation('thdm:amu1L', 'C03:thdm-amu1L:arguments',
                      'amu1L does not evaluate the loop functions at the expected mass ratios: %s' % ', '.join(missing)[:300],
                      '#!/bin/sh\ncd %s && exec python3-vt -m props.replay_c03 thdm\n' % VERIF)
        return
    lhs = zr(p.retval)
    rhs = mm * mm * total / (8 * PI2)
    rs = prove_linear_in_leaves(chk, 'thdm:amu1L', ex, p, lhs, rhs, C02.quotient_equalities(ex) + CONST_AX, 'thdm-1loop',
                                sample={'obligation': 'amu1L(pars) == m_mu^2/(8 pi^2) sum_g [A_h/mh^2 + A_H/mH^2 + A_A/mA^2 + '
                                        'A_H+/mH+^2] - SM Higgs term, for arbitrary complex 3x3 Yukawa matrices, masses and alpha '
                                        '(identity per loop-function leaf)'}, timeout=20000)
    if 'sat' in rs:
        chk.violation('thdm:amu1L', 'C03:thdm-amu1L:formula', 'THDM amu1L differs from the flavour-summed one-loop formula '
                      '(arXiv:1607.06292 generalised to 3x3 Yukawa matrices) for some parameters',
                      '#!/bin/sh\ncd %s && exec python3-vt -m props.replay_c03 thdm\n' % VERIF)
    from . import glue
    glue.run(chk, 'C03')
