"""Symmetry / dimensional analysis of functions of a symbolic MSSM model (C06, C07).

A function f(model) is executed once on a lazily symbolic model whose relevant fields are named through the
accessors of harness/mssm_acc.inc.  A transformation sigma of the inputs (sign flip of mu, M_i, A_f with the
induced change of the eigen-systems; or scaling of all dimensionful quantities) is applied to the result
*expression* by substitution.  Loop functions and opaque callees are uninterpreted leaves: the transformation
can be pushed through a leaf only if its arguments are invariant (decided by the solver), otherwise the leaf is
reported.  Path conditions (fmin/abs/compare in the code) transform as well: for every pair of paths (i at x, j at
sigma x) the solver decides  pc_i(x) & pc_j(sigma x) => res_j(sigma x) == factor * res_i(x).
"""
from fractions import Fraction as Fr
import z3

from .common import *
from .C14b import demangled
from .modelprobe import probe, ext_handler
from symx.exec import Ptr

# name -> (accessor, args, flip parity (+1/-1), mass dimension)
SCALARS = ['Mu', 'MassB', 'MassWB', 'MassG', 'g1', 'g2', 'g3', 'MM', 'MW', 'MZ', 'MT', 'MSvmL', 'MA0', 'EL', 'EL0', 'scale', 'vd', 'vu',
           'ML', 'MBMB', 'BMu']
SC_META = {'Mu': (-1, 1), 'MassB': (-1, 1), 'MassWB': (-1, 1), 'MassG': (-1, 1), 'g1': (1, 0), 'g2': (1, 0), 'g3': (1, 0), 'MM': (1, 1),
           'MW': (1, 1), 'MZ': (1, 1), 'MT': (1, 1), 'MSvmL': (1, 1), 'MA0': (1, 1), 'EL': (1, 0), 'EL0': (1, 0), 'scale': (1, 1),
           'vd': (1, 1), 'vu': (1, 1), 'ML': (1, 1), 'MBMB': (1, 1), 'BMu': (1, 2)}
DIAGS = ['ml2', 'me2', 'mq2', 'mu2', 'md2', 'Ye', 'Yu', 'Yd', 'Ae', 'Au', 'Ad']
DG_META = {'ml2': (1, 2), 'me2': (1, 2), 'mq2': (1, 2), 'mu2': (1, 2), 'md2': (1, 2), 'Ye': (1, 0), 'Yu': (1, 0), 'Yd': (1, 0),
           'Ae': (-1, 1), 'Au': (-1, 1), 'Ad': (-1, 1)}
MASSES = [('MSm', 2), ('MStau', 2), ('MSt', 2), ('MSb', 2), ('MCha', 2), ('Mhh', 2), ('MChi', 4)]
RMIX = ['USm', 'UStau', 'USt', 'USb']
CMIX = [('ZN', 4), ('UM', 2), ('UP', 2)]
# opaque callees: (flip parity, dimension) of their scalar result; arrays filled with invariant dimensionless symbols
UF_META = {'MSSMNoFV_onshell::get_TB': (1, 0), 'tan_beta_cor': (1, 0), 'amu1LWHnu': (1, 0), 'amu1LWHmuL': (1, 0), 'amu1LBHmuL': (1, 0),
           'amu1LBHmuR': (1, 0), 'amu1LBmuLmuR': (1, 0), 'amu2LaCha': (1, 0), 'amu2LaSferm': (1, 0), 'calculate_amu_1loop': (1, 0),
           'calculate_amu_2loop': (1, 0), 'abs_sqrt': None, 'log_scale': (1, 1)}
for _n in ('delta_g1', 'delta_yuk_higgsino', 'delta_yuk_bino_higgsino', 'delta_g2', 'delta_yuk_wino_higgsino', 'delta_tan_beta', 'amu2LWHnu',
           'amu2LWHmuL', 'amu2LBHmuL', 'amu2LBHmuR', 'amu2LBmuLmuR', 'amu2LFSfapprox', 'amu2LChipmPhotonic', 'amu2LChi0Photonic',
           'tan_alpha', 'amu1LChi0', 'amu1LChipm', 'amu1Lapprox', 'delta_mu_correction', 'delta_tau_correction', 'delta_bottom_correction',
           'delta_down_lepton_correction', 'calculate_uncertainty_amu_2loop', 'calculate_uncertainty_amu_1loop',
           'calculate_uncertainty_amu_0loop'):
    UF_META.setdefault(_n, (1, 0))
LOOPFN = ('F1C', 'F2C', 'F3C', 'F4C', 'F1N', 'F2N', 'F3N', 'F4N', 'Fa', 'Fb', 'Iabc', 'f_PS', 'f_S', 'f_sferm', 'log', 'sqrt', 'dilog')
POSITIVE = {'log_scale', 'MSSMNoFV_onshell::get_TB', 'abs_sqrt'}
EVEN = {'Iabc'}          # Iabc(a,b,c) = Ixyz(a^2,b^2,c^2): checked on the code by iabc_even()
HOMOG = {'Iabc': -2}     # Iabc(ka,kb,kc) = Iabc(a,b,c)/k^2: checked on the code by ixyz_homogeneous()
ARRAYS = {'AAC': 2, 'AAN': 8, 'BBC': 2, 'BBN': 8, 'x_im': 8, 'x_k': 2}


def spec():
    s = {}
    for k, nm in enumerate(SCALARS):
        s[nm] = ('vq_scalar', [k])
    for k, nm in enumerate(DIAGS):
        for i in range(3):
            s['%s%d' % (nm, i)] = ('vq_diag', [k, i])
    for k, (nm, n) in enumerate(MASSES):
        for i in range(n):
            s['%s%d' % (nm, i)] = ('vq_mass', [k, i])
    for k, nm in enumerate(RMIX):
        for i in range(2):
            for j in range(2):
                s['%s%d%d' % (nm, i, j)] = ('vq_rmix', [k, i, j])
    for k, (nm, n) in enumerate(CMIX):
        for i in range(n):
            for j in range(n):
                s['%sr%d%d' % (nm, i, j)] = ('vq_cmix', [k, 0, i, j])
                s['%si%d%d' % (nm, i, j)] = ('vq_cmix', [k, 1, i, j])
    return s


class Ctx:
    pass


def setup(harness, consts=()):
    c = Ctx()
    c.mod = harness_module(harness)
    c.dem = demangled(c.mod)
    c.ex = executor(c.mod, RealDom(list(consts)), fork_select=True)
    c.arrays = {}

    def handler(ex_, st_, name, args_, I):
        d = c.dem.get(name, name)
        base = d.split('(')[0].replace('gm2calc::', '')
        if base in ARRAYS:
            # array-valued helper of another translation unit: stable invariant symbols
            out = args_[0]
            for k in range(ARRAYS[base]):
                key = (base, k)
                if key not in c.arrays:
                    c.arrays[key] = z3.Real('arr:%s[%d]' % (base, k))
                ex_.store(st_, Ptr(out.rid, out.off + 8 * k), llir.DOUBLE, c.arrays[key])
            return None
        r = c.inner(ex_, st_, name, args_, I)
        if base in POSITIVE and isinstance(r, z3.ExprRef):
            st_.add(r > 0)
        return r
    c.inner = ext_handler(c.dem)
    c.ex.undefined_handler = handler
    c.ex.div_no_fork = True
    c.ex.tolerant = True
    c.ex.max_paths = 3000
    st = X.State()
    reg = c.ex.new_region(st, None, 'input', 'model', lazy=True)
    c.mp = Ptr(reg.rid, 0)
    c.ex.fork_select = False
    c.st, V = probe(c.ex, st, c.mp, spec())
    c.ex.fork_select = False       # fmin/fmax/abs stay if-then-else terms: one path instead of one per ordering
    c.V = {k: zr(v) for k, v in V.items()}
    return c


def expand_quots(ex, e):
    from .C08b import expand_quots as eq
    return eq(ex, e)


def flip_subst(c):
    """joint sign flip of mu, M1, M2, M3, A_f and the induced transformation of the eigen-systems"""
    V = c.V
    sub = []
    for nm in SCALARS:
        if SC_META[nm][0] < 0:
            sub.append((V[nm], -V[nm]))
    for nm in DIAGS:
        if DG_META[nm][0] < 0:
            for i in range(3):
                sub.append((V['%s%d' % (nm, i)], -V['%s%d' % (nm, i)]))
    # sfermion mixing matrices: M' = s3 M s3  =>  Z' = Z s3 (second column changes sign)
    for nm in RMIX:
        for i in range(2):
            sub.append((V['%s%d1' % (nm, i)], -V['%s%d1' % (nm, i)]))
    # neutralinos: Y' = -D Y D, D = diag(1,1,-1,-1)  =>  N' = i N D ;  charginos: X' = -s3 X s3 => U' = i U s3, V' = i V s3
    for nm, n, D in (('ZN', 4, (1, 1, -1, -1)), ('UM', 2, (1, -1)), ('UP', 2, (1, -1))):
        for i in range(n):
            for j in range(n):
                re, im = V['%sr%d%d' % (nm, i, j)], V['%si%d%d' % (nm, i, j)]
                sub.append((re, -im * D[j]))
                sub.append((im, re * D[j]))
    return sub


def scale_subst(c, k):
    """every dimensionful quantity multiplied by k^dim (a_mu is dimensionless)"""
    V = c.V
    sub = []
    for nm in SCALARS:
        d = SC_META[nm][1]
        if d:
            sub.append((V[nm], V[nm] * k ** d))
    for nm in DIAGS:
        d = DG_META[nm][1]
        if d:
            for i in range(3):
                sub.append((V['%s%d' % (nm, i)], V['%s%d' % (nm, i)] * k ** d))
    for nm, n in MASSES:
        for i in range(n):
            sub.append((V['%s%d' % (nm, i)], V['%s%d' % (nm, i)] * k))
    return sub


def symbols_of(e):
    out = {}
    todo = [e]
    seen = set()
    while todo:
        t = todo.pop()
        if t.get_id() in seen:
            continue
        seen.add(t.get_id())
        if z3.is_const(t) and t.decl().kind() == z3.Z3_OP_UNINTERPRETED:
            out[t.decl().name()] = t
        todo.extend(t.children())
    return out


def domain(c):
    V = c.V
    cons = []
    for nm in DIAGS:
        if DG_META[nm][1] == 2:
            cons += [V['%s%d' % (nm, i)] > 0 for i in range(3)]
    for nm, n in MASSES:
        if nm != 'MChi':
            cons += [V['%s%d' % (nm, i)] > 0 for i in range(n)]
    cons += [V[n] * V[n] >= 1 for n in ('Mu', 'MassB', 'MassWB', 'MassG')]      # away from the is_zero() guards
    cons += [V[n] > 0 for n in ('g1', 'g2', 'g3', 'MM', 'MW', 'MZ', 'MT', 'MSvmL', 'MA0', 'EL', 'EL0', 'scale', 'vd', 'vu', 'ML', 'MBMB')]
    cons += [V['MW'] < V['MZ']]
    return cons


def run_function(c, fname, extra_args=(), budget=60):
    import time
    c.ex.deadline = time.time() + budget
    c.ex.stats['paths'] = 0
    # modular: the other scalar functions of the unit are opaque here (each is analysed on its own)
    c.ex.opaque_defined = set(n for n in c.mod.functions if n != fname and
                              c.dem.get(n, '').split('(')[0].replace('gm2calc::', '') in UF_META and
                              c.dem.get(n, '').startswith('gm2calc::'))
    s2 = c.ex.start(fname, [c.mp] + list(extra_args), c.st.fork())
    s2.pc += domain(c)
    try:
        rr = c.ex.explore(s2)
    finally:
        c.ex.deadline = None
    return rr


def analyse(chk, c, pid, label, paths, sub, factor, kind, family, replay, extra_pc=(), kvar=None, relations=()):
    """kind: 'flip' | 'scale'.  Returns True if decided (all obligations discharged)."""
    V = c.V
    known = {v.get_id() for v in V.values()}
    rets = [p for p in paths if p.outcome[0] == 'ret' and not isinstance(p.retval, float)]
    other = [p for p in paths if p not in rets]
    if not rets:
        chk.record('%s:%s' % (kind, label), 'gap', 'no returning path (%r)' % [p.outcome for p in paths][:2], family=family)
        chk.not_covered.append('%s: %s not analysed (no returning path)' % (kind, label))
        return False
    if any(p.outcome[0] in ('unsupported', 'steplimit') for p in other):
        chk.not_covered.append('%s: %s partially explored (%s)' % (kind, label, [p.outcome for p in other if p.outcome[0] in ('unsupported', 'steplimit')][0][1][:60]))
    data = []
    for p in rets:
        res = expand_quots(c.ex, zr(p.retval))
        pc = [expand_quots(c.ex, k_) for k_ in p.pc]
        data.append((p, res, pc))
    # leaves: classify
    leaf_info = {}
    for j, (k_, args, r_) in enumerate(c.ex.leaves):
        leaf_info[r_.decl().name() if z3.is_const(r_) else str(r_)] = (k_, args, r_)
    problems = []
    usub = list(sub)
    for (p, res, pc) in data:
        syms = symbols_of(res)
        for k_ in pc:
            syms.update(symbols_of(k_))
        order = {}
        for j_, (k__, a__, r__) in enumerate(c.ex.leaves):
            if z3.is_const(r__):
                order[r__.decl().name()] = j_
        for nm, s in sorted(syms.items(), key=lambda kv: order.get(kv[0], -1)):
            if s.get_id() in known or nm.startswith('arr:') or (kvar is not None and s.get_id() == kvar.get_id()) or nm.startswith('const_'):
                continue
            if nm.startswith('arg'):
                continue
            if any(s.get_id() == u[0].get_id() for u in usub):
                continue
            info = leaf_info.get(nm)
            if info is None:
                problems.append('unnamed model field %s read by %s' % (nm, label))
                continue
            k_, args, r_ = info
            base = k_.replace('uf:', '').split('#')[0]
            if base in UF_META and UF_META[base] is not None and not [a for a in args if isinstance(a, z3.ExprRef)]:
                par, dim = UF_META[base]
                if kind == 'scale' and dim:
                    usub.append((r_, r_ * kvar ** dim))
                continue
            ok = True
            if kind == 'scale' and (base in HOMOG or base in ('sqrt', 'abs_sqrt')):
                # homogeneous functions: Iabc(ka,kb,kc) = Iabc/k^2 (proven on the code); sqrt(k^2 a) = k sqrt(a)
                done_ = False
                for power, outp in (((1, HOMOG.get(base)),) if base in HOMOG else ((2, 1), (4, 2))):
                    allk = True
                    for a in args:
                        a0 = expand_quots(c.ex, zr(a))
                        a1 = z3.substitute(a0, *usub)
                        r, m = chk.solve(list(pc) + list(extra_pc) + [a1 != kvar ** power * a0], 15000)
                        if r != 'unsat':
                            allk = False
                            break
                    if allk:
                        usub.append((r_, r_ * kvar ** outp))
                        done_ = True
                        break
                if done_:
                    continue
            for a in args:
                if not isinstance(a, z3.ExprRef):
                    continue
                a0 = expand_quots(c.ex, zr(a))
                a1 = z3.substitute(a0, *usub)
                if base in EVEN:
                    a0, a1 = a0 * a0, a1 * a1
                r, m = chk.solve(list(pc) + list(extra_pc) + [a0 != a1], 15000)
                if r != 'unsat':
                    ok = False
                    problems.append('%s: argument %s of %s is not invariant under the transformation' % (label, str(z3.simplify(a0))[:80], base))
            if not ok:
                continue
    if problems:
        # cannot push the transformation through an opaque function: decide by native replay of the metamorphic relation
        chk.record('%s:%s' % (kind, label), 'gap', problems[0], family=family)
        chk.not_covered.append('%s: %s' % (kind, problems[0]))
        return problems
    ok_all = True
    jobs = []
    smp = {'obligation': '%s: %s' % (label, 'value at the sign-flipped point (mu, M1, M2, M3, A_f -> -; N -> i N D, '
                                     'U,V -> i U s3, sfermion mixing columns) equals the value at the original point'
                                     if kind == 'flip' else
                                     'value with every dimensionful quantity scaled by k^dim equals the original value '
                                     '(a_mu is dimensionless)')}
    for i, (p1, r1, pc1) in enumerate(data):
        for j, (p2, r2, pc2) in enumerate(data):
            r2s = z3.substitute(r2, *usub)
            pc2s = [z3.substitute(k_, *usub) for k_ in pc2]
            tag = '%s:%s#%d,%d' % (kind, label, i, j)
            jobs.append({'name': tag, 'constraints': list(pc1) + pc2s + list(extra_pc) + [r2s != factor * r1], 'lhs': r2s, 'rhs': factor * r1})
    from .C03 import parallel_status
    stat = parallel_status(jobs, 30000) if len(jobs) > 3 else [chk.solve(j_['constraints'], 30000)[0] for j_ in jobs]
    for job, r in zip(jobs, stat):
        tag = job['name']
        chk.note_formula(job['constraints'])
        chk.queries += 1
        if r == 'unsat':
            chk.counts['unsat'] += 1
            chk.record(tag, 'discharged', family=family, sample=smp)
        elif r == 'sat':
            ok_all = False
            chk.counts['sat'] += 1
            chk.violation(tag, '%s:%s:%s' % (pid, kind, label), '%s is not invariant under the %s' % (
                label, 'joint sign flip of mu, M1, M2, M3, A_f' if kind == 'flip' else 'common scaling of all dimensionful quantities'), replay)
        else:
            from . import polyid
            import sympy
            done = False
            try:
                num, cv = polyid.residual(c.ex, job['lhs'], job['rhs'], list(relations), None)
                if num == 0:
                    smp2 = dict(smp)
                    smp2['method'] = 'rational normal form (identity holds irrespective of the path conditions)'
                    chk.record(tag, 'discharged', family=family, sample=smp2)
                    done = True
            except (ValueError, sympy.PolynomialError):
                pass
            if not done:
                chk.record(tag, 'gap', 'solver timeout and no normal form', family=family)
                chk.not_covered.append('%s: %s undecided (solver timeout)' % (kind, label))
                ok_all = False
    return ok_all


def double_function_symmetry(chk, name, mangled_prefix, nargs, subs_of, factor_of, tag, what, dom=None):
    """f(sigma x) == factor * f(x) for a library function of doubles (all paths, leaves with invariant arguments)"""
    from .C03 import parallel_status
    mod = harness_module('h_ff')
    dem = demangled(mod)
    fn = [n for n in mod.functions if dem.get(n, '').startswith(mangled_prefix)]
    if not fn:
        chk.record(tag, 'gap', '%s not found' % name)
        chk.not_covered.append('%s: function not found' % tag)
        return False
    ex = executor(mod, RealDom(), fork_select=True)
    xs = [z3.Real('x%d' % i) for i in range(nargs)]
    st = ex.start(fn[0], xs)
    st.pc += (dom(xs) if dom else [])
    rr = ex.explore(st)
    chk.absorb_executor(ex)
    rets = [p for p in rr if p.outcome[0] == 'ret' and not isinstance(p.retval, float)]
    if not rets:
        chk.record(tag, 'gap', 'no returning path')
        return False
    ok = True
    for variant, sub in enumerate(subs_of(xs)):
        factor = factor_of(xs, variant)
        data = [(expand_quots(ex, zr(p.retval)), [expand_quots(ex, k_) for k_ in p.pc], p) for p in rets]
        # leaves: arguments invariant
        usub = list(sub)
        for j, (k_, args, r_) in enumerate(ex.leaves):
            for a in args:
                a0 = expand_quots(ex, zr(a))
                a1 = z3.substitute(a0, *usub)
                users = [d for d in data if j in d[2].leaves]
                for (res, pc, p) in users[:1]:
                    r, m = chk.solve(pc + [a0 != a1], 10000)
                    if r != 'unsat':
                        ok = False
                        chk.record('%s:leaf' % tag, 'gap', 'argument of %s not invariant' % k_)
        # if every atom of every path condition is invariant under the transformation, a point and its image follow the
        # same path and only the diagonal pairs are non-vacuous
        inv_paths = True
        base_dom = dom(xs) if dom else []
        atoms = {}
        for (res, pc, p) in data:
            for k_ in pc:
                atoms[k_.get_id()] = k_
        for k_ in atoms.values():
            ks = z3.substitute(k_, *usub)
            r, m = chk.solve(base_dom + [z3.substitute(d_, *usub) for d_ in base_dom] + [ks != k_], 10000)
            if r != 'unsat':
                inv_paths = False
                break
        jobs = []
        for i, (r1, pc1, p1) in enumerate(data):
            for j, (r2, pc2, p2) in enumerate(data):
                if inv_paths and i != j:
                    continue
                jobs.append({'name': '%s#%d:%d,%d' % (tag, variant, i, j), 'lhs': z3.substitute(r2, *usub), 'rhs': factor * r1,
                             'constraints': pc1 + [z3.substitute(k_, *usub) for k_ in pc2] + [z3.substitute(r2, *usub) != factor * r1]})
        stat = parallel_status(jobs, 20000)
        nbad = 0
        from . import polyid
        import sympy
        for job, r in zip(jobs, stat):
            chk.queries += 1
            if r == 'unsat':
                continue
            if r != 'sat':
                try:
                    num, cv = polyid.residual(ex, job['lhs'], job['rhs'], [], None)
                    if num == 0:
                        continue
                except (ValueError, sympy.PolynomialError):
                    pass
            nbad += 1
            ok = False
        chk.record('%s#%d' % (tag, variant), 'discharged' if nbad == 0 else 'gap', '' if nbad == 0 else '%d path pairs undecided/failed' % nbad,
                   family='loop-function-facts', sample={'obligation': what + ' (%d path pairs)' % len(jobs)})
        if nbad == 0:
            chk.formulas.add('%s#%d' % (tag, variant))
        else:
            chk.not_covered.append('%s: %d path pairs not decided' % (tag, nbad))
    return ok


def iabc_even(chk):
    """Iabc is even in each argument"""
    def subs(xs):
        return [[(x, -x)] for x in xs]
    return double_function_symmetry(chk, 'Iabc', 'gm2calc::Iabc(', 3, subs, lambda xs, v: z3.RealVal(1), 'Iabc:even',
                                    'Iabc(a,b,c) is even in each argument (it is evaluated on the squares)',
                                    dom=lambda xs: [x != 0 for x in xs])


def iabc_homogeneous(chk):
    k = z3.Real('k')

    def subs(xs):
        return [[(x, k * x) for x in xs]]
    return double_function_symmetry(chk, 'Iabc', 'gm2calc::Iabc(', 3, subs, lambda xs, v: 1 / (k * k), 'Iabc:homogeneous',
                                    'Iabc(ka,kb,kc) == Iabc(a,b,c)/k^2 for a,b,c >= 1, k >= 1 (away from the absolute is_zero guard)',
                                    dom=lambda xs: [x >= 1 for x in xs] + [k >= 1])
