"""replay of a C11 kernel witness: value and continuity along each argument"""
import math
import sys
from .common import *
from . import C11


def main():
    kind = sys.argv[1]
    if kind == 'kernel':
        name = sys.argv[2]
        pt = [float(v) for v in sys.argv[3:]]
        mod, ks = C11.kernel_module()
        params = dict(ks)[name]
        bad = 0
        val = C11.native_eval(name, pt)
        print('%s%r = %r' % (name, tuple(pt), val))
        if not math.isfinite(val):
            bad = 1
        for idx in range(len(pt)):
            msg, d = C11.continuity_probe(name, params, pt, idx)
            if msg:
                print('along %s: %s' % (params[idx], msg))
                bad = 1
        sys.exit(bad)
    if kind == 'quotient':
        from . import C11b
        name, sig = sys.argv[2], sys.argv[3]
        pt = [float(v) for v in sys.argv[4:]]
        lib = harness_native('h_ff')
        nf = native_fn(lib, mangle_fn(name, sig), len(pt))
        val = nf(*pt)
        print('%s%r = %r' % (name, tuple(pt), val))
        bad = 0 if math.isfinite(val) else 1
        if len(pt) == 6 or sig == 'dddd':
            def coupled(v, base, d):
                v[1] = base[1] * (1 + d)
            msg = C11b.probe(name, nf, pt, 0, coupled)
            if msg:
                print(msg); bad = 1
        else:
            for idx in range(len(pt)):
                msg = C11b.probe(name, nf, pt, idx)
                if msg:
                    print(msg); bad = 1
        sys.exit(bad)
    if kind == 'tan_alpha':
        from . import C11d
        f = C11d.native(C11d.native_lib())
        tb, ma, mz = [float(v) for v in sys.argv[2:5]]
        got = f(tb, ma, mz)
        print('tan_alpha(tb=%r, MA0=%r, MZ=%r) = %r' % (tb, ma, mz, got))
        msg = C11d.chord_probe(f, tb, mz, report_jump=True)
        if msg:
            print('along MA0 = MZ(1+d):', msg)
        sys.exit(1 if (msg or not got < 0) else 0)
    if kind == 'dxlog':
        import mpmath
        af, bf = float(sys.argv[2]), float(sys.argv[3])
        got = C11.native_eval('dxlog', [af, bf])
        mpmath.mp.dps = 60
        A, B = mpmath.mpf(af), mpmath.mpf(bf)
        refv = (A * A * mpmath.log(A) - B * B * mpmath.log(B)) / (A - B) if A != B else B * (1 + 2 * mpmath.log(B))
        print(got, refv)
        sys.exit(1 if abs(got - refv) > 1e-6 * bf else 0)
    if kind == 'limit':
        name, xf = sys.argv[2], float(sys.argv[3])
        lib = harness_native('h_ff')
        nf = native_fn(lib, mangle_fn(name, 'dd'), 2)
        a_, b_ = nf(xf, xf), nf(xf, xf * (1 + 1e-6))
        print(a_, b_)
        sys.exit(1 if abs(a_ - b_) > 1e-3 * abs(b_) else 0)
    sys.exit(2)


if __name__ == '__main__':
    main()
