"""C04 part 2: calculate_M* glue (matrix handed to the decomposition, tachyon flag, sqrt|w|) and the
Goldstone reordering, with the decomposition routines replaced by their contract."""
import z3

from .common import *
from symx.exec import Ptr
from symx import stubs as S
from . import C02

STEPS = [('Sd', 0, False), ('Su', 1, False), ('Se', 2, False), ('Sm', 3, True), ('Stau', 4, True), ('Ss', 5, False),
         ('Sc', 6, False), ('Sb', 7, True), ('St', 8, True), ('hh', 9, True), ('Ah', 10, True), ('Hpm', 11, True)]
SNU = [('SveL', 12, False), ('SvmL', 13, True), ('SvtL', 14, False)]


def run(chk, c, steps=None, pid='C04', const_ax=None, do_goldstone=True):
    if const_ax is None:
        from .C04 import CONST_AX
    else:
        CONST_AX = const_ax
    mod, dem = c.mod, c.dem
    fam = 'spectrum-glue'
    herm = [n for n in mod.functions if 'fs_diagonalize_hermitian_errbd' in n and 'Li2E' in n]
    if len(herm) != 1:
        chk.record('glue', 'inconclusive', 'fs_diagonalize_hermitian<2> instantiation not found (%d)' % len(herm))
        chk.inconclusive.append('glue')
        return
    captured = {}

    def decomp(ex, st, args, I):
        """contract of fs_diagonalize_hermitian<double,double,2>(m, w, z): w real, ordered by |w|; z arbitrary here"""
        mptr, wptr, zptr = args[0], args[1], args[2]
        m = [[ex.load(st, Ptr(mptr.rid, mptr.off + 8 * (i + 2 * j)), llir.DOUBLE) for j in range(2)] for i in range(2)]
        captured['m'] = m
        w0, w1 = ex.dom.fresh('w0'), ex.dom.fresh('w1')
        captured['w'] = (w0, w1)
        st.add(w0 * w0 <= w1 * w1)
        ex.store(st, Ptr(wptr.rid, wptr.off), llir.DOUBLE, w0)
        ex.store(st, Ptr(wptr.rid, wptr.off + 8), llir.DOUBLE, w1)
        if isinstance(zptr, Ptr) and zptr.rid != 0:
            for k in range(4):
                ex.store(st, Ptr(zptr.rid, zptr.off + 8 * k), llir.DOUBLE, ex.dom.fresh('z%d' % k))
        return None
    flagged = []

    def on_call(st, d, args):
        if 'flag_tachyon' in d:
            txt = None
            for a in args[1:]:
                if isinstance(a, Ptr):
                    try:
                        txt = S.string_text(c.ex, st, a)
                    except Exception:      # noqa
                        txt = None
            st.event('tachyon', name=(txt or b'?').decode('latin1'))
    from .modelprobe import ext_handler
    st_ = dict(S.STRING_MODEL_STUBS)
    st_[herm[0]] = decomp
    ex = executor(mod, c.ex.dom, extra_stubs=st_, fork_select=False)
    ex.undefined_handler = ext_handler(dem, on_call=on_call)
    ex.div_no_fork = True
    ex.rid_counter = c.ex.rid_counter + 1000
    ex.fresh_cnt = c.ex.fresh_cnt + 100000        # fresh names must not collide with those of the first executor
    # share the naming of the model fields: reuse the probed state of the first executor
    for name, k, monitored in (steps if steps is not None else STEPS + SNU):
        chk.functions.add('calculate_M' + name)
        s2 = ex.start('vx_calc', [c.mp, k], c.st.fork())
        captured.clear()
        try:
            rr = ex.explore(s2)
        except Unsupported as e:
            chk.record('glue:' + name, 'gap', 'executor: %s' % str(e)[:100], family=fam)
            chk.not_covered.append('calculate_M%s glue not executed (%s)' % (name, str(e)[:80]))
            continue
        rets = [p for p in rr if p.outcome[0] == 'ret']
        if not rets or len(rets) != len(rr):
            chk.record('glue:' + name, 'inconclusive', 'outcomes %r' % [p.outcome for p in rr][:4], family=fam)
            chk.inconclusive.append('glue:' + name)
            continue
        if (name, 0, 0) in c.mats and 'm' in captured:
            # (a) the matrix handed over is the oracle-checked mass matrix (entries proven in part 1)
            for i in range(2):
                for j in range(2):
                    from .C08b import expand_quots as _eq
                    sq = []
                    for ex__ in (ex, c.ex):
                        for (k__, a__, r__) in ex__.leaves:
                            if k__ == 'sqrt':
                                sq.append(z3.And(r__ >= 0, r__ * r__ == _eq(ex__, zr(a__[0]))))
                    r, m = chk.prove('glue:%s:input[%d,%d]' % (name, i, j),
                                     list(rets[0].pc[:0]) + CONST_AX + sq + C02.quotient_equalities(ex) + C02.quotient_equalities(c.ex) +
                                     [_eq(ex, zr(captured['m'][i][j])) != _eq(c.ex, c.mats[(name, i, j)])], family=fam,
                                     sample={'obligation': 'calculate_M%s diagonalises get_mass_matrix_%s()' % (name, name)})
                    if r == 'sat':
                        chk.violation('glue:%s:input' % name, '%s:glue-input:%s' % (pid, name),
                                      'calculate_M%s does not diagonalise the %s mass matrix' % (name, name),
                                      '#!/bin/sh\ncd %s && exec python3-vt -m props.replay_%s spectrum\n' % (VERIF, pid.lower()))
        if name in ('SveL', 'SvmL', 'SvtL'):
            w = None
        else:
            w = captured.get('w')
        for pi, p in enumerate(rets):
            tach = [e for e in p.events if e[0] == 'tachyon']
            tag = 'glue:%s#%d' % (name, pi)
            if w is not None:
                neg = z3.Or(w[0] < 0, w[1] < 0)
                if tach and not monitored:
                    pass
                if monitored:
                    # flagged  <=>  some eigenvalue negative
                    cons = list(p.pc) + [z3.Not(neg) if tach else neg]
                    r, m = chk.prove(tag + ':tachyon-iff', cons, family=fam,
                                     sample={'obligation': 'calculate_M%s: a tachyon is flagged on this path %s' % (
                                         name, 'only if an eigenvalue is negative' if tach else '- then no eigenvalue is negative')})
                    if r == 'sat':
                        chk.violation(tag, '%s:tachyon:%s' % (pid, name),
                                      'calculate_M%s: %s' % (name, 'tachyon flagged although all eigenvalues are non-negative' if tach else
                                                             'eigenvalues (%s, %s) with a negative one and |w0| <= |w1| but no tachyon flagged' % (
                                                                 m.real(w[0]), m.real(w[1]))),
                                      '#!/bin/sh\ncd %s && exec python3-vt -m props.replay_c04 tachyon %s\n' % (VERIF, name))
                    if tach and tach[0][1]['name'] not in (name, '?'):
                        chk.violation(tag, '%s:tachyon-name:%s' % (pid, name), 'calculate_M%s flags tachyon "%s"' % (name, tach[0][1]['name']),
                                      '#!/bin/sh\ncd %s && exec python3-vt -m props.replay_c04 tachyon %s\n' % (VERIF, name))
        chk.record('glue:' + name, 'discharged', family=fam,
                   sample={'obligation': 'calculate_M%s executed with the decomposition contract: %d paths' % (name, len(rets))})
    chk.absorb_executor(ex)
    if do_goldstone:
        goldstone(chk, c)


def goldstone(chk, c, pid='C04', fn_name='reorder_DRbar_masses'):
    """reorder_DRbar_masses: afterwards index 0 holds the state closest to MZ (MW) and row i of Z still belongs to mass i"""
    fam = 'goldstone-order'
    chk.functions.update([fn_name, 'move_goldstone_to', 'closest_index'])
    spec = {'MVZ': ('vx_MVZ', []), 'MVWm': ('vx_MVWm', [])}
    for i in range(2):
        spec['MAh%d' % i] = ('vx_MAh', [i])
        spec['MHpm%d' % i] = ('vx_MHpm', [i])
        for j in range(2):
            spec['ZA%d%d' % (i, j)] = ('vx_ZA', [i, j])
            spec['ZP%d%d' % (i, j)] = ('vx_ZP', [i, j])
    from .modelprobe import probe
    st, V = probe(c.ex, c.st.fork(), c.mp, spec)
    V = {k: zr(v) for k, v in V.items()}
    c.ex.fork_select = True       # the index of the closest state is decided by forking, not kept as an if-then-else offset
    try:
        s2 = c.ex.start('vx_reorder', [c.mp], st.fork())
        rr = c.ex.explore(s2)
    finally:
        c.ex.fork_select = False
    rets = [p for p in rr if p.outcome[0] == 'ret']
    if len(rets) != len(rr) or not rets:
        chk.record('goldstone', 'inconclusive', 'outcomes %r' % [p.outcome for p in rr][:4], family=fam)
        chk.inconclusive.append('goldstone')
        return
    for pi, p in enumerate(rets):
        p.outcome = None
        p.frames = []
        p.retval = None
        st2, W = probe(c.ex, p, c.mp, spec)
        W = {k: zr(v) for k, v in W.items()}
        for (m, z, ref) in (('MAh', 'ZA', 'MVZ'), ('MHpm', 'ZP', 'MVWm')):
            d0 = V[m + '0'] - V[ref]
            d1 = V[m + '1'] - V[ref]
            # permutation applied: identity or swap, consistently for masses and rows of Z
            ident = z3.And(W[m + '0'] == V[m + '0'], W[m + '1'] == V[m + '1'],
                           *[W['%s%d%d' % (z, i, j)] == V['%s%d%d' % (z, i, j)] for i in range(2) for j in range(2)])
            swap = z3.And(W[m + '0'] == V[m + '1'], W[m + '1'] == V[m + '0'],
                          *[W['%s%d%d' % (z, i, j)] == V['%s%d%d' % (z, 1 - i, j)] for i in range(2) for j in range(2)])
            closer0 = d0 * d0 <= d1 * d1
            good = z3.Or(z3.And(closer0, ident), z3.And(z3.Not(closer0), swap), z3.And(d0 * d0 == d1 * d1, z3.Or(ident, swap)))
            r, mdl = chk.prove('goldstone:%s#%d' % (m, pi), list(st2.pc) + [z3.Not(good)], family=fam,
                               sample={'obligation': 'after reordering: %s(0) is the state closest to %s and the rows of %s '
                                       'are permuted with the masses' % (m, ref, z)})
            if r == 'sat':
                chk.violation('goldstone:%s' % m, '%s:goldstone-order:%s' % (pid, m),
                              '%s: masses and mixing-matrix rows of %s are not permuted consistently / the state '
                              'closest to %s is not at index 0' % (fn_name, m, ref),
                              '#!/bin/sh\ncd %s && exec python3-vt -m props.replay_%s goldstone\n' % (VERIF, pid.lower()))
