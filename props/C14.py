"""C14 - the command-line program is total and memory-safe on arbitrary input (unit level:
the numeric/indexing code GM2Calc itself puts between the tokenizer and the model)."""
import z3
from fractions import Fraction as Fr

from .common import *
from . import slhagen, C13b, C13c, ubsan
from .C13 import skip_formatting, undefined_call_recorder
from symx.exec import Ptr


def read_integer(chk, mod):
    """gm2calc::read_integer(double) (Yukawa type in MINPAR[24]): the float -> int conversion must be
    in range on every path that performs it"""
    chk.functions.add('gm2calc::(anon)::read_integer(double)')
    v = z3.Real('value')
    ex = skip_formatting(executor(mod, RealDom(), fork_select=False))
    ex.ub_mode = 'end'
    st = ex.start('vx_read_integer', [v])
    st.pc.append(z3.And(v >= -zr(Fr(10 ** 308)), v <= zr(Fr(10 ** 308))))
    paths = ex.explore(st)
    chk.absorb_executor(ex)
    for i, p in enumerate(paths):
        tag = 'read_integer#%d' % i
        ub = [e for e in p.events if e[0] == 'fptoint-ub']
        if ub or p.outcome[0] == 'ub':
            r, m = chk.solve(p.pc, 10000)
            val = float(m.real(v)) if m is not None else 1e300
            isub, out = ubsan.run(['read_integer', repr(val)])
            chk.traces_validated += 1
            if isub:
                chk.violation(tag, 'C14:read_integer:float-to-int',
                              'read_integer(%r): float-to-int conversion out of range (UBSan: %s)' % (
                                  val, out.split('\n')[0][-110:]),
                              '#!/bin/sh\ncd %s && exec python3-vt -m props.ubsan read_integer %r\n' % (VERIF, val))
            else:
                chk.record(tag, 'inconclusive', 'UB path not reproduced under UBSan at %r' % val)
                chk.inconclusive.append(tag)
            continue
        if p.outcome[0] in ('ret', 'throw'):
            chk.record(tag, 'discharged', family='float-to-int',
                       sample={'obligation': 'read_integer(double): conversion operand within int range on this '
                               'path, or EInvalidInput', 'outcome': p.outcome[0]})
            chk.formulas.add(tag)
        else:
            chk.record(tag, 'inconclusive', 'path %r' % (p.outcome,))
            chk.inconclusive.append(tag)


def run(chk):
    mod_gen = slhagen.module()
    mod_blk = harness_module('h_slha_blk')
    lib_blk = harness_native('h_slha_blk')
    chk.assumptions += [
        'unit level: numeric conversion, index arithmetic, matrix/vector fills, option readers; the SLHAea '
        'tokenizer, iostreams and the program as a whole are not encoded',
        'strtod/strtol contract: arbitrary consumed prefix, arbitrary value, arbitrary errno',
        'undefined behaviour witnesses are replayed under UBSan (clang -fsanitize=undefined,float-cast-overflow)',
    ]
    chk.not_covered += [
        'arbitrary byte strings through SLHAea::Coll::read, leaks, uninitialised reads, time bounds of the '
        'whole program, exceptions originating in Boost/SLHAea that are not gm2calc::Error',
    ]
    chk.bounds.update({'block_lines': 2, 'token_length': '1..4096'})
    read_integer(chk, mod_gen)
    C13b.block_readers(chk, mod_blk, lib_blk, report_ub=True)
    C13c.convert_to(chk, mod_gen, None)
    C13c.config(chk, mod_gen, None)
    from . import C14b
    C14b.run(chk)
    from . import C14c
    C14c.run(chk)
