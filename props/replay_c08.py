"""replay for C08: native THDM round trip mass basis -> model -> reported values (modes: roundtrip | spectrum | angle)"""
import os
import subprocess
import sys
from symx import build


def main():
    exe = build.build_tool(os.path.join(os.path.dirname(os.path.dirname(os.path.abspath(__file__))), 'replay', 'c08_driver.cpp'),
                           'c08_driver')
    mode = sys.argv[1] if len(sys.argv) > 1 else 'roundtrip'
    if mode == 'point':
        sys.exit(subprocess.call([exe] + sys.argv[1:]))
    sys.exit(subprocess.call([exe, 'angle' if mode == 'angle' else 'roundtrip']))


if __name__ == '__main__':
    main()
