"""C13 part 2 (shared with C14): block readers on laid-out SLHAea blocks, scale selection,
numeric token conversion, GM2CalcConfig readers."""
import ctypes
import math
import os
from fractions import Fraction as Fr
import z3

from .common import *
from symx.exec import Ptr, ThrowSignal, PathEnd, NULL
from symx import stubs as S
from symx.domains import FPDom, fpval, FP64, RNE
from oracle import slha_keys as K

EREAD = '_ZTIN7gm2calc10EReadErrorE'
EINVALID = '_ZTIN7gm2calc13EInvalidInputE'
CONV = '_ZN7gm2calc11GM2_slha_io10convert_toI%sEET_RKNSt7__cxx1112basic_stringIcSt11char_traitsIcESaIcEEE'


def field_offset(mod, tyname, want_prefix, nth=0):
    ty = mod.resolve(llir.NamedT(tyname))
    offs = mod.struct_offsets(ty)
    n = 0
    for e, o in zip(ty.els, offs):
        if isinstance(e, llir.NamedT) and e.name.startswith(want_prefix):
            if n == nth:
                return o
            n += 1
    raise KeyError('%s has no field %s' % (tyname, want_prefix))


def layout_block(ex, st, mod, nlines, ntok, head=None):
    """a SLHAea::Block with `nlines` data lines of `ntok` one-character tokens each
    (optionally preceded by a block-definition line given as list of token strings)"""
    bsz = mod.sizeof(llir.NamedT('class.SLHAea::Block'))
    lsz = mod.sizeof(llir.NamedT('class.SLHAea::Line'))
    voff = field_offset(mod, 'class.SLHAea::Block', 'class.std::vector')
    lvoff = field_offset(mod, 'class.SLHAea::Line', 'class.std::vector', 0)
    blk = ex.new_region(st, bsz, 'heap', 'block')
    S.make_string(ex, st, 'X', blk, 0)
    lines_spec = ([head] if head else []) + [['7'] * ntok for _ in range(nlines)]
    lines = ex.new_region(st, lsz * len(lines_spec), 'heap', 'lines')
    lines.fills.append((0, lsz * len(lines_spec), 0))
    blk.cells[voff] = (Ptr(lines.rid, 0), 8)
    blk.cells[voff + 8] = (Ptr(lines.rid, lsz * len(lines_spec)), 8)
    blk.cells[voff + 16] = (Ptr(lines.rid, lsz * len(lines_spec)), 8)
    tokens = []
    for li, toks in enumerate(lines_spec):
        tr = ex.new_region(st, 32 * len(toks), 'heap', 'tokens%d' % li)
        for ti, t in enumerate(toks):
            S.make_string(ex, st, t, tr, 32 * ti)
            tokens.append((li, ti, Ptr(tr.rid, 32 * ti)))
        base = li * lsz + lvoff
        lines.cells[base] = (Ptr(tr.rid, 0), 8)
        lines.cells[base + 8] = (Ptr(tr.rid, 32 * len(toks)), 8)
        lines.cells[base + 16] = (Ptr(tr.rid, 32 * len(toks)), 8)
    return Ptr(blk.rid, 0), tokens


def conv_stub(kind, tokvals):
    """convert_to<T>(token): symbolic result per token object, or EReadError"""
    def f(ex, st, args, I):
        tok = args[0]
        key = (tok.rid, tok.off, kind)
        v = tokvals.get(key)
        if v is None:
            if kind == 'd':
                v = z3.Real('tok_%d_%d_d' % (tok.rid, tok.off))
            else:
                v = z3.BitVec('tok_%d_%d_l' % (tok.rid, tok.off), 64)
            tokvals[key] = v
        return v
    return f


def block_readers(chk, mod, lib, report_ub=False):
    """read_matrix / read_vector on a block of two data lines with symbolic indices and values"""
    for which, fn, ncell, ntok in (('matrix', 'vx_read_matrix33', 9, 3), ('vector', 'vx_read_vector3', 3, 2)):
        chk.functions.add('gm2calc::GM2_slha_io::read_%s<Eigen::Matrix<double,3,%d>>' % (which, 3 if which == 'matrix' else 1))
        tokvals = {}
        st_ = dict(S.STRING_MODEL_STUBS)
        st_[CONV % 'l'] = conv_stub('l', tokvals)
        st_[CONV % 'd'] = conv_stub('d', tokvals)
        ex = executor(mod, RealDom(), extra_stubs=st_, fork_select=False)
        ex.check_overflow = True
        ex.ub_mode = 'event'
        st = X.State()
        blk, tokens = layout_block(ex, st, mod, 2, ntok)
        mat = ex.new_region(st, 8 * ncell, 'input', 'matrix')
        init = [z3.Real('m0_%d' % i) for i in range(ncell)]
        for i, v in enumerate(init):
            mat.cells[8 * i] = (v, 8)
        st = ex.start(fn, [blk, Ptr(mat.rid, 0)], st)
        try:
            paths = ex.explore(st)
        except Unsupported as e:
            chk.record('read_%s' % which, 'inconclusive', 'executor: %s' % e)
            chk.inconclusive.append('read_%s' % which)
            continue
        chk.absorb_executor(ex)
        # token variables
        def tv(li, ti, kind):
            for (l, t, p) in tokens:
                if l == li and t == ti:
                    return tokvals.get((p.rid, p.off, kind))
        n_ok = 0
        for pi_, p in enumerate(paths):
            tag = 'read_%s#%d' % (which, pi_)
            oob = [e for e in p.events if e[0].startswith('oob')]
            ovf = [e for e in p.events if e[0] == 'signed-overflow']
            if p.outcome[0] == 'oob' or oob:
                r, m = chk.solve(p.pc, 10000)
                idx = {}
                for (l, t, ptr) in tokens:
                    v = tokvals.get((ptr.rid, ptr.off, 'l'))
                    if v is not None and m is not None:
                        x = m.bv(v)
                        idx[(l, t)] = x - (1 << 64) if x >= 1 << 63 else x
                text, rc, after = native_fill(lib, which, idx, ntok)
                chk.traces_validated += 1
                if after is None or after == 'guard cells overwritten':
                    chk.violation(tag, 'C14:read_%s:out-of-bounds' % which,
                                  'read_%s writes outside the %s for index tokens %r (input: %r): %s' % (
                                      which, which, idx, text, after or 'native run crashed'),
                                  replay_block(which, text))
                else:
                    chk.record(tag, 'inconclusive', 'out-of-bounds path not reproduced natively')
                    chk.inconclusive.append(tag)
                continue
            if p.outcome[0] != 'ret':
                chk.record(tag, 'inconclusive', 'path %r' % (p.outcome,))
                chk.inconclusive.append(tag)
                continue
            if ovf:
                # signed overflow in index arithmetic (UB): reported for C14
                chk.extra.setdefault('index_overflow_paths', 0)
                chk.extra['index_overflow_paths'] += 1
                p.data['ovf'] = True
                if report_ub and any(k == 'C14:read_%s:index-overflow' % which for _, k, _, _ in chk.violations):
                    chk.record(tag + ':index-overflow', 'violated', 'same finding as above')
                    continue
                if report_ub:
                    from . import ubsan
                    r, m = chk.solve(p.pc + [ovf[0][1]['pc'][-1]] if False else p.pc, 10000)
                    idx = {}
                    for (l, t, ptr) in tokens:
                        v = tokvals.get((ptr.rid, ptr.off, 'l'))
                        if v is not None and m is not None:
                            x = m.bv(v)
                            idx[(l, t)] = x - (1 << 64) if x >= 1 << 63 else x
                    # the overflowing operand of the recorded event
                    text = native_text(which, idx, ntok)
                    ub, out = ubsan.run([which, text])
                    chk.traces_validated += 1
                    if ub:
                        chk.violation(tag + ':index-overflow', 'C14:read_%s:index-overflow' % which,
                                      'read_%s: signed overflow in index arithmetic for index tokens %r '
                                      '(UBSan: %s)' % (which, idx, out.split('\n')[0][-120:]),
                                      '#!/bin/sh\ncd %s && exec python3-vt -m props.ubsan %s %r\n' % (VERIF, which, text))
                    else:
                        chk.record(tag + ':index-overflow', 'inconclusive', 'overflow path not reproduced under UBSan')
                        chk.inconclusive.append(tag + ':index-overflow')
                    continue
            # expected final content: later overrides earlier, everything else untouched
            final = [ex.load(p, Ptr(mat.rid, 8 * i), llir.DOUBLE) for i in range(ncell)]
            exp = list(init)
            for li in range(2):
                if which == 'matrix':
                    i_, k_, v_ = tv(li, 0, 'l'), tv(li, 1, 'l'), tv(li, 2, 'd')
                    if i_ is None or k_ is None:
                        continue
                    for r_ in range(3):
                        for c_ in range(3):
                            hit = z3.And(i_ == r_ + 1, k_ == c_ + 1)
                            cell = r_ + 3 * c_      # column-major
                            if v_ is not None:
                                exp[cell] = z3.If(hit, v_, exp[cell])
                else:
                    i_, v_ = tv(li, 0, 'l'), tv(li, 1, 'd')
                    if i_ is None:
                        continue
                    for r_ in range(3):
                        if v_ is not None:
                            exp[r_] = z3.If(i_ == r_ + 1, v_, exp[r_])
            neg = z3.Or([zr(f) != e for f, e in zip(final, exp)])
            r, m = chk.prove(tag, p.pc + [neg], family='block-readers', timeout_ms=60000,
                             sample={'obligation': 'read_%s on a block with two data lines (symbolic index '
                                     'and value tokens): afterwards each cell holds the value of the last line '
                                     'addressing it, all other cells keep their previous content, no store '
                                     'outside the object' % which})
            if r == 'sat':
                idx = {}
                for (l, t, ptr) in tokens:
                    v = tokvals.get((ptr.rid, ptr.off, 'l'))
                    if v is not None:
                        x = m.bv(v)
                        idx[(l, t)] = x - (1 << 64) if x >= 1 << 63 else x
                text, rc, after = native_fill(lib, which, idx, ntok)
                chk.traces_validated += 1
                ok = native_expected(which, idx, ntok)
                if after != ok:
                    chk.violation(tag, 'C13:read_%s:merge' % which,
                                  'read_%s: block %r gives %r, expected %r (later entry overrides earlier, other '
                                  'entries untouched)' % (which, text, after, ok), replay_block(which, text))
                else:
                    chk.record(tag, 'inconclusive', 'sat not reproduced')
                    chk.inconclusive.append(tag)
            else:
                n_ok += 1
        chk.extra['read_%s_paths' % which] = len(paths)


def native_text(which, idx, ntok):
    lines = ['Block X']
    for li in range(2):
        toks = []
        for ti in range(ntok - 1):
            toks.append(str(idx.get((li, ti), 1)))
        toks.append(repr(10.0 + li))
        lines.append(' ' + ' '.join(toks))
    return '\n'.join(lines) + '\n'


def native_fill(lib, which, idx, ntok):
    """native run in a separate process (an out-of-bounds store must not take the checker down)"""
    import subprocess
    text = native_text(which, idx, ntok)
    code = ('import sys; sys.path.insert(0, %r); from props.replay_c13 import *; '
            'lib = harness_native("h_slha_blk"); r = fill_guarded(lib, %r, %r); print(repr(r))' % (VERIF, which, text))
    r = subprocess.run(['python3-vt', '-c', code], capture_output=True, text=True, cwd=VERIF,
                       env=dict(os.environ))
    try:
        rc, cells, guard_ok = eval(r.stdout.strip().split('\n')[-1])
    except Exception:
        return text, -1, None
    if not guard_ok:
        return text, rc, 'guard cells overwritten'
    return text, rc, cells


def native_expected(which, idx, ntok):
    n = 9 if which == 'matrix' else 3
    exp = [float(100 + i) for i in range(n)]
    for li in range(2):
        v = 10.0 + li
        if which == 'matrix':
            i, k = idx.get((li, 0), 1), idx.get((li, 1), 1)
            if 1 <= i <= 3 and 1 <= k <= 3:
                exp[(i - 1) + 3 * (k - 1)] = v
        else:
            i = idx.get((li, 0), 1)
            if 1 <= i <= 3:
                exp[i - 1] = v
    return exp


def replay_block(which, text):
    return '#!/bin/sh\ncd %s && exec python3-vt -m props.replay_c13 block %s %r\n' % (VERIF, which, text)


# ---------------------------------------------------------------------------- scale selection

def scale_selection(chk, mod, lib):
    """is_at_scale(block, scale): true iff scale == 0 (|scale| < DBL_EPSILON) or |Q_block - scale| < 0.01"""
    chk.functions.add('gm2calc::GM2_slha_io::is_at_scale')
    RS = '_ZN7gm2calc11GM2_slha_io10read_scaleERKN6SLHAea5BlockE'
    bq = z3.Real('block_Q')

    def rs_stub(ex, st, args, I):
        return bq
    st_ = dict(S.STRING_MODEL_STUBS)
    st_[RS] = rs_stub
    ex = executor(mod, RealDom(), extra_stubs=st_, fork_select=False)
    st = X.State()
    blk = ex.new_region(st, None, 'input', 'block', lazy=True)
    sc = z3.Real('scale')
    st = ex.start('vx_is_at_scale', [Ptr(blk.rid, 0), sc], st)
    paths = ex.explore(st)
    chk.absorb_executor(ex)
    eps = zr(Fr(2.220446049250313e-16))
    doc = z3.Or(z3.And(sc < eps, sc > -eps), z3.And(bq - sc < zr(Fr(0.01)), sc - bq < zr(Fr(0.01))))
    for i, p in enumerate(paths):
        tag = 'is_at_scale#%d' % i
        if p.outcome[0] != 'ret':
            chk.record(tag, 'inconclusive', 'path %r' % (p.outcome,))
            chk.inconclusive.append(tag)
            continue
        rv = p.retval
        if isinstance(rv, int):
            res = z3.BoolVal(rv != 0)
        elif z3.is_bool(rv):
            res = rv
        else:
            res = rv != 0
        r, m = chk.prove(tag, p.pc + [res != doc], family='scale-selection',
                         sample={'obligation': 'block used <=> scale == 0 or |Q_block - scale| < 0.01 (absolute)'})
        if r == 'sat':
            q, s = float(m.real(bq)), float(m.real(sc))
            f = lib.vx_native_is_at_scale
            f.restype = ctypes.c_int
            f.argtypes = [ctypes.c_char_p, ctypes.c_double]
            text = 'Block X Q= %r\n 1 1\n' % q
            got = f(text.encode(), s)
            chk.traces_validated += 1
            want = (abs(s) < 2.220446049250313e-16) or abs(q - s) < 0.01
            if bool(got) != want:
                chk.violation(tag, 'C13:is_at_scale', 'block at Q=%r is %s for scale %r; documented rule: |Q-scale|<0.01'
                              % (q, 'used' if got else 'skipped', s),
                              '#!/bin/sh\ncd %s && exec python3-vt -m props.replay_c13 scale %r %r\n' % (VERIF, q, s))
            else:
                chk.record(tag, 'inconclusive', 'sat not reproduced')
                chk.inconclusive.append(tag)
    # read_scale: the value after "Q=" of the block definition line
    chk.functions.add('gm2calc::GM2_slha_io::read_scale(Block)')
    tokvals = {}
    st_ = dict(S.STRING_MODEL_STUBS)
    st_[CONV % 'd'] = conv_stub('d', tokvals)
    ex = executor(mod, RealDom(), extra_stubs=st_, fork_select=False)
    st = X.State()
    blk, tokens = layout_block(ex, st, mod, 1, 2, head=['Block', 'X', 'Q=', '9'])
    st = ex.start('vx_read_scale', [blk], st)
    try:
        paths = ex.explore(st)
        chk.absorb_executor(ex)
        qtok = [p for (l, t, p) in tokens if l == 0 and t == 3][0]
        for i, p in enumerate(paths):
            v = tokvals.get((qtok.rid, qtok.off, 'd'))
            if p.outcome[0] == 'ret' and v is not None and is_z3_eq(p.retval, v):
                chk.record('read_scale#%d' % i, 'discharged', family='scale-selection',
                           sample={'obligation': 'read_scale returns the converted 4th token of "Block X Q= <v>"'})
                chk.formulas.add('read_scale')
            else:
                chk.record('read_scale#%d' % i, 'inconclusive', 'unexpected result %r' % (p.retval,))
                chk.inconclusive.append('read_scale#%d' % i)
    except Unsupported as e:
        chk.record('read_scale', 'inconclusive', 'executor: %s' % e)
        chk.inconclusive.append('read_scale')


def is_z3_eq(a, b):
    return isinstance(a, z3.ExprRef) and isinstance(b, z3.ExprRef) and a.eq(b)


def run(chk, mod_gen):
    mod = harness_module('h_slha_blk')
    lib = harness_native('h_slha_blk')
    chk.stubs.update(['std::string accessors (cxx11 layout model)', 'convert_to<long/double> (symbolic per token)',
                      'read_scale (symbolic) inside is_at_scale'])
    chk.bounds.update({'block_lines': 2, 'matrix': '3x3 and 3x1 (the instantiations the readers use)'})
    block_readers(chk, mod, lib)
    scale_selection(chk, mod, lib)
    from . import C13d
    C13d.run(chk, mod, lib)
    from . import C13e
    C13e.run(chk, mod, lib)
    from . import C13c
    C13c.run(chk, mod_gen)
