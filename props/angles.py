"""Angle abstraction for the REAL domain: an angle is a real variable theta together with leaves
sin(theta)=s, cos(theta)=c constrained by s^2+c^2=1 (plus quadrant facts where the producer knows
them).  Producers: asin, acos, atan, atan2, carg.  Consumers: sin, cos."""
import math
from fractions import Fraction as Fr
import z3
from symx.domains import q, Unsupported


def _zr(x):
    if isinstance(x, z3.ExprRef):
        return x
    return z3.RealVal(str(Fr(x)))


def _register(ex, st, theta, s, c):
    for kind, val in (('sin', s), ('cos', c)):
        key = (kind, theta.get_id())
        idx = len(ex.leaves)
        ex.leaves.append((kind, (theta,), val))
        ex.leaf_memo[key] = (idx, val)
        st.leaves.append(idx)
    ex.keep.append(theta)


def _new_angle(ex, name):
    ex.fresh_cnt += 1
    return z3.Real('%s!%d' % (name, ex.fresh_cnt))


def sincos_of(ex, st, a):
    """(s, c) of an angle value"""
    if isinstance(a, float):
        raise NanAngle()
    if isinstance(a, (Fr, int)):
        if a == 0:
            return Fr(0), Fr(1)
        a = _zr(a)
    ks, kc = ('sin', a.get_id()), ('cos', a.get_id())
    if ks in ex.leaf_memo:
        i1, s = ex.leaf_memo[ks]
        i2, c = ex.leaf_memo[kc]
        for i in (i1, i2):
            if i not in st.leaves:
                st.leaves.append(i)
        return s, c
    ex.fresh_cnt += 1
    s = z3.Real('sin!%d' % ex.fresh_cnt)
    c = z3.Real('cos!%d' % ex.fresh_cnt)
    _register(ex, st, a, s, c)
    return s, c


class NanAngle(Exception):
    pass


def stub_sin(ex, st, args, I):
    try:
        s, c = sincos_of(ex, st, args[0])
    except NanAngle:
        return math.nan
    if isinstance(s, z3.ExprRef):
        cons = s * s + c * c == 1
        if not any(x.get_id() == cons.get_id() for x in st.pc):
            st.add(cons)
    return s


def stub_cos(ex, st, args, I):
    try:
        s, c = sincos_of(ex, st, args[0])
    except NanAngle:
        return math.nan
    if isinstance(s, z3.ExprRef):
        cons = s * s + c * c == 1
        if not any(x.get_id() == cons.get_id() for x in st.pc):
            st.add(cons)
    return c


def stub_asin(ex, st, args, I):
    x = args[0]
    if isinstance(x, float):
        return math.nan
    if isinstance(x, (Fr, int)):
        if x == 0:
            return Fr(0)
        if abs(x) > 1:
            st.event('asin-domain', where=ex.where(st), concrete=True)
            return math.nan
        x = _zr(x)
    if ex.decide(st, z3.Or(x > 1, x < -1)):
        st.event('asin-domain', where=ex.where(st))
        return math.nan
    th = _new_angle(ex, 'asin')
    ex.fresh_cnt += 1
    c = z3.Real('cosasin!%d' % ex.fresh_cnt)
    st.add(z3.And(c >= 0, c * c == 1 - x * x))
    _register(ex, st, th, x, c)
    return th


def stub_acos(ex, st, args, I):
    x = args[0]
    if isinstance(x, float):
        return math.nan
    if isinstance(x, (Fr, int)):
        if abs(x) > 1:
            st.event('acos-domain', where=ex.where(st), concrete=True)
            return math.nan
        x = _zr(x)
    if ex.decide(st, z3.Or(x > 1, x < -1)):
        st.event('acos-domain', where=ex.where(st))
        return math.nan
    th = _new_angle(ex, 'acos')
    ex.fresh_cnt += 1
    s = z3.Real('sinacos!%d' % ex.fresh_cnt)
    st.add(z3.And(s >= 0, s * s == 1 - x * x))
    _register(ex, st, th, s, x)
    return th


def stub_atan2(ex, st, args, I):
    y, x = args
    if isinstance(x, float) or isinstance(y, float):
        return math.nan
    xz, yz = _zr(x), _zr(y)
    if ex.decide(st, z3.And(xz == 0, yz == 0)):
        return Fr(0)
    th = _new_angle(ex, 'atan2')
    ex.fresh_cnt += 1
    r = z3.Real('hyp!%d' % ex.fresh_cnt)
    s = z3.Real('sinat!%d' % ex.fresh_cnt)
    c = z3.Real('cosat!%d' % ex.fresh_cnt)
    st.add(z3.And(r > 0, r * r == xz * xz + yz * yz, s * r == yz, c * r == xz))
    _register(ex, st, th, s, c)
    return th


def stub_carg(ex, st, args, I):
    # carg(re, im)
    return stub_atan2(ex, st, [args[1], args[0]], I)


def stub_atan(ex, st, args, I):
    t = args[0]
    if isinstance(t, float):
        return math.nan
    tz = _zr(t)
    th = _new_angle(ex, 'atan')
    ex.fresh_cnt += 1
    r = z3.Real('hyp!%d' % ex.fresh_cnt)
    s = z3.Real('sinat!%d' % ex.fresh_cnt)
    c = z3.Real('cosat!%d' % ex.fresh_cnt)
    st.add(z3.And(r > 0, r * r == 1 + tz * tz, s * r == tz, c * r == 1))
    _register(ex, st, th, s, c)
    return th


def stub_cabs(ex, st, args, I):
    from symx.stubs import libm_call
    re, im = args
    d = ex.dom
    s2 = d.bin(ex, st, 'fadd', d.bin(ex, st, 'fmul', re, re), d.bin(ex, st, 'fmul', im, im))
    return libm_call(ex, st, 'sqrt', [s2])


def stub_divdc3(ex, st, args, I):
    a, b, c, d_ = args
    D = ex.dom
    def mul(x, y): return D.bin(ex, st, 'fmul', x, y)
    def add(x, y): return D.bin(ex, st, 'fadd', x, y)
    def sub(x, y): return D.bin(ex, st, 'fsub', x, y)
    den = add(mul(c, c), mul(d_, d_))
    re = D.bin(ex, st, 'fdiv', add(mul(a, c), mul(b, d_)), den)
    im = D.bin(ex, st, 'fdiv', sub(mul(b, c), mul(a, d_)), den)
    return [re, im]


def stub_muldc3(ex, st, args, I):
    a, b, c, d_ = args
    D = ex.dom
    def mul(x, y): return D.bin(ex, st, 'fmul', x, y)
    return [D.bin(ex, st, 'fsub', mul(a, c), mul(b, d_)), D.bin(ex, st, 'fadd', mul(a, d_), mul(b, c))]


ANGLE_STUBS = {'sin': stub_sin, 'cos': stub_cos, 'asin': stub_asin, 'acos': stub_acos,
               'atan2': stub_atan2, 'atan': stub_atan, 'carg': stub_carg, 'cabs': stub_cabs,
               }
