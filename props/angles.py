"""Angle abstraction for the REAL domain: an angle is a real variable theta together with leaves
sin(theta)=s, cos(theta)=c constrained by s^2+c^2=1 (plus quadrant facts where the producer knows
them).  Producers: asin, acos, atan, atan2, carg.  Consumers: sin, cos."""
import math
from fractions import Fraction as Fr
import z3
from symx.domains import q, Unsupported


def _zr(x):
    if isinstance(x, z3.ExprRef):
        return x
    return z3.RealVal(str(Fr(x)))


def _register(ex, st, theta, s, c):
    for kind, val in (('sin', s), ('cos', c)):
        key = (kind, theta.get_id())
        idx = len(ex.leaves)
        ex.leaves.append((kind, (theta,), val))
        ex.leaf_memo[key] = (idx, val)
        st.leaves.append(idx)
    ex.keep.append(theta)


def _new_angle(ex, name):
    ex.fresh_cnt += 1
    return z3.Real('%s!%d' % (name, ex.fresh_cnt))


RANGES = False      # numerical ranges of asin/atan/atan2 values (needed when the code compares angles; set by C08)
HALF_PI_UP = z3.RealVal('1.5707963267948966193')     # slightly above pi/2
HALF_PI_LO = z3.RealVal('1.5707963267948966192')
PI_UP = z3.RealVal('3.1415926535897932385')
PI_LO = z3.RealVal('3.1415926535897932384')
PI_D = Fr(3.141592653589793)
HALF_PI_D = Fr(1.5707963267948966)
CONST_ANGLES = {Fr(0): (Fr(0), Fr(1)), PI_D: (Fr(0), Fr(-1)), -PI_D: (Fr(0), Fr(-1)),
                HALF_PI_D: (Fr(1), Fr(0)), -HALF_PI_D: (Fr(-1), Fr(0))}


def _linear(e):
    """e as const + sum coeff*var (vars: uninterpreted real constants); None if not of that form"""
    e = z3.simplify(e)
    terms = {}
    const = Fr(0)

    def add(t, k):
        nonlocal const
        if z3.is_rational_value(t):
            const += k * Fr(t.numerator_as_long(), t.denominator_as_long())
            return True
        if z3.is_const(t) and t.decl().kind() == z3.Z3_OP_UNINTERPRETED:
            v, c0 = terms.get(t.get_id(), (t, Fr(0)))
            terms[t.get_id()] = (t, c0 + k)
            return True
        kind = t.decl().kind()
        if kind == z3.Z3_OP_ADD:
            return all(add(c, k) for c in t.children())
        if kind == z3.Z3_OP_SUB:
            ch = t.children()
            return add(ch[0], k) and all(add(c, -k) for c in ch[1:])
        if kind == z3.Z3_OP_UMINUS:
            return add(t.arg(0), -k)
        if kind == z3.Z3_OP_MUL and t.num_args() == 2 and z3.is_rational_value(t.arg(0)):
            a0 = t.arg(0)
            return add(t.arg(1), k * Fr(a0.numerator_as_long(), a0.denominator_as_long()))
        return False
    if not add(e, Fr(1)):
        return None
    return const, [(v, k) for v, k in terms.values() if k != 0]


def sincos_of(ex, st, a):
    """(s, c) of an angle value; sums/differences of known angles (and the literals 0, +-pi, +-pi/2) are
    expanded with the addition theorems"""
    if isinstance(a, float):
        raise NanAngle()
    if isinstance(a, (Fr, int)):
        if Fr(a) in CONST_ANGLES:
            return CONST_ANGLES[Fr(a)]
        a = _zr(a)
    ks, kc = ('sin', a.get_id()), ('cos', a.get_id())
    if ks not in ex.leaf_memo:
        lin = _linear(a)
        if lin is not None and lin[0] in CONST_ANGLES and lin[1] and all(k in (1, -1) for _, k in lin[1]) and \
                all(('sin', v.get_id()) in ex.leaf_memo for v, _ in lin[1]) and (len(lin[1]) > 1 or lin[0] != 0 or lin[1][0][1] != 1):
            s, c = CONST_ANGLES[lin[0]]
            s, c = _zr(s), _zr(c)
            for v, k in lin[1]:
                si, ci = sincos_of(ex, st, v)
                si, ci = _zr(si), _zr(ci)
                if k == -1:
                    si = -si
                s, c = s * ci + c * si, c * ci - s * si
            return z3.simplify(s), z3.simplify(c)
    if ks in ex.leaf_memo:
        i1, s = ex.leaf_memo[ks]
        i2, c = ex.leaf_memo[kc]
        for i in (i1, i2):
            if i not in st.leaves:
                st.leaves.append(i)
        return s, c
    ex.fresh_cnt += 1
    s = z3.Real('sin!%d' % ex.fresh_cnt)
    c = z3.Real('cos!%d' % ex.fresh_cnt)
    _register(ex, st, a, s, c)
    return s, c


class NanAngle(Exception):
    pass


def stub_sin(ex, st, args, I):
    try:
        s, c = sincos_of(ex, st, args[0])
    except NanAngle:
        return math.nan
    if isinstance(s, z3.ExprRef):
        cons = s * s + c * c == 1
        if not any(x.get_id() == cons.get_id() for x in st.pc):
            st.add(cons)
    return s


def stub_cos(ex, st, args, I):
    try:
        s, c = sincos_of(ex, st, args[0])
    except NanAngle:
        return math.nan
    if isinstance(s, z3.ExprRef):
        cons = s * s + c * c == 1
        if not any(x.get_id() == cons.get_id() for x in st.pc):
            st.add(cons)
    return c


def stub_asin(ex, st, args, I):
    x = args[0]
    if isinstance(x, float):
        return math.nan
    if isinstance(x, (Fr, int)):
        if x == 0:
            return Fr(0)
        if abs(x) > 1:
            st.event('asin-domain', where=ex.where(st), concrete=True)
            return math.nan
        x = _zr(x)
    if ex.decide(st, z3.Or(x > 1, x < -1)):
        st.event('asin-domain', where=ex.where(st))
        return math.nan
    th = _new_angle(ex, 'asin')
    ex.fresh_cnt += 1
    c = z3.Real('cosasin!%d' % ex.fresh_cnt)
    st.add(z3.And(c >= 0, c * c == 1 - x * x))
    if RANGES:
        st.add(z3.And(th >= -HALF_PI_UP, th <= HALF_PI_UP, (th > 0) == (x > 0), (th < 0) == (x < 0)))
    _register(ex, st, th, x, c)
    return th


def stub_acos(ex, st, args, I):
    x = args[0]
    if isinstance(x, float):
        return math.nan
    if isinstance(x, (Fr, int)):
        if abs(x) > 1:
            st.event('acos-domain', where=ex.where(st), concrete=True)
            return math.nan
        x = _zr(x)
    if ex.decide(st, z3.Or(x > 1, x < -1)):
        st.event('acos-domain', where=ex.where(st))
        return math.nan
    th = _new_angle(ex, 'acos')
    ex.fresh_cnt += 1
    s = z3.Real('sinacos!%d' % ex.fresh_cnt)
    st.add(z3.And(s >= 0, s * s == 1 - x * x))
    _register(ex, st, th, s, x)
    return th


def stub_atan2(ex, st, args, I):
    y, x = args
    if isinstance(x, float) or isinstance(y, float):
        return math.nan
    xz, yz = _zr(x), _zr(y)
    if ex.decide(st, z3.And(xz == 0, yz == 0)):
        return Fr(0)
    th = _new_angle(ex, 'atan2')
    ex.fresh_cnt += 1
    r = z3.Real('hyp!%d' % ex.fresh_cnt)
    s = z3.Real('sinat!%d' % ex.fresh_cnt)
    c = z3.Real('cosat!%d' % ex.fresh_cnt)
    st.add(z3.And(r > 0, r * r == xz * xz + yz * yz, s * r == yz, c * r == xz))
    # principal value in (-pi, pi]: sign from y, quadrant from x (rational enclosures of pi, pi/2)
    if RANGES:
      st.add(z3.And(th >= -PI_UP, th <= PI_UP, z3.Implies(yz > 0, th > 0), z3.Implies(yz < 0, th < 0),
                  z3.Implies(z3.And(yz == 0, xz > 0), th == 0), z3.Implies(z3.And(yz == 0, xz < 0), th >= PI_LO),
                  z3.Implies(xz > 0, z3.And(th > -HALF_PI_UP, th < HALF_PI_UP)),
                  z3.Implies(xz < 0, z3.Or(th > HALF_PI_LO, th < -HALF_PI_LO)),
                  z3.Implies(z3.And(xz == 0, yz > 0), z3.And(th >= HALF_PI_LO, th <= HALF_PI_UP)),
                  z3.Implies(z3.And(xz == 0, yz < 0), z3.And(th <= -HALF_PI_LO, th >= -HALF_PI_UP))))
    _register(ex, st, th, s, c)
    return th


def stub_carg(ex, st, args, I):
    # carg(re, im)
    return stub_atan2(ex, st, [args[1], args[0]], I)


def stub_atan(ex, st, args, I):
    t = args[0]
    if isinstance(t, float):
        return math.nan
    tz = _zr(t)
    th = _new_angle(ex, 'atan')
    ex.fresh_cnt += 1
    r = z3.Real('hyp!%d' % ex.fresh_cnt)
    s = z3.Real('sinat!%d' % ex.fresh_cnt)
    c = z3.Real('cosat!%d' % ex.fresh_cnt)
    st.add(z3.And(r > 0, r * r == 1 + tz * tz, s * r == tz, c * r == 1))
    if RANGES:
        st.add(z3.And(th > -HALF_PI_UP, th < HALF_PI_UP, (th > 0) == (tz > 0), (th < 0) == (tz < 0)))
    _register(ex, st, th, s, c)
    return th


def stub_cabs(ex, st, args, I):
    from symx.stubs import libm_call
    re, im = args
    d = ex.dom
    s2 = d.bin(ex, st, 'fadd', d.bin(ex, st, 'fmul', re, re), d.bin(ex, st, 'fmul', im, im))
    return libm_call(ex, st, 'sqrt', [s2])


def stub_divdc3(ex, st, args, I):
    a, b, c, d_ = args
    D = ex.dom
    def mul(x, y): return D.bin(ex, st, 'fmul', x, y)
    def add(x, y): return D.bin(ex, st, 'fadd', x, y)
    def sub(x, y): return D.bin(ex, st, 'fsub', x, y)
    den = add(mul(c, c), mul(d_, d_))
    re = D.bin(ex, st, 'fdiv', add(mul(a, c), mul(b, d_)), den)
    im = D.bin(ex, st, 'fdiv', sub(mul(b, c), mul(a, d_)), den)
    return [re, im]


def stub_muldc3(ex, st, args, I):
    a, b, c, d_ = args
    D = ex.dom
    def mul(x, y): return D.bin(ex, st, 'fmul', x, y)
    return [D.bin(ex, st, 'fsub', mul(a, c), mul(b, d_)), D.bin(ex, st, 'fadd', mul(a, d_), mul(b, c))]


ANGLE_STUBS = {'sin': stub_sin, 'cos': stub_cos, 'asin': stub_asin, 'acos': stub_acos,
               'atan2': stub_atan2, 'atan': stub_atan, 'carg': stub_carg, 'cabs': stub_cabs,
               }
