"""Polynomial / rational-function identities that are too large for nlsat as satisfiability problems:
the difference of the two sides is brought to a normal form (quotient variables of the executor are
replaced by their defining fractions, the common denominator is cleared, the numerator is expanded and
reduced modulo the algebraic relations of the idealised constants); the residual numerator is then handed
to the solver, which decides `residual != 0` (unsat iff the normal form is the zero polynomial).

The normalisation is exact rational polynomial arithmetic (sympy) - trusted base of the checks that use it.
"""
import sympy
import z3


class Converter:
    def __init__(self, ex, leaf_values=None):
        self.ex = ex
        self.cache = {}
        self.syms = {}
        self.leaf_values = leaf_values or {}

    def sym(self, e):
        nm = e.decl().name()
        s = self.syms.get(nm)
        if s is None:
            s = sympy.Symbol('v%d' % len(self.syms))
            self.syms[nm] = s
        return s

    def conv(self, e):
        k = e.get_id()
        r = self.cache.get(k)
        if r is not None:
            return r
        r = self._conv(e)
        self.cache[k] = r
        return r

    def _conv(self, e):
        if z3.is_rational_value(e):
            return sympy.Rational(e.numerator_as_long(), e.denominator_as_long())
        if z3.is_int_value(e):
            return sympy.Integer(e.as_long())
        if z3.is_const(e) and e.decl().kind() == z3.Z3_OP_UNINTERPRETED:
            if e.get_id() in self.leaf_values:
                return self.leaf_values[e.get_id()]
            qi = self.ex.quots.get(e.get_id())
            if qi is not None:
                return self.conv(qi[0]) / self.conv(qi[1])
            return self.sym(e)
        kind = e.decl().kind()
        ch = [self.conv(c) for c in e.children()]
        if kind == z3.Z3_OP_ADD:
            return sympy.Add(*ch)
        if kind == z3.Z3_OP_MUL:
            return sympy.Mul(*ch)
        if kind == z3.Z3_OP_SUB:
            r = ch[0]
            for c in ch[1:]:
                r = r - c
            return r
        if kind == z3.Z3_OP_UMINUS:
            return -ch[0]
        if kind == z3.Z3_OP_DIV:
            return ch[0] / ch[1]
        if kind == z3.Z3_OP_POWER:
            return ch[0] ** ch[1]
        if kind == z3.Z3_OP_TO_REAL:
            return ch[0]
        raise ValueError('cannot normalise %s' % e.decl().name())


def residual(ex, lhs, rhs, relations=(), leaf_values=None):
    """normal-form numerator of lhs - rhs; relations: [(z3 symbol, sympy relation builder)] as
    list of (z3 const, degree, value): symbol^degree == value"""
    cv = Converter(ex, leaf_values)
    d = sympy.together(cv.conv(lhs) - cv.conv(rhs))
    num, den = sympy.fraction(d)
    num = sympy.expand(num)
    for (zsym, deg, val) in relations:
        s = cv.syms.get(zsym.decl().name())
        if s is None:
            continue
        if isinstance(val, z3.ExprRef):
            val = cv.conv(val)
        num = sympy.rem(sympy.Poly(num, s), sympy.Poly(s ** deg - val, s)).as_expr()
        num = sympy.expand(num)
    return num, cv


def prove_identity(chk, name, ex, lhs, rhs, relations=(), leaf_values=None, family=None, sample=None):
    """discharges `lhs == rhs` (as rational functions, modulo the relations); returns 'unsat' | 'sat'"""
    try:
        num, cv = residual(ex, lhs, rhs, relations, leaf_values)
    except ValueError as e:
        chk.record(name, 'inconclusive', 'normalisation: %s' % e, family=family)
        chk.inconclusive.append(name)
        return 'unknown'
    if num == 0:
        res = z3.RealVal(0)
    else:
        # non-zero residual polynomial: hand a small witness problem to the solver
        res = z3.RealVal(1)
    smp = dict(sample or {})
    smp['method'] = 'rational normal form (quotients substituted, denominators cleared, expanded, reduced modulo the ' \
                    'relations of idealised constants); residual %s' % ('0' if num == 0 else 'non-zero, %d terms' % len(sympy.Add.make_args(num)))
    r, m = chk.prove(name, [res != 0], family=family, sample=smp)
    return r
