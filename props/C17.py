"""C17 - the C interface is a faithful, exception-tight mirror of the C++ interface."""
import ctypes
import os
import re
import subprocess
import z3

from .common import *
from .C14b import demangled
from symx.exec import Ptr, ThrowSignal, NULL, PathEnd
from symx import stubs as S

GM2 = {'EInvalidInput': '_ZTIN7gm2calc13EInvalidInputE', 'EPhysicalProblem': '_ZTIN7gm2calc16EPhysicalProblemE',
       'ESetupError': '_ZTIN7gm2calc11ESetupErrorE', 'EReadError': '_ZTIN7gm2calc10EReadErrorE'}
MENU = [GM2['EInvalidInput'], GM2['EPhysicalProblem'], GM2['ESetupError'], '_ZTISt13runtime_error']
CODE = {GM2['EInvalidInput']: 1, GM2['EPhysicalProblem']: 2, GM2['ESetupError']: 3, '_ZTISt13runtime_error': 3}


def library_attrs():
    """mangled name -> 'nounwind' flag of its definition in the library (compiler's own inference)"""
    out = {}
    for src, ll in build.library_ir().items():
        txt = open(ll).read()
        groups = dict((int(a), b) for a, b in re.findall(r'^attributes #(\d+) = \{(.*)\}$', txt, re.M))
        for m in re.finditer(r'^define [^@]*@("?[^"(\s]+"?)\(.*?\)([^{]*)\{$', txt, re.M):
            name = m.group(1).strip('"')
            attrs = m.group(2)
            for g in re.findall(r'#(\d+)', attrs):
                attrs += ' ' + groups.get(int(g), '')
            out[name] = 'nounwind' in attrs
    return out


def c_functions(mod):
    return sorted(n for n in mod.functions if not n.startswith('_Z') and not n.startswith('vx') and
                  not n.startswith('__') and not n.startswith('_GLOBAL'))


def make_args(ex, st, fn):
    args = []
    for k, (ty, pn, at) in enumerate(fn.params):
        ty = ex.m.resolve(ty)
        if isinstance(ty, llir.PtrT):
            r = ex.new_region(st, None, 'input', 'arg%d' % k, lazy=True)
            pointee = ex.m.resolve(ty.to)
            if isinstance(pointee, llir.StructT) and pointee.els:
                # plain C struct of the interface: typed symbolic contents
                fill_struct(ex, st, r, 0, pointee, 'arg%d' % k)
                r.size = ex.m.sizeof(pointee)
            args.append(Ptr(r.rid, 0))
        elif isinstance(ty, llir.FloatT):
            args.append(z3.Real('arg%d' % k))
        elif isinstance(ty, llir.IntT):
            args.append(z3.BitVec('arg%d' % k, ty.bits) if ty.bits > 1 else z3.Bool('arg%d' % k))
        else:
            raise Unsupported('argument type %r' % (ty,))
    return args


def fill_struct(ex, st, r, off, ty, name):
    ty = ex.m.resolve(ty)
    if isinstance(ty, llir.StructT):
        for i, (e, o) in enumerate(zip(ty.els, ex.m.struct_offsets(ty))):
            fill_struct(ex, st, r, off + o, e, '%s.%d' % (name, i))
    elif isinstance(ty, llir.ArrT):
        es = ex.m.sizeof(ty.el)
        for i in range(ty.n):
            fill_struct(ex, st, r, off + i * es, ty.el, '%s[%d]' % (name, i))
    elif isinstance(ty, llir.FloatT):
        r.cells[off] = (z3.Real(name), ex.m.sizeof(ty))
    elif isinstance(ty, llir.IntT):
        r.cells[off] = (z3.BitVec(name, ty.bits), ex.m.sizeof(ty))
    elif isinstance(ty, llir.PtrT):
        pass


def tightness(chk, mod, which, nounwind, lib_so):
    dem = demangled(mod)
    escapes = {}

    def handler(ex, st, name, args, I):
        d = dem.get(name, name)
        may = ('gm2calc::' in d) and not nounwind.get(name, False)
        if may:
            for k, t in enumerate(MENU):
                if ex.decide(st, z3.Bool('throw_%d_%d' % (len(st.events), k))):
                    st.event('callee-throw', callee=name, tinfo=t)
                    raise ThrowSignal(t, NULL)
        st.event('extcall', name=name)
        rt = ex.m.resolve(I['ty'])
        if isinstance(rt, llir.VoidT):
            return None
        v = ex.fresh_of(st, rt, 'ret_' + re.sub(r'\W', '_', d)[:40])
        st.data['last_ext'] = (name, v)
        st.data.setdefault('ext_vals', {})
        st.data['ext_vals'] = dict(st.data['ext_vals'], **{name: v})
        return v

    for fname in c_functions(mod):
        fn = mod.functions[fname]
        chk.functions.add(fname)
        ex = executor(mod, RealDom(), extra_stubs=S.STRING_MODEL_STUBS, fork_select=False)
        ex.undefined_handler = handler
        ex.opaque_calls = True
        ex.max_steps = 100000
        import time as _t
        ex.deadline = _t.time() + 60
        if os.environ.get('VERIF_DEBUG'):
            print('  ..', fname, flush=True)
        st = X.State()
        try:
            args = make_args(ex, st, fn)
            st = ex.start(fname, args, st)
            paths = ex.explore(st)
        except (Unsupported, PathEnd) as e:
            chk.record('tight:' + fname, 'gap', 'executor: %s' % e)
            chk.not_covered.append('%s: not executed (%s)' % (fname, str(e)[:80]))
            continue
        chk.absorb_executor(ex)
        bad = {}
        nthrow = 0
        for p in paths:
            th = [e for e in p.events if e[0] == 'callee-throw']
            if th:
                nthrow += 1
            if p.outcome[0] in ('throw', 'terminate'):
                g = th[-1][1]['callee'] if th else '?'
                bad.setdefault(g, set()).add(th[-1][1]['tinfo'] if th else str(p.outcome[1]))
            elif p.outcome[0] == 'ret' and th:
                # caught: error code / NaN as documented
                t = th[-1][1]['tinfo']
                rt = mod.resolve(fn.retty)
                rv = p.retval
                if isinstance(rt, llir.IntT) and rt.bits == 32 and 'gm2calc_error' in fn.attrs_text + fname or \
                        (isinstance(rt, llir.IntT) and fname.endswith(('convert_to_onshell', 'convert_to_onshell_params',
                                                                        'calculate_masses', 'new_with_gauge_basis',
                                                                        'new_with_mass_basis'))):
                    if not (isinstance(rv, int) and rv == CODE[t]):
                        chk.violation('code:' + fname, 'C17:error-code:%s' % fname,
                                      '%s returns %r when the C++ call throws %s (expected %d)' % (fname, rv, t, CODE[t]),
                                      None)
                    else:
                        chk.record('code:%s:%s' % (fname, t), 'discharged', family='error-codes',
                                   sample={'obligation': '%s maps %s to gm2calc_error %d' % (fname, t, CODE[t])})
                        chk.formulas.add(('code', fname, t))
                elif isinstance(rt, llir.FloatT):
                    if not (isinstance(rv, float) and rv != rv):
                        chk.violation('nan:' + fname, 'C17:nan-on-error:%s' % fname,
                                      '%s returns %r instead of NaN when the C++ call throws' % (fname, rv), None)
                    else:
                        chk.record('nan:%s:%s' % (fname, t), 'discharged', family='error-codes')
                        chk.formulas.add(('nan', fname, t))
            elif p.outcome[0] == 'ret' and not th:
                # normal path of a calculation wrapper: returns exactly what the C++ function returned
                base = re.sub(r'(_amu\dL)+$', '', re.sub(r'^gm2calc_(mssmnofv|thdm)_', '', fname))
                if base.startswith(('calculate_amu', 'calculate_uncertainty', 'amu')) and isinstance(p.retval, z3.ExprRef):
                    vals = p.data.get('ext_vals', {})
                    match = [n for n, v in vals.items() if v.eq(p.retval)]
                    ok = any(base.replace('_non_tan_beta_resummed', '') in dem.get(n, '') and
                             (('non_tan_beta_resummed' in base) == ('non_tan_beta_resummed' in dem.get(n, '')))
                             for n in match)
                    if ok:
                        chk.record('mirror:' + fname, 'discharged', family='calculation-mirror',
                                   sample={'obligation': '%s returns bit for bit the value of %s' % (
                                       fname, dem.get(match[0], '?')[:80])})
                        chk.formulas.add(('mirror', fname))
                    else:
                        chk.violation('mirror:' + fname, 'C17:mirror:%s' % fname,
                                      '%s does not return the result of its C++ counterpart (returns %s)' % (
                                          fname, [dem.get(n, n)[:60] for n in match] or str(p.retval)[:60]), None)
            elif p.outcome[0] not in ('ret',):
                chk.record('tight:' + fname, 'gap', 'path %r' % (p.outcome,))
        if not bad:
            chk.record('tight:' + fname, 'discharged', family='exception-tightness',
                       sample={'obligation': '%s: no exception thrown by any library callee (each callee not proven '
                               'nounwind by the compiler may throw EInvalidInput/EPhysicalProblem/ESetupError/'
                               'std::runtime_error) crosses the extern "C" boundary' % fname,
                               'throwing_paths_explored': nthrow})
            chk.formulas.add(('tight', fname))
        else:
            escapes[fname] = bad
    # unprotected wrappers: can the callee really throw on a state reachable through the C API?
    probe_escapes(chk, which, escapes, dem, lib_so)


PROBE_SRC = r'''
#include <stdio.h>
#include <stdlib.h>
#include <string.h>
#include <dlfcn.h>
/* generic probe: fresh model through the C API, then call the entry point under test */
typedef void* (*new_t)(void);
int main(int argc, char** argv)
{
   void* h = dlopen(argv[1], RTLD_NOW);
   if (!h) { fprintf(stderr, "%s\n", dlerror()); return 3; }
   const char* fname = argv[2];
   void* model = 0;
   if (!strcmp(argv[3], "mssm")) {
      new_t mk = (new_t)dlsym(h, "gm2calc_mssmnofv_new");
      model = mk();
   }
   void* f = dlsym(h, fname);
   if (!f) return 4;
   const char* sig = argv[4];
   if (!strcmp(sig, "d_p")) { double r = ((double(*)(void*))f)(model); printf("%g\n", r); }
   else if (!strcmp(sig, "v_p")) { ((void(*)(void*))f)(model); }
   else if (!strcmp(sig, "i_p")) { int r = ((int(*)(void*))f)(model); printf("%d\n", r); }
   else if (!strcmp(sig, "d_pu")) { double r = ((double(*)(void*, unsigned))f)(model, 0); printf("%g\n", r); }
   else if (!strcmp(sig, "d_puu")) { double r = ((double(*)(void*, unsigned, unsigned))f)(model, 0, 0); printf("%g\n", r); }
   else if (!strcmp(sig, "v_pd")) { ((void(*)(void*, double))f)(model, 0.0); }
   else return 5;
   return 0;
}
'''


def probe_exe():
    out = os.path.join(build.scratch(), 'capi_probe')
    if not os.path.exists(out):
        src = out + '.c'
        open(src, 'w').write(PROBE_SRC)
        subprocess.check_call(['gcc', '-O0', '-w', src, '-o', out, '-ldl'])
    return out


def signature(mod, fname):
    fn = mod.functions[fname]
    rt = mod.resolve(fn.retty)
    s = 'd' if isinstance(rt, llir.FloatT) else 'v' if isinstance(rt, llir.VoidT) else 'i'
    s += '_'
    for ty, pn, at in fn.params:
        ty = mod.resolve(ty)
        s += 'p' if isinstance(ty, llir.PtrT) else 'd' if isinstance(ty, llir.FloatT) else 'u'
    return s


def probe_escapes(chk, which, escapes, dem, lib_so):
    if not escapes:
        return
    mod = harness_module('h_capi_' + which)
    exe = probe_exe()
    for fname, bad in sorted(escapes.items()):
        callees = ', '.join(sorted(dem.get(g, g)[:70] for g in bad))
        tag = 'tight:' + fname
        sig = signature(mod, fname)
        rc = None
        if which == 'mssm' and sig in ('d_p', 'v_p', 'i_p', 'd_pu', 'd_puu', 'v_pd'):
            r = subprocess.run([exe, lib_so, fname, which, sig], capture_output=True, text=True)
            rc = r.returncode
            chk.traces_validated += 1
        if rc is not None and rc < 0:
            chk.violation(tag, 'C17:escape:%s' % fname,
                          '%s on a freshly allocated model: process killed by signal %d (%s); unprotected call to %s' % (
                              fname, -rc, r.stderr.strip().split('\n')[0][:100], callees),
                          '#!/bin/sh\ncd %s && exec python3-vt -m props.replay_c17 probe %s %s %s\n' % (VERIF, which, fname, sig))
        else:
            key = 'C17:unprotected:%s' % fname
            if chk.is_known(key) is not None or key in chk.gaps:
                chk.record(tag, 'gap', 'unprotected call to %s; no reachable throwing state demonstrated' % callees)
            else:
                chk.record(tag, 'gap', 'unprotected call to %s (may-throw per compiler); fresh-model probe returned %r'
                           % (callees, rc))
            chk.not_covered.append('%s forwards to %s without try/catch; the callee is not nounwind for the compiler, '
                                   'but no state reachable through the C API that makes it throw was demonstrated'
                                   % (fname, callees))


def run(chk):
    chk.assumptions += [
        'a library callee may throw unless the compiler inferred nounwind for its definition (IR of every '
        'library TU, regenerated); std:: / operator new are assumed not to throw (bad_alloc out of scope)',
        'one call from an arbitrary (lazily symbolic) model state covers every call history; witnesses are '
        'replayed on a model freshly allocated through the C API against a build of the whole library',
    ]
    chk.stubs.update(['library callees: return fresh value | throw {EInvalidInput, EPhysicalProblem, ESetupError, '
                      'std::runtime_error}', 'std::string (layout model)'])
    nounwind = library_attrs()
    lib_so = build.build_library()
    for which in ('mssm', 'thdm'):
        mod = harness_module('h_capi_' + which)
        tightness(chk, mod, which, nounwind, lib_so)
    from . import C17b
    C17b.run(chk, lib_so)
