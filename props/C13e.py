"""C13 part 5: classification of a line (block definition / data / comment) depends on its tokens only.

SLHAea::Line::is_block_def, is_data_line, is_comment_line are executed on a laid-out Line with 0..3 tokens; the static
token predicates is_block_specifier / is_comment are uninterpreted booleans of the token, and the column positions
(columns_, i.e. the indentation of the line in the file) are symbolic.  Obligation: the result equals the documented
rule over the tokens for every column vector - "comments, blank lines, indentation ... are irrelevant".
A counterexample is replayed with the real tokenizer on an indented and an unindented spelling of the same line."""
import ctypes
import z3

from .common import *
from .C13b import field_offset
from .C14b import find, demangled
from symx import exec as X
from symx import stubs as S
from symx.exec import Ptr


def layout_line(ex, st, mod, ntok, ncol):
    lsz = mod.sizeof(llir.NamedT('class.SLHAea::Line'))
    v0 = field_offset(mod, 'class.SLHAea::Line', 'class.std::vector', 0)
    v1 = field_offset(mod, 'class.SLHAea::Line', 'class.std::vector', 1)
    ln = ex.new_region(st, lsz, 'heap', 'line')
    ln.fills.append((0, lsz, 0))
    tr = ex.new_region(st, max(32 * ntok, 32), 'heap', 'tokens')
    toks = []
    for ti in range(ntok):
        S.make_string(ex, st, 'tok%d' % ti, tr, 32 * ti)
        toks.append(Ptr(tr.rid, 32 * ti))
    ln.cells[v0] = (Ptr(tr.rid, 0), 8)
    ln.cells[v0 + 8] = (Ptr(tr.rid, 32 * ntok), 8)
    ln.cells[v0 + 16] = (Ptr(tr.rid, 32 * ntok), 8)
    cr = ex.new_region(st, max(8 * ncol, 8), 'heap', 'columns')
    cols = []
    for ci in range(ncol):
        c = z3.BitVec('column_%d' % ci, 64)
        cr.cells[8 * ci] = (c, 8)
        cols.append(c)
    ln.cells[v1] = (Ptr(cr.rid, 0), 8)
    ln.cells[v1 + 8] = (Ptr(cr.rid, 8 * ncol), 8)
    ln.cells[v1 + 16] = (Ptr(cr.rid, 8 * ncol), 8)
    return Ptr(ln.rid, 0), toks, cols


def native_class(lib, text):
    f = lib.vx_native_line_class
    f.restype = ctypes.c_int
    f.argtypes = [ctypes.c_char_p]
    return f(text.encode())


SPELLINGS = {'is_block_def': ['Block X', 'BLOCK X Q= 1.0', 'decay 6 1.3'], 'is_data_line': ['1 2.5', '1 1 3.0 # c'],
             'is_comment_line': ['# comment', '#']}
BIT = {'is_block_def': 1, 'is_data_line': 2, 'is_comment_line': 4}


def native_layout_probe(lib, fn):
    bad = []
    n = 0
    for t in SPELLINGS[fn]:
        ref = native_class(lib, t)
        for pre in (' ', '   ', '\t', ' \t '):
            got = native_class(lib, pre + t)
            n += 1
            if got != ref:
                bad.append('%r is classified %d, %r is classified %d (1 block definition, 2 data, 4 comment)' % (t, ref, pre + t, got))
    return bad, n


def run(chk, mod, lib):
    dem = demangled(mod)
    spec_fn = [n for n, d in dem.items() if d.startswith('SLHAea::Line::is_block_specifier(')]
    com_fn = [n for n, d in dem.items() if d.startswith('SLHAea::Line::is_comment(')]
    if not spec_fn or not com_fn:
        chk.record('line-class', 'gap', 'token predicates not found out of line')
        chk.not_covered.append('line classification (token predicates not found)')
        return
    for fn in ('is_block_def', 'is_data_line', 'is_comment_line'):
        chk.functions.add('SLHAea::Line::' + fn)
        for ntok in range(0, 4 if chk.tier == 'quick' else 6):
            for ncol in sorted(set((0, ntok))):
                st = X.State()
                ex = executor(mod, RealDom(), extra_stubs=dict(S.STRING_MODEL_STUBS), fork_select=False)
                line, toks, cols = layout_line(ex, st, mod, ntok, ncol)
                spec = [z3.Bool('is_block_specifier_tok%d' % i) for i in range(ntok)]
                com = [z3.Bool('is_comment_tok%d' % i) for i in range(ntok)]

                def mk(flags):
                    def f(ex_, st_, args, I):
                        for i, t in enumerate(toks):
                            if args[0].rid == t.rid and args[0].off == t.off:
                                return 1 if ex_.decide(st_, flags[i]) else 0
                        raise Unsupported('token predicate on an unknown string')
                    return f
                for n in spec_fn:
                    ex.stubs[n] = mk(spec)
                for n in com_fn:
                    ex.stubs[n] = mk(com)
                st = ex.start('vx_' + fn, [line], st)
                tag0 = 'line-class:%s:tokens=%d:columns=%d' % (fn, ntok, ncol)
                try:
                    paths = ex.explore(st)
                except Unsupported as e:
                    chk.record(tag0, 'gap', 'executor: %s' % e)
                    chk.not_covered.append('%s (%s)' % (tag0, str(e)[:80]))
                    continue
                chk.absorb_executor(ex)
                T, F = z3.BoolVal(True), z3.BoolVal(False)
                if fn == 'is_block_def':
                    doc = z3.And(spec[0], z3.Not(com[1])) if ntok >= 2 else F
                elif fn == 'is_data_line':
                    doc = z3.And(z3.Not(com[0]), z3.Not(spec[0])) if ntok >= 1 else F
                else:
                    doc = com[0] if ntok >= 1 else F
                for i, p in enumerate(paths):
                    tag = '%s#%d' % (tag0, i)
                    if p.outcome[0] != 'ret':
                        chk.record(tag, 'inconclusive', 'path %r' % (p.outcome,))
                        chk.inconclusive.append(tag)
                        continue
                    rv = p.retval
                    res = z3.BoolVal(rv != 0) if isinstance(rv, int) else (rv if z3.is_bool(rv) else rv != 0)
                    r, m = chk.prove(tag, p.pc + [res != doc], family='line-classification',
                                     sample={'obligation': 'SLHAea::Line::%s with %d tokens equals the documented rule over the tokens for every '
                                             'column vector (indentation)' % (fn, ntok)})
                    if r == 'sat':
                        bad, n = native_layout_probe(lib, fn)
                        chk.traces_validated += n
                        if bad:
                            chk.violation(tag, 'C13:line-class:%s' % fn, 'SLHAea::Line::%s depends on more than the tokens (%d tokens, model %s); '
                                          'real tokenizer: %s' % (fn, ntok, str(m)[:120].replace('\n', ' '), '; '.join(bad[:2])),
                                          '#!/bin/sh\ncd %s && exec python3-vt -m props.replay_c13 lineclass %s\n' % (VERIF, fn))
                        else:
                            chk.record(tag, 'inconclusive', 'deviation from the token rule not reproduced by the real tokenizer')
                            chk.inconclusive.append(tag)
    chk.assumptions.append('line classification: is_block_specifier / is_comment are uninterpreted predicates of a token; lines of 0..3 tokens')
