"""C15 part 3: the sub-contributions that the detailed output lists add up to the totals it lists (library level).

The detailed writer prints the parts from the one-argument wrappers and the sums from the total functions; that they agree is
decided on the library code: each function is executed on a symbolic model with its callees (the parameterised overloads, the
delta_* corrections, tan_beta_cor, loop functions) uninterpreted - two expressions built from the same callees with the same
arguments are equal, anything else is a violation."""
import z3

from .common import *
from . import symm
from .C06 import find_fn, CONSTS


def value(c, fn):
    paths = symm.run_function(c, fn, [])
    rets = [p for p in paths if p.outcome[0] == 'ret' and not isinstance(p.retval, float)]
    if len(rets) != 1 or len(paths) != 1:
        raise Unsupported('%s: %d paths' % (c.dem.get(fn, fn)[:40], len(paths)))
    return symm.expand_quots(c.ex, zr(rets[0].retval)), [symm.expand_quots(c.ex, k_) for k_ in rets[0].pc]


def run(chk):
    fam = 'parts-sum-to-total'
    replay = '#!/bin/sh\ncd %s && exec python3-vt -m props.replay_c15 parts\n' % VERIF
    sums = [('h_mssm_sym2', 'amu2LFSfapprox_non_tan_beta_resummed', ['amu2LWHnu', 'amu2LWHmuL', 'amu2LBHmuL', 'amu2LBHmuR', 'amu2LBmuLmuR'], None),
            ('h_mssm_sym2', 'amu2LFSfapprox', ['amu2LFSfapprox_non_tan_beta_resummed'], 'tan_beta_cor'),
            ('h_mssm_sym1', 'amu1Lapprox_non_tan_beta_resummed', ['amu1LWHnu', 'amu1LWHmuL', 'amu1LBHmuL', 'amu1LBHmuR', 'amu1LBmuLmuR'], None),
            ('h_mssm_sym1', 'amu1Lapprox', ['amu1Lapprox_non_tan_beta_resummed'], 'tan_beta_cor'),
            ('h_mssm_sym1', 'calculate_amu_1loop', ['amu1LChi0', 'amu1LChipm'], None)]
    ctx = {}
    for harness, total, parts, factor in sums:
        if harness not in ctx:
            ctx[harness] = symm.setup(harness, CONSTS)
            # the wrappers and totals must not be opaque for each other here: only the parameterised overloads and corrections
        c = ctx[harness]
        try:
            def one(name):
                fns = [n for n in find_fn(c, name) if c.dem[n].startswith('gm2calc::%s(gm2calc::MSSMNoFV_onshell const&)' % name)]
                if not fns:
                    raise Unsupported('%s not found' % name)
                return fns[0]
            saved = dict(symm.UF_META)
            # inside the total, the wrappers/parts are themselves expanded (they are the subject), everything below stays opaque
            for nm in parts + [total]:
                symm.UF_META.pop(nm, None)
            try:
                if factor:
                    symm.UF_META.setdefault(factor, (1, 0))      # the correction factor is an opaque callee of the total
                tv, tpc = value(c, one(total))
                pv = []
                ppc = []
                for nm in parts:
                    v_, pc_ = value(c, one(nm))
                    pv.append(v_)
                    ppc += pc_
                fv = None
                if factor:
                    symm.UF_META.setdefault(factor, (1, 0))
                    fv, fpc = value(c, one(factor)) if False else (None, [])
            finally:
                symm.UF_META.clear()
                symm.UF_META.update(saved)
        except Unsupported as e:
            chk.record('sum:' + total, 'gap', str(e)[:100], family=fam)
            chk.not_covered.append('parts of %s not compared (%s)' % (total, str(e)[:60]))
            continue
        chk.functions.add('gm2calc::' + total)
        rhs = sum(pv[1:], pv[0])
        if factor:
            # the factor is an opaque callee of the total: find its leaf in the total's expression
            leaves = [r_ for (k_, a_, r_) in c.ex.leaves if k_.replace('uf:', '').split('#')[0] == factor]
            if len(leaves) < 1:
                # the factor was inlined into the total by the compiler: execute it on its own (same opaque callees)
                try:
                    saved = dict(symm.UF_META)
                    symm.UF_META.pop(factor, None)
                    try:
                        fv, fpc = value(c, one(factor))
                    finally:
                        symm.UF_META.clear()
                        symm.UF_META.update(saved)
                except Unsupported as e:
                    chk.record('sum:' + total, 'gap', 'factor %s: %s' % (factor, str(e)[:80]), family=fam)
                    continue
                rhs = rhs * fv
                ppc = ppc + fpc
            else:
                rhs = rhs * leaves[-1]
        r, m = chk.prove('sum:' + total, tpc + ppc + [tv != rhs], timeout_ms=60000, family=fam,
                         sample={'obligation': '%s == %s%s for every model (callees uninterpreted)' % (total, ' + '.join(parts), ' * ' + factor if factor else '')})
        if r == 'sat':
            # replay before reporting: the native driver sums the parts of real models
            import subprocess
            rr = subprocess.run(['python3-vt', '-m', 'props.replay_c15', 'parts'], cwd=VERIF, capture_output=True, text=True)
            chk.traces_validated += 1
            if rr.returncode != 1:
                chk.record('sum:' + total, 'gap', 'total is not syntactically the sum of its parts but the native parts add up', family=fam)
                chk.not_covered.append('parts of %s: structural mismatch not reproduced natively' % total)
                continue
            chk.violation('sum:' + total, 'C15:parts-sum:%s' % total,
                          'the sub-contributions %s do not add up to %s: the detailed output lists parts that disagree with the total' % (
                              ', '.join(parts), total), replay)
    for c in ctx.values():
        chk.absorb_executor(c.ex)
