"""replay for C19: the calculation layer of the current tree under ThreadSanitizer (16 points, 8 and 16 threads)
and in reversed evaluation order; exit 1 on a data-race report or a bitwise mismatch"""
import os
import subprocess
import sys
from symx import build


def main():
    lib = build.build_library(sanitize='thread')
    src = os.path.join(os.path.dirname(os.path.dirname(os.path.abspath(__file__))), 'replay', 'c19_driver.cpp')
    exe = os.path.join(build.scratch(), 'c19_driver')
    cmd = ['clang++-14', '-std=c++14', '-O1', '-g', '-fsanitize=thread', '-w'] + build.include_flags() + \
        [src, lib, '-Wl,-rpath,' + os.path.dirname(lib), '-lpthread', '-o', exe]
    r = subprocess.run(cmd, capture_output=True, text=True)
    if r.returncode != 0:
        print(r.stderr)
        sys.exit(2)
    env = dict(os.environ, TSAN_OPTIONS='halt_on_error=0 exitcode=66 report_signal_unsafe=0')
    r = subprocess.run([exe], capture_output=True, text=True, env=env)
    out = r.stdout + r.stderr
    races = out.count('WARNING: ThreadSanitizer: data race')
    print('\n'.join(out.split('\n')[:40]))
    print('data-race reports: %d, exit code %d' % (races, r.returncode))
    sys.exit(1 if (races or r.returncode != 0) else 0)


if __name__ == '__main__':
    main()
