"""C15 - every reported number is consistent with every other report of the same quantity."""
import re
import subprocess
import z3

from .common import *
from .C14b import demangled, find
from symx.exec import Ptr, NULL, PathEnd
from symx import stubs as S

OUT_FORMATS = {0: 'Minimal', 1: 'Detailed', 2: 'NMSSMTools', 3: 'SPheno', 4: 'GM2Calc'}


def options_region(ex, st, mod):
    """a gm2calc::Config_options object with symbolic fields; returns (ptr, {field: var})"""
    ty = llir.NamedT('struct.gm2calc::Config_options')
    t = mod.resolve(ty)
    offs = mod.struct_offsets(t)
    r = ex.new_region(st, mod.sizeof(t), 'input', 'options')
    names = ['output_format', 'loop_order', 'tanb_resummation', 'force_output', 'verbose_output',
             'calculate_uncertainty', 'running_couplings']
    f = {}
    for nme, e, o in zip(names, t.els, offs):
        e = mod.resolve(e)
        v = z3.BitVec('opt_' + nme, e.bits)
        r.cells[o] = (v, mod.sizeof(e))
        f[nme] = v
    return Ptr(r.rid, 0), f


def lib_uf(dem):
    """undefined library functions: doubles are uninterpreted values of (name, model); stream
    manipulators return the stream"""
    def handler(ex, st, name, args, I):
        d = dem.get(name, name)
        rt = ex.m.resolve(I['ty'])
        st.event('extcall', name=name, dem=d, args=list(args))
        if isinstance(rt, llir.FloatT):
            key = d.split('(')[0]
            return ex.leaf(st, 'uf:' + key, [])
        if isinstance(rt, llir.VoidT):
            return None
        if isinstance(rt, llir.PtrT) and args and isinstance(args[0], Ptr):
            kn = ex.rid_names.get(args[0].rid)
            if kn and kn[1] in ('_ZSt4cout', '_ZSt4cerr'):
                return args[0]
        return ex.fresh_of(st, rt, 'ext')
    return handler


def leafval(ex, frag):
    for (k, a, r) in ex.leaves:
        if k.startswith('uf:') and k.endswith(frag):
            return r
    return None


def truthy(v):
    return v != 0


def calc_amu(chk, mod, dem):
    """calculate_amu(model, options) and calculate_uncertainty<Model>(model, options) select the
    library functions the README assigns to the option combination"""
    for model, fnfrag, resum in (('MSSMNoFV_onshell', 'calculate_amu(gm2calc::MSSMNoFV_onshell const&', True),
                                 ('THDM', 'calculate_amu(gm2calc::THDM const&', False)):
        for fn in find(mod, fnfrag):
            chk.functions.add(dem[fn][:70])
            ex = executor(mod, RealDom(), fork_select=False)
            ex.undefined_handler = lib_uf(dem)
            st = X.State()
            m = ex.new_region(st, None, 'input', 'model', lazy=True)
            optr, f = options_region(ex, st, mod)
            st = ex.start(fn, [Ptr(m.rid, 0), optr], st)
            paths = ex.explore(st)
            chk.absorb_executor(ex)
            for i, p in enumerate(paths):
                tag = 'calculate_amu<%s>#%d' % (model, i)
                if p.outcome[0] != 'ret':
                    chk.record(tag, 'inconclusive', 'path %r' % (p.outcome,))
                    chk.inconclusive.append(tag)
                    continue
                called = [e[1]['dem'].split('(')[0].replace('gm2calc::', '') for e in p.events if e[0] == 'extcall']
                # expected selection for this path's options
                lo = f['loop_order']
                rs = f['tanb_resummation']
                ok_any = False
                for lov in (0, 1, 2, 3):
                    for rsv in ((0, 1) if resum else (1,)):
                        cons = p.pc + [lo == lov if lov < 3 else z3.UGE(lo, 3)] + ([truthy(rs) if rsv else rs == 0] if resum else [])
                        if chk.solve(cons, 5000)[0] != 'sat':
                            continue
                        ok_any = True
                        suffix = '' if rsv else '_non_tan_beta_resummed'
                        want = []
                        if lov >= 1:
                            want.append('calculate_amu_1loop' + suffix)
                        if lov >= 2:
                            want.append('calculate_amu_2loop' + suffix)
                        if called != want:
                            chk.violation(tag, 'C15:calculate_amu:%s:loop%d:resum%d' % (model, lov, rsv),
                                          'CLI calculate_amu(%s) with loop order %d, tan(beta) resummation %d evaluates %r, '
                                          'the API sum is %r' % (model, lov, rsv, called, want),
                                          replay_cli(model, lov, rsv))
                            continue
                        # value == sum of exactly those
                        exp = 0
                        for w in want:
                            exp = exp + leafval(ex, w)
                        r, mdl = chk.prove(tag + ':lo%d:rs%d' % (lov, rsv), cons + [zr(p.retval) != zr(exp)], family='dispatch',
                                           sample={'obligation': 'calculate_amu(%s, loop_order=%d, resummation=%d) == %s' % (
                                               model, lov, rsv, ' + '.join(want) or '0')})
                        if r == 'sat':
                            chk.violation(tag, 'C15:calculate_amu:%s:loop%d:resum%d' % (model, lov, rsv),
                                          'calculate_amu value differs from the sum of %r' % (want,),
                                          replay_cli(model, lov, rsv))
                if not ok_any:
                    chk.record(tag, 'inconclusive', 'no option combination for path')
                    chk.inconclusive.append(tag)
    for model in ('MSSMNoFV_onshell', 'THDM'):
        for fn in find(mod, 'calculate_uncertainty<gm2calc::%s>' % model):
            chk.functions.add(dem[fn][:70])
            ex = executor(mod, RealDom(), fork_select=False)
            ex.undefined_handler = lib_uf(dem)
            st = X.State()
            m = ex.new_region(st, None, 'input', 'model', lazy=True)
            optr, f = options_region(ex, st, mod)
            st = ex.start(fn, [Ptr(m.rid, 0), optr], st)
            for i, p in enumerate(ex.explore(st)):
                tag = 'calculate_uncertainty<%s>#%d' % (model, i)
                called = [e[1]['dem'].split('(')[0].replace('gm2calc::', '') for e in p.events if e[0] == 'extcall'
                          and 'uncertainty' in e[1]['dem']]
                for lov in (0, 1, 2):
                    if chk.solve(p.pc + [f['loop_order'] == lov], 5000)[0] != 'sat':
                        continue
                    want = ['calculate_uncertainty_amu_%dloop' % lov]
                    if called == want and isinstance(p.retval, z3.ExprRef) and p.retval.eq(leafval(ex, want[0])):
                        chk.record(tag + ':lo%d' % lov, 'discharged', family='dispatch',
                                   sample={'obligation': 'calculate_uncertainty(%s, loop_order=%d) == %s' % (model, lov, want[0])})
                        chk.formulas.add((tag, lov))
                    else:
                        chk.violation(tag, 'C15:calculate_uncertainty:%s:loop%d' % (model, lov),
                                      'uncertainty for loop order %d evaluates %r' % (lov, called), None)
            chk.absorb_executor(ex)


def replay_cli(model, lo, rs):
    return '#!/bin/sh\ncd %s && exec python3-vt -m props.replay_c15 amu %s %d %d\n' % (VERIF, model, lo, rs)


def run(chk):
    mod = harness_module('h_cli')
    dem = demangled(mod)
    chk.assumptions += [
        'library functions (calculate_amu_*, contributions, uncertainties) are uninterpreted functions of the '
        'model; the check is that the program hands the right one, unchanged, to the output stream / SLHA block',
        'stream manipulators have no effect on the value; printed decimals are not compared, only the double '
        'handed to operator<<',
    ]
    chk.not_covered += ['SLHA output echoes the input blocks unchanged (SLHAea)',
                        'decimal formatting of the printed numbers']
    calc_amu(chk, mod, dem)
    from . import C15b
    C15b.run(chk, mod, dem)
    from . import C15c
    C15c.run(chk)
    from . import C15d
    C15d.run(chk)
    from . import C15e
    C15e.run(chk)
