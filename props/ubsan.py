"""UBSan replay of undefined-behaviour witnesses (no observable effect without a sanitizer)"""
import os
import subprocess
from .common import *


def driver():
    src = os.path.join(HARNESS, 'ub_driver.cpp')
    out = os.path.join(build.scratch(), 'ub_driver')
    if os.path.exists(out):
        return out
    base = ['clang++-14', '-std=c++14', '-O1', '-w', '-fno-access-control', '-DNDEBUG',
            '-fsanitize=undefined,float-cast-overflow', '-fno-sanitize-recover=undefined,float-cast-overflow'] + \
        build.include_flags()
    # first link attempt to learn the undefined library symbols, then add trapping weak stubs
    obj = out + '.o'
    subprocess.check_call(base + ['-c', src, '-o', obj])
    r = subprocess.run(base + [obj, '-o', out], capture_output=True, text=True)
    if r.returncode != 0:
        import re
        und = sorted(set(re.findall(r"undefined reference to `([^']+)'", r.stderr)))
        nm = subprocess.run(['nm', '-u', obj], capture_output=True, text=True).stdout
        syms = [ln.split()[-1] for ln in nm.splitlines() if 'gm2calc' in ln and ln.split()[-1].startswith('_Z')]
        stub = out + '.stubs.c'
        with open(stub, 'w') as f:
            for s in syms:
                if s.startswith(('_ZTV', '_ZTI', '_ZTS')):
                    f.write('__attribute__((weak)) char %s[256];\n' % s)
                else:
                    f.write('__attribute__((weak)) void %s(void) { __builtin_trap(); }\n' % s)
        subprocess.check_call(['gcc', '-c', '-w', stub, '-o', stub + '.o'])
        subprocess.check_call(base + [obj, stub + '.o', '-o', out])
    return out


def run(args):
    """returns (ub_reported, output)"""
    exe = driver()
    r = subprocess.run([exe] + [str(a) for a in args], capture_output=True, text=True)
    ub = 'runtime error' in r.stderr
    return ub, (r.stdout + r.stderr).strip()


if __name__ == '__main__':
    import sys
    ub, out = run(sys.argv[1:])
    print(out)
    sys.exit(1 if ub else 0)
