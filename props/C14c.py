"""C14 part 3: "every failure exit is accompanied by a diagnostic" for the status computed by MSSMNoFV_setup::run.

run() returns EXIT_FAILURE when the model has a problem although no exception was thrown (force_output).  The function
is executed from the IR of gm2calc.cpp; reader, writer, the model and the stream insertions are stubs; have_problem()
and have_warning() are symbolic flags of the model after reading.  Obligation: on every path returning a non-zero
status the problems object was written to a stream inside run().  A path violating it is replayed with the real
program (built from the tree) on an input with a tachyon and force_output = 1 in every output format: reported only
if the program exits with status 1, empty stderr and no SPINFO 3/4 entry on stdout."""
import os
import subprocess
import z3

from .common import *
from .C14b import find, demangled
from symx.exec import Ptr
from symx import stubs as S


def native_probe():
    """real CLI, example.gm2 with Mu = 1e8 (tachyonic sleptons) and force_output = 1, all output formats"""
    exe = build.build_cli()
    src = open(os.path.join(REPO, 'input', 'example.gm2')).read()
    bad = []
    n = 0
    for fmt in range(5):
        text = src + 'Block GM2CalcInput\n     4     100000000   # Mu\nBlock GM2CalcConfig\n     0     %d\n     3     1\n' % fmt
        r = subprocess.run([exe, '--gm2calc-input-file=-'], input=text.encode(), capture_output=True, timeout=120)
        n += 1
        if r.returncode not in (0, 1):
            bad.append((fmt, 'exit status %d' % r.returncode))
            continue
        if r.returncode == 1:
            spinfo = False
            inblock = False
            for ln in r.stdout.decode(errors='replace').split('\n'):
                t = ln.split()
                if t and t[0].upper() == 'BLOCK':
                    inblock = len(t) > 1 and t[1].upper() == 'SPINFO'
                elif inblock and len(t) >= 2 and t[0] in ('3', '4'):
                    spinfo = True
            if not r.stderr.strip() and not spinfo:
                bad.append((fmt, 'exit status 1, stderr empty, no SPINFO 3/4 entry'))
    return bad, n


def explore_run(mod, fns):
    """MSSMNoFV_setup::run with reader/writer/model/streams stubbed; options are symbolic fields of the setup object.
    returns (executor, paths, have_problem, have_warning, option fields)"""
    from .C15 import options_region
    hp, hw = z3.Bool('have_problem'), z3.Bool('have_warning')
    stubs_ = dict(S.STRING_MODEL_STUBS)

    def flag(b):
        def f(ex, st, args, I):
            return 1 if ex.decide(st, b) else 0
        return f

    def ret_this(name):
        def f(ex, st, args, I):
            st.event(name)
            return args[0]
        return f

    def ev(name, ret0=True):
        def f(ex, st, args, I):
            st.event(name)
            return args[0] if ret0 and args else None
        return f

    def setter(name):
        def f(ex, st, args, I):
            st.event('setter', name=name, value=args[1])
            return None
        return f
    for frag in ('MSSMNoFV_onshell_mass_eigenstates::~', 'MSSMNoFV_onshell::~', 'MSSMNoFV_onshell::MSSMNoFV_onshell('):
        for n in find(mod, frag):
            stubs_[n] = lambda ex, st, args, I: None
    for n in find(mod, 'MSSMNoFV_onshell_problems::have_problem()'):
        stubs_[n] = flag(hp)
    for n in find(mod, 'MSSMNoFV_onshell_problems::have_warning()'):
        stubs_[n] = flag(hw)
    for n in find(mod, 'MSSMNoFV_onshell_mass_eigenstates::get_problems()'):
        stubs_[n] = ret_this('get_problems')
    for n in find(mod, 'MSSMNoFV_onshell_mass_eigenstates::do_force_output(bool)'):
        stubs_[n] = setter('do_force_output')
    for n in find(mod, 'MSSMNoFV_onshell::set_verbose_output(bool)'):
        stubs_[n] = setter('set_verbose_output')
    for n, d in demangled(mod).items():
        if 'operator<<' in d and 'MSSMNoFV_onshell_problems const&' in d:
            stubs_[n] = ev('problems-streamed')
        elif 'operator<<' in d and d.startswith('std::basic_ostream') or 'operator<<(' in d and 'gm2calc::operator<<' in d and n not in stubs_:
            stubs_[n] = ev('stream-other')
        elif 'std::function<' in d and 'operator bool()' in d:
            stubs_[n] = lambda ex, st, args, I: 1
        elif '_M_invoke' in d or 'std::function<' in d and 'operator()' in d:
            stubs_[n] = ev('callback', ret0=False)
    ex = executor(mod, RealDom(), extra_stubs=stubs_, fork_select=False)
    ex.opaque_calls = True
    # library calls (VERBOSE formatting etc.): no influence on status and diagnostics
    ex.undefined_handler = lambda ex_, s_, name, args, I: (None if isinstance(ex_.m.resolve(I['ty']), llir.VoidT)
                                                          else ex_.fresh_of(s_, ex_.m.resolve(I['ty']), 'lib'))
    st = X.State()
    # the setup object starts with its Config_options member
    optr, fields = options_region(ex, st, mod)
    this = ex.region(st, optr)
    this.size = None
    this.lazy = True
    io = ex.new_region(st, None, 'input', 'slha_io', lazy=True)
    st = ex.start(fns[0], [optr, Ptr(io.rid, 0)], st)
    paths = ex.explore(st)
    return ex, paths, hp, hw, fields


def run(chk):
    mod = harness_module('h_cli')
    fns = find(mod, 'MSSMNoFV_setup::run(')
    if not fns:
        chk.record('run:diagnostic', 'gap', 'MSSMNoFV_setup::run not found')
        chk.not_covered.append('diagnostic on failure exit of MSSMNoFV_setup::run (function not found)')
        return
    chk.functions.add('MSSMNoFV_setup::run (gm2calc.cpp)')
    try:
        ex, paths, hp, hw, fields = explore_run(mod, fns)
    except Unsupported as e:
        chk.record('run:diagnostic', 'gap', 'executor: %s' % e)
        chk.not_covered.append('diagnostic on failure exit of MSSMNoFV_setup::run (%s)' % str(e)[:80])
        return
    chk.absorb_executor(ex)
    nfail = 0
    probed = None
    for i, p in enumerate(paths):
        tag = 'run:diagnostic#%d' % i
        if p.outcome[0] != 'ret':
            continue       # exceptions: mapped to print_error + status 1 by main (C14b)
        rv = p.retval
        nonzero = (rv != 0) if isinstance(rv, int) else None
        if nonzero is None:
            r, m = chk.solve(p.pc + [rv != 0], 10000)
            nonzero = r != 'unsat'
        if not nonzero:
            chk.record(tag, 'discharged', family='failure-diagnostic',
                       sample={'obligation': 'MSSMNoFV_setup::run: status 0 path (no diagnostic required)'})
            continue
        nfail += 1
        if any(e[0] == 'problems-streamed' for e in p.events):
            chk.record(tag, 'discharged', family='failure-diagnostic',
                       sample={'obligation': 'MSSMNoFV_setup::run: a non-zero status is returned only after the problems object '
                               'has been written to a stream'})
            chk.formulas.add(tag)
            continue
        r, m = chk.solve(p.pc, 10000)
        if r == 'unsat':
            continue
        if probed is None:
            probed = native_probe()
            chk.traces_validated += probed[1]
        bad = probed[0]
        if bad:
            chk.violation(tag, 'C14:run:failure-without-diagnostic',
                          'MSSMNoFV_setup::run returns a failure status without writing the problems (have_problem=%s, '
                          'have_warning=%s); real program on example.gm2 with Mu=1e8, force_output=1: %s' % (
                              m.eval(hp, model_completion=True), m.eval(hw, model_completion=True),
                              '; '.join('output format %d: %s' % b for b in bad)),
                          '#!/bin/sh\ncd %s && exec python3-vt -m props.replay_c14 diagnostic\n' % VERIF)
        else:
            chk.record(tag, 'gap', 'failure status without a diagnostic inside run(), but the real program prints one',
                       family='failure-diagnostic')
    if nfail == 0:
        chk.record('run:diagnostic', 'gap', 'no path with a non-zero status explored')
    stdout_discipline(chk)


# ---------------------------------------------------------------------------- stdout carries only the physics output

ALLOWED_STDOUT = ('print_usage', 'get_cmd_line_options', 'print_error', 'Minimal_writer', 'Detailed_writer', 'SLHA_writer')


def cout_census():
    """functions (demangled) of the library and of gm2calc.cpp whose IR refers to std::cout / stdout"""
    import re
    files = dict(build.library_ir())
    files['src/gm2calc.cpp (harness h_cli)'] = harness_ir_path('h_cli')
    found = []
    for src, ll in sorted(files.items()):
        cur = None
        for ln in open(ll):
            if ln.startswith('define '):
                m = re.search(r'@("?)([\w.$]+)\1\(', ln)
                cur = m.group(2) if m else None
            elif ln.startswith('}'):
                cur = None
            elif cur and ('@_ZSt4cout' in ln or '@stdout' in ln or '@printf(' in ln or '@puts(' in ln or '@putchar(' in ln):
                found.append((os.path.relpath(src, REPO) if os.path.isabs(src) else src, cur))
                cur = None
    names = sorted(set(f for _, f in found))
    dem = subprocess.run(['c++filt'], input='\n'.join(names), capture_output=True, text=True).stdout.split('\n')
    dm = dict(zip(names, dem))
    return [(s, f, dm.get(f, f)) for s, f in found]


def native_stdout_probe():
    """real program: stdout must not depend on GM2CalcConfig[4] (verbose output) for any input type / output format"""
    exe = build.build_cli()
    bad = []
    n = 0
    for typ, fn in (('gm2calc', 'example.gm2'), ('slha', 'example.slha'), ('thdm', 'example.thdm')):
        src = open(os.path.join(REPO, 'input', fn)).read()
        for fmt in (0, 1, 4):
            outs = []
            for verb in (0, 1):
                text = src + 'Block GM2CalcConfig\n     0     %d\n     4     %d\n' % (fmt, verb)
                r = subprocess.run([exe, '--%s-input-file=-' % typ], input=text.encode(), capture_output=True, timeout=120)
                n += 1
                outs.append(r.stdout)
            if outs[0] != outs[1]:
                bad.append('%s, output format %d: stdout has %d lines without and %d lines with verbose output' % (
                    fn, fmt, outs[0].count(b'\n'), outs[1].count(b'\n')))
    return bad, n


def stdout_discipline(chk):
    """IR census + run() exploration: stream insertions outside the writers do not target std::cout"""
    chk.functions.add('census of std::cout references (library + gm2calc.cpp)')
    try:
        cen = cout_census()
    except Exception as e:      # noqa
        chk.record('stdout:census', 'gap', 'census failed: %s' % e)
        chk.not_covered.append('stdout discipline (census failed)')
        return
    offenders = [(s, f, d) for s, f, d in cen if not any(a in d for a in ALLOWED_STDOUT)]
    chk.extra['stdout_writers'] = sorted(set(d[:90] for _, _, d in cen))
    if not offenders:
        chk.record('stdout:census', 'discharged', family='stdout-discipline',
                   sample={'obligation': 'only the output producers of gm2calc.cpp (usage, version, writers, SLHA error block) refer to '
                           'std::cout; no library function does', 'functions_with_cout': len(cen)})
        chk.formulas.add('stdout:census')
        return
    bad, n = native_stdout_probe()
    chk.traces_validated += n
    what = '; '.join('%s in %s' % (d[:80], s) for s, f, d in offenders[:4])
    if bad:
        chk.violation('stdout:census', 'C14:stdout:non-output-code-writes-to-stdout',
                      'code other than the output producers writes to std::cout (%s); real program: %s' % (what, '; '.join(bad[:3])),
                      '#!/bin/sh\ncd %s && exec python3-vt -m props.replay_c14 stdout\n' % VERIF)
    else:
        chk.record('stdout:census', 'gap', 'std::cout referenced outside the known output producers (%s) but the stdout of the real '
                   'program does not depend on verbose output' % what, family='stdout-discipline')
        chk.not_covered.append('stdout discipline: new std::cout reference not classified (%s)' % what[:120])
