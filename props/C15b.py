"""C15 part 2: the writers hand the right doubles to the output (event traces of std::cout)."""
import z3

from .common import *
from .C14b import find
from .C15 import options_region, lib_uf, leafval, OUT_FORMATS
from symx.exec import Ptr, NULL, PathEnd
from symx import stubs as S


def uf_named(kind):
    def f(ex, st, args, I):
        return ex.leaf(st, 'uf:' + kind, [])
    return f


def run_writer(chk, mod, dem, fn, extra_ufs=None, fbe=None):
    ufs = dict(extra_ufs or {})
    st_ = dict(S.STRING_MODEL_STUBS)

    def copy_model(ex_, st, args, I):
        # model copy constructor: the copy is only handed to (uninterpreted) library functions
        dst, src = args[0], args[1]
        rd = ex_.region(st, dst)
        n = rd.size if rd.size is not None else 1 << 20
        rd.links.append((dst.off, n, src.rid, src.off))
        return None
    for n_, d_ in dem.items():
        if d_.startswith('gm2calc::MSSMNoFV_onshell::MSSMNoFV_onshell(gm2calc::MSSMNoFV_onshell const&)') or \
                d_.startswith('gm2calc::THDM::THDM(gm2calc::THDM const&)'):
            st_[n_] = copy_model
        if (d_.startswith('gm2calc::MSSMNoFV_onshell') or d_.startswith('gm2calc::THDM')) and '::~' in d_:
            st_[n_] = lambda ex_, st, args, I: None
    ex = executor(mod, RealDom(), extra_stubs=st_, ufs=ufs, fork_select=False)
    base = lib_uf(dem)

    def handler(ex_, st, name, args, I):
        d = dem.get(name, name)
        if 'fill_block_entry' in d and fbe is not None:
            return fbe(ex_, st, name, args, I, d)
        return base(ex_, st, name, args, I)
    ex.undefined_handler = handler
    ex.opaque_calls = True
    ex.max_steps = 400000
    st = X.State()
    this = ex.new_region(st, None, 'input', 'writer', lazy=True)
    m = ex.new_region(st, None, 'input', 'model', lazy=True)
    io = ex.new_region(st, None, 'input', 'slha_io', lazy=True)
    optr, f = options_region(ex, st, mod)
    args = []
    for (ty, pn, at) in mod.functions[fn].params:
        t = repr(ty)
        if 'Config_options' in t:
            args.append(optr)
        elif 'GM2_slha_io' in t:
            args.append(Ptr(io.rid, 0))
        elif 'MSSMNoFV_onshell' in t or 'THDM' in t and 'writer' not in t:
            args.append(Ptr(m.rid, 0))
        else:
            args.append(Ptr(this.rid, 0))
    st = ex.start(fn, args, st)
    paths = ex.explore(st)
    chk.absorb_executor(ex)
    return ex, paths, f


def cout_doubles(p):
    return [t for t in p.trace if t[2] == '_ZSt4cout']


def minimal(chk, mod, dem):
    for model in ('MSSMNoFV_onshell', 'THDM'):
        fns = find(mod, 'Minimal_writer<gm2calc::%s>::operator()' % model, exclude=('lambda',))
        ca = find(mod, 'calculate_amu(gm2calc::%s const&' % model)
        cu = find(mod, 'calculate_uncertainty<gm2calc::%s>' % model)
        ufs = {}
        for n in ca:
            ufs[n] = uf_named('CLI_calculate_amu')
        for n in cu:
            ufs[n] = uf_named('CLI_calculate_uncertainty')
        for fn in fns:
            chk.functions.add(dem[fn][:80])
            ex, paths, f = run_writer(chk, mod, dem, fn, ufs)
            for i, p in enumerate(paths):
                tag = 'minimal<%s>#%d' % (model, i)
                ds = [t for t in cout_doubles(p) if t[0] == 'double']
                if p.outcome[0] != 'ret' or len(ds) != 1:
                    chk.record(tag, 'inconclusive', 'outcome %r, %d doubles printed' % (p.outcome, len(ds)))
                    chk.inconclusive.append(tag)
                    continue
                v = ds[0][1]
                amu, unc = leafval(ex, 'CLI_calculate_amu'), leafval(ex, 'CLI_calculate_uncertainty')
                want_unc = chk.solve(p.pc + [f['calculate_uncertainty'] != 0], 5000)[0] == 'sat'
                want_amu = chk.solve(p.pc + [f['calculate_uncertainty'] == 0], 5000)[0] == 'sat'
                exp = unc if want_unc and not want_amu else amu if want_amu and not want_unc else None
                if exp is not None and isinstance(v, z3.ExprRef) and v.eq(exp):
                    chk.record(tag, 'discharged', family='writers',
                               sample={'obligation': 'minimal output (%s) prints %s' % (
                                   model, 'the uncertainty' if exp is unc else 'a_mu')})
                    chk.formulas.add(tag)
                else:
                    chk.violation(tag, 'C15:minimal:%s' % model, 'minimal writer prints %s for calculate_uncertainty=%s' % (
                        v, 'on' if want_unc else 'off'), None)


def slha(chk, mod, dem):
    for model in ('MSSMNoFV_onshell', 'THDM'):
        fns = find(mod, 'SLHA_writer<gm2calc::%s>::operator()' % model, exclude=('lambda',))
        ca = find(mod, 'calculate_amu(gm2calc::%s const&' % model)
        cu = find(mod, 'calculate_uncertainty<gm2calc::%s>' % model)
        ufs = {}
        for n in ca:
            ufs[n] = uf_named('CLI_calculate_amu')
        for n in cu:
            ufs[n] = uf_named('CLI_calculate_uncertainty')

        def fbe(ex, st, name, args, I, d):
            # fill_block_entry(this, block, key, value|string, [comment])
            blk = S.string_text(ex, st, args[1])
            st.data['entries'] = st.data.get('entries', ()) + ((blk.decode() if blk is not None else None, args[2], args[3]),)
            return None
        for fn in fns:
            chk.functions.add(dem[fn][:80])
            try:
                ex, paths, f = run_writer(chk, mod, dem, fn, ufs, fbe)
            except (Unsupported, PathEnd) as e:
                chk.record('slha<%s>' % model, 'inconclusive', 'executor: %s' % e)
                chk.inconclusive.append('slha<%s>' % model)
                continue
            amu, unc = leafval(ex, 'CLI_calculate_amu'), leafval(ex, 'CLI_calculate_uncertainty')
            for i, p in enumerate(paths):
                tag = 'slha<%s>#%d' % (model, i)
                if p.outcome[0] != 'ret':
                    chk.record(tag, 'inconclusive', 'path %r' % (p.outcome,))
                    chk.inconclusive.append(tag)
                    continue
                ents = [e for e in p.data.get('entries', ()) if e[0] != 'SPINFO']
                for fmt in (2, 3, 4, 0, 1):
                    if chk.solve(p.pc + [f['output_format'] == fmt], 5000)[0] != 'sat':
                        continue
                    want_blk, want_key = {2: ('LOWEN', 6), 3: ('SPhenoLowEnergy', 21)}.get(fmt, ('GM2CalcOutput', 0))
                    got = [e for e in ents if isinstance(e[2], z3.ExprRef) and amu is not None and e[2].eq(amu)]
                    ok = len(got) == 1 and got[0][0] == want_blk and got[0][1] == want_key
                    with_unc = chk.solve(p.pc + [f['calculate_uncertainty'] != 0], 5000)[0] == 'sat' and \
                        chk.solve(p.pc + [f['calculate_uncertainty'] == 0], 5000)[0] != 'sat'
                    gotu = [e for e in ents if isinstance(e[2], z3.ExprRef) and unc is not None and e[2].eq(unc)]
                    if with_unc:
                        ok = ok and len(gotu) == 1 and gotu[0][0] == 'GM2CalcOutput' and gotu[0][1] == 1
                    else:
                        ok = ok and not gotu
                    ok = ok and len(ents) == (2 if with_unc else 1)
                    if ok:
                        chk.record(tag + ':fmt%d' % fmt, 'discharged', family='writers',
                                   sample={'obligation': 'SLHA output (%s), format %s: a_mu -> %s[%d]%s' % (
                                       model, OUT_FORMATS[fmt], want_blk, want_key,
                                       ', uncertainty -> GM2CalcOutput[1]' if with_unc else ', no uncertainty entry')})
                        chk.formulas.add((tag, fmt))
                    else:
                        chk.violation(tag, 'C15:slha:%s:fmt%d' % (model, fmt),
                                      'SLHA writer (%s, format %d, uncertainty %s) writes %r' % (
                                          model, fmt, with_unc, [(e[0], e[1]) for e in ents]), None)


def lines_of(trace):
    """split the cout trace into lines of events"""
    lines = [[]]
    for t in trace:
        if t[0] == 'str' and t[1] is not None:
            parts = t[1].split('\n')
            for k, part in enumerate(parts):
                if k > 0:
                    lines.append([])
                if part:
                    lines[-1].append(('str', part))
        elif t[0] == 'char':
            if t[1] == 10:
                lines.append([])
            else:
                lines[-1].append(('str', chr(t[1]) if isinstance(t[1], int) else '?'))
        elif t[0] == 'double':
            lines[-1].append(('double', t[1]))
    return lines


def detailed(chk, mod, dem):
    for model in ('THDM', 'MSSMNoFV_onshell'):
        fns = find(mod, 'Detailed_writer<gm2calc::%s>::operator()' % model, exclude=('lambda',))
        for fn in fns:
            chk.functions.add(dem[fn][:80])
            try:
                ex, paths, f = run_writer(chk, mod, dem, fn)
            except (Unsupported, PathEnd) as e:
                chk.record('detailed<%s>' % model, 'inconclusive', 'executor: %s' % e)
                chk.inconclusive.append('detailed<%s>' % model)
                continue
            a1 = leafval(ex, 'gm2calc::calculate_amu_1loop')
            a2 = leafval(ex, 'gm2calc::calculate_amu_2loop')
            npct = 0
            for i, p in enumerate(paths):
                tag = 'detailed<%s>#%d' % (model, i)
                if p.outcome[0] != 'ret':
                    continue
                for ln in lines_of(cout_doubles(p)):
                    for k, ev in enumerate(ln):
                        if ev[0] != 'double' or k + 1 >= len(ln) or ln[k + 1][0] != 'str' or not ln[k + 1][1].startswith('%'):
                            continue
                        text = ln[k + 1][1]
                        comp = [e for e in ln[:k] if e[0] == 'double']
                        label = ''.join(e[1] for e in ln[:k] if e[0] == 'str').strip()
                        if 'of full 1L + 2L result' in text:
                            ref = zr(a1) + zr(a2)
                        elif 'of 2L result' in text:
                            ref = zr(a2)
                        else:
                            continue
                        if not comp or isinstance(ev[1], float) or isinstance(comp[-1][1], float):
                            continue
                        npct += 1
                        pv, cv = zr(ev[1]), zr(comp[-1][1])
                        r, m = chk.prove(tag + ':pct:' + label[:24], p.pc + [ref != 0, pv * ref != 100 * cv],
                                         family='percentages',
                                         sample={'obligation': 'detailed output (%s), line "%s": percentage == 100 x the '
                                                 'value printed on that line / the stated reference ("%s")' % (
                                                     model, label[:30], text.strip()[:32])})
                        if r == 'sat':
                            chk.violation(tag + ':pct', 'C15:detailed:%s:percentage:%s' % (model, label[:24].replace(' ', '_')),
                                          'detailed output (%s): the percentage printed on line "%s ... %s" is not '
                                          '100 x its own component / the stated reference' % (model, label[:30], text.strip()[:30]),
                                          '#!/bin/sh\ncd %s && exec python3-vt -m props.replay_c15 pct %s\n' % (VERIF, model))
                # headline: best value = 1L + 2L
            if npct == 0:
                chk.record('detailed<%s>' % model, 'inconclusive', 'no percentage found in the trace')
                chk.inconclusive.append('detailed<%s>' % model)


def defaults(chk, mod, dem):
    """default output format per input type (README: 4 for SLHA input, 1 for GM2Calc input; THDM: SLHA-like -> 4)"""
    for fn in find(mod, 'set_to_default('):
        chk.functions.add(dem[fn][:80])
        ex = executor(mod, RealDom(), extra_stubs=S.STRING_MODEL_STUBS, fork_select=False)
        ex.fast_throw = True
        st = X.State()
        optr, f = options_region(ex, st, mod)
        cmd = ex.new_region(st, 40, 'input', 'cmdline')
        it = z3.BitVec('input_type', 32)
        cmd.cells[32] = (it, 4)
        cmd.lazy = True
        st = ex.start(fn, [optr, Ptr(cmd.rid, 0)], st)
        paths = ex.explore(st)
        chk.absorb_executor(ex)
        want = {0: 4, 1: 1, 2: 4}
        for i, p in enumerate(paths):
            for t, fmt in want.items():
                if chk.solve(p.pc + [it == t], 5000)[0] != 'sat':
                    continue
                got = ex.load(p, optr, llir.I32) if p.outcome[0] == 'ret' else None
                if got == fmt:
                    chk.record('default-format[%d]' % t, 'discharged', family='defaults',
                               sample={'obligation': 'input type %d -> default output format %d' % (t, fmt)})
                    chk.formulas.add(('default', t))
                else:
                    chk.violation('default-format[%d]' % t, 'C15:default-format:%d' % t,
                                  'default output format for input type %d is %r, documented %d' % (t, got, fmt), None)


def run(chk, mod, dem):
    minimal(chk, mod, dem)
    slha(chk, mod, dem)
    detailed(chk, mod, dem)
    defaults(chk, mod, dem)
