"""replay for C12: native decomposition wrappers at concrete inputs
   herm N w0..  | symm N w0.. | svd N | disna N job d0.."""
import ctypes
import math
import sys
from .common import *


def rot(N):
    # fixed orthogonal matrix (product of plane rotations)
    import itertools
    Q = [[1.0 if i == j else 0.0 for j in range(N)] for i in range(N)]
    ang = 0.7
    for (a, b) in itertools.combinations(range(N), 2):
        c, s = math.cos(ang), math.sin(ang)
        for r in Q:
            ra, rb = r[a], r[b]
            r[a], r[b] = c * ra - s * rb, s * ra + c * rb
        ang += 0.9
    return Q


def main():
    kind = sys.argv[1]
    N = int(sys.argv[2])
    lib = harness_native('h_linalg')
    D = ctypes.c_double
    bad = 0
    if kind == 'disna':
        job = int(sys.argv[3])
        d = [float(x) for x in sys.argv[4:4 + N]]
        f = getattr(lib, 'vx_disna%d' % N)
        f.restype = ctypes.c_int
        da = (D * N)(*d)
        sep = (D * N)()
        info = f(job, da, sep)
        an = max(abs(d[0]), abs(d[-1]))
        th = 2.220446049250313e-16 * (an if an else 1.0)
        print('info', info, 'sep', list(sep), 'threshold', th)
        sys.exit(1 if info != 0 or any(s < th for s in sep) else 0)
    Q = rot(N)
    if kind in ('herm', 'symm'):
        w = [float(x) for x in sys.argv[3:3 + N]]
        w = (w + [0.0] * N)[:N]
        M = [[sum(Q[i][k] * w[k] * Q[j][k] for k in range(N)) for j in range(N)] for i in range(N)]
        m = (D * (N * N))(*[M[i][j] for j in range(N) for i in range(N)])
        if kind == 'herm':
            wo = (D * N)()
            zo = (D * (N * N))()
            getattr(lib, 'vx_fs_herm%d' % N)(m, wo, zo)
            Z = [[zo[i + N * j] for j in range(N)] for i in range(N)]
            for i in range(N):
                for j in range(N):
                    rec = sum(Z[k][i] * wo[k] * Z[k][j] for k in range(N))
                    if not (abs(rec - M[i][j]) <= 1e-10 * (1 + max(abs(x) for x in w))):
                        bad += 1
                    uni = sum(Z[i][k] * Z[j][k] for k in range(N))
                    if not (abs(uni - (1 if i == j else 0)) <= 1e-10):
                        bad += 1
            if any(abs(wo[i]) > abs(wo[i + 1]) + 1e-12 for i in range(N - 1)):
                bad += 1
            print('w =', list(wo), 'mismatches', bad)
        else:
            so = (D * N)()
            uo = (D * (2 * N * N))()
            getattr(lib, 'vx_fs_symm%d' % N)(m, so, uo)
            U = [[complex(uo[2 * (i + N * j)], uo[2 * (i + N * j) + 1]) for j in range(N)] for i in range(N)]
            for i in range(N):
                for j in range(N):
                    rec = sum(U[k][i] * so[k] * U[k][j] for k in range(N))
                    if not (abs(rec - M[i][j]) <= 1e-10 * (1 + max(abs(x) for x in w))):
                        bad += 1
                    uni = sum(U[i][k] * U[j][k].conjugate() for k in range(N))
                    if not (abs(uni - (1 if i == j else 0)) <= 1e-10):
                        bad += 1
            if any(s < 0 for s in so) or any(so[i] > so[i + 1] + 1e-12 for i in range(N - 1)):
                bad += 1
            print('s =', list(so), 'mismatches', bad)
    else:
        import random
        rnd = random.Random(5)
        for trial in range(20):
            M = [[rnd.uniform(-1, 1) * 10 ** rnd.randint(-3, 3) for j in range(N)] for i in range(N)]
            if trial == 0:
                M = [[0.0] * N for _ in range(N)]
            m = (D * (N * N))(*[M[i][j] for j in range(N) for i in range(N)])
            so, uo, vo = (D * N)(), (D * (N * N))(), (D * (N * N))()
            getattr(lib, 'vx_fs_svd%d' % N)(m, so, uo, vo)
            U = [[uo[i + N * j] for j in range(N)] for i in range(N)]
            V = [[vo[i + N * j] for j in range(N)] for i in range(N)]
            sc = 1 + max(abs(x) for r in M for x in r)
            for i in range(N):
                for j in range(N):
                    if not (abs(sum(U[k][i] * so[k] * V[k][j] for k in range(N)) - M[i][j]) <= 1e-10 * sc):
                        bad += 1
            if any(s < 0 for s in so) or any(so[i] > so[i + 1] for i in range(N - 1)):
                bad += 1
        print('svd mismatches', bad)
    sys.exit(1 if bad else 0)


if __name__ == '__main__':
    main()
