"""C11 - no spurious singularities: finite and continuous across mass degeneracies (per kernel)."""
import ctypes
import math
import os
import re
import subprocess
from fractions import Fraction as Fr
import mpmath
import z3

from .common import *
from .ffcommon import *
from symx.exec import Ptr

SRC = 'src/THDM/gm2_2loop_B.cpp'
KERNELS_SKIP = {'T7', 'T8'}      # complex sqrt/log of real arguments: not encoded


def kernel_harness():
    """wrappers for the anonymous-namespace kernels of gm2_2loop_B.cpp (names parsed from the source)"""
    txt = open(os.path.join(REPO, SRC)).read()
    anon_end = txt.index('} // anonymous namespace')
    head = txt[:anon_end]
    ks = []
    for m in re.finditer(r'^double (\w+)\(((?:double \w+(?:, )?)+)\) noexcept', head, re.M):
        name, params = m.group(1), [p.strip().split()[-1] for p in m.group(2).split(',')]
        ks.append((name, params))
    L = ['// generated: wrappers for the two-loop bosonic kernels', '// IRFLAGS: -fno-inline-functions',
         '#include "THDM/gm2_2loop_B.cpp"', 'extern "C" {']
    for name, params in ks:
        L.append('double vx_%s(%s) { return gm2calc::thdm::%s(%s); }' % (
            name, ', '.join('double ' + p for p in params), name, ', '.join(params)))
    L.append('}')
    path = os.path.join(build.scratch(), 'h_2lb_gen.cpp')
    if not (os.environ.get('VERIF_SCRATCH_CHILD') and os.path.exists(path)):
        open(path, 'w').write('\n'.join(L) + '\n')
    return path, ks


_k = {}


def kernel_module():
    if 'm' not in _k:
        path, ks = kernel_harness()
        _k['ks'] = ks
        _k['m'] = llir.load_module(build.compile_ir(path, 'h_2lb_gen', extra=['-fno-inline-functions']))
        _k['src'] = path
    return _k['m'], _k['ks']


def kernel_native():
    """native build: the kernels plus the real loop functions they call"""
    if 'so' not in _k:
        kernel_module()
        lib = build.build_library()
        so = build.compile_native(_k['src'], 'libh_2lb_gen.so', extra=['-shared', '-fPIC'],
                                  libs=[lib, '-Wl,-rpath,' + os.path.dirname(lib)])
        _k['so'] = ctypes.CDLL(so)
    return _k['so']


def uf(kind):
    def f(ex, st, args, I):
        a = [zr(x) if not isinstance(x, float) else None for x in args]
        if any(x is None for x in a):
            return math.nan
        return ex.leaf(st, kind, a)
    return f


def lib_ufs(mod):
    ufs = dict(LEAF_UFS)
    for n in list(mod.declares) + list(mod.functions):
        if n == '_ZN7gm2calc4f_PSEd':
            ufs[n] = uf('fps')
        elif n == '_ZN7gm2calc3PhiEddd':
            ufs[n] = uf('Phi')
    return ufs


def var_domain(name, v):
    if name in ('cw2',):
        return [v >= zr(Fr(7, 10)), v <= zr(Fr(85, 100))]
    if name in ('al',):
        return [v >= zr(Fr(1, 200)), v <= zr(Fr(1, 100))]
    return [v >= zr(Fr(1, 10 ** 4)), v <= zr(Fr(10 ** 4))]


def native_eval(name, vals):
    lib = kernel_native()
    f = native_fn(lib, 'vx_' + name, len(vals))
    return f(*[float(v) for v in vals])


def continuity_probe(name, params, pt, idx):
    """values of the kernel along the one-parameter path through pt in argument idx:
    d in {0, +-1e-13, ..., +-1e-4} must lie within 1% of the chord through d = +-1e-3 (property statement)"""
    base = [float(v) for v in pt]

    def at(d):
        v = list(base)
        v[idx] = base[idx] * (1 + d)
        return native_eval(name, v)
    lo, hi = at(-1e-3), at(1e-3)
    if not (math.isfinite(lo) and math.isfinite(hi)):
        return 'endpoints not finite', None
    scale = max(abs(lo), abs(hi))
    if abs(hi - lo) > 0.2 * scale:
        return None, None          # not a path on which the 1% band is meaningful
    worst = 0.0
    where = None
    for d in [0.0] + [s * 10.0 ** e for e in range(-13, -3) for s in (1, -1)]:
        val = at(d)
        chord = lo + (hi - lo) * (d + 1e-3) / 2e-3
        if not math.isfinite(val):
            return 'value at d=%g is %r' % (d, val), d
        dev = abs(val - chord) / scale if scale > 0 else abs(val - chord)
        if dev > worst:
            worst, where = dev, d
    if worst > 0.01:
        return 'deviates by %.3g of the magnitude from the chord at d=%g (chord ends %r, %r)' % (worst, where, lo, hi), where
    return None, None


def kernels(chk):
    mod, ks = kernel_module()
    ufs = lib_ufs(mod)
    for name, params in ks:
        if name in KERNELS_SKIP or name in ('shift', 'fb'):
            continue
        fn = 'vx_' + name
        chk.functions.add('gm2calc::thdm::(anon)::' + name)
        vs = [z3.Real(p) for p in params]
        ex = executor(mod, RealDom(), ufs=ufs)
        ex.max_steps = 200000
        st = ex.start(fn, vs)
        for p_, v in zip(params, vs):
            st.pc += var_domain(p_, v)
        try:
            paths = ex.explore(st)
        except (Unsupported,) as e:
            chk.record('kernel:' + name, 'gap', 'executor: %s' % e)
            chk.not_covered.append('kernel %s not executed (%s)' % (name, str(e)[:80]))
            continue
        chk.absorb_executor(ex)
        bad_seen = set()
        for i, p in enumerate(paths):
            tag = 'kernel:%s#%d' % (name, i)
            evs = [e for e in p.events if e[0] in ('fdiv-by-zero', 'log-zero', 'log-negative', 'sqrt-negative')]
            nonfinite = p.outcome[0] != 'ret' or isinstance(p.retval, float) or evs
            if not nonfinite:
                chk.record(tag, 'discharged', family='kernel-finiteness',
                           sample={'obligation': '%s: no division by zero / log or sqrt domain error reachable on this '
                                   'path for ratios in [1e-4,1e4], cw2 in [0.7,0.85]' % name,
                                   'regime': [str(c)[:60] for c in p.pc[2 * len(vs):][:3]]})
                chk.formulas.add(tag)
                continue
            kind = evs[0][0] if evs else str(p.outcome)
            r, m = chk.solve(p.pc, 20000)
            if r != 'sat':
                if r == 'unsat':
                    continue
                chk.record(tag, 'inconclusive', 'feasibility of a %s path undecided' % kind)
                chk.inconclusive.append(tag)
                continue
            pt = [m.real(v) for v in vs]
            # replay: value at the witness and continuity along every argument through it
            cls = kind
            if 'cw2' in params and len([q_ for q_ in params if q_ in ('u', 'w')]) == 2:
                fu, fw, fc = [float(pt[params.index(q_)]) for q_ in ('u', 'w', 'cw2')]
                lam = fu * fu + fw * fw + fc * fc - 2 * fu * fw - 2 * fu * fc - 2 * fw * fc
                if abs(lam) < 1e-6 * max(fu, fw, fc) ** 2:
                    cls = 'kallen-zero'      # lambda^2(u,w,cw2) = 0: Phi is set to 0 while the caller divides by lambda^2
            key = 'C11:%s:%s' % (name, cls)
            if key in bad_seen:
                continue
            msgs = []
            val = native_eval(name, pt)
            chk.traces_validated += 1
            if not math.isfinite(val):
                msgs.append('value %r' % val)
            for idx in range(len(vs)):
                msg, d = continuity_probe(name, params, pt, idx)
                chk.traces_validated += 22
                if msg:
                    msgs.append('along %s: %s' % (params[idx], msg))
            if msgs:
                bad_seen.add(key)
                chk.violation(tag, key, '%s at (%s): %s' % (
                    name, ', '.join('%s=%r' % (a, float(b)) for a, b in zip(params, pt)), '; '.join(msgs)[:400]),
                    '#!/bin/sh\ncd %s && exec python3-vt -m props.replay_c11 kernel %s %s\n' % (
                        VERIF, name, ' '.join(repr(float(x)) for x in pt)))
            else:
                # the singular configuration exists in exact arithmetic but the doubles around it behave:
                # removable in practice (guarded by a shift) - recorded as discharged by replay
                chk.record(tag, 'discharged', 'singular point %r of %s is finite and continuous in doubles' % (
                    [float(x) for x in pt], name), family='kernel-continuity',
                    sample={'obligation': '%s: exact-arithmetic singular configuration found by the solver; native '
                            'values at d=0,+-1e-13..+-1e-4 lie within 1%% of the chord through d=+-1e-3' % name,
                            'point': [float(x) for x in pt]})
                chk.formulas.add(tag)


def run(chk):
    chk.assumptions += [
        'REAL domain per kernel: Phi, f_PS, dilog, log are leaves; divisions fork on a vanishing divisor',
        'arguments: squared-mass ratios in [1e-4,1e4], cw2 in [0.7,0.85]',
        'a singular configuration found by the solver is replayed natively: value and the property\'s own '
        'continuity criterion (1% band around the chord through d = +-1e-3) along each argument',
    ]
    chk.not_covered += ['T7, T8 (complex square roots / logarithms)', 'degeneracies of full models (composition through '
                        'the spectrum calculation)', 'MSSM kernel amu1LBmuLmuR']
    kernels(chk)
    from . import C11b
    C11b.run(chk)
