"""C18 - uncertainty estimates are finite, non-negative and ordered as documented.

FP domain (bit-precise IEEE doubles); a_mu contributions and model getters are
uninterpreted values of an arbitrary model object."""
import math
import z3

from .common import *
from symx.domains import FPDom, fpval, FP64, RNE
from symx.exec import Ptr

P = '_ZN7gm2calc31calculate_uncertainty_amu_%dloopERKNS_%sE%s'
MSSM = '16MSSMNoFV_onshell'
THDM = '4THDM'


def uf_handler(ex, st, name, args, I):
    """undefined gm2calc function returning double: uninterpreted value depending on the model"""
    if 'gm2calc' not in name:
        return NotImplemented
    key = [z3.BitVecVal(hash(name) & 0xffffffff, 32)]
    return ex.leaf(st, 'uf:' + name, [])


def fin(v):
    return z3.And(z3.Not(z3.fpIsNaN(v)), z3.Not(z3.fpIsInf(v)))


def fabs(v):
    return z3.fpAbs(v)


def run_fn(mod, fname, nextra, leaves_cfg=None):
    ex = executor(mod, FPDom(), fork_select=False)
    ex.undefined_handler = uf_handler
    st = X.State()
    model = ex.new_region(st, None, 'input', 'model', lazy=True)
    extra = [z3.FP('amu_arg%d' % i, FP64) for i in range(nextra)]
    st = ex.start(fname, [Ptr(model.rid, 0)] + extra, st)
    paths = ex.explore(st)
    return ex, paths, extra


def leaf_of(ex, name_part):
    for (k, args, res) in ex.leaves:
        if name_part in k:
            return res
    return None


def run(chk):
    mod = harness_module('h_unc')
    chk.assumptions += [
        'a_mu contributions (calculate_amu_1loop/2loop, amu2LaCha, amu2LaSferm) and get_alpha_em are '
        'uninterpreted doubles of the model, bounded by |a| <= 1 (physical; without a bound a*d may overflow)',
        'THDM: model masses finite and non-zero, muon mass finite and > 0, 0 < alpha_em < 1, '
        '|log| of a finite positive double is <= 750; sign of log follows its argument',
        'libm log is a UF with those axioms; fmin/fabs exact',
    ]
    chk.bounds.update({'a_mu': '|a| <= 1', 'engine': 'QF_FP (cvc5, z3 fall-back)'})
    chk.stubs.update(['log (UF+axioms)', 'calculate_amu_* (UF)', 'get_alpha_em (UF)'])
    one = fpval(1.0)

    # ---------------- MSSM
    f2 = P % (2, MSSM, '')
    chk.functions.add(f2)
    ex, paths, _ = run_fn(mod, f2, 0)
    chk.absorb_executor(ex)
    assert len(paths) == 1 and paths[0].outcome[0] == 'ret', 'MSSM 2L uncertainty: unexpected paths'
    p = paths[0]
    d2 = p.retval
    cha = leaf_of(ex, 'amu2LaCha')
    sf = leaf_of(ex, 'amu2LaSferm')
    if cha is None or sf is None:
        chk.record('mssm:2L-structure', 'violated' if False else 'inconclusive',
                   'two-loop uncertainty does not read amu2LaCha/amu2LaSferm')
        chk.inconclusive.append('mssm:2L-structure')
    else:
        pre = p.pc + [fin(cha), fin(sf), z3.fpLEQ(fabs(cha), one), z3.fpLEQ(fabs(sf), one)]
        chk.witness('mssm:2L', pre, engine='fp')
        floor = fpval(2.3e-10)
        r, m = chk.prove('mssm:2L-finite-and-floor', pre + [z3.Not(z3.And(fin(d2), z3.fpGEQ(d2, floor)))],
                         engine='fp', family='mssm', timeout_ms=120000,
                         sample={'obligation': 'MSSM delta_2L finite and >= 2.3e-10 for all finite '
                                 '|amu2LaCha|,|amu2LaSferm| <= 1'})
        if r == 'sat':
            c, s_ = m.fp(cha), m.fp(sf)
            chk.violation('mssm:2L-floor', 'C18:mssm:2L-floor',
                          'MSSM two-loop uncertainty below floor / not finite for amu2LaCha=%r '
                          'amu2LaSferm=%r' % (c, s_), replay_mssm(c, s_))
        # documented formula: 2.3e-10 + 0.3 (|cha| + |sferm|)
        doc = z3.fpAdd(RNE, floor, z3.fpMul(RNE, fpval(0.3), z3.fpAdd(RNE, fabs(cha), fabs(sf))))
        r, m = chk.prove('mssm:2L-formula', pre + [z3.Not(z3.fpEQ(d2, doc))], engine='fp', family='mssm',
                         timeout_ms=120000,
                         sample={'obligation': 'MSSM delta_2L == 2.3e-10 + 0.3(|2L(a) cha| + |2L(a) sferm|) '
                                 'bit for bit'})
        if r == 'sat':
            c, s_ = m.fp(cha), m.fp(sf)
            chk.violation('mssm:2L-formula', 'C18:mssm:2L-formula',
                          'MSSM two-loop uncertainty differs from documented formula for amu2LaCha=%r '
                          'amu2LaSferm=%r' % (c, s_), replay_mssm(c, s_))
    # 1-loop: |a2L| + |delta2L| ; overloads agree
    f1a = P % (1, MSSM, 'd')
    f1 = P % (1, MSSM, '')
    chk.functions.update([f1a, f1])
    ex1, pa, extra = run_fn(mod, f1a, 1)
    ex1b, pb, _ = run_fn(mod, f1, 0)
    chk.absorb_executor(ex1)
    chk.absorb_executor(ex1b)
    a2 = extra[0]
    cha1, sf1 = leaf_of(ex1, 'amu2LaCha'), leaf_of(ex1, 'amu2LaSferm')
    if len(pa) == 1 and cha1 is not None and sf1 is not None:
        d1 = pa[0].retval
        d2e = z3.fpAdd(RNE, fpval(2.3e-10), z3.fpMul(RNE, fpval(0.3), z3.fpAdd(RNE, fabs(cha1), fabs(sf1))))
        pre = [fin(cha1), fin(sf1), fin(a2), z3.fpLEQ(fabs(cha1), one), z3.fpLEQ(fabs(sf1), one),
               z3.fpLEQ(fabs(a2), one)]
        doc = z3.fpAdd(RNE, fabs(a2), fabs(d2e))
        r, m = chk.prove('mssm:1L-formula', pre + [z3.Not(z3.fpEQ(d1, doc))], engine='fp', family='mssm',
                         timeout_ms=120000,
                         sample={'obligation': 'MSSM delta_1L == |a2L| + delta_2L, finite, >= delta_2L'})
        if r == 'sat':
            chk.violation('mssm:1L-formula', 'C18:mssm:1L-formula',
                          'MSSM one-loop uncertainty != |a2L| + delta2L at a2L=%r cha=%r sferm=%r' % (
                              m.fp(a2), m.fp(cha1), m.fp(sf1)), None)
        chk.prove('mssm:1L-finite-nonneg', pre + [z3.Not(z3.And(fin(d1), z3.fpGEQ(d1, fpval(0.0))))],
                  engine='fp', family='mssm', timeout_ms=120000)
    else:
        chk.record('mssm:1L-structure', 'inconclusive', 'unexpected structure')
        chk.inconclusive.append('mssm:1L-structure')
    # overload agreement: the 0-extra-arg overload is the 1-arg overload applied to calculate_amu_2loop
    if len(pb) == 1 and len(pa) == 1:
        a2l = leaf_of(ex1b, 'calculate_amu_2loop')
        chab, sfb = leaf_of(ex1b, 'amu2LaCha'), leaf_of(ex1b, 'amu2LaSferm')
        if a2l is None:
            chk.record('mssm:1L-overload', 'inconclusive', 'overload does not call calculate_amu_2loop')
            chk.inconclusive.append('mssm:1L-overload')
        else:
            sub = canon(z3.substitute(pa[0].retval, (a2, a2l), (cha1, chab), (sf1, sfb)))
            pb[0].retval = canon(pb[0].retval)
            r, m = chk.prove('mssm:1L-overload', [z3.Not(z3.Or(z3.fpEQ(sub, pb[0].retval),
                                                          z3.And(z3.fpIsNaN(sub), z3.fpIsNaN(pb[0].retval))))],
                             engine='fp', family='overloads',
                             sample={'obligation': 'calculate_uncertainty_amu_1loop(model) == '
                                     '..._1loop(model, calculate_amu_2loop(model))'})
            if r == 'sat':
                chk.violation('mssm:1L-overload', 'C18:mssm:1L-overload', 'overloads disagree', None)
    # 0-loop
    f0a = P % (0, MSSM, 'd')
    f0 = P % (0, MSSM, '')
    chk.functions.update([f0a, f0])
    ex0, p0, extra0 = run_fn(mod, f0a, 1)
    ex0b, p0b, _ = run_fn(mod, f0, 0)
    chk.absorb_executor(ex0)
    chk.absorb_executor(ex0b)
    if len(p0) == 1 and len(p0b) == 1:
        a1 = extra0[0]
        r, m = chk.prove('mssm:0L-formula', [z3.Not(z3.Or(z3.fpEQ(p0[0].retval, fabs(a1)), z3.fpIsNaN(a1)))],
                         engine='fp', family='mssm',
                         sample={'obligation': 'MSSM delta_0L == |a1L|'})
        if r == 'sat':
            chk.violation('mssm:0L-formula', 'C18:mssm:0L-formula', 'delta_0L != |a1L| at %r' % m.fp(a1), None)
        a1l = leaf_of(ex0b, 'calculate_amu_1loop')
        if a1l is not None:
            sub = z3.substitute(p0[0].retval, (a1, a1l))
            r, m = chk.prove('mssm:0L-overload', [z3.Not(z3.Or(z3.fpEQ(sub, p0b[0].retval), z3.fpIsNaN(a1l)))],
                             engine='fp', family='overloads')
            if r == 'sat':
                chk.violation('mssm:0L-overload', 'C18:mssm:0L-overload', 'overloads disagree', None)
        else:
            chk.record('mssm:0L-overload', 'inconclusive', 'no calculate_amu_1loop call')
            chk.inconclusive.append('mssm:0L-overload')

    thdm(chk, mod)


def thdm(chk, mod):
    one = fpval(1.0)
    f2 = P % (2, THDM, 'dd')
    chk.functions.add(f2)
    ex, paths, extra = run_fn(mod, f2, 2)
    chk.absorb_executor(ex)
    a1, a2 = extra
    # leaves: get_alpha_em (UF), log (UF); model loads are lazily created symbols
    logs = [(args, res) for (k, args, res) in ex.leaves if k == 'log']
    alpha = leaf_of(ex, 'get_alpha_em')
    floor = fpval(2e-12)
    base = [fin(a1), fin(a2), z3.fpLEQ(z3.fpAbs(a1), one), z3.fpLEQ(z3.fpAbs(a2), one)]
    if alpha is not None:
        base += [z3.fpGT(alpha, fpval(0.0)), z3.fpLT(alpha, one)]
    for i, p in enumerate(paths):
        if p.outcome[0] != 'ret':
            chk.record('thdm:2L#%d' % i, 'inconclusive', 'abnormal path %r' % (p.outcome,))
            chk.inconclusive.append('thdm:2L#%d' % i)
            continue
        d2 = p.retval
        pre = list(p.pc) + base
        # log contract for admissible models: argument finite, > 0 => |log| <= 750, sign as argument vs 1
        for args, res in logs:
            x = args[0]
            pre += [z3.fpGT(x, fpval(0.0)), fin(x), fin(res), z3.fpLEQ(z3.fpAbs(res), fpval(750.0)),
                    z3.Implies(z3.fpLT(x, one), z3.fpLEQ(res, fpval(0.0))),
                    z3.Implies(z3.fpGT(x, one), z3.fpGEQ(res, fpval(0.0)))]
        if not chk.witness('thdm:2L#%d' % i, pre, engine='fp', timeout_ms=120000):
            continue
        claim = z3.And(fin(d2), z3.fpGEQ(d2, floor))
        r, m = chk.solve(pre + [z3.Not(claim)], 20000, engine='fp')
        chk.note_formula(pre + [z3.Not(claim)])
        smp = {'obligation': 'THDM delta_2L finite and >= 2e-12 for every admissible model (masses finite '
               'non-zero, either side of m_mu), |a| <= 1'}
        if r == 'unsat':
            chk.record('thdm:2L-finite-and-floor#%d' % i, 'discharged', family='thdm', sample=smp)
        elif r == 'unknown':
            r = decomposed_floor(chk, i, pre, d2, a1, a2, floor, smp)
            m = None
        if r == 'sat' and m is not None:
            vals = {'a1': m.fp(a1), 'a2': m.fp(a2)}
            for args, res in logs:
                vals['log_arg'] = m.fp(args[0]) if z3.is_const(args[0]) else None
                vals['log'] = m.fp(res)
            chk.violation('thdm:2L-floor', 'C18:thdm:2L-floor',
                          'THDM two-loop uncertainty below its floor or not finite: %r' % vals,
                          replay_thdm(vals))
    # 1-loop and 0-loop formulas + overloads
    f1 = P % (1, THDM, 'dd')
    f0 = P % (0, THDM, 'dd')
    chk.functions.update([f1, f0])
    ex1, p1, e1 = run_fn(mod, f1, 2)
    chk.absorb_executor(ex1)
    ex2, p2, e2 = run_fn(mod, f2, 2)
    # delta_1L == |a2| + |delta_2L(same args)| on every pair of corresponding paths
    if len(p1) == len(p2):
        for i, (q1, q2) in enumerate(zip(p1, p2)):
            m1 = dict((str(k), v) for k, v in [])
            # align the symbolic inputs of the two executions: same leaf/lazy-load names by construction
            d2s = z3.substitute(q2.retval, (e2[0], e1[0]), (e2[1], e1[1]))
            d2s = canon(rename_leaves(d2s, ex2, ex1))
            q1.retval = canon(q1.retval)
            doc = canon(z3.fpAdd(RNE, z3.fpAbs(e1[1]), z3.fpAbs(d2s)))
            r, m = chk.prove('thdm:1L-formula#%d' % i,
                             list(q1.pc) + [z3.Not(z3.Or(z3.fpEQ(q1.retval, doc),
                                                         z3.And(z3.fpIsNaN(q1.retval), z3.fpIsNaN(doc))))],
                             engine='fp', family='thdm', timeout_ms=120000,
                             sample={'obligation': 'THDM delta_1L == |a2L| + |delta_2L| bit for bit'})
            if r == 'sat':
                chk.violation('thdm:1L-formula', 'C18:thdm:1L-formula', 'delta_1L != |a2L| + delta_2L', None)
    else:
        chk.record('thdm:1L-structure', 'inconclusive', 'path structure differs')
        chk.inconclusive.append('thdm:1L-structure')
    ex0, p0, e0 = run_fn(mod, f0, 2)
    chk.absorb_executor(ex0)
    if len(p0) == 1:
        doc = z3.fpAdd(RNE, z3.fpAbs(e0[0]), z3.fpAbs(e0[1]))
        r, m = chk.prove('thdm:0L-formula', [z3.Not(z3.Or(z3.fpEQ(p0[0].retval, doc), z3.fpIsNaN(doc)))],
                         engine='fp', family='thdm',
                         sample={'obligation': 'THDM delta_0L == |a1L| + |a2L|'})
        if r == 'sat':
            chk.violation('thdm:0L-formula', 'C18:thdm:0L-formula', 'delta_0L != |a1L|+|a2L|', None)
    # overloads computing a_mu themselves
    for lo in (0, 1, 2):
        fa = P % (lo, THDM, 'dd')
        fb = P % (lo, THDM, '')
        chk.functions.add(fb)
        exa, pa, ea = run_fn(mod, fa, 2)
        exb, pb, _ = run_fn(mod, fb, 0)
        chk.absorb_executor(exa)
        chk.absorb_executor(exb)
        l1 = leaf_of(exb, 'calculate_amu_1loop')
        l2 = leaf_of(exb, 'calculate_amu_2loop')
        if l1 is None or l2 is None or len(pa) != len(pb):
            chk.record('thdm:%dL-overload' % lo, 'inconclusive', 'overload structure unexpected')
            chk.inconclusive.append('thdm:%dL-overload' % lo)
            continue
        for i, (qa, qb) in enumerate(zip(pa, pb)):
            sub = z3.substitute(qa.retval, (ea[0], l1), (ea[1], l2))
            sub = canon(rename_leaves(sub, exa, exb))
            qb.retval = canon(qb.retval)
            r, m = chk.prove('thdm:%dL-overload#%d' % (lo, i),
                             list(qb.pc) + [z3.Not(z3.Or(z3.fpEQ(sub, qb.retval),
                                                         z3.And(z3.fpIsNaN(sub), z3.fpIsNaN(qb.retval))))],
                             engine='fp', family='overloads', timeout_ms=120000,
                             sample={'obligation': 'THDM calculate_uncertainty_amu_%dloop(model) == overload '
                                     'with calculate_amu_1loop/2loop(model) passed in' % lo})
            if r == 'sat':
                chk.violation('thdm:%dL-overload' % lo, 'C18:thdm:%dL-overload' % lo,
                              'overloads disagree', None)


_COMM = {z3.Z3_OP_FPA_ADD, z3.Z3_OP_FPA_MUL, z3.Z3_OP_FPA_MIN, z3.Z3_OP_FPA_MAX}


def canon(e, memo=None):
    """IEEE add/mul/min/max are commutative bit for bit: order their operands canonically so that
    a*d and d*a become the same term"""
    memo = {} if memo is None else memo
    k = e.get_id()
    if k in memo:
        return memo[k]
    ch = [canon(c, memo) for c in e.children()]
    if not ch:
        memo[k] = e
        return e
    if e.decl().kind() in _COMM:
        if len(ch) == 3:      # rounding mode first
            a, b = sorted(ch[1:], key=lambda t: t.sexpr())
            ch = [ch[0], a, b]
        else:
            ch = sorted(ch, key=lambda t: t.sexpr())
    r = e.decl()(*ch)
    memo[k] = r
    return r


def find_nodes(e, pred):
    seen = {}
    out = []

    def walk(t):
        if t.get_id() in seen:
            return
        seen[t.get_id()] = 1
        if pred(t):
            out.append(t)
        for c in t.children():
            walk(c)
    walk(e)
    return out


def decomposed_floor(chk, i, pre, d2, a1, a2, floor, smp):
    """assume-guarantee split of the bit-precise floor claim at the products |a_k * d|:
       L1  pre |- d finite, |d| <= 1e4
       L2  D finite, |D| <= 1e4, |a| <= 1 |- |D*a| finite, in [0, 1e4]
       L3  T1, T2 finite in [0, 1e4] |- delta[T1,T2] finite and >= floor"""
    prods = find_nodes(d2, lambda t: t.decl().kind() == z3.Z3_OP_FPA_ABS and
                       t.arg(0).decl().kind() == z3.Z3_OP_FPA_MUL and
                       any(c.eq(a1) or c.eq(a2) for c in t.arg(0).children()))
    if len(prods) != 2:
        chk.record('thdm:2L-finite-and-floor#%d' % i, 'inconclusive',
                   'monolithic FP query timed out and the |a*d| products were not found for the split')
        chk.inconclusive.append('thdm:2L-finite-and-floor#%d' % i)
        return 'unknown'
    ds = []
    for t in prods:
        for c in t.arg(0).children():
            if z3.is_fp(c) and not (c.eq(a1) or c.eq(a2)):
                ds.append(c)
    if len(ds) != 2 or not ds[0].eq(ds[1]):
        chk.record('thdm:2L-finite-and-floor#%d' % i, 'inconclusive', 'split: factors differ')
        chk.inconclusive.append('thdm:2L-finite-and-floor#%d' % i)
        return 'unknown'
    d = ds[0]
    big = fpval(1e4)
    ok = True
    r1, _ = chk.prove('thdm:2L-split-L1#%d' % i, pre + [z3.Not(z3.And(fin(d), z3.fpLEQ(z3.fpAbs(d), big)))],
                      engine='fp', family='thdm', timeout_ms=120000)
    D, A = z3.FP('D_cut', FP64), z3.FP('a_cut', FP64)
    T = z3.fpAbs(z3.fpMul(RNE, D, A))
    r2, _ = chk.prove('thdm:2L-split-L2#%d' % i,
                      [fin(D), z3.fpLEQ(z3.fpAbs(D), big), fin(A), z3.fpLEQ(z3.fpAbs(A), fpval(1.0)),
                       z3.Not(z3.And(fin(T), z3.fpGEQ(T, fpval(0.0)), z3.fpLEQ(T, big)))],
                      engine='fp', family='thdm', timeout_ms=120000)
    T1, T2 = z3.FP('T1_cut', FP64), z3.FP('T2_cut', FP64)
    d2c = z3.substitute(d2, (prods[0], T1), (prods[1], T2))
    r3, _ = chk.prove('thdm:2L-split-L3#%d' % i,
                      [fin(T1), fin(T2), z3.fpGEQ(T1, fpval(0.0)), z3.fpGEQ(T2, fpval(0.0)),
                       z3.fpLEQ(T1, big), z3.fpLEQ(T2, big),
                       z3.Not(z3.And(fin(d2c), z3.fpGEQ(d2c, floor)))],
                      engine='fp', family='thdm', timeout_ms=120000)
    if r1 == r2 == r3 == 'unsat':
        chk.record('thdm:2L-finite-and-floor#%d' % i, 'discharged', family='thdm', sample=smp)
        return 'unsat'
    if 'sat' in (r1, r2, r3):
        chk.record('thdm:2L-finite-and-floor#%d' % i, 'inconclusive', 'a split lemma is falsifiable')
        chk.inconclusive.append('thdm:2L-finite-and-floor#%d' % i)
    return 'unknown'


def rename_leaves(expr, ex_from, ex_to):
    """two executions of code reading the same model create differently numbered fresh symbols;
    map them by (kind, position) so that both refer to one model"""
    subs = []
    # lazily loaded model fields are named '<region>@<offset>!n' ; leaves 'kind!n'
    def base(nm):
        return nm.rsplit('!', 1)[0]
    names_to = {}
    for v in collect_consts(ex_to):
        names_to.setdefault(base(v.decl().name()), v)
    for v in collect_consts(ex_from):
        b = base(v.decl().name())
        if b in names_to and not names_to[b].eq(v):
            subs.append((v, names_to[b]))
    return z3.substitute(expr, *subs) if subs else expr


def collect_consts(ex):
    out = []
    for (k, args, res) in ex.leaves:
        out.append(res)
        for a in args:
            out += consts_of(a)
    return out


def consts_of(e):
    seen = {}
    def walk(t):
        if t.get_id() in seen:
            return
        seen[t.get_id()] = t
        for c in t.children():
            walk(c)
    walk(e)
    return [t for t in seen.values() if z3.is_const(t) and t.decl().kind() == z3.Z3_OP_UNINTERPRETED]


def replay_mssm(c, s):
    return '#!/bin/sh\ncd %s && exec python3-vt -m props.replay_c18 mssm %r %r\n' % (VERIF, c, s)


def replay_thdm(vals):
    return '#!/bin/sh\ncd %s && exec python3-vt -m props.replay_c18 thdm %r %r %r %r\n' % (
        VERIF, vals.get('a1'), vals.get('a2'), vals.get('log_arg'), vals.get('log'))
