"""C16 - unphysical input is rejected or flagged, never silently computed."""
import re
import z3
from fractions import Fraction as Fr

from .common import *
from .C14b import demangled, find
from symx.exec import Ptr, NULL, PathEnd, ThrowSignal
from symx import stubs as S

EINVALID = '_ZTIN7gm2calc13EInvalidInputE'
EPHYS = '_ZTIN7gm2calc16EPhysicalProblemE'
EPS = Fr(2.220446049250313e-16)


def getter_ufs(mod, dem, table, bools=()):
    """{mangled: handler} replacing the listed getters (demangled fragments) by named symbolic values"""
    vals = {}
    ufs = {}
    for frag, nm in table.items():
        is_bool = nm in bools
        v = z3.Bool(nm) if is_bool else z3.Real(nm)
        vals[nm] = v
        for n, d in dem.items():
            if frag in d:
                ufs[n] = (lambda vv: (lambda ex, st, args, I: vv))(v)
    return ufs, vals


def generic_ext(dem):
    def h(ex, st, name, args, I):
        d = dem.get(name, name)
        st.event('extcall', name=name, dem=d)
        rt = ex.m.resolve(I['ty'])
        if isinstance(rt, llir.VoidT):
            return None
        if isinstance(rt, llir.PtrT) and args and isinstance(args[0], Ptr):
            kn = ex.rid_names.get(args[0].rid)
            if kn and kn[1] in ('_ZSt4cout', '_ZSt4cerr'):
                return args[0]
            reg = ex.new_region(st, None, 'input', 'sub', lazy=True)
            return Ptr(reg.rid, 0)
        return ex.fresh_of(st, rt, 'ext')
    return h


def warned(p):
    return any(t[0] == 'str' and t[1] and 'Warning' in t[1] for t in p.trace)


def absz(v, eps=EPS):
    return z3.And(v < zr(eps), v > -zr(eps))


def mssm_check_input(chk, mod, dem):
    chk.functions.add('gm2calc::MSSMNoFV_onshell::check_input')
    ufs, V = getter_ufs(mod, dem, {
        'MSSMNoFV_onshell::get_MW() const': 'MW', 'MSSMNoFV_onshell::get_MZ() const': 'MZ',
        'MSSMNoFV_onshell::get_MM() const': 'MM', 'susy_parameters::get_Mu() const': 'Mu',
        'soft_parameters::get_MassB() const': 'M1', 'soft_parameters::get_MassWB() const': 'M2',
        'MSSMNoFV_onshell::get_TB() const': 'TB', 'do_force_output() const': 'force'}, bools=('force',))
    ex = executor(mod, RealDom(), extra_stubs=S.STRING_MODEL_STUBS, ufs=ufs, fork_select=False)
    ex.undefined_handler = generic_ext(dem)
    ex.fast_throw = True
    st = X.State()
    m = ex.new_region(st, None, 'input', 'model', lazy=True)
    st = ex.start('vx_check_input', [Ptr(m.rid, 0)], st)
    paths = ex.explore(st)
    chk.absorb_executor(ex)
    D = z3.Or(V['MW'] >= V['MZ'], absz(V['MW']), absz(V['MZ']), absz(V['MM']), absz(V['Mu']),
              absz(V['M1']), absz(V['M2']), absz(V['TB']))
    for i, p in enumerate(paths):
        tag = 'mssm:check_input#%d' % i
        if p.outcome[0] == 'throw':
            ok = p.outcome[1] == EINVALID
            r, m_ = chk.prove(tag + ':throw', p.pc + [z3.Or(V['force'], z3.Not(D))], family='mssm-input',
                              sample={'obligation': 'check_input throws EInvalidInput only for a documented defect '
                                      'with force-output off'})
            if r == 'sat' or not ok:
                chk.violation(tag, 'C16:mssm:check_input:spurious', 'check_input throws %s for valid input or under '
                              'force-output' % p.outcome[1], None)
        elif p.outcome[0] == 'ret':
            r, m_ = chk.prove(tag + ':accept', p.pc + [z3.Not(V['force']), D], family='mssm-input',
                              sample={'obligation': 'check_input returns normally with force-output off only if none '
                                      'of MW>=MZ, MW=0, MZ=0, m_mu=0, mu=0, M1=0, M2=0, tan(beta)=0 holds'})
            if r == 'sat':
                vals = {k: float(m_.real(v)) for k, v in V.items() if k != 'force'}
                chk.violation(tag, 'C16:mssm:check_input:accepts', 'check_input accepts the untreatable input %r' % vals,
                              replay_mssm_defect(vals))
            # forced: every defect is accompanied by a warning
            if chk.solve(p.pc + [V['force'], D], 5000)[0] == 'sat' and not warned(p):
                chk.violation(tag + ':warn', 'C16:mssm:check_input:silent', 'a defect is passed under force-output '
                              'without a warning', None)
        else:
            chk.record(tag, 'inconclusive', 'path %r' % (p.outcome,))
            chk.inconclusive.append(tag)


def mssm_get_tb(chk, mod, dem):
    chk.functions.add('gm2calc::MSSMNoFV_onshell::get_TB')
    ufs, V = getter_ufs(mod, dem, {'get_vd() const': 'vd', 'get_vu() const': 'vu'})
    ex = executor(mod, RealDom(), extra_stubs=S.STRING_MODEL_STUBS, ufs=ufs, fork_select=False)
    ex.undefined_handler = generic_ext(dem)
    ex.fast_throw = True
    st = X.State()
    m = ex.new_region(st, None, 'input', 'model', lazy=True)
    st = ex.start('vx_get_TB', [Ptr(m.rid, 0)], st)
    for i, p in enumerate(ex.explore(st)):
        tag = 'mssm:get_TB#%d' % i
        if p.outcome[0] == 'throw':
            chk.prove(tag, p.pc + [z3.Not(absz(V['vd']))], family='mssm-input',
                      sample={'obligation': 'get_TB throws only for vd = 0'})
        elif p.outcome[0] == 'ret':
            chk.prove(tag, p.pc + [z3.Or(absz(V['vd']), zr(p.retval) * V['vd'] != V['vu'])], family='mssm-input',
                      sample={'obligation': 'get_TB returns vu/vd and never divides by a vanishing vd'})
    chk.absorb_executor(ex)


def mssm_check_problems(chk, mod, dem):
    chk.functions.add('gm2calc::MSSMNoFV_onshell::check_problems')
    ufs, V = getter_ufs(mod, dem, {'do_force_output() const': 'force', 'problems::have_problem() const': 'have_problem',
                                   'get_MCha(int) const': 'MCha0'}, bools=('force', 'have_problem'))
    ex = executor(mod, RealDom(), extra_stubs=S.STRING_MODEL_STUBS, ufs=ufs, fork_select=False)
    ex.undefined_handler = generic_ext(dem)
    ex.fast_throw = True
    ex.opaque_calls = True
    st = X.State()
    m = ex.new_region(st, None, 'input', 'model', lazy=True)
    # materialise the 15 soft squared masses through the public accessors
    soft = []
    for which in range(5):
        for i in range(3):
            s2 = ex.start('vx_soft', [Ptr(m.rid, 0), which, i], st)
            rr = ex.explore(s2)
            soft.append(rr[0].retval)
            st = rr[0]
            st.outcome = None
            st.frames = []
    paths = []
    base_state = st
    # minCoeff() compares the diagonal entries with each other; to keep the path count small the
    # exploration is split by (matrix with possibly negative entries, index of its smallest entry),
    # with the order of the remaining entries fixed - 15 explorations cover every sign pattern of
    # one matrix at a time
    for free in range(5):
        for imin in range(3):
            s3 = base_state.fork()
            for mtx in range(5):
                d = [zr(soft[3 * mtx + k]) for k in range(3)]
                if mtx != free:
                    s3.pc += [d[0] >= 0, d[0] < d[1], d[1] < d[2]]
                else:
                    o = [imin] + [k for k in range(3) if k != imin]
                    s3.pc += [d[o[0]] < d[o[1]], d[o[1]] < d[o[2]]]
            s3 = ex.start('vx_check_problems', [Ptr(m.rid, 0)], s3)
            paths += ex.explore(s3)
    chk.absorb_executor(ex)
    chk.bounds['check_problems'] = ('negative entries in one soft mass matrix at a time; strict order of the '
                                    'diagonal entries fixed per exploration (15 explorations)')
    N = z3.Or([zr(s) < 0 for s in soft])
    C = absz(V['MCha0'])
    P = V['have_problem']
    F = V['force']
    for i, p in enumerate(paths):
        tag = 'mssm:check_problems#%d' % i
        if p.outcome[0] == 'throw':
            t = p.outcome[1]
            if t == EPHYS:
                claim = z3.And(z3.Not(F), P)
            elif t == EINVALID:
                claim = z3.And(z3.Not(F), z3.Or(N, C))
            else:
                claim = z3.BoolVal(False)
            r, m_ = chk.prove(tag + ':throw', p.pc + [z3.Not(claim)], family='mssm-problems',
                              sample={'obligation': 'check_problems: EPhysicalProblem only for a flagged problem, '
                                      'EInvalidInput only for a negative soft mass^2 or a massless chargino, both only '
                                      'with force-output off'})
            if r == 'sat':
                chk.violation(tag, 'C16:mssm:check_problems:spurious', 'check_problems throws %s without its cause' % t, None)
        elif p.outcome[0] == 'ret':
            r, m_ = chk.prove(tag + ':accept', p.pc + [z3.Not(F), z3.Or(P, N, C)], family='mssm-problems',
                              sample={'obligation': 'check_problems returns with force-output off only if no problem is '
                                      'flagged, all 15 soft masses^2 are >= 0 and the lightest chargino is massive'})
            if r == 'sat':
                what = 'problem flag' if m_.bool(P) else 'negative soft mass^2 / massless chargino'
                chk.violation(tag, 'C16:mssm:check_problems:accepts', 'check_problems ignores: %s' % what, None)
        else:
            chk.record(tag, 'inconclusive', 'path %r' % (p.outcome,))
            chk.inconclusive.append(tag)


def replay_mssm_defect(vals):
    return '#!/bin/sh\ncd %s && exec python3-vt -m props.replay_c16 mssm %s\n' % (
        VERIF, ' '.join('%s=%r' % kv for kv in sorted(vals.items())))


# ---------------------------------------------------------------------------- THDM

def yukawa_type(chk, mod, dem):
    chk.functions.add('gm2calc::thdm::int_to_cpp_yukawa_type')
    i = z3.BitVec('type', 32)
    ex = executor(mod, RealDom(), extra_stubs=S.STRING_MODEL_STUBS, fork_select=False)
    ex.undefined_handler = generic_ext(dem)
    ex.fast_throw = True
    st = ex.start('vx_yukawa_type', [i])
    for k, p in enumerate(ex.explore(st)):
        tag = 'thdm:yukawa_type#%d' % k
        valid = z3.And(i >= 1, i <= 6)
        if p.outcome[0] == 'throw':
            r, m = chk.prove(tag, p.pc + [valid], family='thdm-basis',
                             sample={'obligation': 'int_to_cpp_yukawa_type throws only outside 1..6'})
            if r == 'sat' or p.outcome[1] not in (EINVALID, '_ZTIN7gm2calc11ESetupErrorE'):
                chk.violation(tag, 'C16:thdm:yukawa_type:rejects-valid', 'Yukawa type %d rejected / wrong class %s' % (
                    m.bv(i) if m else 0, p.outcome[1]), None)
        elif p.outcome[0] == 'ret':
            rv = p.retval
            r, m = chk.prove(tag, p.pc + [z3.Or(z3.Not(valid), (rv if isinstance(rv, z3.ExprRef) else z3.BitVecVal(rv, 32)) != i)],
                             family='thdm-basis',
                             sample={'obligation': 'int_to_cpp_yukawa_type accepts exactly 1..6 and maps n to type n'})
            if r == 'sat':
                chk.violation(tag, 'C16:thdm:yukawa_type:accepts-invalid', 'Yukawa type %d accepted / mis-mapped' % m.bv(i),
                              '#!/bin/sh\ncd %s && exec python3-vt -m props.replay_c16 yukawa %d\n' % (VERIF, m.bv(i)))
    chk.absorb_executor(ex)


def run(chk):
    chk.assumptions += [
        'REAL domain for the decision logic (non-finite inputs: NaN passes every comparison-based guard; the '
        'documented list names infinite/NaN tan(beta) only for the MSSM, see not_covered)',
        'getters are replaced by named symbolic values; message formatting skipped; spectrum calculation and '
        'problem flags are uninterpreted (their correctness is C04/C08)',
    ]
    chk.not_covered += ['behaviour for NaN inputs', 'a result reported without error is a finite number (whole-model '
                        'numerics through Eigen; kernels are C11)']
    mod = harness_module('h_mssm_onshell')
    dem = demangled(mod)
    mssm_check_input(chk, mod, dem)
    mssm_get_tb(chk, mod, dem)
    mssm_check_problems(chk, mod, dem)
    from . import C16b
    C16b.run(chk)
    # tachyonic spectra are flagged: the tachyon-iff obligations of the spectrum steps (shared with C04)
    from . import C04, C04b
    c4 = C04.setup(chk)
    C04.matrices(chk, c4)
    C04b.run(chk, c4)
    chk.absorb_executor(c4.ex)
