"""Common machinery for the loop-function properties (C01, C02, C11)."""
import math
from fractions import Fraction as Fr
import mpmath
import sympy
import z3

from .common import *
from oracle import ffunctions as O

mpmath.mp.dps = 50

DILOG = '_ZN7gm2calc5dilogEd'
CL2 = '_ZN7gm2calc9clausen_2Ed'


def uf_dilog(ex, st, args, I):
    a = args[0]
    if isinstance(a, (Fr, int)):
        if a == 0:
            return Fr(0)
        a = zr(a)
    if isinstance(a, float):
        return math.nan
    return ex.leaf(st, 'li2', [a])


def uf_cl2(ex, st, args, I):
    a = args[0]
    if isinstance(a, (Fr, int)):
        if a == 0:
            return Fr(0)
        a = zr(a)
    if isinstance(a, float):
        return math.nan
    return ex.leaf(st, 'cl2', [a])


LEAF_UFS = {DILOG: uf_dilog, CL2: uf_cl2}


def nop_error_stub(ex, st, args, I):
    return args[0]


def poly_equal(a, b):
    """cheap syntactic/polynomial equality of two z3 real terms"""
    if a is b or a.get_id() == b.get_id():
        return True
    d = z3.simplify(a - b, som=True)
    return z3.is_rational_value(d) and d.numerator_as_long() == 0


class Leaves:
    """leaf lookup for the oracle side: reuse the variable the code side created for the same
    (kind, argument); otherwise create a fresh one"""

    def __init__(self, ex, pc=None):
        self.ex = ex
        self.pc = pc or []
        self.extra = []

    def get(self, kind, arg):
        if not isinstance(arg, z3.ExprRef):
            arg = zr(arg)
        for (k, args, res) in self.ex.leaves + self.extra:
            if k == kind and len(args) == 1 and poly_equal(args[0], arg):
                return res
        # semantic equality under the path condition
        for (k, args, res) in self.ex.leaves + self.extra:
            if k == kind and len(args) == 1:
                s = z3.Solver()
                s.set('timeout', 2000)
                s.add(self.pc)
                s.add(args[0] != arg)
                if s.check() == z3.unsat:
                    return res
        v = z3.Real('oracle_%s!%d' % (kind, len(self.extra)))
        self.extra.append((kind, (arg,), v))
        return v

    def log(self, a):
        return self.get('log', a)

    def li2(self, a):
        return self.get('li2', a)


# ---------------------------------------------------------------------------- mpmath evaluation

def mpf(x):
    if isinstance(x, Fr):
        return mpmath.mpf(x.numerator) / x.denominator
    return mpmath.mpf(x)


def mp_log(x):
    return mpmath.log(x)


def mp_li2(x):
    return mpmath.re(mpmath.polylog(2, x))


def mp_cl2(x):
    return mpmath.clsin(2, x)


def mp_ratlog(name, x):
    x = mpf(x)
    if x == 1:
        return mpmath.mpf(O.AT_ONE[name].numerator) / O.AT_ONE[name].denominator
    num, den = O.RATLOG[name](x, mp_log, mp_li2)
    return num / den


def mp_fPS(z):
    z = mpf(z)
    if z == 0:
        return mpmath.mpf(0)
    f = lambda x: mpmath.log(x * (1 - x) / z) / (x * (1 - x) - z)
    if z < 0.25:
        r = mpmath.sqrt(1 - 4 * z)
        pts = [0, (1 - r) / 2, 0.5, (1 + r) / 2, 1]
    else:
        pts = [0, 0.5, 1]
    return z * mpmath.quad(f, pts)


def mp_fPS_closed(z):
    """closed form of the integral (used only after the self test has compared it with quadrature)"""
    z = mpf(z)
    if z == 0:
        return mpmath.mpf(0)
    if z == mpmath.mpf(1) / 4:
        return mpmath.log(4)
    if z < mpmath.mpf(1) / 4:
        y = mpmath.sqrt(1 - 4 * z)
        a = 1 - (1 - y) / (2 * z)
        b = 1 - (1 + y) / (2 * z)
        return 2 * z / y * (mp_li2(a) - mp_li2(b))
    y = mpmath.sqrt(4 * z - 1)
    th = 2 * mpmath.asin(1 / (2 * mpmath.sqrt(z)))
    return 4 * z / y * mp_cl2(th)


def mp_family(name, z):
    z = mpf(z)
    if name == 'f_PS':
        return mp_fPS_closed(z)
    if name == 'f_CSl':
        if z == 0:
            return mpmath.mpf(0)
        return O.f_CSl_def(z, mpmath.log(z), mp_li2(1 - 1 / z), mpmath.pi ** 2 / 6)
    if z == 0:
        return mpmath.mpf(0)
    return O.FPS_FAMILY[name](z, mp_fPS_closed(z), mpmath.log(z))


def mp_oracle(name, x):
    if name in O.RATLOG:
        return mp_ratlog(name, x)
    return mp_family(name, x)


# ---------------------------------------------------------------------------- series oracles (sympy)

def series_def_poly(name, K):
    """definition of a rational-log function around x = 1 as a polynomial in d = x - 1 and
    remainder symbols r_log, r_li2, valid for |d| <= D with
        log(1+d)  = S_K(d) + r_log d^(K+1),  |r_log| <= 1/((K+1)(1-D))
        Li2(-d)   = T_K(d) + r_li2 d^(K+1),  |r_li2| <= 1/((K+1)^2 (1-D))
    The pole d^-m is cancelled symbolically (the low-order coefficients must vanish identically)."""
    d, rl, rd = sympy.symbols('d r_log r_li2')
    x = 1 + d
    S = sum(sympy.Rational((-1) ** (k + 1), k) * d ** k for k in range(1, K + 1)) + rl * d ** (K + 1)
    T = sum(sympy.Rational((-1) ** k, k * k) * d ** k for k in range(1, K + 1)) + rd * d ** (K + 1)
    used = {'log': False, 'li2': False}

    def log(a):
        assert sympy.expand(a - x) == 0
        used['log'] = True
        return S

    def li2(a):
        assert sympy.expand(a - (1 - x)) == 0
        used['li2'] = True
        return T

    num, den = O.RATLOG[name](x, log, li2)
    m = O.POLE[name]
    num = sympy.Poly(sympy.expand(num), d)
    den = sympy.Poly(sympy.expand(den), d)
    # den = c d^m
    dc = den.all_coeffs()
    assert all(c == 0 for c in dc[1:]) and den.degree() == m, 'denominator is not c*d^m'
    c = dc[0]
    coeffs = num.all_coeffs()[::-1]      # ascending
    for k in range(m):
        if k < len(coeffs):
            assert sympy.expand(coeffs[k]) == 0, 'pole of %s does not cancel at order %d' % (name, k)
    quotient = sum(sympy.expand(coeffs[k] / c) * d ** (k - m) for k in range(m, len(coeffs)))
    return sympy.expand(quotient), (d, rl, rd), used


def split_remainder(expr, dsym, rsyms, D, rbounds):
    """expr polynomial in d and remainder symbols: returns (A(d), Ebound) with
    |expr - A(d)| <= Ebound for |d| <= D, |r_i| <= rbounds[i]"""
    poly = sympy.Poly(sympy.expand(expr), dsym, *rsyms)
    A = 0
    E = Fr(0)
    for monom, coeff in poly.terms():
        if all(e == 0 for e in monom[1:]):
            A += coeff * dsym ** monom[0]
        else:
            c = sympy.Rational(coeff)
            t = abs(Fr(int(c.p), int(c.q))) * Fr(D) ** monom[0]
            for e, rb in zip(monom[1:], rbounds):
                t *= Fr(rb) ** e
            E += t
    return sympy.expand(A), E


def sympy_to_z3(expr, env):
    """polynomial with rational coefficients -> z3 real"""
    expr = sympy.expand(expr)
    poly = sympy.Poly(expr, *env.keys())
    total = None
    for monom, coeff in poly.terms():
        t = z3.RealVal(str(sympy.Rational(coeff)))
        for sym, e in zip(poly.gens, monom):
            for _ in range(e):
                t = t * env[sym]
        total = t if total is None else total + t
    return total if total is not None else z3.RealVal(0)


def horner_z3(expr, var_sym, var_z3, others):
    """univariate-in-var Horner form (coefficients may contain other symbols)"""
    poly = sympy.Poly(sympy.expand(expr), var_sym)
    cs = poly.all_coeffs()
    acc = None
    for c in cs:
        cz = sympy_to_z3(c, others) if c.free_symbols else z3.RealVal(str(sympy.Rational(c)))
        acc = cz if acc is None else acc * var_z3 + cz
    return acc
