"""C20 part 3: the running fermion masses used by the THDM Yukawa couplings are bypassed exactly when running couplings are
disabled (THDM::get_mu/get_md/get_ml): decided on every path for arbitrary scale and configuration."""
import z3

from .common import *
from .C14b import demangled
from .modelprobe import probe, ext_handler
from symx.exec import Ptr

RUN = {0: ('calculate_mt_SM6_MSbar', 'mt'), 1: ('calculate_mb_SM6_MSbar', 'mb'), 2: ('calculate_mtau_SM6_MSbar', 'mtau')}


def run(chk):
    fam = 'thdm-running-mass-bypass'
    chk.functions.update(['THDM::get_mu(double)', 'THDM::get_md(double)', 'THDM::get_ml(double)'])
    mod = harness_module('h_thdm_model')
    dem = demangled(mod)
    ex = executor(mod, RealDom(), fork_select=True)
    ex.undefined_handler = ext_handler(dem)
    st = X.State()
    reg = ex.new_region(st, None, 'input', 'thdm', lazy=True)
    mp = Ptr(reg.rid, 0)
    spec = {}
    for f in range(3):
        for i in range(3):
            spec['m%d%d' % (f, i)] = ('vx_sm_m', [f, i])
    ex.fork_select = False
    st, V = probe(ex, st, mp, spec)
    ex.fork_select = True
    V = {k: zr(v) for k, v in V.items()}
    scale = z3.Real('scale')
    for f in range(3):
        for i in range(3):
            # the configuration flag is read inside: fork on it; observe it through the accessor afterwards
            rr = ex.explore(ex.start('vx_mfs', [mp, f, i, scale], st.fork()))
            for pi, p in enumerate(rr):
                tag = 'bypass:%s(%d)#%d' % ('udl'[f], i, pi)
                if p.outcome[0] != 'ret' or isinstance(p.retval, float):
                    r, m = chk.solve(list(p.pc), 10000)
                    if r != 'unsat':
                        chk.record(tag, 'inconclusive', 'path %r' % (p.outcome,), family=fam)
                        chk.inconclusive.append(tag)
                    continue
                got = zr(p.retval)
                p.outcome = None
                p.frames = []
                p.retval = None
                q = ex.explore(ex.start('vx_running', [mp], p.fork()))
                if len(q) != 1 or q[0].outcome[0] != 'ret':
                    chk.record(tag, 'inconclusive', 'configuration flag accessor forked', family=fam)
                    chk.inconclusive.append(tag)
                    continue
                rv = q[0].retval
                run = z3.BoolVal(rv != 0) if isinstance(rv, int) else (rv != 0)
                pcq = list(q[0].pc)
                leaf = [ex.leaves[j] for j in p.leaves if RUN[f][0] in ex.leaves[j][0]]
                plain = V['m%d%d' % (f, i)]
                if i != 2:
                    bad = got != plain
                    what = 'generations 1 and 2: the mass is the SM input value for every scale and configuration'
                else:
                    scale_ok = z3.Or([z3.And(got == l[2], zr(l[1][-1]) == scale) for l in leaf]) if leaf else z3.BoolVal(False)
                    bad = z3.Or(z3.And(z3.Not(run), got != plain), z3.And(run, scale > 0, z3.Not(scale_ok)), z3.And(run, scale <= 0, got != plain))
                    what = ('third generation: the SM input value when running couplings are disabled (or scale <= 0), %s(..., scale) '
                            'when they are enabled' % RUN[f][0])
                cons = pcq + [bad]
                r, m = chk.prove(tag, cons, family=fam, sample={'obligation': 'THDM::get_m%s: %s' % ('udl'[f], what)})
                if r == 'sat':
                    chk.violation(tag, 'C20:thdm-running-bypass:%s' % 'udl'[f],
                                  'THDM::get_m%s(scale): %s - violated' % ('udl'[f], what),
                                  '#!/bin/sh\ncd %s && exec python3-vt -m props.replay_c09 types\n' % VERIF)
    chk.absorb_executor(ex)
