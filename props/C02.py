"""C02 - multi-variable loop functions: definition, symmetry and degenerate limits."""
import itertools
import math
import os
from fractions import Fraction as Fr
import mpmath
import z3

from .common import *
from .ffcommon import *

LO, HI = Fr(1, 10 ** 6), Fr(10 ** 6)
G3 = '_ZN7gm2calc2G3Ed'
G4 = '_ZN7gm2calc2G4Ed'
FPSn = '_ZN7gm2calc4f_PSEd'
FSn = '_ZN7gm2calc3f_SEd'
FCSL = '_ZN7gm2calc5f_CSlEd'
FCSU = '_ZN7gm2calc5f_CSuEdddd'
FCSD = '_ZN7gm2calc5f_CSdEdddd'


def uf(kind):
    def f(ex, st, args, I):
        a = [zr(x) if not isinstance(x, float) else None for x in args]
        if any(x is None for x in a):
            return math.nan
        return ex.leaf(st, kind, a)
    return f


UFS = dict(LEAF_UFS)
UFS.update({G3: uf('G3'), G4: uf('G4'), FPSn: uf('fps'), FSn: uf('fS'), FCSL: uf('fCSl'), FCSU: uf('fCSu'),
            FCSD: uf('fCSd')})

SIG = {'Fa': 'dd', 'Fb': 'dd', 'Iabc': 'ddd', 'Phi': 'ddd', 'lambda_2': 'ddd', 'FPZ': 'dd', 'FSZ': 'dd',
       'FCWl': 'dd', 'FCWu': 'dddddd', 'FCWd': 'dddddd'}
TOLS = {'Fa': Fr(1, 10 ** 4), 'Fb': Fr(1, 10 ** 4)}


def leaf(ex, kind, args, pc):
    """oracle-side lookup of a leaf with given argument terms (semantic equality under pc)"""
    for (k, a, res) in ex.leaves:
        if k != kind or len(a) != len(args):
            continue
        if all(poly_equal(x, zr(y)) for x, y in zip(a, args)):
            return res
    for (k, a, res) in ex.leaves:
        if k != kind or len(a) != len(args):
            continue
        s = z3.Solver()
        s.set('timeout', 3000)
        s.add(pc)
        s.add(z3.Or([x != zr(y) for x, y in zip(a, args)]))
        if s.check() == z3.unsat:
            return res
    ex.fresh_cnt += 1
    v = z3.Real('oracle_%s!%d' % (kind, ex.fresh_cnt))
    ex.leaves.append((kind, tuple(zr(y) for y in args), v))
    return v


def congruence(ex):
    """f(a) == f(b) whenever a == b, instantiated for all pairs of leaves of one kind"""
    out = []
    by = {}
    for (k, a, r) in ex.leaves:
        by.setdefault((k, len(a)), []).append((a, r))
    for (k, n), lst in by.items():
        for (a1, r1), (a2, r2) in itertools.combinations(lst, 2):
            out.append(z3.Implies(z3.And([x == y for x, y in zip(a1, a2)]), r1 == r2))
    return out


def reachable_quots(ex, exprs):
    """ids of the quotient variables occurring in exprs, transitively through their definitions"""
    out = set()
    todo = list(exprs)
    seen = set()
    while todo:
        t = todo.pop()
        if not isinstance(t, z3.ExprRef) or t.get_id() in seen:
            continue
        seen.add(t.get_id())
        qi = ex.quots.get(t.get_id())
        if qi is not None:
            out.add(t.get_id())
            todo.extend([x for x in qi if isinstance(x, z3.ExprRef)])
        todo.extend(t.children())
    return out


def quotient_equalities(ex, relevant=None):
    """derived equalities between quotient variables of the executor: q1 = a1/b1 and q2 = a2/b2 are equal
    when a1*b2 - a2*b1 vanishes identically (after substituting the equalities already found);
    sound on every path (divisors are non-zero there) and turns nested quotients of scaled
    arguments into syntactic identities for the solver"""
    items = [(qid, ab) for qid, ab in ex.quots.items()]
    if relevant is not None:
        keep = reachable_quots(ex, relevant)
        items = [(qid, ab) for qid, ab in items if qid in keep]
    qvars = {}
    for (k, v) in ex.leaf_memo.items():
        if isinstance(k, tuple) and k and k[0] == 'div' and isinstance(v, z3.ExprRef):
            qvars[v.get_id()] = v
    subs = []
    eqs = []
    changed = True
    rounds = 0
    done = set()
    while changed and rounds < 6:
        changed = False
        rounds += 1
        lst = [(qvars[i], ab) for i, ab in items if i in qvars]
        for i in range(len(lst)):
            for j in range(i):
                if (i, j) in done:
                    continue
                q1, (a1, b1) = lst[i]
                q2, (a2, b2) = lst[j]
                e = a1 * b2 - a2 * b1
                if subs:
                    e = z3.substitute(e, *subs)
                d = z3.simplify(e, som=True)
                if z3.is_rational_value(d) and d.numerator_as_long() == 0:
                    done.add((i, j))
                    eqs.append(q1 == q2)
                    subs.append((q1, q2))
                    changed = True
    return eqs


def log_quotient_axioms(ex):
    """log(a/b) = log a - log b for every log leaf whose argument is a quotient variable of the executor"""
    out = []
    logs = [(a[0], r) for (k, a, r) in ex.leaves if k == 'log']
    for arg, res in list(logs):
        qi = ex.quots.get(arg.get_id())
        if qi is None:
            continue
        num, den = qi
        ln = leaf(ex, 'log', [num], [])
        ld = leaf(ex, 'log', [den], [])
        out.append(res == ln - ld)
    return out


def explore(mod, name, vs, pc, ufs=UFS, **kw):
    ex = executor(mod, RealDom(), ufs=ufs, **kw)
    st = ex.start(mangle_fn(name, SIG[name]), list(vs))
    st.pc += pc
    return ex, ex.explore(st)


def box(vs):
    return [z3.And(v >= zr(LO), v <= zr(HI)) for v in vs]


# ---------------------------------------------------------------------------- definitions

def def_divided_difference(kind):
    """Fa = -(G3(x)-G3(y))/(x-y), Fb likewise with G4 (arXiv:1003.5820 (37)-(40));
    FPZ/FSZ/FCWl = (y f(x) - x f(y))/(x-y) (arXiv:1607.06292 App. A)"""
    def d(ex, p, vs):
        x, y = vs[:2]
        if kind in ('G3', 'G4'):
            fx, fy = leaf(ex, kind, [x], p.pc), leaf(ex, kind, [y], p.pc)
            return (fy - fx), (x - y)          # -(f(x)-f(y))/(x-y)
        fx, fy = leaf(ex, kind, [x], p.pc), leaf(ex, kind, [y], p.pc)
        return (y * fx - x * fy), (x - y)
    return d


DEFS = {'Fa': def_divided_difference('G3'), 'Fb': def_divided_difference('G4'),
        'FPZ': def_divided_difference('fps'), 'FSZ': def_divided_difference('fS'),
        'FCWl': def_divided_difference('fCSl')}


def mp_G3(x):
    return ((x - 1) * (x - 3) + 2 * mpmath.log(x)) / (2 * (x - 1) ** 3)


def mp_G4(x):
    return ((x - 1) * (x + 1) - 2 * x * mpmath.log(x)) / (2 * (x - 1) ** 3)


def mp_Iabc(a, b, c):
    a2, b2, c2 = a * a, b * b, c * c
    return (a2 * b2 * mpmath.log(a2 / b2) + b2 * c2 * mpmath.log(b2 / c2) + c2 * a2 * mpmath.log(c2 / a2)) / \
        ((a2 - b2) * (b2 - c2) * (a2 - c2))


def mp_oracle2(name, args):
    mpmath.mp.dps = 90
    mpmath.mp.dps = 250
    a = [mpf(Fr(v)) for v in args]
    eps = mpmath.mpf(10) ** -25

    def sep(vals):
        # separate exactly equal / unit arguments by a tiny relative amount (removable singularities)
        out = list(vals)
        for i in range(len(out)):
            for j in range(i):
                if out[i] == out[j]:
                    out[i] = out[i] * (1 + eps * (i + 1))
            if out[i] == 1:
                out[i] = out[i] * (1 + eps * (i + 3))
        return out
    if name in ('Fa', 'Fb'):
        x, y = sep(a)
        g = mp_G3 if name == 'Fa' else mp_G4
        return -(g(x) - g(y)) / (x - y)
    if name == 'Iabc':
        x, y, z = sep(a)
        return mp_Iabc(x, y, z)
    if name in ('FPZ', 'FSZ', 'FCWl'):
        x, y = sep(a)
        f = {'FPZ': lambda t: mp_family('f_PS', t), 'FSZ': lambda t: mp_family('f_S', t),
             'FCWl': lambda t: mp_family('f_CSl', t)}[name]
        return (y * f(x) - x * f(y)) / (x - y)
    raise KeyError(name)


def native_check(chk, lib, name, vals, tol, why):
    f = native_fn(lib, mangle_fn(name, SIG[name]), len(vals))
    fv = [float(v) for v in vals]
    got = f(*fv)
    chk.traces_validated += 1
    try:
        ref = mp_oracle2(name, fv)
    except Exception:
        return None
    scale = max(abs(ref), mpmath.mpf(10) ** -300)
    err = abs(mpmath.mpf(got) - ref) / scale if got == got else mpmath.inf
    if err > float(tol):
        chk.violation('%s:%s' % (name, why), 'C02:%s:%s' % (name, why),
                      '%s%r = %r but the definition gives %s (rel. err %s > %g) [%s]' % (
                          name, tuple(fv), got, mpmath.nstr(ref, 15), mpmath.nstr(err, 3), float(tol), why),
                      '#!/bin/sh\ncd %s && exec python3-vt -m props.replay_ff %s %s %s %g\n' % (
                          VERIF, name, mangle_fn(name, SIG[name]), ' '.join(repr(v) for v in fv), float(tol)))
        return True
    return False


def identities(chk, mod, lib):
    for name, dfn in DEFS.items():
        chk.functions.add(mangle_fn(name, SIG[name]))
        vs = [z3.Real('x'), z3.Real('y')]
        ex, paths = explore(mod, name, vs, box(vs))
        chk.absorb_executor(ex)
        tol = TOLS.get(name, Fr(1, 10 ** 6))
        ngen = 0
        for i, p in enumerate(paths):
            tag = '%s#%d' % (name, i)
            if p.outcome[0] != 'ret' or isinstance(p.retval, float):
                r, m = chk.solve(p.pc)
                pt = [m.real(v) for v in vs] if m else [1, 2]
                if native_check(chk, lib, name, pt, tol, 'nonfinite') is not True:
                    chk.record(tag, 'inconclusive', 'abnormal path %r' % (p.outcome,))
                    chk.inconclusive.append(tag)
                continue
            num, den = dfn(ex, p, vs)
            ret = zr(p.retval)
            cons = p.pc + congruence(ex)
            r, m = chk.solve(cons + [den != 0, ret * den != num], 20000)
            chk.note_formula(cons + [ret * den != num])
            if r == 'unsat':
                ngen += 1
                chk.record(tag + ':identity', 'discharged', family='closed-form-identity',
                           sample={'obligation': '%s(x,y): code == divided difference of its one-variable function, '
                                   'all x,y on the path' % name})
                continue
            # degenerate / expansion regime: arguments must be (nearly) equal or zero there
            mx = z3.If(vs[0] >= vs[1], vs[0], vs[1])
            wide = z3.Or(vs[0] - vs[1] > zr(Fr(1001, 10 ** 6)) * mx, vs[1] - vs[0] > zr(Fr(1001, 10 ** 6)) * mx)
            r2, m2 = chk.prove(tag + ':regime-extent', p.pc + [wide], family='expansion-vs-definition',
                               sample={'obligation': '%s: a regime other than the closed form is used only for '
                                       '|x-y| <= 1e-3 max(x,y)' % name})
            if r2 == 'sat':
                # look for a far-out point of the regime: ladder of separations
                lo_, hi_ = z3.If(vs[0] <= vs[1], vs[0], vs[1]), mx
                for fac in (Fr(2), Fr(13, 10), Fr(105, 100), Fr(101, 100), Fr(1002, 1000)):
                    r4, m4 = chk.solve(p.pc + [hi_ >= zr(fac) * lo_], 10000)
                    if r4 == 'sat':
                        m2 = m4
                        break
            if r2 == 'sat':
                pt = [m2.real(v) for v in vs]
                if native_check(chk, lib, name, pt, tol, 'expansion-window') is not True:
                    chk.record(tag + ':regime-extent', 'inconclusive', 'sat at %r not reproduced' % ([float(v) for v in pt],))
                    chk.inconclusive.append(tag + ':regime-extent')
            # witness inside the regime: replay against the definition
            r3, m3 = chk.solve(p.pc, 10000)
            if m3 is not None:
                pt = [m3.real(v) for v in vs]
                native_check(chk, lib, name, pt, tol, 'expansion-point')
        if ngen == 0:
            chk.record(name + ':generic', 'inconclusive', 'no closed-form path found')
            chk.inconclusive.append(name + ':generic')


def iabc_identity(chk, mod, lib):
    """generic regime of Iabc against arXiv:1311.1775 (6.4) with log a^2, log b^2, log c^2 as leaves"""
    name = 'Iabc'
    chk.functions.add(mangle_fn(name, SIG[name]))
    a, b, c = [z3.Real(n) for n in 'abc']
    order = [a < b, b < c]        # one ordering; the others follow from the symmetry obligations
    ex, paths = explore(mod, name, [a, b, c], [z3.And(v >= zr(Fr(1, 1000)), v <= zr(Fr(1000))) for v in (a, b, c)] + order)
    chk.absorb_executor(ex)
    a2, b2, c2 = a * a, b * b, c * c
    ngen = 0
    for i, p in enumerate(paths):
        tag = 'Iabc#%d' % i
        if p.outcome[0] != 'ret' or isinstance(p.retval, float):
            chk.record(tag, 'inconclusive', 'abnormal path')
            chk.inconclusive.append(tag)
            continue
        la, lb, lc = [leaf(ex, 'log', [t], p.pc) for t in (a2, b2, c2)]
        ax = log_quotient_axioms(ex)
        num = a2 * b2 * (la - lb) + b2 * c2 * (lb - lc) + c2 * a2 * (lc - la)
        den = (a2 - b2) * (b2 - c2) * (a2 - c2)
        ret = zr(p.retval)
        r, m = chk.solve(p.pc + ax + congruence(ex) + [ret * den != num], 30000)
        chk.note_formula(p.pc + [ret * den != num])
        if r == 'unsat':
            ngen += 1
            chk.record(tag + ':identity', 'discharged', family='closed-form-identity',
                       sample={'obligation': 'Iabc(a,b,c) == Eq.(6.4) of arXiv:1311.1775 for all a<b<c on the path '
                               '(log(p/q) = log p - log q instantiated on the code\'s quotients)'})
        else:
            r3, m3 = chk.solve(p.pc, 10000)
            if m3 is not None:
                native_check(chk, lib, name, [m3.real(v) for v in (a, b, c)], Fr(1, 10 ** 6), 'regime-point')
            # a regime other than the closed form (expansion around equal arguments) may only be used when two of the
            # squared arguments are nearly equal *relative to each other*
            sep = [y_ - x_ > zr(Fr(1, 100)) * y_ for (x_, y_) in ((a2, b2), (b2, c2))]
            r2, m2 = chk.prove(tag + ':regime-extent', p.pc + sep, family='expansion-vs-definition',
                               sample={'obligation': 'Iabc: a regime other than the closed form is used only when two squared arguments '
                                       'agree to 1% of the larger one, for all a<b<c in [1e-3,1e3]'})
            if r2 == 'sat':
                for fac in (Fr(2), Fr(13, 10), Fr(105, 100)):
                    r4, m4 = chk.solve(p.pc + [b2 >= zr(fac) * a2, c2 >= zr(fac) * b2], 10000)
                    if r4 == 'sat':
                        m2 = m4
                        break
                if native_check(chk, lib, name, [m2.real(v) for v in (a, b, c)], Fr(1, 10 ** 6), 'expansion-window') is not True:
                    chk.record(tag + ':regime-extent', 'gap', 'expansion used for well separated arguments but accurate at the witness',
                               family='expansion-vs-definition')
    if ngen == 0:
        chk.record('Iabc:generic', 'inconclusive', 'generic regime not identified')
        chk.inconclusive.append('Iabc:generic')


# ---------------------------------------------------------------------------- symmetry / homogeneity

def pair_paths(chk, tag, ex, p1s, p2s, extra, relation, family, sample, on_sat=None, timeout=30000):
    """relational obligations over all jointly feasible pairs of paths (discharged in parallel)"""
    cands = []
    for p1 in p1s:
        for p2 in p2s:
            if p1.outcome[0] != 'ret' or p2.outcome[0] != 'ret':
                continue
            cands.append((p1, p2))
    cong = congruence(ex) + quotient_equalities(ex)
    feas = chk_parallel_feasible(chk, [extra + p1.pc + p2.pc for p1, p2 in cands])
    jobs = []
    n = 0
    for (p1, p2), ok in zip(cands, feas):
        if not ok:
            continue
        n += 1
        r1, r2 = p1.retval, p2.retval
        if isinstance(r1, float) or isinstance(r2, float):
            if isinstance(r1, float) and isinstance(r2, float):
                continue
            chk.record('%s#%d' % (tag, n), 'inconclusive', 'one side non-finite')
            chk.inconclusive.append('%s#%d' % (tag, n))
            continue
        cons = extra + p1.pc + p2.pc + cong + [z3.Not(relation(zr(r1), zr(r2)))]
        jobs.append({'name': '%s#%d' % (tag, n), 'constraints': cons, 'family': family, 'sample': sample})
    res = chk.prove_many(jobs, timeout_ms=timeout)
    for j, (r, m) in zip(jobs, res):
        if r == 'sat' and on_sat:
            on_sat(m, j['name'])
    return n


def chk_parallel_feasible(chk, pcs):
    """[bool]: is each path-condition conjunction satisfiable (unknown counts as feasible)"""
    import os as _os
    import json as _json
    from symx import smt
    n = len(pcs)
    if n == 0:
        return []
    W = max(1, min(int(_os.environ.get('VERIF_JOBS', '12')), n))
    out = [True] * n
    pipes = []
    import sys as _sys
    _sys.stdout.flush()
    for w in range(W):
        r_, w_ = _os.pipe()
        pid = _os.fork()
        if pid == 0:
            _os.close(r_)
            res = []
            try:
                for i in range(w, n, W):
                    st, m, dt = smt.check(pcs[i], 10000, 'z3')
                    res.append([i, st != 'unsat'])
            except BaseException:
                pass
            with _os.fdopen(w_, 'w') as f:
                f.write(_json.dumps(res))
            _os._exit(0)
        _os.close(w_)
        pipes.append((pid, r_))
    for pid, r_ in pipes:
        with _os.fdopen(r_) as f:
            data = f.read()
        _os.waitpid(pid, 0)
        try:
            for i, ok in _json.loads(data or '[]'):
                out[i] = ok
        except ValueError:
            pass
    chk.queries += n
    return out


def symmetry(chk, mod, lib):
    for name, nargs, perms in (('Fa', 2, [(1, 0)]), ('Fb', 2, [(1, 0)]), ('FPZ', 2, [(1, 0)]), ('FSZ', 2, [(1, 0)]),
                               ('FCWl', 2, [(1, 0)]), ('Iabc', 3, [(1, 0, 2), (0, 2, 1), (2, 1, 0)]),
                               ('Phi', 3, [(1, 0, 2), (0, 2, 1), (2, 1, 0)]),
                               ('lambda_2', 3, [(1, 0, 2), (0, 2, 1), (2, 1, 0)])):
        chk.functions.add(mangle_fn(name, SIG[name]))
        vs = [z3.Real('s%d' % i) for i in range(nargs)]
        # strictly ordered arguments (ties are invariant trivially: the permuted call is the same call)
        dom = box(vs) + [vs[i] < vs[i + 1] for i in range(nargs - 1)]
        ex = executor(mod, RealDom(), ufs=UFS)
        st = ex.start(mangle_fn(name, SIG[name]), vs)
        st.pc += dom
        base = ex.explore(st)
        for perm in perms:
            st = ex.start(mangle_fn(name, SIG[name]), [vs[k] for k in perm])
            st.pc += dom
            other = ex.explore(st)

            def on_sat(m, tag, perm=perm):
                pt = [m.real(v) for v in vs]
                f = native_fn(lib, mangle_fn(name, SIG[name]), nargs)
                a_ = f(*[float(x) for x in pt])
                b_ = f(*[float(pt[k]) for k in perm])
                chk.traces_validated += 2
                if a_ != b_ and not (a_ != a_ and b_ != b_) and abs(a_ - b_) > 1e-12 * max(abs(a_), abs(b_)):
                    chk.violation(tag, 'C02:%s:symmetry' % name,
                                  '%s%r = %r but with arguments permuted by %r it is %r' % (
                                      name, tuple(float(x) for x in pt), a_, perm, b_), None)
                else:
                    chk.record(tag, 'inconclusive', 'sat not reproduced')
                    chk.inconclusive.append(tag)
            n = pair_paths(chk, 'symmetry:%s:%s' % (name, ''.join(map(str, perm))), ex, base, other, [],
                           lambda r1, r2: r1 == r2, 'symmetry',
                           {'obligation': '%s is invariant under the argument permutation %r (real sort executed)' % (name, perm)},
                           on_sat)
            if n == 0:
                chk.record('symmetry:%s' % name, 'inconclusive', 'no path pair')
                chk.inconclusive.append('symmetry:%s' % name)
        chk.absorb_executor(ex)


def homogeneity(chk, mod, lib):
    k = z3.Real('k')
    for name, power, scale in (('Iabc', 2, lambda v: k * v), ('Phi', -1, lambda v: k * v), ('lambda_2', -2, lambda v: k * v)):
        vs = [z3.Real('h%d' % i) for i in range(3)]
        dom = [z3.And(v >= zr(Fr(1, 100)), v <= zr(Fr(100))) for v in vs] + [vs[0] <= vs[1], vs[1] <= vs[2],
                                                                               k >= zr(Fr(1, 10)), k <= 10]
        # the scale-free kernels Ixy(x/z, y/z) and phi_uv(x/z, y/z) are uninterpreted here: homogeneity is a
        # property of how the public functions feed and rescale them
        ufs = dict(UFS)
        for n_ in mod.functions:
            if n_.endswith('_GLOBAL__N_16phi_uvEdd'):
                ufs[n_] = uf('phi_uv')
            if n_.endswith('_GLOBAL__N_13IxyEdd'):
                ufs[n_] = uf('Ixy')
        ex = executor(mod, RealDom(), ufs=ufs)
        st = ex.start(mangle_fn(name, SIG[name]), vs)
        st.pc += dom
        base = ex.explore(st)
        st = ex.start(mangle_fn(name, SIG[name]), [scale(v) for v in vs])
        st.pc += dom
        sc = ex.explore(st)
        if power == 2:
            rel = lambda r1, r2: r2 * k * k == r1       # Iabc(ka,kb,kc) k^2 = Iabc(a,b,c)
            txt = 'Iabc(ka,kb,kc) * k^2 == Iabc(a,b,c)'
        elif power == -1:
            rel = lambda r1, r2: r2 == k * r1           # Phi(kx,ky,kz) = k Phi
            txt = 'Phi(kx,ky,kz) == k * Phi(x,y,z)'
        else:
            rel = lambda r1, r2: r2 == k * k * r1
            txt = 'lambda^2(kx,ky,kz) == k^2 lambda^2(x,y,z)'

        def on_sat(m, tag):
            chk.record(tag, 'inconclusive', 'homogeneity counter-model (leaf congruence may be too weak)')
            chk.inconclusive.append(tag)
        n = pair_paths(chk, 'homogeneity:%s' % name, ex, base, sc, [], rel, 'homogeneity', {'obligation': txt}, on_sat,
                       timeout=60000)
        chk.absorb_executor(ex)
        if n == 0:
            chk.record('homogeneity:%s' % name, 'inconclusive', 'no path pair')
            chk.inconclusive.append('homogeneity:%s' % name)


def zero_limits(chk, mod, lib):
    """exact values when an argument vanishes"""
    for name, args, want in (('FPZ', (0, 'y'), 0), ('FPZ', ('x', 0), 0), ('FSZ', (0, 'y'), 0), ('FCWl', (0, 'y'), 0),
                             ('Fa', (0, 0), 0), ('Fb', (0, 0), 0), ('Iabc', (0, 0, 'c'), 0), ('Iabc', (0, 0, 0), 0)):
        vs = []
        args_ = []
        for a in args:
            if a == 0:
                args_.append(Fr(0))
            else:
                v = z3.Real(a)
                vs.append(v)
                args_.append(v)
        ex, paths = explore(mod, name, args_, box(vs))
        chk.absorb_executor(ex)
        for i, p in enumerate(paths):
            tag = 'zero:%s%r#%d' % (name, args, i)
            ok = p.outcome[0] == 'ret' and not isinstance(p.retval, float) and ex.dom.is_conc(p.retval) and p.retval == want
            if ok:
                chk.record(tag, 'discharged', family='zero-limits',
                           sample={'obligation': '%s%r == %s exactly' % (name, args, want)})
                chk.formulas.add(tag)
            else:
                r, m = chk.prove(tag, p.pc + [zr(p.retval) != want] if not isinstance(p.retval, float) else p.pc,
                                 family='zero-limits')
                if r == 'sat':
                    chk.violation(tag, 'C02:%s:zero-limit' % name, '%s%r returns %s instead of %s' % (name, args, p.retval, want), None)
    # Iabc(0,b,c) = log(c^2/b^2)/(c^2-b^2)
    b, c = z3.Real('b'), z3.Real('c')
    ex, paths = explore(mod, 'Iabc', [Fr(0), b, c], [z3.And(v >= zr(Fr(1, 1000)), v <= 1000) for v in (b, c)] + [b < c])
    chk.absorb_executor(ex)
    for i, p in enumerate(paths):
        if p.outcome[0] != 'ret' or isinstance(p.retval, float):
            continue
        lb, lc = leaf(ex, 'log', [b * b], p.pc), leaf(ex, 'log', [c * c], p.pc)
        ax = log_quotient_axioms(ex)
        r, m = chk.solve(p.pc + ax + congruence(ex) + [zr(p.retval) * (c * c - b * b) != (lc - lb)], 20000)
        if r == 'unsat':
            chk.record('zero:Iabc(0,b,c)#%d' % i, 'discharged', family='zero-limits',
                       sample={'obligation': 'Iabc(0,b,c) == log(c^2/b^2)/(c^2-b^2)'})
            chk.formulas.add(('Iabc0', i))


def run(chk):
    mod = harness_module('h_ff_ni')
    lib = harness_native('h_ff')
    chk.assumptions += [
        'REAL domain; one-variable functions (G3, G4, f_PS, f_S, f_CSl, f_CSu, f_CSd), log, Li2, Cl2 are leaves '
        '(their own accuracy is C01); congruence f(a)=f(b) for a=b and log(a/b)=log a - log b are instantiated on '
        'the terms that occur',
        'arguments in [1e-6,1e6] (identities), [1e-2,1e2] (homogeneity, k in [0.1,10])',
    ]
    chk.not_covered += [
        'accuracy of the near-degenerate expansions (Fax/Fbx/Fa11/Fb11, Ixx/I1y, Phi small-argument series) beyond '
        'replay at solver witnesses; rounding',
        'definitions of Phi for lambda^2<0, f_CSd, f_CSu (no independent transcription available offline)',
    ]
    for name in ('Fa', 'Fb', 'FPZ', 'FSZ', 'FCWl'):
        rows = read_table(os.path.join(REPO, 'test', 'data', {'FPZ': 'FPZ', 'FSZ': 'FSZ', 'FCWl': 'FCWl'}.get(name, name) + '.txt'))
        vec = [tuple(r[:2]) for r in rows[:25]] + [(1.0, 1.0), (2.0, 2.0), (1.00001, 1.0), (0.5, 3.0)]
        translator_validation(chk, mod, lib, mangle_fn(name, SIG[name]), vec, label=name)
    translator_validation(chk, mod, lib, mangle_fn('Iabc', 'ddd'), [(1.0, 2.0, 3.0), (1.0, 1.0, 2.0), (3.0, 1.0, 1.00001), (0.0, 1.0, 2.0)], label='Iabc')
    translator_validation(chk, mod, lib, mangle_fn('Phi', 'ddd'), [(1.0, 2.0, 3.0), (1.0, 2.0, 30.0), (3.0, 3.0, 1.0), (1.0, 1.0, 1.0)], label='Phi')
    import time as _t
    for step in (identities, iabc_identity, zero_limits, symmetry, homogeneity):
        t0 = _t.time()
        step(chk, mod, lib)
        chk.extra.setdefault('step_seconds', {})[step.__name__] = round(_t.time() - t0, 1)
    from . import C02b
    C02b.run(chk, harness_module('h_ff'), lib)
