"""C10 part 4: the bosonic two-loop functions hand the parameter ratios to their kernels unmodified.

gm2_2loop_B.cpp documents one regularisation: arguments are shifted by eps_shift = 1e-8 (relative) away from the poles of
rational coefficients.  Anything larger changes the -mH^2/v^2 + Lambda_5/2 cancellation that makes the bosonic terms
decouple like (v/M)^2.  The three top-level functions amu2L_B_EWadd / amu2L_B_nonYuk / amu2L_B_Yuk are executed with
all kernels as uninterpreted leaves.  Obligation: for any two paths p, q of a function that call the same kernels in the
same order, every kernel argument on p differs from the one on q by at most 1e-7 relative, for all parameters
satisfying p's path condition (argument fidelity: whatever guards fire, the kernels see the parameter ratios up to the
documented shift).  A counterexample is confirmed natively with the property's own decoupling criterion
(|a(M sqrt10)| <= 0.45 |a(M)| on gauge-basis points with |lambda_i| <= 2, replay/c10_decoupling.cpp)."""
import os
import subprocess
from fractions import Fraction as Fr
import z3

from .common import *
from .C14b import demangled
from . import C11
from symx import exec as X
from symx.exec import Ptr

TOL = Fr(1, 10 ** 7)


def native_decoupling():
    exe = build.build_tool(os.path.join(VERIF, 'replay', 'c10_decoupling.cpp'), 'c10_decoupling')
    r = subprocess.run([exe], capture_output=True, text=True, timeout=300)
    return r.returncode, [l for l in r.stdout.split('\n') if '> 0.45' in l]


def run(chk):
    mod, ks = C11.kernel_module()
    dem = demangled(mod)
    knames = set(k for k, _ in ks)
    fam = 'argument-fidelity'
    confirmed = None
    for top in ('amu2L_B_EWadd', 'amu2L_B_nonYuk', 'amu2L_B_Yuk'):
        fns = [n for n, d in dem.items() if d.startswith('gm2calc::thdm::%s(' % top) and n in mod.functions]
        if not fns:
            chk.record('fidelity:' + top, 'gap', 'function not found', family=fam)
            continue
        chk.functions.add('gm2calc::thdm::' + top)
        ex = executor(mod, RealDom(), ufs=C11.lib_ufs(mod), fork_select=False)
        ex.div_no_fork = True

        def mk(name):
            def f(ex_, st_, args, I):
                a = [zr(x) for x in args]
                st_.data['kcalls'] = st_.data.get('kcalls', ()) + ((name, tuple(a)),)
                return ex_.leaf(st_, 'k:' + name, a)
            return f
        for n, d in dem.items():
            if not d.startswith('gm2calc::thdm::(anonymous namespace)::') or n not in mod.functions:
                continue
            base = d[len('gm2calc::thdm::(anonymous namespace)::'):].split('(')[0]
            fn_ = mod.functions[n]
            rt = mod.resolve(fn_.retty)
            # every scalar kernel double f(double, ...) of the unit is a leaf; shift(double&, ...) and the like are executed
            if isinstance(rt, llir.FloatT) and fn_.params and all(isinstance(mod.resolve(t), llir.FloatT) for t, _, _ in fn_.params):
                ex.stubs[n] = mk(base)
        st = X.State()
        reg = ex.new_region(st, None, 'input', 'pars', lazy=True)
        st = ex.start(fns[0], [Ptr(reg.rid, 0)], st)
        try:
            paths = [p for p in ex.explore(st) if p.outcome[0] == 'ret']
        except Unsupported as e:
            chk.record('fidelity:' + top, 'gap', 'executor: %s' % e, family=fam)
            chk.not_covered.append('argument fidelity of %s (%s)' % (top, str(e)[:80]))
            continue
        chk.absorb_executor(ex)
        chk.extra.setdefault('fidelity_paths', {})[top] = len(paths)
        bad = None
        npairs = 0
        for i, p in enumerate(paths):
            cp = p.data.get('kcalls', ())
            for j, q in enumerate(paths):
                if i == j:
                    continue
                cq = q.data.get('kcalls', ())
                if [k for k, _ in cp] != [k for k, _ in cq]:
                    continue
                diffs = []
                for (k1, a1), (k2, a2) in zip(cp, cq):
                    for x, y in zip(a1, a2):
                        if not x.eq(y):
                            diffs.append(z3.Or(z3.And(y >= 0, z3.Or(x - y > zr(TOL) * y, y - x > zr(TOL) * y)),
                                              z3.And(y < 0, z3.Or(x - y > -zr(TOL) * y, y - x > -zr(TOL) * y))))
                if not diffs:
                    continue
                npairs += 1
                tag = 'fidelity:%s#%d~%d' % (top, i, j)
                r, m = chk.prove(tag, list(p.pc) + [z3.Or(diffs)], timeout_ms=20000, family=fam,
                                 sample={'obligation': '%s: on path %d every kernel argument is within 1e-7 (relative) of the argument on path %d, '
                                         'for all parameters of path %d' % (top, i, j, i)})
                if r == 'sat' and bad is None:
                    bad = (tag, i, j)
        if not paths:
            chk.record('fidelity:' + top, 'gap', 'no returning path', family=fam)
        elif npairs == 0:
            chk.record('fidelity:' + top, 'discharged', family=fam,
                       sample={'obligation': '%s: %d path(s), the kernel arguments do not depend on the path taken' % (top, len(paths))})
            chk.formulas.add('fidelity:' + top)
        if bad:
            if confirmed is None:
                confirmed = native_decoupling()
                chk.traces_validated += 15
            if confirmed[0] == 1:
                chk.violation(bad[0], 'C10:argument-fidelity:%s' % top,
                              '%s modifies a kernel argument by more than the documented 1e-8 shift on path %d; natively: %s' % (
                                  top, bad[1], '; '.join(confirmed[1][:2])),
                              '#!/bin/sh\ncd %s && exec python3-vt -m props.replay_c10 decoupling\n' % VERIF)
            else:
                chk.record(bad[0], 'gap', 'kernel argument modified by more than 1e-7 on a path, but the decoupling criterion holds natively', family=fam)
                chk.not_covered.append('argument fidelity of %s: modification not confirmed by the decoupling probe' % top)
