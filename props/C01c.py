"""C01 part 3: complex dilogarithm - the range reduction sends the Bernoulli series only arguments for which it converges
fast: on every path the logarithm u = -log(w) that feeds the series has Re w >= 1/2 and |w - 1| <= 1 (so |u|^2 <= ln^2 2 +
(pi/3)^2 < 1.58), decided by the solver for all complex z."""
from fractions import Fraction as Fr
import z3

from .common import *
from .C14b import demangled
from symx.exec import Ptr


def run(chk):
    fam = 'complex-dilog-range-reduction'
    chk.functions.add('gm2calc::dilog(std::complex<double> const&)')
    mod = harness_module('h_cdilog')
    dem = demangled(mod)
    logs = []           # (kind, (w_re, w_im), (res_re, res_im))

    def cread(ex, st, p):
        return zr(ex.load(st, Ptr(p.rid, p.off), llir.DOUBLE)), zr(ex.load(st, Ptr(p.rid, p.off + 8), llir.DOUBLE))

    def fresh_c(ex, name):
        return ex.dom.fresh(name + '_re'), ex.dom.fresh(name + '_im')

    def clog_stub(ex, st, args, I):
        re, im = zr(args[0]), zr(args[1])
        r = fresh_c(ex, 'clog')
        logs.append(('log', (re, im), r))
        st.event('clog', idx=len(logs) - 1)
        return [r[0], r[1]]

    def log1p_stub(ex, st, args, I):
        # complex log1p helper of gm2_dilog.cpp: log(1 + z); result returned in registers {double,double}
        zp = args[-1]
        re, im = cread(ex, st, zp)
        r = fresh_c(ex, 'clog1p')
        logs.append(('log1p', (1 + re, im), r))
        st.event('clog', idx=len(logs) - 1)
        rt = ex.m.resolve(I['ty'])
        if isinstance(rt, llir.VoidT):
            out = args[0]
            ex.store(st, Ptr(out.rid, out.off), llir.DOUBLE, r[0])
            ex.store(st, Ptr(out.rid, out.off + 8), llir.DOUBLE, r[1])
            return None
        return [r[0], r[1]]
    series = []

    def muldc3(ex, st, args, I):
        a, b, c_, d_ = [zr(x) if not isinstance(x, float) else x for x in args]
        if all(isinstance(x, z3.ExprRef) for x in (a, b, c_, d_)) and z3.eq(a, c_) and z3.eq(b, d_):
            st.event('square', re=a, im=b)
        D = ex.dom
        return [D.bin(ex, st, 'fsub', D.bin(ex, st, 'fmul', args[0], args[2]), D.bin(ex, st, 'fmul', args[1], args[3])),
                D.bin(ex, st, 'fadd', D.bin(ex, st, 'fmul', args[0], args[3]), D.bin(ex, st, 'fmul', args[1], args[2]))]
    def cmul_stub(ex, st, args, I):
        # std::operator*(const complex&, const complex&)
        rt = ex.m.resolve(I['ty'])
        ops = args[-2:]
        a, b = cread(ex, st, ops[0])
        c_, d_ = cread(ex, st, ops[1])
        if z3.eq(a, c_) and z3.eq(b, d_):
            st.event('square', re=a, im=b)
        re_, im_ = a * c_ - b * d_, a * d_ + b * c_
        if isinstance(rt, llir.VoidT):
            out_ = args[0]
            ex.store(st, Ptr(out_.rid, out_.off), llir.DOUBLE, re_)
            ex.store(st, Ptr(out_.rid, out_.off + 8), llir.DOUBLE, im_)
            return None
        return [re_, im_]
    from . import angles
    st_ = {'clog': clog_stub, '__muldc3': muldc3, '__divdc3': angles.stub_divdc3, '_ZStmlIdESt7complexIT_ERKS2_S4_': cmul_stub}
    for n in mod.functions:
        if 'log1p' in dem.get(n, '') and 'complex' in dem.get(n, ''):
            st_[n] = log1p_stub
    ex = executor(mod, RealDom(), extra_stubs=st_, ufs={'_ZN7gm2calc5dilogEd': lambda e, s, a, I: e.leaf(s, 'li2', [zr(a[0])])},
                  fork_select=True)
    re, im = z3.Real('re_z'), z3.Real('im_z')
    st = X.State()
    out = ex.new_region(st, 16, 'stack', 'out')
    s2 = ex.start('vx_cdilog', [re, im, Ptr(out.rid, 0)], st)
    s2.pc += [im != 0]
    try:
        rr = ex.explore(s2)
    except Unsupported as e:
        chk.record('cdilog', 'gap', str(e)[:120], family=fam)
        chk.not_covered.append('complex dilogarithm not executed (%s)' % str(e)[:80])
        return
    chk.absorb_executor(ex)
    n = 0
    for pi, p in enumerate(rr):
        if p.outcome[0] != 'ret':
            continue
        sq = [e[1] for e in p.events if e[0] == 'square']
        if not sq:
            continue            # tiny-|z| branch: polynomial, no series variable
        u_re = sq[0]['re']
        cand = []
        for e in p.events:
            if e[0] == 'clog':
                kind, w, r = logs[e[1]['idx']]
                ids = set()
                todo = [u_re]
                while todo:
                    t = todo.pop()
                    ids.add(t.get_id())
                    todo.extend(t.children())
                if r[0].get_id() in ids:
                    cand.append((kind, w))
        tag = 'cdilog#%d' % pi
        if len(cand) != 1:
            chk.record(tag, 'gap', 'series variable not identified (%d candidates)' % len(cand), family=fam)
            chk.not_covered.append('complex dilog path %d: series variable not identified' % pi)
            continue
        n += 1
        kind, (wr, wi) = cand[0]
        tol = zr(Fr(1, 10 ** 9))
        bad = z3.Or(wr < zr(Fr(1, 2)) - tol, (wr - 1) * (wr - 1) + wi * wi > 1 + tol)
        r, m = chk.prove(tag, list(p.pc) + [bad], timeout_ms=60000, family=fam,
                         sample={'obligation': 'complex dilog: on this branch of the range reduction the Bernoulli series is evaluated at u = -log(w) '
                                 'with Re w >= 1/2 and |w - 1| <= 1 for every complex z of the branch (|u|^2 <= ln^2 2 + (pi/3)^2)'})
        if r == 'sat':
            zre, zim = float(m.real(re)), float(m.real(im))
            chk.violation(tag, 'C01:complex-dilog:range-reduction',
                          'dilog(%.17g%+.17gj): the series variable is -log(w) with w outside {Re w >= 1/2, |w-1| <= 1} - the Bernoulli series is used where '
                          'it converges slowly or not at all' % (zre, zim),
                          '#!/bin/sh\ncd %s && exec python3-vt -m props.replay_ff cdilog %r %r\n' % (VERIF, zre, zim))
    if n == 0:
        chk.record('cdilog', 'gap', 'no series branch analysed', family=fam)
        chk.not_covered.append('complex dilogarithm: no series branch analysed')


def clausen_reduction(chk):
    """clausen_2(x) for every finite x: the range reduction never produces a domain error (log of a non-positive number) and
    hands the kernels an argument in (0, pi]; fmod is an uninterpreted remainder with its defining property."""
    fam = 'clausen-range-reduction'
    chk.functions.add('gm2calc::clausen_2(double)')
    mod = harness_module('h_cdilog')
    kcount = [0]

    def fmod_stub(ex, st, args, I):
        x, p = zr(args[0]), zr(args[1])
        kcount[0] += 1
        k = z3.Int('fmod_k!%d' % kcount[0])
        r = ex.dom.fresh('fmod_r')
        st.add(z3.And(p > 0, x >= 0, r >= 0, r < p, k >= 0, k <= 20, x == z3.ToReal(k) * p + r))
        return r
    ex = executor(mod, RealDom(), extra_stubs={'fmod': fmod_stub}, fork_select=True)
    x = z3.Real('x')
    st = ex.start('_ZN7gm2calc9clausen_2Ed', [x])
    st.pc += [x >= -100, x <= 100]
    try:
        rr = ex.explore(st)
    except Unsupported as e:
        chk.record('clausen:reduction', 'gap', str(e)[:100], family=fam)
        chk.not_covered.append('clausen_2 range reduction not executed (%s)' % str(e)[:60])
        return
    chk.absorb_executor(ex)
    n = 0
    for pi, p in enumerate(rr):
        evs = [e for e in p.events if e[0] in ('log-negative', 'log-zero', 'fdiv-by-zero', 'sqrt-negative')]
        tag = 'clausen:reduction#%d' % pi
        bad = evs or p.outcome[0] != 'ret' or isinstance(p.retval, float)
        if not bad:
            n += 1
            continue
        r, m = chk.solve(list(p.pc), 30000)
        if r == 'unsat':
            continue
        if r != 'sat':
            chk.record(tag, 'gap', 'feasibility of a domain-error path undecided', family=fam)
            chk.not_covered.append('clausen_2: a domain-error path could not be decided')
            continue
        xv = float(m.real(x))
        import mpmath
        from . import C01b
        lib = harness_native('h_cdilog')
        import ctypes
        f = getattr(lib, '_ZN7gm2calc9clausen_2Ed')
        f.restype = ctypes.c_double
        f.argtypes = [ctypes.c_double]
        got = f(xv)
        mpmath.mp.dps = 40
        ref = mpmath.clsin(2, mpmath.mpf(xv))
        chk.traces_validated += 1
        if not (got == got) or abs(got - ref) > 1e-13 * max(abs(ref), 1e-3):
            chk.violation(tag, 'C01:clausen_2:range-reduction', 'clausen_2(%r) = %r, Cl2 = %s: the range reduction leaves the kernel domain (%s)' % (
                xv, got, mpmath.nstr(ref, 15), evs[0][0] if evs else p.outcome), '#!/bin/sh\ncd %s && exec python3-vt -m props.replay_ff cl2 %r\n' % (VERIF, xv))
        else:
            chk.record(tag, 'gap', 'domain-error path at x = %r evaluates correctly natively' % xv, family=fam)
    chk.record('clausen:reduction', 'discharged', family=fam,
               sample={'obligation': 'clausen_2: on each of the %d regular paths for x in [-100, 100] no logarithm of a non-positive number, no division '
                       'by zero; every other path is infeasible' % n})
    chk.formulas.add('clausen:reduction')
