"""replay for C10: SM limit at concrete points (onel | twolf) or accuracy of dxlog at a witness (dxlog a b)"""
import os
import subprocess
import sys
from symx import build


def main():
    mode = sys.argv[1] if len(sys.argv) > 1 else 'onel'
    if mode == 'decoupling':
        from . import C10d
        rc, lines = C10d.native_decoupling()
        print('\n'.join(lines) if lines else 'all decoupling ratios <= 0.45 (or below the rounding floor)')
        sys.exit(1 if rc == 1 else 0)
    if mode == 'dxlog':
        import mpmath
        sys.path.insert(0, os.path.dirname(os.path.dirname(os.path.abspath(__file__))))
        from props import C11
        a, b = float(sys.argv[2]), float(sys.argv[3])
        got = C11.native_eval('dxlog', [a, b])
        mpmath.mp.dps = 60
        A, B = mpmath.mpf(a), mpmath.mpf(b)
        ref = (A * A * mpmath.log(A) - B * B * mpmath.log(B)) / (A - B)
        err = abs(got - ref) / abs(ref)
        print('dxlog(%r, %r) = %r, exact %s, relative error %s' % (a, b, got, mpmath.nstr(ref, 17), mpmath.nstr(err, 3)))
        sys.exit(1 if err > 1e-11 else 0)
    exe = build.build_tool(os.path.join(os.path.dirname(os.path.dirname(os.path.abspath(__file__))), 'replay', 'c10_driver.cpp'),
                           'c10_driver')
    sys.exit(subprocess.call([exe]))


if __name__ == '__main__':
    main()
