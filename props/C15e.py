"""C15 part 5: the configuration flags of the input reach the model they configure.

(a) THDM_reader::operator() is executed with the SLHA fill functions havocking the basis objects and the two
    gm2calc::THDM constructors replaced by a stub that reads the thdm::Config argument: for every symbolic Config_options
    and every basis, config.force_output <=> options.force_output and config.running_couplings <=> options.running_couplings.
(b) MSSMNoFV_setup::run: the arguments of do_force_output / set_verbose_output are options.force_output /
    options.verbose_output.
A counterexample is replayed with the real program: the value printed for force_output != running_couplings must equal
the library value for the same flags."""
import os
import subprocess
import z3

from .common import *
from .C14b import find, demangled
from .C15 import options_region
from symx import exec as X
from symx import stubs as S
from symx.exec import Ptr


def as_bool(v):
    if isinstance(v, int):
        return z3.BoolVal(v != 0)
    if z3.is_bool(v):
        return v
    return v != 0


def native_flags_probe():
    """real CLI on example.thdm: with force_output=1, running=0 and force_output=0, running=1 the printed value must
    equal the one obtained with (1,1)/(0,0) resp. whenever only force differs (force_output does not change a valid point)"""
    exe = build.build_cli()
    src = open(os.path.join(REPO, 'input', 'example.thdm')).read()

    def val(force, running):
        text = src + 'Block GM2CalcConfig\n     0     0\n     3     %d\n     6     %d\n' % (force, running)
        r = subprocess.run([exe, '--thdm-input-file=-'], input=text.encode(), capture_output=True, timeout=120)
        return r.returncode, r.stdout.decode(errors='replace').strip()
    bad = []
    v = {(f, r): val(f, r) for f in (0, 1) for r in (0, 1)}
    # force_output has no influence on the value of a valid point; running couplings has
    for r in (0, 1):
        if v[(0, r)] != v[(1, r)]:
            bad.append('running_couplings=%d: force_output=0 gives %r, force_output=1 gives %r' % (r, v[(0, r)], v[(1, r)]))
    return bad, 4


def native_mssm_force_probe():
    """real CLI, example.gm2 with a tachyonic point (Mu = 1e8), minimal output: force_output=0 must not print a number,
    force_output=1 must print one"""
    exe = build.build_cli()
    src = open(os.path.join(REPO, 'input', 'example.gm2')).read()
    out = {}
    for force in (0, 1):
        text = src + 'Block GM2CalcInput\n     4     100000000   # Mu\nBlock GM2CalcConfig\n     0     0\n     3     %d\n' % force
        r = subprocess.run([exe, '--gm2calc-input-file=-'], input=text.encode(), capture_output=True, timeout=120)
        out[force] = (r.returncode, r.stdout.decode(errors='replace').strip())
    bad = []
    if out[0][1] != '':
        bad.append('force_output=0 prints %r for a point with tachyons' % out[0][1][:40])
    if out[1][1] == '':
        bad.append('force_output=1 prints nothing for a point with tachyons (exit %d)' % out[1][0])
    return bad, 2


def thdm_reader(chk, mod):
    fns = find(mod, 'THDM_reader::operator()')
    if not fns:
        chk.record('flags:thdm', 'gap', 'THDM_reader::operator() not found')
        chk.not_covered.append('configuration flags -> thdm::Config (function not found)')
        return
    chk.functions.add('THDM_reader::operator() (gm2calc.cpp)')
    st = X.State()
    stubs_ = dict(S.STRING_MODEL_STUBS)
    ex = executor(mod, RealDom(), extra_stubs=stubs_, fork_select=False)

    def havoc(ex_, st_, args, I):
        r = ex_.region(st_, args[1])
        r.cells.clear()
        r.fills = []
        r.lazy = True
        return None
    for n in find(mod, 'GM2_slha_io::fill('):
        ex.stubs[n] = havoc

    def ctor(kind):
        def f(ex_, st_, args, I):
            cfg = args[3]
            fo = ex_.load(st_, Ptr(cfg.rid, cfg.off), llir.I8)
            rc = ex_.load(st_, Ptr(cfg.rid, cfg.off + 1), llir.I8)
            st_.event('thdm-ctor', basis=kind, force_output=fo, running_couplings=rc)
            return None
        return f
    for n, d in demangled(mod).items():
        if d.startswith('gm2calc::THDM::THDM(gm2calc::thdm::Mass_basis const&'):
            ex.stubs[n] = ctor('mass')
        elif d.startswith('gm2calc::THDM::THDM(gm2calc::thdm::Gauge_basis const&'):
            ex.stubs[n] = ctor('gauge')
    ex.opaque_calls = True
    ex.undefined_handler = lambda ex_, s_, name, args, I: (None if isinstance(ex_.m.resolve(I['ty']), llir.VoidT)
                                                          else ex_.fresh_of(s_, ex_.m.resolve(I['ty']), 'lib'))
    from .C13 import skip_formatting
    skip_formatting(ex)
    optr, f = options_region(ex, st, mod)
    out = ex.new_region(st, None, 'input', 'thdm_result', lazy=True)
    this = ex.new_region(st, None, 'input', 'reader', lazy=True)
    io = ex.new_region(st, None, 'input', 'slha_io', lazy=True)
    fn = mod.functions[fns[0]]
    args = [Ptr(out.rid, 0), Ptr(this.rid, 0), Ptr(io.rid, 0), optr]
    if len(fn.params) == 3:
        args = [Ptr(out.rid, 0), Ptr(io.rid, 0), optr]
    st = ex.start(fns[0], args, st)
    ex.max_steps = 400000
    try:
        paths = ex.explore(st)
    except Unsupported as e:
        chk.record('flags:thdm', 'gap', 'executor: %s' % e)
        chk.not_covered.append('configuration flags -> thdm::Config (%s)' % str(e)[:80])
        return
    chk.absorb_executor(ex)
    n = 0
    probed = None
    for i, p in enumerate(paths):
        evs = [e for e in p.events if e[0] == 'thdm-ctor']
        if not evs:
            continue
        n += 1
        e = evs[-1][1]
        tag = 'flags:thdm#%d(%s basis)' % (i, e['basis'])
        claim = z3.And(as_bool(e['force_output']) == as_bool(f['force_output']),
                       as_bool(e['running_couplings']) == as_bool(f['running_couplings']))
        r, m = chk.prove(tag, p.pc + [z3.Not(claim)], family='flags-reach-model',
                         sample={'obligation': 'THDM_reader: thdm::Config handed to the THDM constructor carries options.force_output and '
                                 'options.running_couplings, for every Config_options and every basis content'})
        if r == 'sat':
            if probed is None:
                probed = native_flags_probe()
                chk.traces_validated += probed[1]
            if probed[0]:
                chk.violation(tag, 'C15:flags:thdm-config', 'THDM_reader hands a thdm::Config to the model that differs from the options '
                              '(options force_output=%s running_couplings=%s); real program on example.thdm: %s' % (
                                  m.eval(f['force_output'], model_completion=True), m.eval(f['running_couplings'], model_completion=True),
                                  '; '.join(probed[0][:2])),
                              '#!/bin/sh\ncd %s && exec python3-vt -m props.replay_c15 flags\n' % VERIF)
            else:
                chk.record(tag, 'inconclusive', 'flag mismatch not reproduced by the real program')
                chk.inconclusive.append(tag)
    if n == 0:
        chk.record('flags:thdm', 'gap', 'no path reaches a THDM constructor')
        chk.not_covered.append('configuration flags -> thdm::Config (no constructor path explored)')


def mssm_run(chk, mod):
    from . import C14c
    fns = find(mod, 'MSSMNoFV_setup::run(')
    if not fns:
        return
    try:
        ex, paths, hp, hw, f = C14c.explore_run(mod, fns)
    except Unsupported as e:
        chk.record('flags:mssm', 'gap', 'executor: %s' % e)
        chk.not_covered.append('configuration flags -> MSSM model (%s)' % str(e)[:80])
        return
    chk.absorb_executor(ex)
    want = {'do_force_output': 'force_output', 'set_verbose_output': 'verbose_output'}
    for i, p in enumerate(paths):
        if p.outcome[0] != 'ret':
            continue
        seen = {}
        for e in p.events:
            if e[0] == 'setter':
                seen[e[1]['name']] = e[1]['value']
        for nm, fld in want.items():
            tag = 'flags:mssm#%d:%s' % (i, nm)
            if nm not in seen:
                what = 'MSSMNoFV_setup::run returns without calling %s on the model' % nm
            else:
                r, m = chk.prove(tag, p.pc + [as_bool(seen[nm]) != as_bool(f[fld])], family='flags-reach-model',
                                 sample={'obligation': 'MSSMNoFV_setup::run: %s receives options.%s' % (nm, fld)})
                if r != 'sat':
                    continue
                what = 'MSSMNoFV_setup::run: %s receives a value different from options.%s' % (nm, fld)
            # replay with the real program (force_output is observable from outside; verbose output by C14's stdout probe)
            if nm == 'do_force_output':
                bad, n = native_mssm_force_probe()
                chk.traces_validated += n
                if bad:
                    chk.violation(tag, 'C15:flags:mssm:%s' % nm, what + '; real program: ' + '; '.join(bad),
                                  '#!/bin/sh\ncd %s && exec python3-vt -m props.replay_c15 mssmflags\n' % VERIF)
                    continue
            chk.record(tag, 'gap', what + ' - not observable / not reproduced with the real program', family='flags-reach-model')
            chk.not_covered.append('MSSM flag glue: ' + what)


def run(chk):
    mod = harness_module('h_cli')
    thdm_reader(chk, mod)
    mssm_run(chk, mod)
