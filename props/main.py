"""./check <ID> [--tier quick|thorough] | --replay <path> | --selftest"""
import argparse
import importlib
import os
import subprocess
import sys
import traceback

sys.path.insert(0, os.path.dirname(os.path.dirname(os.path.abspath(__file__))))
from symx.framework import Check      # noqa: E402


def main():
    ap = argparse.ArgumentParser()
    ap.add_argument('pid', nargs='?')
    ap.add_argument('--tier', default=os.environ.get('VERIF_TIER', 'quick'))
    ap.add_argument('--replay')
    ap.add_argument('--selftest', action='store_true')
    a = ap.parse_args()
    if a.replay:
        sys.exit(subprocess.call(['sh', a.replay]))
    if a.selftest:
        from . import selftest
        sys.exit(selftest.main())
    seed = int(os.environ.get('VERIF_SEED', '0') or 0)
    tier = a.tier if a.tier in ('quick', 'thorough') else 'quick'
    chk = Check(a.pid, tier, seed)
    try:
        mod = importlib.import_module('props.' + a.pid)
        mod.run(chk)
    except Exception as e:
        traceback.print_exc()
        chk.record('engine', 'inconclusive', 'exception: %r' % (e,))
        chk.inconclusive.append('engine-exception: %r' % (e,))
    sys.exit(chk.finish())


if __name__ == '__main__':
    main()
