"""C11 part 2: the Barr-Zee difference quotients and two-variable loop functions of gm2_ffunctions.cpp:
no division by zero reachable, equal-argument formulas equal the analytic limit."""
import math
from fractions import Fraction as Fr
import mpmath
import z3

from .common import *
from .ffcommon import *
from . import C02


def probe(name, nf, pt, idx, coupled=None):
    base = [float(v) for v in pt]

    def at(d):
        v = list(base)
        v[idx] = base[idx] * (1 + d)
        if coupled:
            coupled(v, base, d)
        return nf(*v)
    lo, hi = at(-1e-3), at(1e-3)
    if not (math.isfinite(lo) and math.isfinite(hi)):
        return 'endpoints not finite'
    scale = max(abs(lo), abs(hi))
    if abs(hi - lo) > 0.2 * scale:
        return None
    for d in [0.0] + [s * 10.0 ** e for e in range(-13, -3) for s in (1, -1)]:
        val = at(d)
        chord = lo + (hi - lo) * (d + 1e-3) / 2e-3
        if not math.isfinite(val):
            return 'value at d=%g is %r' % (d, val)
        if scale > 0 and abs(val - chord) / scale > 0.01:
            return 'deviates by %.3g of the magnitude from the chord at d=%g' % (abs(val - chord) / scale, d)
    return None


def audit(chk, mod, lib):
    specs = [('FPZ', 'dd', ['x', 'y'], None), ('FSZ', 'dd', ['x', 'y'], None), ('FCWl', 'dd', ['x', 'y'], None),
             ('Fa', 'dd', ['x', 'y'], None), ('Fb', 'dd', ['x', 'y'], None),
             ('FCWu', 'dddddd', ['xu', 'xd', 'yu', 'yd', 'qu', 'qd'], 'quark'),
             ('FCWd', 'dddddd', ['xu', 'xd', 'yu', 'yd', 'qu', 'qd'], 'quark')]
    for name, sig, params, kind in specs:
        sym = mangle_fn(name, sig)
        chk.functions.add(sym)
        vs = [z3.Real(p) for p in params]
        ufs = dict(C02.UFS)
        ex = executor(mod, RealDom(), ufs=ufs)
        ex.max_steps = 200000
        st = ex.start(sym, vs)
        dom = []
        for p_, v in zip(params, vs):
            if p_ in ('qu', 'qd'):
                dom.append(v == (zr(Fr(2, 3)) if p_ == 'qu' else zr(Fr(-1, 3))))
            else:
                dom += [v >= zr(Fr(1, 10 ** 6)), v <= zr(Fr(10 ** 6))]
        if kind == 'quark':
            # xu/yu = xd/yd = (mW/mH+)^2 by definition of the arguments
            dom.append(vs[0] * vs[3] == vs[1] * vs[2])
        st.pc += dom
        try:
            paths = ex.explore(st)
        except Unsupported as e:
            chk.record('quotient:' + name, 'gap', 'executor: %s' % e)
            chk.not_covered.append('difference quotient %s not executed (%s)' % (name, str(e)[:80]))
            continue
        chk.absorb_executor(ex)
        nf = native_fn(lib, sym, len(vs))
        seen = set()
        for i, p in enumerate(paths):
            tag = 'quotient:%s#%d' % (name, i)
            evs = [e for e in p.events if e[0] in ('fdiv-by-zero', 'log-zero', 'log-negative', 'sqrt-negative')]
            if p.outcome[0] == 'ret' and not isinstance(p.retval, float) and not evs:
                chk.record(tag, 'discharged', family='quotient-finiteness',
                           sample={'obligation': '%s: no division by zero or domain error reachable on this path '
                                   '(ratios in [1e-6,1e6]%s)' % (name, ', xu/yu = xd/yd' if kind else '')})
                chk.formulas.add(tag)
                continue
            r, m = chk.solve(p.pc, 20000)
            if r == 'unsat':
                continue
            if r != 'sat':
                chk.record(tag, 'inconclusive', 'feasibility undecided')
                chk.inconclusive.append(tag)
                continue
            pt = [m.real(v) for v in vs]
            cls = evs[0][0] if evs else str(p.outcome[0])
            key = 'C11:%s:%s' % (name, cls)
            if key in seen:
                continue
            msgs = []
            val = nf(*[float(x) for x in pt])
            chk.traces_validated += 1
            if not math.isfinite(val):
                msgs.append('value %r' % val)
            if kind == 'quark':
                # move the charged-Higgs mass: xu and xd scale together
                def coupled(v, base, d):
                    v[1] = base[1] * (1 + d)
                msg = probe(name, nf, pt, 0, coupled)
                chk.traces_validated += 22
                if msg:
                    msgs.append('along m_H+: ' + msg)
            else:
                for idx in range(len(vs)):
                    msg = probe(name, nf, pt, idx)
                    chk.traces_validated += 22
                    if msg:
                        msgs.append('along %s: %s' % (params[idx], msg))
            if msgs:
                seen.add(key)
                chk.violation(tag, key, '%s at (%s): %s' % (
                    name, ', '.join('%s=%r' % (a, float(b)) for a, b in zip(params, pt)), '; '.join(msgs)[:300]),
                    '#!/bin/sh\ncd %s && exec python3-vt -m props.replay_c11 quotient %s %s %s\n' % (
                        VERIF, name, sig, ' '.join(repr(float(x)) for x in pt)))
            else:
                chk.record(tag, 'discharged', 'exact-arithmetic singular point finite and continuous in doubles',
                           family='quotient-continuity',
                           sample={'obligation': '%s: singular configuration of exact arithmetic found by the solver; '
                                   'native values within the 1%% band' % name, 'point': [float(x) for x in pt]})
                chk.formulas.add(tag)


def limit_formulas(chk, mod, lib):
    """equal-argument branches: lim_{y->x} (y f(x) - x f(y))/(x-y) = f(x) - x f'(x), with f' from the
    differential equations of the loop functions (validated against mpmath in the self test):
       z (1-4z) f_PS'(z) = (1-2z) f_PS(z) + 2 z ln z
       f_S      = (2z-1) f_PS - 2z(2 + ln z)
       f_CSl'   from d/dz Li2(1 - 1/z) = ln z / (z (z-1))"""
    x = z3.Real('x')
    for name, fleaf in (('FPZ', 'fps'), ('FSZ', 'fS')):
        sym = mangle_fn(name, 'dd')
        ufs = dict(C02.UFS)
        ex = executor(mod, RealDom(), ufs=ufs)
        st = ex.start(sym, [x, x])
        st.pc += [x >= zr(Fr(1, 10 ** 6)), x <= zr(Fr(999)), z3.Or(x < zr(Fr(24, 100)), x > zr(Fr(26, 100)))]
        paths = ex.explore(st)
        chk.absorb_executor(ex)
        for i, p in enumerate(paths):
            tag = 'limit:%s#%d' % (name, i)
            if p.outcome[0] != 'ret' or isinstance(p.retval, float):
                chk.record(tag, 'inconclusive', 'abnormal path')
                chk.inconclusive.append(tag)
                continue
            lx = C02.leaf(ex, 'log', [x], p.pc)
            f = C02.leaf(ex, 'fps', [x], p.pc)
            # x (1-4x) f_PS' = (1-6x) f_PS - 2 x ln x
            if name == 'FPZ':
                # limit = x f' - f  =>  limit * (1-4x) = [(1-2x) f + 2x lx] - f (1-4x) = 2x f + 2x lx
                lhs = zr(p.retval) * (1 - 4 * x)
                rhs = ((1 - 2 * x) * f + 2 * x * lx) - f * (1 - 4 * x)
            else:
                # f_S = (2x-1) f - 2x(2+lx);  f_S' = 2 f + (2x-1) f' - 2(2+lx) - 2
                # limit = f_S - x f_S' ; multiply by (1-4x):
                fS = (2 * x - 1) * f - 2 * x * (2 + lx)
                xfp_times = (1 - 2 * x) * f + 2 * x * lx          # = x (1-4x) f'
                lhs = zr(p.retval) * (1 - 4 * x)
                rhs = (2 * x * f * (1 - 4 * x) + (2 * x - 1) * xfp_times - x * (2 * (2 + lx) + 2) * (1 - 4 * x)) - fS * (1 - 4 * x)
                # inside f_S the code may call f_S (leaf) instead of f_PS: relate the leaves
                fSleaf = [r for (k, a, r) in ex.leaves if k == 'fS']
            cons = p.pc + C02.congruence(ex)
            if name == 'FSZ':
                for (k, a, r) in ex.leaves:
                    if k == 'fS':
                        fa = C02.leaf(ex, 'fps', [a[0]], p.pc)
                        la = C02.leaf(ex, 'log', [a[0]], p.pc)
                        cons = cons + [r == (2 * a[0] - 1) * fa - 2 * a[0] * (2 + la)]
                cons = cons + C02.congruence(ex)
            r, m = chk.prove(tag, cons + [lhs != rhs], timeout_ms=60000, family='limit-formulas',
                             sample={'obligation': '%s(x,x) equals the analytic limit x f\'(x) - f(x) of its difference '
                                     'quotient (f\' from the differential equation of f_PS), all x on the path' % name})
            if r == 'sat':
                xf = float(m.real(x))
                nf = native_fn(lib, sym, 2)
                a_, b_ = nf(xf, xf), nf(xf, xf * (1 + 1e-6))
                chk.traces_validated += 2
                if abs(a_ - b_) > 1e-3 * abs(b_):
                    chk.violation(tag, 'C11:%s:equal-argument-limit' % name,
                                  '%s(%r,%r) = %r but %s(x, x(1+1e-6)) = %r' % (name, xf, xf, a_, name, b_),
                                  '#!/bin/sh\ncd %s && exec python3-vt -m props.replay_c11 limit %s %r\n' % (VERIF, name, xf))
                else:
                    chk.record(tag, 'inconclusive', 'not an identity on this path (expansion regime?), continuous natively')
                    chk.inconclusive.append(tag)


def run(chk):
    mod = harness_module('h_ff_ni')
    lib = harness_native('h_ff')
    audit(chk, mod, lib)
    limit_formulas(chk, mod, lib)
