"""C11 part 2: the Barr-Zee difference quotients and two-variable loop functions of gm2_ffunctions.cpp:
no division by zero reachable, equal-argument formulas equal the analytic limit."""
import math
from fractions import Fraction as Fr
import mpmath
import z3

from .common import *
from .ffcommon import *
from . import C02


def probe(name, nf, pt, idx, coupled=None):
    base = [float(v) for v in pt]

    def at(d):
        v = list(base)
        v[idx] = base[idx] * (1 + d)
        if coupled:
            coupled(v, base, d)
        return nf(*v)
    lo, hi = at(-1e-3), at(1e-3)
    if not (math.isfinite(lo) and math.isfinite(hi)):
        return 'endpoints not finite'
    scale = max(abs(lo), abs(hi))
    if abs(hi - lo) > 0.2 * scale:
        return None
    for d in [0.0] + [s * 10.0 ** e for e in range(-13, -3) for s in (1, -1)]:
        val = at(d)
        chord = lo + (hi - lo) * (d + 1e-3) / 2e-3
        if not math.isfinite(val):
            return 'value at d=%g is %r' % (d, val)
        if scale > 0 and abs(val - chord) / scale > 0.01:
            return 'deviates by %.3g of the magnitude from the chord at d=%g' % (abs(val - chord) / scale, d)
    return None


def audit(chk, mod, lib):
    specs = [('FPZ', 'dd', ['x', 'y'], None), ('FSZ', 'dd', ['x', 'y'], None), ('FCWl', 'dd', ['x', 'y'], None),
             ('Fa', 'dd', ['x', 'y'], None), ('Fb', 'dd', ['x', 'y'], None),
             ('FCWu', 'dddddd', ['xu', 'xd', 'yu', 'yd', 'qu', 'qd'], 'quark'),
             ('FCWd', 'dddddd', ['xu', 'xd', 'yu', 'yd', 'qu', 'qd'], 'quark')]
    for name, sig, params, kind in specs:
        sym = mangle_fn(name, sig)
        chk.functions.add(sym)
        vs = [z3.Real(p) for p in params]
        ufs = dict(C02.UFS)
        ex = executor(mod, RealDom(), ufs=ufs)
        ex.max_steps = 200000
        st = ex.start(sym, vs)
        dom = []
        for p_, v in zip(params, vs):
            if p_ in ('qu', 'qd'):
                dom.append(v == (zr(Fr(2, 3)) if p_ == 'qu' else zr(Fr(-1, 3))))
            else:
                dom += [v >= zr(Fr(1, 10 ** 6)), v <= zr(Fr(10 ** 6))]
        if kind == 'quark':
            # xu/yu = xd/yd = (mW/mH+)^2 by definition of the arguments
            dom.append(vs[0] * vs[3] == vs[1] * vs[2])
        st.pc += dom
        try:
            paths = ex.explore(st)
        except Unsupported as e:
            chk.record('quotient:' + name, 'gap', 'executor: %s' % e)
            chk.not_covered.append('difference quotient %s not executed (%s)' % (name, str(e)[:80]))
            continue
        chk.absorb_executor(ex)
        nf = native_fn(lib, sym, len(vs))
        seen = set()
        for i, p in enumerate(paths):
            tag = 'quotient:%s#%d' % (name, i)
            evs = [e for e in p.events if e[0] in ('fdiv-by-zero', 'log-zero', 'log-negative', 'sqrt-negative')]
            if p.outcome[0] == 'ret' and not isinstance(p.retval, float) and not evs:
                chk.record(tag, 'discharged', family='quotient-finiteness',
                           sample={'obligation': '%s: no division by zero or domain error reachable on this path '
                                   '(ratios in [1e-6,1e6]%s)' % (name, ', xu/yu = xd/yd' if kind else '')})
                chk.formulas.add(tag)
                continue
            r, m = chk.solve(p.pc, 20000)
            if r == 'unsat':
                continue
            if r != 'sat':
                chk.record(tag, 'inconclusive', 'feasibility undecided')
                chk.inconclusive.append(tag)
                continue
            pt = [m.real(v) for v in vs]
            cls = evs[0][0] if evs else str(p.outcome[0])
            key = 'C11:%s:%s' % (name, cls)
            if key in seen:
                continue
            msgs = []
            val = nf(*[float(x) for x in pt])
            chk.traces_validated += 1
            if not math.isfinite(val):
                msgs.append('value %r' % val)
            if kind == 'quark':
                # move the charged-Higgs mass: xu and xd scale together
                def coupled(v, base, d):
                    v[1] = base[1] * (1 + d)
                msg = probe(name, nf, pt, 0, coupled)
                chk.traces_validated += 22
                if msg:
                    msgs.append('along m_H+: ' + msg)
            else:
                for idx in range(len(vs)):
                    msg = probe(name, nf, pt, idx)
                    chk.traces_validated += 22
                    if msg:
                        msgs.append('along %s: %s' % (params[idx], msg))
            if msgs:
                seen.add(key)
                chk.violation(tag, key, '%s at (%s): %s' % (
                    name, ', '.join('%s=%r' % (a, float(b)) for a, b in zip(params, pt)), '; '.join(msgs)[:300]),
                    '#!/bin/sh\ncd %s && exec python3-vt -m props.replay_c11 quotient %s %s %s\n' % (
                        VERIF, name, sig, ' '.join(repr(float(x)) for x in pt)))
            else:
                chk.record(tag, 'discharged', 'exact-arithmetic singular point finite and continuous in doubles',
                           family='quotient-continuity',
                           sample={'obligation': '%s: singular configuration of exact arithmetic found by the solver; '
                                   'native values within the 1%% band' % name, 'point': [float(x) for x in pt]})
                chk.formulas.add(tag)


def limit_formulas(chk, mod, lib):
    """equal-argument branches: lim_{y->x} (y f(x) - x f(y))/(x-y) = f(x) - x f'(x), with f' from the
    differential equations of the loop functions (validated against mpmath in the self test):
       z (1-4z) f_PS'(z) = (1-2z) f_PS(z) + 2 z ln z
       f_S      = (2z-1) f_PS - 2z(2 + ln z)
       f_CSl'   from d/dz Li2(1 - 1/z) = ln z / (z (z-1))"""
    x = z3.Real('x')
    for name, fleaf in (('FPZ', 'fps'), ('FSZ', 'fS')):
        sym = mangle_fn(name, 'dd')
        ufs = dict(C02.UFS)
        ex = executor(mod, RealDom(), ufs=ufs)
        st = ex.start(sym, [x, x])
        st.pc += [x >= zr(Fr(1, 10 ** 6)), x <= zr(Fr(999)), z3.Or(x < zr(Fr(24, 100)), x > zr(Fr(26, 100)))]
        paths = ex.explore(st)
        chk.absorb_executor(ex)
        for i, p in enumerate(paths):
            tag = 'limit:%s#%d' % (name, i)
            if p.outcome[0] != 'ret' or isinstance(p.retval, float):
                chk.record(tag, 'inconclusive', 'abnormal path')
                chk.inconclusive.append(tag)
                continue
            lx = C02.leaf(ex, 'log', [x], p.pc)
            f = C02.leaf(ex, 'fps', [x], p.pc)
            # x (1-4x) f_PS' = (1-6x) f_PS - 2 x ln x
            if name == 'FPZ':
                # limit = x f' - f  =>  limit * (1-4x) = [(1-2x) f + 2x lx] - f (1-4x) = 2x f + 2x lx
                lhs = zr(p.retval) * (1 - 4 * x)
                rhs = ((1 - 2 * x) * f + 2 * x * lx) - f * (1 - 4 * x)
            else:
                # f_S = (2x-1) f - 2x(2+lx);  f_S' = 2 f + (2x-1) f' - 2(2+lx) - 2
                # limit = f_S - x f_S' ; multiply by (1-4x):
                fS = (2 * x - 1) * f - 2 * x * (2 + lx)
                xfp_times = (1 - 2 * x) * f + 2 * x * lx          # = x (1-4x) f'
                lhs = zr(p.retval) * (1 - 4 * x)
                rhs = (2 * x * f * (1 - 4 * x) + (2 * x - 1) * xfp_times - x * (2 * (2 + lx) + 2) * (1 - 4 * x)) - fS * (1 - 4 * x)
                # inside f_S the code may call f_S (leaf) instead of f_PS: relate the leaves
                fSleaf = [r for (k, a, r) in ex.leaves if k == 'fS']
            cons = p.pc + C02.congruence(ex)
            if name == 'FSZ':
                for (k, a, r) in ex.leaves:
                    if k == 'fS':
                        fa = C02.leaf(ex, 'fps', [a[0]], p.pc)
                        la = C02.leaf(ex, 'log', [a[0]], p.pc)
                        cons = cons + [r == (2 * a[0] - 1) * fa - 2 * a[0] * (2 + la)]
                cons = cons + C02.congruence(ex)
            r, m = chk.prove(tag, cons + [lhs != rhs], timeout_ms=60000, family='limit-formulas',
                             sample={'obligation': '%s(x,x) equals the analytic limit x f\'(x) - f(x) of its difference '
                                     'quotient (f\' from the differential equation of f_PS), all x on the path' % name})
            if r == 'sat':
                xf = float(m.real(x))
                nf = native_fn(lib, sym, 2)
                a_, b_ = nf(xf, xf), nf(xf, xf * (1 + 1e-6))
                chk.traces_validated += 2
                if abs(a_ - b_) > 1e-3 * abs(b_):
                    chk.violation(tag, 'C11:%s:equal-argument-limit' % name,
                                  '%s(%r,%r) = %r but %s(x, x(1+1e-6)) = %r' % (name, xf, xf, a_, name, b_),
                                  '#!/bin/sh\ncd %s && exec python3-vt -m props.replay_c11 limit %s %r\n' % (VERIF, name, xf))
                else:
                    chk.record(tag, 'inconclusive', 'not an identity on this path (expansion regime?), continuous natively')
                    chk.inconclusive.append(tag)


def dxlog_series(chk):
    """(a^2 ln a - b^2 ln b)/(a-b) near a = b (gm2_2loop_B.cpp dxlog): series branch against the definition with
    ln a = ln b + ln(1+t), t = (a-b)/b, Mercator series + remainder"""
    from . import C11
    import sympy
    mod, ks = C11.kernel_module()
    if 'dxlog' not in dict(ks):
        chk.record('dxlog', 'inconclusive', 'dxlog not found in gm2_2loop_B.cpp')
        chk.inconclusive.append('dxlog')
        return
    a, b, t = z3.Real('a'), z3.Real('b'), z3.Real('t')
    ex = executor(mod, RealDom(), ufs=C11.lib_ufs(mod))
    st = ex.start('vx_dxlog', [a, b])
    st.pc += [b >= zr(Fr(1, 100)), b <= zr(Fr(10 ** 4)), a >= zr(Fr(1, 200)), a <= zr(Fr(2 * 10 ** 4)), a == b * (1 + t)]
    paths = ex.explore(st)
    chk.absorb_executor(ex)
    K = 10
    T = Fr(1, 40)
    ts = sympy.symbols('ts')
    S_over_t = sum(sympy.Rational((-1) ** (k + 1), k) * ts ** (k - 1) for k in range(1, K + 1))
    nonlog = sympy.expand((1 + ts) ** 2 * S_over_t)
    rem = T ** K / ((K + 1) * (1 - T)) * (1 + T) ** 2          # |(1+t)^2 * remainder / t|
    nexp = 0
    for i, p in enumerate(paths):
        tag = 'dxlog#%d' % i
        if p.outcome[0] != 'ret' or isinstance(p.retval, float):
            continue
        lb = C02.leaf(ex, 'log', [b], p.pc)
        la = [ex.leaves[j][2] for j in p.leaves if ex.leaves[j][0] == 'log' and not ex.leaves[j][1][0].eq(b)]
        if la:
            # closed-form regime (uses ln a): identity with free leaves
            lav = la[0]
            r, m = chk.prove(tag + ':identity', p.pc + [zr(p.retval) * (a - b) != a * a * lav - b * b * lb],
                             family='dxlog', sample={'obligation': 'dxlog closed form == (a^2 ln a - b^2 ln b)/(a-b)'})
            continue
        nexp += 1
        ref = b * ((2 + t) * lb + horner_z3(nonlog, ts, t, {}))
        tol = zr(Fr(1, 10 ** 6)) * b - zr(rem) * b
        cons = p.pc + [t <= zr(T), t >= -zr(T), z3.Or(zr(p.retval) - ref > tol, ref - zr(p.retval) > tol)]
        r, m = chk.prove(tag + ':series', cons, timeout_ms=60000, family='dxlog',
                         sample={'obligation': 'dxlog series branch within 1e-6 b of the definition for |a-b| <= b/40, '
                                 'ln b free'})
        if r == 'sat':
            af, bf = float(m.real(a)), float(m.real(b))
            got = C11.native_eval('dxlog', [af, bf])
            mpmath.mp.dps = 60
            A, B = mpmath.mpf(af), mpmath.mpf(bf)
            refv = (A * A * mpmath.log(A) - B * B * mpmath.log(B)) / (A - B) if A != B else B * (1 + 2 * mpmath.log(B))
            chk.traces_validated += 1
            if abs(got - refv) > 1e-6 * bf:
                chk.violation(tag, 'C11:dxlog:series', 'dxlog(%r,%r) = %r, definition %s' % (af, bf, got, mpmath.nstr(refv, 15)),
                              '#!/bin/sh\ncd %s && exec python3-vt -m props.replay_c11 dxlog %r %r\n' % (VERIF, af, bf))
            else:
                chk.record(tag + ':series', 'inconclusive', 'sat not reproduced')
                chk.inconclusive.append(tag + ':series')
        # the series regime must not extend beyond |t| <= 1/40 on this domain
        r, m = chk.prove(tag + ':window', p.pc + [z3.Or(t > zr(T), t < -zr(T))], family='dxlog')
        if r == 'sat':
            chk.record(tag + ':window', 'inconclusive', 'series used for |a-b| > b/40')
            chk.inconclusive.append(tag + ':window')
    if nexp == 0:
        chk.record('dxlog:series', 'inconclusive', 'series regime not found')
        chk.inconclusive.append('dxlog:series')


def run(chk):
    mod = harness_module('h_ff_ni')
    lib = harness_native('h_ff')
    audit(chk, mod, lib)
    limit_formulas(chk, mod, lib)
    dxlog_series(chk)
    from . import C11c
    C11c.run(chk, mod, lib)
    from . import C11d
    C11d.run(chk)
