"""C09 part 2: Yukawa matrices in terms of rho_f, init_yukawas (mass reproduction, reachable divisions by zero),
constructors copy the basis fields."""
import z3

from .common import *
from .modelprobe import probe, ext_handler, cmul, cadd, cconj, cscale
from . import C02


def QE(c):
    return []
from symx.exec import Ptr

SC = ['h', 'H', 'A', 'Hp']


def cmat_mul(A, B):
    return [[cadd3([cmul(A[i][k], B[k][j]) for k in range(3)]) for j in range(3)] for i in range(3)]


def cadd3(xs):
    r = (z3.RealVal(0), z3.RealVal(0))
    for x in xs:
        r = cadd(r, x)
    return r


def adj(A):
    return [[cconj(A[j][i]) for j in range(3)] for i in range(3)]


def rho_oracle(c, t, f, m):
    from .C09 import F, TABLE, S2
    V = c.V
    tb, v, cb = V['tb'], V['v'], V['cb']
    if t in TABLE:
        z = (1 / tb) if TABLE[t][f] == 1 else -tb
    elif t == 5:
        z = V['zeta_' + F[f]]
    out = [[None] * 3 for _ in range(3)]
    for i in range(3):
        for j in range(3):
            mij = m[i] if i == j else z3.RealVal(0)
            if t != 6:
                out[i][j] = (S2 * mij * z / v + V['Delta_%s%d%d' % (F[f], i, j)], z3.RealVal(0))
            else:
                out[i][j] = (V['Pi_%sr%d%d' % (F[f], i, j)] / cb - S2 * mij * tb / v,
                             z3.RealVal(0) if f == 0 else V['Pi_%si%d%d' % (F[f], i, j)] / cb)
    return out


def yukawas(chk, c):
    from .C09 import F, TYPES, S2, CONST_AX, independence
    V = c.V
    v, sba, cba, tb, cb = V['v'], V['sba'], V['cba'], V['tb'], V['cb']
    ckm = [[(V['ckmr%d%d' % (i, j)], V['ckmi%d%d' % (i, j)]) for j in range(3)] for i in range(3)]
    jobs = []
    for t in TYPES:
        st = c.typed[t]
        for f in range(3):
            for s in range(4):
                chk.functions.add('THDM::get_y%s%s' % (F[f], SC[s]))
                s2 = st.fork()
                out = c.ex.new_region(s2, 21 * 8, 'stack', 'out')
                op = Ptr(out.rid, 0)
                try:
                    s3 = c.ex.start('vx_y_all', [c.mp, f, s, op], s2)
                    rr = c.ex.explore(s3)
                except Unsupported as e:
                    chk.record('y%s%s:%s' % (F[f], SC[s], TYPES[t]), 'gap', str(e)[:100], family='yukawas')
                    chk.not_covered.append('get_y%s%s (%s): %s' % (F[f], SC[s], TYPES[t], str(e)[:80]))
                    continue
                rets = [p for p in rr if p.outcome[0] == 'ret']
                if not rets or len(rets) != len(rr):
                    chk.record('y%s%s:%s' % (F[f], SC[s], TYPES[t]), 'inconclusive', 'outcomes %r' % [p.outcome for p in rr][:3],
                               family='yukawas')
                    chk.inconclusive.append('y%s%s:%s' % (F[f], SC[s], TYPES[t]))
                    continue
                for variant, p in enumerate(rets):
                    vals = [zr(c.ex.load(p, Ptr(out.rid, 8 * k), llir.DOUBLE)) for k in range(21)]
                    m = vals[18:21]
                    rho = rho_oracle(c, t, f, m)
                    md = [[(m[i], z3.RealVal(0)) if i == j else (z3.RealVal(0), z3.RealVal(0)) for j in range(3)] for i in range(3)]
                    if s == 0:
                        orc = [[cadd(cscale(sba / v, md[i][j]), cscale(cba / S2, rho[i][j])) for j in range(3)] for i in range(3)]
                    elif s == 1:
                        orc = [[cadd(cscale(cba / v, md[i][j]), cscale(-sba / S2, rho[i][j])) for j in range(3)] for i in range(3)]
                    elif s == 2:
                        sg = 1 if f == 0 else -1
                        orc = [[cscale(sg / S2, rho[i][j]) for j in range(3)] for i in range(3)]
                    else:
                        if f == 0:
                            orc = [[cscale(-1, x) for x in row] for row in cmat_mul(adj(rho), ckm)]
                        elif f == 1:
                            orc = cmat_mul(ckm, rho)
                        else:
                            orc = rho
                    base = list(p.pc) + QE(c) + CONST_AX + [v != 0, cb != 0, tb > 0]
                    for i in range(3):
                        for j in range(3):
                            re, im = vals[2 * (3 * i + j)], vals[2 * (3 * i + j) + 1]
                            tag = 'y%s%s[%d,%d]:%s%s' % (F[f], SC[s], i, j, TYPES[t], '' if variant == 0 else '#%d' % variant)
                            jobs.append({'name': tag, 'constraints': base + [z3.Or(re != orc[i][j][0], im != orc[i][j][1])],
                                         'pairs': [(re, orc[i][j][0]), (im, orc[i][j][1])],
                                         'family': 'yukawas', 'key': 'C09:yukawa:%s%s:%s' % (F[f], SC[s], TYPES[t]),
                                         'text': 'get_y%s%s of the %s model differs from the published expression' % (F[f], SC[s], TYPES[t]),
                                         'sample': {'obligation': 'get_y%s%s (%s) equals Eqs.(13)-(18) of arXiv:1607.06292 in terms of '
                                                    'rho_%s, sin/cos(beta-alpha), v, CKM for all parameters' % (F[f], SC[s], TYPES[t], F[f])}})
                            if variant == 0:
                                independence(chk, c, t, 'get_y%s%s(%d,%d)' % (F[f], SC[s], i, j), re + im, p)
    from .C03 import parallel_status
    from . import polyid
    quick = parallel_status(jobs, 4000)
    for job, st_ in zip(jobs, quick):
        if st_ == 'unsat':
            chk.note_formula(job['constraints'])
            chk.queries += 1
            chk.counts['unsat'] += 1
            smp = dict(job['sample'])
            smp['method'] = 'z3 nlsat'
            chk.record(job['name'], 'discharged', family=job['family'], sample=smp)
            continue
        rs = [polyid.prove_identity(chk, job['name'] + (':re' if k == 0 else ':im'), c.ex, a, b, [(S2, 2, 2)], None, job['family'],
                                    job['sample']) for k, (a, b) in enumerate(job['pairs'])]
        r = 'sat' if 'sat' in rs else 'unsat'
        if r == 'sat':
            chk.violation(job['name'], job['key'], job['text'], '#!/bin/sh\ncd %s && exec python3-vt -m props.replay_c09 types\n' % VERIF)


def compatible(chk, pc1, pc2):
    r, m = chk.solve(list(pc1) + list(pc2), 5000)
    return r != 'unsat'


def call_multi(c, st, fn, args):
    s2 = c.ex.start(fn, [c.mp] + list(args), st.fork())
    rr = c.ex.explore(s2)
    good = [p for p in rr if p.outcome[0] == 'ret']
    if not good or len(good) != len(rr):
        raise Unsupported('%s%r: outcomes %r' % (fn, args, [p.outcome for p in rr][:4]))
    return good


def init_yukawas(chk, c):
    """(v1 Gamma_f + v2 Pi_f)/sqrt2 == SM mass matrix after init_yukawas, for every type; reachable division by zero"""
    from .C09 import F, TYPES, S2, CONST_AX
    V = c.V
    chk.functions.update(['THDM::init_yukawas', 'calc_xi'])
    spec = {}
    for f in range(3):
        for i in range(3):
            spec['smm_%s%d' % (F[f], i)] = ('vx_sm_m', [f, i])
    st0, M = probe(c.ex, c.st.fork(), c.mp, spec)
    M = {k: zr(v) for k, v in M.items()}
    v1, v2, tb = V['v1'], V['v2'], V['tb']
    ckm = [[(V['ckmr%d%d' % (i, j)], V['ckmi%d%d' % (i, j)]) for j in range(3)] for i in range(3)]
    gspec = {}
    for f in range(3):
        for i in range(3):
            for j in range(3):
                gspec['G%sr%d%d' % (F[f], i, j)] = ('vx_Gamma_re', [f, i, j])
                gspec['G%si%d%d' % (F[f], i, j)] = ('vx_Gamma_im', [f, i, j])
                gspec['P%sr%d%d' % (F[f], i, j)] = ('vx_Pi_re', [f, i, j])
                gspec['P%si%d%d' % (F[f], i, j)] = ('vx_Pi_im', [f, i, j])
    for t in TYPES:
        s1 = c.ex.start('vx_set_type', [c.mp, t], st0.fork())
        p0 = c.ex.explore(s1)[0]
        p0.outcome = None
        p0.frames = []
        p0.retval = None
        c.ex.div_no_fork = False
        try:
            s2 = c.ex.start('vx_init_yukawas', [c.mp], p0.fork())
            s2.pc += [v1 > 0, v2 > 0, tb > 0]
            rr = c.ex.explore(s2)
        finally:
            c.ex.div_no_fork = True
        for pi, p in enumerate(rr):
            evs = [e for e in p.events if e[0] == 'fdiv-by-zero']
            tag = 'init_yukawas:%s#%d' % (TYPES[t], pi)
            if evs or p.outcome[0] != 'ret':
                r, mdl = chk.solve(list(p.pc) + QE(c), 20000)
                if r == 'unsat':
                    continue
                if r != 'sat':
                    chk.record(tag, 'inconclusive', 'feasibility of a division-by-zero path undecided', family='init-yukawas')
                    chk.inconclusive.append(tag)
                    continue
                vals = {n: mdl.real(V[n]) for n in ('tb', 'zeta_u', 'zeta_d', 'zeta_l')}
                chk.violation(tag, 'C09:init_yukawas:%s:division-by-zero' % TYPES[t],
                              'init_yukawas of the %s model divides by zero for admissible input (tan(beta) = %s, zeta_u,d,l = %s, %s, %s): '
                              'with zeta_f = cot(beta) the aligned model is the type I model but 1 - tan(beta) zeta_f = 0 in calc_xi' % (
                                  TYPES[t], vals['tb'], vals['zeta_u'], vals['zeta_d'], vals['zeta_l']),
                              '#!/bin/sh\ncd %s && exec python3-vt -m props.replay_c09 singular\n' % VERIF)
                continue
            p.outcome = None
            p.frames = []
            p.retval = None
            st2, G = probe(c.ex, p, c.mp, gspec)
            G = {k: zr(v_) for k, v_ in G.items()}
            base = list(st2.pc) + QE(c) + CONST_AX + [tb * v1 == v2]     # get_tan_beta() = v2/v1 (THDM_mass_eigenstates, proven in C08)
            for f in range(3):
                md = [[(M['smm_%s%d' % (F[f], i)], z3.RealVal(0)) if i == j else (z3.RealVal(0), z3.RealVal(0)) for j in range(3)]
                      for i in range(3)]
                target = cmat_mul(adj(ckm), md) if f == 0 else md
                bad = []
                for i in range(3):
                    for j in range(3):
                        re = (v1 * G['G%sr%d%d' % (F[f], i, j)] + v2 * G['P%sr%d%d' % (F[f], i, j)]) / S2
                        im = (v1 * G['G%si%d%d' % (F[f], i, j)] + v2 * G['P%si%d%d' % (F[f], i, j)]) / S2
                        bad.append(z3.Or(re != target[i][j][0], im != target[i][j][1]))
                r, mdl = chk.prove('%s:mass_%s' % (tag, F[f]), base + [z3.Or(*bad)], family='init-yukawas', timeout_ms=60000,
                                   sample={'obligation': 'after init_yukawas (%s): (v1 Gamma_%s + v2 Pi_%s)/sqrt2 is %s for all inputs on '
                                           'this path' % (TYPES[t], F[f], F[f], 'V_CKM^dagger diag(m_u)' if f == 0 else 'diag(m_%s)' % F[f])})
                if r == 'sat':
                    chk.violation('%s:mass_%s' % (tag, F[f]), 'C09:init_yukawas:%s:%s' % (TYPES[t], F[f]),
                                  'init_yukawas (%s) does not reproduce the SM %s-type mass matrix' % (TYPES[t], F[f]),
                                  '#!/bin/sh\ncd %s && exec python3-vt -m props.replay_c09 types\n' % VERIF)


def constructors(chk, c):
    from .C09 import F
    mod, dem = c.mod, c.dem
    opaque = set(n for n in mod.functions if any(x in dem.get(n, '') for x in ('THDM::set_basis(', 'THDM::init_gauge_couplings(',
                                                                              'gm2calc::SM::SM(', 'THDM_mass_eigenstates::THDM_mass_eigenstates(')))
    for kind, ctor, acc in (('Mass_basis', 'vx_ctor_mass', 'vx_mb'), ('Gauge_basis', 'vx_ctor_gauge', 'vx_gb')):
        chk.functions.add('THDM::THDM(%s const&, SM const&, Config const&)' % kind)
        ex = executor(mod, c.ex.dom, fork_select=False)
        ex.undefined_handler = ext_handler(dem)
        ex.opaque_defined = opaque
        ex.symbolic_new = True
        ex.fast_throw = True
        st = X.State()
        regs = [ex.new_region(st, None, 'input', n, lazy=True) for n in ('thdm', 'basis', 'sm', 'cfg')]
        ptrs = [Ptr(r.rid, 0) for r in regs]
        # name the basis fields
        names = {}
        cur = st
        fields = [('zeta_u', 1, 0, 0), ('zeta_d', 2, 0, 0), ('zeta_l', 3, 0, 0)]
        for k, nm in ((4, 'Delta_u'), (5, 'Delta_d'), (6, 'Delta_l')):
            for i in range(3):
                for j in range(3):
                    fields.append(('%s(%d,%d)' % (nm, i, j), k, i, j))
        try:
            for nm, k, i, j in fields:
                s2 = ex.start(acc, [ptrs[1], k, i, j], cur)
                rr = ex.explore(s2)
                cur = rr[0]
                names[nm] = zr(cur.retval)
                cur.outcome = None
                cur.frames = []
                cur.retval = None
            s2 = ex.start(ctor, ptrs, cur.fork())
            rr = ex.explore(s2)
        except Unsupported as e:
            chk.record('ctor:' + kind, 'gap', str(e)[:120], family='constructors')
            chk.not_covered.append('constructor from %s not executed (%s)' % (kind, str(e)[:80]))
            continue
        rets = [p for p in rr if p.outcome[0] == 'ret']
        if not rets:
            chk.record('ctor:' + kind, 'gap', 'no returning path: %r' % [p.outcome for p in rr][:3], family='constructors')
            chk.not_covered.append('constructor from %s: no returning path' % kind)
            continue
        for pi, p in enumerate(rets):
            p.outcome = None
            p.frames = []
            p.retval = None
            cur = p
            bad = []
            for nm, k, i, j in fields:
                fn, args = ('vx_zeta_field', [k - 1]) if k <= 3 else ('vx_Delta', [k - 4, i, j])
                s3 = ex.start(fn, [ptrs[0]] + args, cur)
                r3 = ex.explore(s3)
                cur = r3[0]
                got = zr(cur.retval)
                cur.outcome = None
                cur.frames = []
                cur.retval = None
                bad.append((nm, got != names[nm]))
            for nm, cond in bad:
                tag = 'ctor:%s:%s#%d' % (kind, nm, pi)
                r, mdl = chk.prove(tag, list(cur.pc) + [cond], family='constructors',
                                   sample={'obligation': 'THDM(%s): member %s holds the basis\' %s after construction' % (kind, nm, nm)})
                if r == 'sat':
                    chk.violation(tag, 'C09:ctor:%s:%s' % (kind, nm.split('(')[0]),
                                  'THDM constructed from a %s: member %s is not the %s of the basis' % (kind, nm, nm),
                                  '#!/bin/sh\ncd %s && exec python3-vt -m props.replay_c09 ctor\n' % VERIF)
        chk.absorb_executor(ex)


def run(chk, c):
    yukawas(chk, c)
    init_yukawas(chk, c)
    constructors(chk, c)
