"""C13 part 3: numeric token conversion (convert_to<T>) against the strto* contract, GM2CalcConfig
value readers.  FP domain (bit-precise doubles)."""
import ctypes
import math
import subprocess
from fractions import Fraction as Fr
import z3

from .common import *
from . import slhagen
from symx.exec import Ptr, ThrowSignal, PathEnd, NULL
from symx import stubs as S
from symx.domains import FPDom, fpval, FP64, RNE
from oracle import slha_keys as K

EREAD = '_ZTIN7gm2calc10EReadErrorE'
EINVALID = '_ZTIN7gm2calc13EInvalidInputE'


def strto_stub(kind):
    """strtod/strtol(p, &end[, base]): consumes an arbitrary prefix of the token (0 <= n <= strlen),
    returns an arbitrary value of its type, may set errno (to anything, ERANGE included)"""
    def f(ex, st, args, I):
        p, endp = args[0], args[1]
        L = st.data['toklen']
        n = z3.BitVec('consumed', 64)
        st.add(z3.ULE(n, L))
        ex.store(st, endp, llir.PtrT(llir.I8), Ptr(p.rid, z3.BitVecVal(p.off, 64) + n if not isinstance(p.off, z3.ExprRef) else p.off + n))
        # errno after the call: arbitrary
        ep = S.errno_location(ex, st, [], None)
        ex.store(st, ep, llir.I32, z3.BitVec('errno_after', 32))
        st.data['consumed'] = n
        if kind == 'd':
            v = z3.FP('strtod_value', FP64)
        else:
            v = z3.BitVec('strtol_value', 64)
        st.data['strto_value'] = v
        return v
    return f


def token_object(ex, st):
    """std::string of symbolic content and symbolic length >= 1 (SLHAea tokens are non-empty)"""
    s = ex.new_region(st, 32, 'input', 'token')
    chars = ex.new_region(st, None, 'input', 'chars', lazy=True)
    L = z3.BitVec('token_length', 64)
    s.cells[0] = (Ptr(chars.rid, 0), 8)
    s.cells[8] = (L, 8)
    s.lazy = True
    st.add(z3.And(z3.UGE(L, 1), z3.ULE(L, 4096)))
    st.data['toklen'] = L
    return Ptr(s.rid, 0), L


def convert_to(chk, mod, lib):
    from .C13 import skip_formatting
    for T, fn, strto in (('double', 'vx_convert_to_double', 'strtod'), ('int', 'vx_convert_to_int', 'strtol'),
                         ('long', 'vx_convert_to_long', 'strtol')):
        chk.functions.add('gm2calc::GM2_slha_io::convert_to<%s>' % T)
        st_ = {'strtod': strto_stub('d'), 'strtol': strto_stub('l')}
        ex = skip_formatting(executor(mod, FPDom(), extra_stubs=st_, fork_select=False))
        st = X.State()
        tok, L = token_object(ex, st)
        st = ex.start(fn, [tok], st)
        try:
            paths = ex.explore(st)
        except Unsupported as e:
            chk.record('convert_to<%s>' % T, 'inconclusive', 'executor: %s' % e)
            chk.inconclusive.append('convert_to<%s>' % T)
            continue
        chk.absorb_executor(ex)
        nret = 0
        for i, p in enumerate(paths):
            tag = 'convert_to<%s>#%d' % (T, i)
            if p.outcome[0] == 'throw':
                if p.outcome[1] != EREAD:
                    chk.violation(tag, 'C13:convert_to<%s>:foreign-exception' % T,
                                  'convert_to<%s> lets %s escape instead of EReadError' % (T, p.outcome[1]), None)
                else:
                    chk.record(tag, 'discharged', family='token-conversion',
                               sample={'obligation': 'conversion failure is reported as gm2calc::EReadError'})
                    chk.formulas.add(tag)
                continue
            if p.outcome[0] != 'ret':
                chk.record(tag, 'inconclusive', 'path %r' % (p.outcome,))
                chk.inconclusive.append(tag)
                continue
            nret += 1
            n = p.data.get('consumed')
            v = p.data.get('strto_value')
            if n is None:
                chk.record(tag, 'inconclusive', 'returned without calling %s' % strto)
                chk.inconclusive.append(tag)
                continue
            # (a) value finite
            if T == 'double':
                r, m = chk.prove(tag + ':finite', p.pc + [z3.Or(z3.fpIsNaN(v), z3.fpIsInf(v))], engine='fp',
                                 family='token-conversion',
                                 sample={'obligation': 'convert_to<double> returns normally only with a finite value'})
                if r == 'sat':
                    rc = replay_token('double', 'inf')
                    chk.traces_validated += 1
                    if rc != 0:
                        chk.violation(tag + ':finite', 'C13:convert_to<double>:nonfinite',
                                      'a non-finite token is accepted', token_script('double', 'inf'))
                    else:
                        chk.record(tag + ':finite', 'inconclusive', 'sat not reproduced')
                        chk.inconclusive.append(tag + ':finite')
            else:
                # returned value equals what strtol delivered (no truncation): int range
                rv = p.retval
                if T == 'int':
                    ok = z3.SignExt(32, rv) == v if z3.is_bv(rv) and rv.size() == 32 else None
                else:
                    ok = rv == v if z3.is_bv(rv) else None
                if ok is not None:
                    r, m = chk.prove(tag + ':value', p.pc + [z3.Not(ok)], family='token-conversion',
                                     sample={'obligation': 'convert_to<%s> returns exactly the parsed integer '
                                             '(out-of-range values are rejected, not truncated)' % T})
                    if r == 'sat':
                        big = str(m.bv(v) if m.bv(v) < 1 << 63 else m.bv(v) - (1 << 64))
                        rc = replay_token(T, big)
                        chk.traces_validated += 1
                        if rc != 0:
                            chk.violation(tag + ':value', 'C13:convert_to<%s>:truncation' % T,
                                          'token %s is accepted with a truncated value' % big, token_script(T, big))
                        else:
                            chk.record(tag + ':value', 'inconclusive', 'sat not reproduced')
                            chk.inconclusive.append(tag + ':value')
            # (b) the whole token was consumed
            r, m = chk.prove(tag + ':whole-token', p.pc + [n != L], family='token-conversion',
                             sample={'obligation': 'convert_to<%s> returns normally only if %s consumed the entire '
                                     'token (no trailing characters, no Fortran D exponent)' % (T, strto)})
            if r == 'sat':
                wit = {'double': '4.4D2', 'int': '12abc', 'long': '3x'}[T]
                rc = replay_token(T, wit)
                chk.traces_validated += 1
                if rc != 0:
                    chk.violation(tag + ':whole-token', 'C13:convert_to<%s>:trailing-characters' % T,
                                  'token %r is accepted although only a prefix is numeric (consumed %d of %d '
                                  'characters in the solver witness)' % (wit, m.bv(n), m.bv(L)),
                                  token_script(T, wit))
                else:
                    chk.record(tag + ':whole-token', 'inconclusive', 'sat not reproduced with %r' % wit)
                    chk.inconclusive.append(tag + ':whole-token')
        if nret == 0:
            chk.record('convert_to<%s>' % T, 'inconclusive', 'no returning path')
            chk.inconclusive.append('convert_to<%s>' % T)


def token_script(T, tok):
    return '#!/bin/sh\ncd %s && exec python3-vt -m props.replay_c13 token %s %r\n' % (VERIF, T, tok)


def replay_token(T, tok):
    """0 = token rejected or fully numeric; 1 = accepted although not entirely a finite number"""
    code = ('import sys; sys.path.insert(0, %r); from props import slhagen; import ctypes; '
            'lib = slhagen.native(); f = lib.vx_native_convert; f.restype = ctypes.c_int; '
            'f.argtypes = [ctypes.c_char_p, ctypes.c_int, ctypes.POINTER(ctypes.c_double)]; '
            'out = ctypes.c_double(0); rc = f(%r.encode(), %d, ctypes.byref(out)); print(rc, out.value)' % (
                VERIF, tok, {'double': 0, 'int': 1, 'long': 2}[T]))
    r = subprocess.run(['python3-vt', '-c', code], capture_output=True, text=True, cwd=VERIF)
    out = r.stdout.strip().split()
    if r.returncode != 0 or not out:
        return 1
    rc, val = int(out[0]), float(out[1])
    print('convert_to<%s>(%r): %s' % (T, tok, 'accepted as %r' % val if rc == 0 else 'rejected'))
    if rc != 0:
        return 0
    # accepted: fine only if the token is in its entirety a finite number in C/Python syntax
    try:
        ref = float(tok) if T == 'double' else int(tok)
    except ValueError:
        return 1
    if T == 'double' and not math.isfinite(ref):
        return 1
    return 0 if ref == val else 1


# ---------------------------------------------------------------------------- GM2CalcConfig

def config(chk, mod, lib):
    from .C13 import skip_formatting, write_recorder
    chk.functions.add('gm2calc::(anon)::process_gm2calcconfig_tuple')
    key = z3.BitVec('key', 32)
    val = z3.Real('value')
    ex = skip_formatting(executor(mod, RealDom(), fork_select=False))
    st = X.State()
    cfg = ex.new_region(st, None, 'input', 'obj', lazy=True)
    ex.write_hook = write_recorder(cfg.rid)
    st = ex.start('vx_proc_config', [Ptr(cfg.rid, 0), key, val], st)
    try:
        paths = ex.explore(st)
    except Unsupported as e:
        chk.record('config', 'inconclusive', 'executor: %s' % e)
        chk.inconclusive.append('config')
        return
    chk.absorb_executor(ex)
    handled = set()
    for i, p in enumerate(paths):
        r, m = chk.solve(p.pc, 20000)
        if r != 'sat':
            continue
        k = m.bv(key)
        k = k - (1 << 32) if k >= 1 << 31 else k
        single, _ = chk.solve(p.pc + [key != z3.BitVecVal(k & 0xffffffff, 32)], 20000)
        tag = 'config[%s]#%d' % (k if single == 'unsat' else 'other', i)
        if any(e[0] == 'fptoint-ub' for e in p.events) or p.outcome[0] == 'ub':
            chk.violation(tag, 'C14:config:float-to-int', 'GM2CalcConfig[%d]: out-of-range float-to-int conversion '
                          'reachable' % k, None)
            continue
        if single != 'unsat':
            if p.data.get('writes') or p.outcome[0] != 'ret':
                chk.violation(tag, 'C13:config:unknown-entry', 'unknown GM2CalcConfig entry %d changes the '
                              'configuration or throws' % k, None)
            else:
                chk.record(tag, 'discharged', family='config',
                           sample={'obligation': 'unknown GM2CalcConfig entries are ignored (warning only)'})
                chk.formulas.add(tag)
            continue
        handled.add(k)
        if k not in K.CONFIG:
            if p.data.get('writes'):
                chk.violation(tag, 'C13:config:undocumented-%d' % k, 'undocumented entry %d is honoured' % k, None)
            continue
        field, allowed = K.CONFIG[k]
        in_allowed = z3.Or([val == a for a in allowed])
        if p.outcome[0] == 'throw':
            ok_t = p.outcome[1] == EINVALID
            r, m = chk.prove(tag + ':reject', p.pc + [in_allowed], family='config',
                             sample={'obligation': 'GM2CalcConfig[%d]: EInvalidInput only for values outside %r' % (k, allowed)})
            if r == 'sat' or not ok_t:
                chk.violation(tag, 'C13:config:%d-rejects-valid' % k,
                              'GM2CalcConfig[%d] = %r is rejected (%s)' % (k, float(m.real(val)) if m else '?', p.outcome[1]), None)
            continue
        if p.outcome[0] != 'ret':
            chk.record(tag, 'inconclusive', 'path %r' % (p.outcome,))
            chk.inconclusive.append(tag)
            continue
        r, m = chk.prove(tag + ':accept', p.pc + [z3.Not(in_allowed)], family='config',
                         sample={'obligation': 'GM2CalcConfig[%d]: accepted only for values in %r (all finite values; '
                                 'non-finite tokens are rejected earlier by convert_to)' % (k, allowed)})
        if r == 'sat':
            chk.violation(tag, 'C13:config:%d-accepts-invalid' % k,
                          'GM2CalcConfig[%d] = %r is accepted' % (k, float(m.real(val))),
                          '#!/bin/sh\ncd %s && exec python3-vt -m props.replay_c13 config %d %r\n' % (VERIF, k, float(m.real(val))))
            continue
        # stored value == the entry
        st2 = p.fork()
        st2.outcome = None
        st2.frames = []
        ex.write_hook = None
        st2 = ex.start('vx_cfg_%d' % k, [Ptr(cfg.rid, 0)], st2)
        for ap in ex.explore(st2):
            rv = ap.retval
            rvz = zr(rv)
            r, m = chk.prove(tag + ':stored', ap.pc + [rvz != val], family='config',
                             sample={'obligation': 'GM2CalcConfig[%d]: option `%s` holds the given value' % (k, field)})
            if r == 'sat':
                chk.violation(tag, 'C13:config:%d-stored' % k,
                              'GM2CalcConfig[%d] = %r stores %s = %r' % (k, float(m.real(val)), field, m.real(rvz)),
                              None)
        ex.write_hook = write_recorder(cfg.rid)
    for k in K.CONFIG:
        if k not in handled:
            chk.violation('config[%d]' % k, 'C13:config:%d-unhandled' % k, 'documented GM2CalcConfig[%d] is not handled' % k, None)


def run(chk, mod):
    lib = slhagen.native()
    chk.stubs.update(['strtod/strtol: arbitrary consumed prefix 0..len, arbitrary value, arbitrary errno'])
    convert_to(chk, mod, lib)
    config(chk, mod, lib)
