"""C08 part 2: mass-basis inversion (set_basis(Mass_basis)) and extraction of the mixing angle."""
from fractions import Fraction as Fr
import z3

from .common import *
from .C14b import demangled
from .modelprobe import probe, ext_handler
from . import angles, polyid
from symx.exec import Ptr

MB = ['mh', 'mH', 'mA', 'mHp', 'sba', 'l6', 'l7', 'tb', 'm122']


def expand_quots(ex, e):
    for _ in range(30):
        subs = []
        todo = [e]
        seen = set()
        while todo:
            t = todo.pop()
            if t.get_id() in seen:
                continue
            seen.add(t.get_id())
            qi = ex.quots.get(t.get_id())
            if qi is not None:
                subs.append((t, zr(qi[0]) / zr(qi[1])))
            todo.extend(t.children())
        if not subs:
            return e
        e = z3.substitute(e, *subs)
    return e


def inversion(chk, c):
    from .C08 import CONSTS, CONST_AX, S2, S35
    fam = 'mass-basis-inversion'
    mod = harness_module('h_thdm_model')
    dem = demangled(mod)
    chk.functions.add('THDM::set_basis(thdm::Mass_basis const&)')
    captured = {}

    def on_call(st, d, args):
        if 'set_tan_beta_and_v' in d:
            captured['tbv'] = (args[1], args[2])
    ex = executor(mod, RealDom(CONSTS), ufs=dict(angles.ANGLE_STUBS), fork_select=False)
    ex.undefined_handler = ext_handler(dem, on_call=on_call)
    ex.div_no_fork = True
    ex.fast_throw = True
    ex.tolerant = True
    ex.fresh_cnt = 100000          # names of fresh symbols must not collide with those of the spectrum executor
    ex.dom = RealDom(CONSTS)
    ex.dom.cnt = 100000
    ex.opaque_defined = set(n for n in mod.functions if any(x in dem.get(n, '') for x in (
        'THDM::validate(', 'THDM::init_yukawas(', 'Problems::get_problems', 'THDM_problems::')))
    st = X.State()
    regs = [ex.new_region(st, None, 'input', n, lazy=True) for n in ('thdm', 'basis')]
    mp, bp = Ptr(regs[0].rid, 0), Ptr(regs[1].rid, 0)
    B = {}
    cur = st
    for k, nm in enumerate(MB):
        s2 = ex.start('vx_mbf', [bp, k], cur)
        cur = ex.explore(s2)[0]
        B[nm] = zr(cur.retval)
        cur.outcome = None
        cur.frames = []
        cur.retval = None
    s2 = ex.start('vx_set_basis_mass', [mp, bp], cur.fork())
    dom = [B['mh'] >= 0, B['mH'] >= B['mh'], B['mA'] >= 0, B['mHp'] >= 0, B['sba'] >= -1, B['sba'] <= 1, B['tb'] > 0]
    s2.pc += dom
    try:
        rr = ex.explore(s2)
    except Unsupported as e:
        chk.record('inversion', 'gap', str(e)[:120], family=fam)
        chk.not_covered.append('set_basis(Mass_basis) not executed: %s' % str(e)[:80])
        return
    rets = [p for p in rr if p.outcome[0] == 'ret']
    if not rets:
        chk.record('inversion', 'inconclusive', 'no returning path %r' % [p.outcome for p in rr][:3], family=fam)
        chk.inconclusive.append('inversion')
        return
    chk.absorb_executor(ex)
    done = 0
    for pi, p in enumerate(rets):
        if any(e[0] in ('asin-domain', 'acos-domain', 'sqrt-negative') for e in p.events):
            r, m = chk.solve(list(p.pc), 20000)
            if r == 'unsat':
                continue
        r, m = chk.solve(list(p.pc), 20000)
        if r == 'unsat':
            continue
        inversion_path(chk, c, ex, p, B, captured, mp, fam, '' if done == 0 else '#%d' % done)
        done += 1
        if done >= 2:
            break       # the remaining returning paths differ only in the opaque have_problem()/force_output flags


def inversion_path(chk, c, ex, p, B, captured, mp, fam, suffix):
    from .C08 import CONSTS, CONST_AX, S2, S35
    p.outcome = None
    p.frames = []
    p.retval = None
    L = {}
    cur = p
    for k in range(1, 8):
        s3 = ex.start('vx_lambda', [mp, k], cur)
        cur = ex.explore(s3)[0]
        L[k] = expand_quots(ex, zr(cur.retval))
        cur.outcome = None
        cur.frames = []
        cur.retval = None
    s3 = ex.start('vx_m122', [mp], cur)
    cur = ex.explore(s3)[0]
    m122_out = zr(cur.retval)
    # pass-through
    tbv = captured.get('tbv')
    for nm, got, want in (('lambda_6', L[6], B['l6']), ('lambda_7', L[7], B['l7']), ('m12^2', m122_out, B['m122']),
                          ('tan(beta) handed to set_tan_beta_and_v', zr(tbv[0]) if tbv else None, B['tb'])):
        if got is None:
            chk.record('inversion:' + nm, 'inconclusive', 'not captured', family=fam)
            chk.inconclusive.append('inversion:' + nm)
            continue
        r, m = chk.prove('inversion:' + nm + suffix, list(cur.pc) + [got != want], family=fam,
                         sample={'obligation': 'set_basis(Mass_basis) stores the input %s unchanged' % nm})
        if r == 'sat':
            chk.violation('inversion:' + nm, 'C08:inversion:' + nm.split(' ')[0], 'set_basis(Mass_basis) does not pass %s through' % nm,
                          '#!/bin/sh\ncd %s && exec python3-vt -m props.replay_c08 roundtrip\n' % VERIF)
    v_in = zr(tbv[1]) if tbv else z3.Real('v_in')
    # leaves of the angle/sqrt computations -> (sb, cb, cba)
    sb, cb, cba = z3.Real('sin_beta'), z3.Real('cos_beta'), z3.Real('cos_bma')
    sba, tb = B['sba'], B['tb']
    subs = [(tb, sb / cb)]
    names = {}
    todo = [L[k] for k in range(1, 6)]
    seen = set()
    while todo:
        t = todo.pop()
        if t.get_id() in seen:
            continue
        seen.add(t.get_id())
        if z3.is_const(t) and t.decl().kind() == z3.Z3_OP_UNINTERPRETED:
            names[t.decl().name()] = t
        todo.extend(t.children())
    unknown = []
    for nm, t in names.items():
        if nm.startswith('hyp!') or nm.startswith('sqrt!'):
            subs.append((t, 1 / cb))
        elif nm.startswith('sinat!'):
            subs.append((t, sb))
        elif nm.startswith('cosat!'):
            subs.append((t, cb))
        elif nm.startswith('cosasin!'):
            subs.append((t, cba))
        elif t.get_id() in [x.get_id() for x in B.values()] or t.get_id() == v_in.get_id() or nm.startswith('const_'):
            pass
        else:
            unknown.append(nm)
    if unknown:
        instantiate(chk, c, ex, cur, B, L, v_in, fam, 'leaves %r outside the closed-form reduction' % unknown[:4])
        return
    # justification of the leaf substitution (each is the unique solution of the leaf's defining constraints)
    chk.assumptions.append('mass-basis inversion: sqrt(1+tb^2) = 1/cos(beta), sin/cos(atan tb) = sin/cos(beta), cos(asin sba) = '
                           'cos(beta-alpha) >= 0 substituted for the corresponding leaves (their defining constraints have these unique solutions)')
    Ls = {k: z3.substitute(L[k], *subs) for k in range(1, 6)}
    V = c.V
    ex_me = c.ex
    sub_me = [(V['lambda%d' % k], Ls[k]) for k in range(1, 6)] + [(V['lambda6'], B['l6']), (V['lambda7'], B['l7']), (V['m122'], B['m122']),
                                                                  (V['v1'], v_in * cb), (V['v2'], v_in * sb)]
    E = {}
    for key, (e, pth) in c.pmat.items():
        E[key] = z3.substitute(expand_quots(ex_me, e), *sub_me)
    g1, g2 = V['g1'], V['g2']
    gp2 = Fr(3, 5) * g1 * g1
    MZ2 = (gp2 + g2 * g2) * v_in * v_in / 4
    MW2 = g2 * g2 * v_in * v_in / 4
    # alpha = beta - asin(sba):  sin(alpha) = sb cba - cb sba, cos(alpha) = cb cba + sb sba
    sa = sb * cba - cb * sba
    ca = cb * cba + sb * sba
    mh2, mH2 = B['mh'] * B['mh'], B['mH'] * B['mH']
    goals = [('hh[0,0] = mH^2 ca^2 + mh^2 sa^2', E[('hh', 0, 0)], mH2 * ca * ca + mh2 * sa * sa),
             ('hh[0,1] = (mH^2 - mh^2) sa ca', E[('hh', 0, 1)], (mH2 - mh2) * sa * ca),
             ('hh[1,1] = mH^2 sa^2 + mh^2 ca^2', E[('hh', 1, 1)], mH2 * sa * sa + mh2 * ca * ca),
             ('tr M_Ah - MZ^2 = mA^2', E[('Ah', 0, 0)] + E[('Ah', 1, 1)] - MZ2, B['mA'] * B['mA']),
             ('tr M_Hm - MW^2 = mH+^2', E[('Hm', 0, 0)] + E[('Hm', 1, 1)] - MW2, B['mHp'] * B['mHp'])]
    rel = [(sb, 2, 1 - cb * cb), (cba, 2, 1 - sba * sba), (S2, 2, z3.RealVal(2)), (S35, 2, z3.RealVal('3/5'))]

    for (k_, a_, r_) in ex_me.leaves:
        if k_ == 'sqrt':
            rel.insert(0, (r_, 2, z3.substitute(expand_quots(ex_me, a_[0]), *sub_me)))

    class NoQ:
        quots = {}
    failed = False
    for nm, lhs, rhs in goals:
        tag = 'inversion:' + nm + suffix
        num, _cv = polyid.residual(NoQ, lhs, rhs, rel, None)
        if num != 0:
            failed = True
            continue
        r = polyid.prove_identity(chk, tag, NoQ, lhs, rhs, rel, None, fam,
                                  {'obligation': 'mass matrices built from the lambda_1..5 of set_basis(Mass_basis) (EWSB solved): %s, '
                                   'alpha = beta - asin(sin(beta-alpha)), for all inputs' % nm})
        if r == 'sat':
            chk.violation(tag, 'C08:inversion:' + nm.split(' ')[0], 'closed-form inversion masses -> lambda_i does not reproduce the input: ' + nm,
                          '#!/bin/sh\ncd %s && exec python3-vt -m props.replay_c08 roundtrip\n' % VERIF)
    if failed:
        instantiate(chk, c, ex, cur, B, L, v_in, fam, 'normal form of an inversion identity does not vanish')


def instantiate(chk, c, ex, cur, B, L, v_in, fam, why):
    """the identities could not be reduced to normal form: pose them to the solver with the inputs instantiated at
    rational points (the leaves stay constrained by their defining constraints) and replay each witness natively"""
    import random
    import subprocess
    from .C08 import CONST_AX
    rnd = random.Random(chk.seed + 7)
    V = c.V
    sub_me = [(V['lambda%d' % k], L[k]) for k in range(1, 6)] + [(V['lambda6'], B['l6']), (V['lambda7'], B['l7']), (V['m122'], B['m122'])]
    sb, cb = z3.Real('sin_beta'), z3.Real('cos_beta')
    sub_me += [(V['v1'], v_in * cb), (V['v2'], v_in * sb)]
    E = {}
    for key, (e, pth) in c.pmat.items():
        E[key] = z3.substitute(expand_quots(c.ex, e), *sub_me)
    base_me = [z3.substitute(k_, *sub_me) for k_ in c.base]
    mh2, mH2 = B['mh'] * B['mh'], B['mH'] * B['mH']
    tr = E[('hh', 0, 0)] + E[('hh', 1, 1)]
    det = E[('hh', 0, 0)] * E[('hh', 1, 1)] - E[('hh', 0, 1)] * E[('hh', 1, 0)]
    tol = z3.RealVal('1/1000')
    # mixing: sin(beta - alpha) from the eigenvector of mH^2: (M - mh^2) e_H direction; use M01 and M00 - mh^2:
    #   M = R^T diag R  =>  M01 = (mH^2 - mh^2) sa ca, M00 - M11 = (mH^2 - mh^2)(ca^2 - sa^2), with alpha = beta - asin(sba)
    cba = z3.Real('cos_bma')
    sa = sb * cba - cb * B['sba']
    ca = cb * cba + sb * B['sba']
    bad = z3.Or(tr - (mh2 + mH2) > tol, (mh2 + mH2) - tr > tol, det - mh2 * mH2 > tol * mH2, mh2 * mH2 - det > tol * mH2,
                E[('hh', 0, 1)] - (mH2 - mh2) * sa * ca > tol, (mH2 - mh2) * sa * ca - E[('hh', 0, 1)] > tol)
    found = False
    for trial in range(6):
        vals = {'mh': 125, 'mH': rnd.randint(200, 900), 'mA': rnd.randint(100, 900), 'mHp': rnd.randint(100, 900),
                'sba': Fr(rnd.choice([-1, 1]) * rnd.randint(1, 9), 10), 'tb': Fr(rnd.randint(2, 80), 4), 'l6': 0, 'l7': 0,
                'm122': rnd.randint(1000, 60000)}
        inst = [B[k] == zr(Fr(v)) for k, v in vals.items()] + [v_in == 246]
        cons = list(cur.pc) + base_me + CONST_AX + inst + [sb > 0, cb > 0, sb * sb + cb * cb == 1, sb == B['tb'] * cb,
                                                            cba >= 0, cba * cba == 1 - B['sba'] * B['sba'], bad]
        r, m = chk.solve(cons, 60000)
        if r != 'sat':
            continue
        args = [str(float(vals[k])) for k in ('mh', 'mH', 'mA', 'mHp', 'sba', 'tb', 'l6', 'l7', 'm122')]
        pr = subprocess.run(['python3-vt', '-m', 'props.replay_c08', 'point'] + args, cwd=VERIF, capture_output=True, text=True)
        chk.traces_validated += 1
        if pr.returncode == 1:
            found = True
            line = [l for l in pr.stdout.split('\n') if 'reported' in l][:1]
            chk.violation('inversion:instantiated', 'C08:inversion:roundtrip',
                          'THDM built from mass-basis input does not report the input back: %s' % (line[0] if line else args),
                          '#!/bin/sh\ncd %s && exec python3-vt -m props.replay_c08 point %s\n' % (VERIF, ' '.join(args)))
            break
    if not found:
        chk.record('inversion', 'inconclusive', why + '; instantiated queries gave no reproducible witness', family=fam)
        chk.inconclusive.append('inversion')


def mixing_angle(chk, c):
    """get_sin/cos_beta_minus_alpha for a unit eigenvector row ZH(1,:) = (x, y) of either sign"""
    from .C08 import CONST_AX
    fam = 'mixing-angle'
    chk.functions.update(['THDM_mass_eigenstates::get_alpha_h', 'get_sin_beta_minus_alpha', 'get_cos_beta_minus_alpha', 'get_beta'])
    V = c.V
    st, Z = probe(c.ex, c.st.fork(), c.mp, {'x': ('vx_ZH', [1, 0]), 'y': ('vx_ZH', [1, 1])})
    x, y = zr(Z['x']), zr(Z['y'])
    v1, v2 = V['v1'], V['v2']
    sb, cb = z3.Real('sin_beta'), z3.Real('cos_beta')
    jobs = []
    for fn, what in (('vx_sba', 'sin'), ('vx_cba', 'cos')):
        c.ex.fork_select = True
        c.ex.no_prune = True        # the few branches on the value of beta - alpha_h are all followed; infeasible ones fall out below
        try:
            s2 = c.ex.start(fn, [c.mp], st.fork())
            rr = c.ex.explore(s2)
        finally:
            c.ex.fork_select = False
            c.ex.no_prune = False
        for pi, p in enumerate(rr):
            tag = 'mixing:%s#%d' % (what, pi)
            if p.outcome[0] != 'ret' or isinstance(p.retval, float):
                jobs.append({'name': tag + ':abnormal', 'constraints': None, 'path': p})
                continue
            got = zr(p.retval)
            angs = {}
            for j in p.leaves:
                k_, a_, r_ = c.ex.leaves[j]
                if k_ in ('sin', 'cos') and z3.is_const(a_[0]):
                    angs.setdefault(a_[0].decl().name(), {'var': a_[0]})[k_] = r_
            betas = [v_ for n_, v_ in angs.items() if n_.startswith('atan!')]
            thetas = [v_ for n_, v_ in angs.items() if n_.startswith('atan2!') or n_.startswith('asin!')]
            # only the ratio v2/v1 enters: v1 = cos(beta), v2 = sin(beta).  The leaves of the angle stubs are replaced by
            # the unique solutions of their defining constraints: sin/cos(atan(v2/v1)) = (sb, cb), hyp = 1/cb;
            # atan2(y, x) on the unit circle: sin = y, cos = x, hyp = 1; asin(y): sin = y, cos = sqrt(1 - y^2) (kept)
            subs = [(v1, cb), (v2, sb)]
            link = []
            allv = {}
            todo = list(p.pc) + [got]
            seen = set()
            while todo:
                t = todo.pop()
                if t.get_id() in seen:
                    continue
                seen.add(t.get_id())
                if z3.is_const(t) and t.decl().kind() == z3.Z3_OP_UNINTERPRETED:
                    allv[t.decl().name()] = t
                todo.extend(t.children())
            for b_ in betas:
                n = b_['sin'].decl().name().split('!')[1] if z3.is_const(b_['sin']) else None
                subs += [(b_['sin'], sb), (b_['cos'], cb)]
                if n and ('hyp!' + n) in allv:
                    subs.append((allv['hyp!' + n], 1 / cb))
            for t_ in thetas:
                if t_['var'].decl().name().startswith('atan2!'):
                    n = t_['sin'].decl().name().split('!')[1] if z3.is_const(t_['sin']) else None
                    subs += [(t_['sin'], y), (t_['cos'], x)]
                    if n and ('hyp!' + n) in allv:
                        subs.append((allv['hyp!' + n], z3.RealVal(1)))
            for nm, t in allv.items():
                if nm.startswith('quot!'):
                    qi = c.ex.quots.get(t.get_id())
                    if qi is not None and z3.eq(zr(qi[0]), v2) and z3.eq(zr(qi[1]), v1):
                        subs.append((t, sb / cb))
            for b_ in betas:
                for t_ in thetas:
                    if 'sin' not in b_ or 'cos' not in b_ or 'sin' not in t_ or 'cos' not in t_:
                        continue
                    A = b_['var'] - t_['var']
                    cA = b_['cos'] * t_['cos'] + b_['sin'] * t_['sin']
                    # tangent bounds of the cosine at +-pi/2 (concave inside, convex outside), valid for |A| < 3pi/2
                    link += [z3.Implies(cA > 0, z3.And(A >= -angles.HALF_PI_UP + cA, A <= angles.HALF_PI_UP - cA)),
                             z3.Implies(cA < 0, z3.Or(A <= -angles.HALF_PI_LO + cA, A >= angles.HALF_PI_LO - cA))]
            ax = [sb > 0, cb > 0, sb * sb + cb * cb == 1, x * x + y * y == 1]
            cc = cb * x + sb * y
            ss = sb * x - cb * y
            want = z3.If(cc >= 0, ss, -ss) if what == 'sin' else z3.If(cc >= 0, cc, -cc)
            tol = z3.RealVal('1/1000000000')
            cons = [z3.simplify(z3.substitute(k_, *subs)) for k_ in list(p.pc) + link]
            cons = [k_ for k_ in cons if not z3.is_true(k_)]
            gotS = z3.substitute(got, *subs)
            cons += ax + CONST_AX + [z3.Or(cc > tol * 1000, cc < -tol * 1000), z3.Or(gotS - want > tol, want - gotS > tol)]
            jobs.append({'name': tag, 'constraints': cons, 'family': fam, 'what': what, 'got': gotS, 'want': want,
                         'sample': {'obligation': 'get_%s_beta_minus_alpha() equals the value defined by the eigenvector direction with '
                                    'cos(beta-alpha) >= 0, for every unit eigenvector row ZH(1,:) of either overall sign and every tan(beta) > 0 '
                                    '(|cos(beta-alpha)| > 1e-6)' % what}})
    real = [j for j in jobs if j['constraints'] is not None]
    res = chk.prove_many(real, timeout_ms=400000)
    for job, (r, m) in zip(real, res):
        if r == 'sat':
            xv, yv, sbv, cbv = [float(m.real(t)) for t in (x, y, sb, cb)]
            chk.violation(job['name'], 'C08:mixing-angle:eigenvector-sign',
                          'get_%s_beta_minus_alpha() depends on the overall sign of the eigenvector returned by the eigen-solver: '
                          'ZH(1,:) = (%.6g, %.6g), tan(beta) = %.6g gives %.6g' % (job['what'], xv, yv, sbv / cbv, float(m.real(job['got']))),
                          '#!/bin/sh\ncd %s && exec python3-vt -m props.replay_c08 angle\n' % VERIF)
    for job in jobs:
        if job['constraints'] is None:
            p = job['path']
            r, m = chk.solve(list(p.pc) + [x * x + y * y == 1, v1 > 0, v2 > 0], 30000)
            if r != 'unsat':
                chk.record(job['name'], 'inconclusive', 'abnormal path %r (%s)' % (p.outcome, r), family=fam)
                chk.inconclusive.append(job['name'])


def run(chk, c):
    inversion(chk, c)
    mixing_angle(chk, c)
    from .C04b import goldstone
    goldstone(chk, c, pid='C08', fn_name='reorder_MSbar_masses')
    # calculate_Mhh / MAh / MHm: matrix handed to the decomposition, tachyon flag iff a negative eigenvalue
    from . import C04b
    from .C08 import CONST_AX
    c.mats = {k_: v_[0] for k_, v_ in c.mat.items()}
    C04b.run(chk, c, steps=[('hh', 0, True), ('Ah', 1, True), ('Hm', 2, True)], pid='C08', const_ax=CONST_AX, do_goldstone=False)
