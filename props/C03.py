"""C03 - one-loop a_mu equals an independent evaluation of the published formulas."""
import math
from fractions import Fraction as Fr
import z3

from .common import *
from .C14b import demangled
from .modelprobe import probe, cmul, cadd, cconj, cscale, cabs2, ext_handler
from . import C02
from symx.exec import Ptr

S2 = z3.Real('const_sqrt2')                 # sqrt(2): S2 > 0, S2^2 = 2 (literals 1.41421.. and 0.70710.. idealised)
P16 = z3.Real('const_1_over_16pi2')         # 1/(16 pi^2): a positive symbol on both sides
CONSTS = [(1.4142135623730950488, S2), (0.70710678118654752440, S2 / 2), (0.0063325739776461107152, P16)]
CONST_AX = [S2 > 0, S2 * S2 == 2, P16 > 0]
SQRT2 = S2
ONE_OVER_16PI2 = P16


def ext_uf(dem):
    def h(ex, st, name, args, I):
        d = dem.get(name, name)
        rt = ex.m.resolve(I['ty'])
        if isinstance(rt, llir.FloatT):
            a = [zr(x) for x in args if not isinstance(x, Ptr)]
            return ex.leaf(st, 'uf:' + d.split('(')[0].replace('gm2calc::', ''), a)
        if isinstance(rt, llir.VoidT):
            return None
        return ex.fresh_of(st, rt, 'ext')
    return h


def mssm_spec():
    s = {'MSvmL': ('vx_MSvmL', []), 'MM': ('vx_MM', []), 'gY': ('vx_gY', []), 'g2': ('vx_g2', []), 'ymu': ('vx_ymu', [])}
    for i in range(4):
        s['MChi%d' % i] = ('vx_MChi', [i])
        for j in range(4):
            s['ZNr%d%d' % (i, j)] = ('vx_ZN_re', [i, j])
            s['ZNi%d%d' % (i, j)] = ('vx_ZN_im', [i, j])
    for i in range(2):
        s['MSm%d' % i] = ('vx_MSm', [i])
        s['MCha%d' % i] = ('vx_MCha', [i])
        for j in range(2):
            s['USm%d%d' % (i, j)] = ('vx_USm', [i, j])
            for nm in ('UM', 'UP'):
                s['%sr%d%d' % (nm, i, j)] = ('vx_%s_re' % nm, [i, j])
                s['%si%d%d' % (nm, i, j)] = ('vx_%s_im' % nm, [i, j])
    return s


def mssm_oracle(V, F):
    """Eqs. (2.5), (2.7), (2.11a,b) of arXiv:1311.1775 (= (45)-(51) of hep-ph/0609168):
        n^L_im = 1/sqrt2 (g1 N*_i1 + g2 N*_i2) U_m1 - y_mu N*_i3 U_m2
        n^R_im = -(sqrt2 g1 N_i1 U_m2 + y_mu N_i3 U_m1)
        c^L_k  = -g2 V*_k1 ,  c^R_k = y_mu U_k2
        a^chi0 = m_mu^2/(16 pi^2) sum_{i,m} [ -A^n_im F1N(x_im)/(12 m_smu_m^2) - m_chi_i B^n_im F2N(x_im)/(6 m_mu m_smu_m^2) ]
        a^chi+ = m_mu^2/(16 pi^2 m_snu^2) sum_k [ A^c_k F1C(x_k)/12 + m_cha_k B^c_k F2C(x_k)/(3 m_mu) ]
    F(kind, x) supplies the loop-function leaves.  Returns (chi0, chipm) as z3 reals (divisions cleared by
    the caller through leaves of quotients): here masses squared divide directly."""
    ZN = [[(zr(V['ZNr%d%d' % (i, j)]), zr(V['ZNi%d%d' % (i, j)])) for j in range(4)] for i in range(4)]
    UM = [[(zr(V['UMr%d%d' % (i, j)]), zr(V['UMi%d%d' % (i, j)])) for j in range(2)] for i in range(2)]
    UP = [[(zr(V['UPr%d%d' % (i, j)]), zr(V['UPi%d%d' % (i, j)])) for j in range(2)] for i in range(2)]
    US = [[zr(V['USm%d%d' % (i, j)]) for j in range(2)] for i in range(2)]
    g1, g2, y, mm = zr(V['gY']), zr(V['g2']), zr(V['ymu']), zr(V['MM'])
    r2 = zr(SQRT2)
    chi0_terms = []
    for i in range(4):
        for m in range(2):
            nL = cadd(cscale(US[m][0] / r2, cadd(cscale(g1, cconj(ZN[i][0])), cscale(g2, cconj(ZN[i][1])))),
                      cscale(-y * US[m][1], cconj(ZN[i][2])))
            nR = cscale(-1, cadd(cscale(r2 * g1 * US[m][1], ZN[i][0]), cscale(y * US[m][0], ZN[i][2])))
            A = cabs2(nL) + cabs2(nR)
            B = 2 * cmul(cconj(nL), nR)[0]
            msm2 = zr(V['MSm%d' % m]) * zr(V['MSm%d' % m])
            mchi = zr(V['MChi%d' % i])
            chi0_terms.append((A, B, mchi, msm2))
    cha_terms = []
    for k in range(2):
        cL = cscale(-g2, cconj(UP[k][0]))
        cR = cscale(y, UM[k][1])
        A = cabs2(cL) + cabs2(cR)
        B = 2 * cmul(cconj(cL), cR)[0]
        cha_terms.append((A, B, zr(V['MCha%d' % k])))
    return chi0_terms, cha_terms


def mssm(chk):
    mod = harness_module('h_mssm_1l')
    dem = demangled(mod)
    ex = executor(mod, RealDom(CONSTS), fork_select=False)
    ex.undefined_handler = ext_handler(dem)
    ex.div_no_fork = True
    st = X.State()
    m = ex.new_region(st, None, 'input', 'model', lazy=True)
    mp = Ptr(m.rid, 0)
    st, V = probe(ex, st, mp, mssm_spec())
    chk.functions.update(['gm2calc::amu1LChi0', 'gm2calc::amu1LChipm', 'n_L', 'n_R', 'c_L', 'c_R', 'AAN', 'BBN', 'AAC',
                          'BBC', 'x_im', 'x_k'])
    res = {}
    for nm, fn in (('chi0', '_ZN7gm2calc9amu1LChi0ERKNS_16MSSMNoFV_onshellE'),
                   ('chipm', '_ZN7gm2calc10amu1LChipmERKNS_16MSSMNoFV_onshellE'),
                   ('sum', '_ZN7gm2calc19calculate_amu_1loopERKNS_16MSSMNoFV_onshellE')):
        s2 = ex.start(fn, [mp], st.fork())
        rr = ex.explore(s2)
        if len(rr) != 1 or rr[0].outcome[0] != 'ret':
            chk.record('mssm:' + nm, 'inconclusive', 'paths %r' % [p.outcome for p in rr][:3])
            chk.inconclusive.append('mssm:' + nm)
            continue
        res[nm] = rr[0]
    chk.absorb_executor(ex)
    chi0_terms, cha_terms = mssm_oracle(V, None)
    mm = zr(V['MM'])
    pref = zr(ONE_OVER_16PI2)
    if 'chi0' in res:
        p = res['chi0']
        # loop-function leaves: F1N / F2N applied to x_im = m_chi_i^2/m_smu_m^2
        total = 0
        ok = True
        for idx, (A, B, mchi, msm2) in enumerate(chi0_terms):
            i, m_ = idx // 2, idx % 2
            xq = z3.Real('x_%d%d' % (i, m_))
            f1 = find_leaf(ex, p, 'F1N', mchi * mchi, msm2)
            f2 = find_leaf(ex, p, 'F2N', mchi * mchi, msm2)
            if f1 is None or f2 is None:
                ok = False
                break
            # term * msm2 * 12 mm :   -A f1 mm - 2 mchi B f2
            total = total + (-A * f1 * mm - 2 * mchi * B * f2) * prod_except(chi0_terms, idx)
        if not ok:
            chk.violation('mssm:chi0', 'C03:amu1LChi0:arguments', 'amu1LChi0 does not evaluate F1N/F2N at m_chi^2/m_smu^2', None)
        else:
            den = 12 * mm * prod_all(chi0_terms)
            lhs = zr(p.retval) * den
            rhs = total * mm * mm * pref
            rs = prove_linear_in_leaves(chk, 'mssm:amu1LChi0', ex, p, lhs, rhs, C02.quotient_equalities(ex) + CONST_AX,
                                        'mssm-1loop', relations=[(S2, 2, 2)], sample={'obligation': 'amu1LChi0(model) == Eq.(2.11a) of arXiv:1311.1775 for every complex '
                                         'ZN, real USm, masses and couplings (polynomial identity per loop-function leaf)'})
            r = 'sat' if 'sat' in rs else 'unsat'
            if r == 'sat':
                chk.violation('mssm:amu1LChi0', 'C03:amu1LChi0:formula', 'amu1LChi0 differs from Eq.(2.11a) of arXiv:1311.1775 '
                              'for some mixing matrices', '#!/bin/sh\ncd %s && exec python3-vt -m props.replay_c03 mssm\n' % VERIF)
    if 'chipm' in res:
        p = res['chipm']
        msv = zr(V['MSvmL'])
        total = 0
        ok = True
        for k, (A, B, mcha) in enumerate(cha_terms):
            f1 = find_leaf(ex, p, 'F1C', mcha * mcha, msv * msv)
            f2 = find_leaf(ex, p, 'F2C', mcha * mcha, msv * msv)
            if f1 is None or f2 is None:
                ok = False
                break
            total = total + (A * f1 * mm + 4 * mcha * B * f2)
        if not ok:
            chk.violation('mssm:chipm', 'C03:amu1LChipm:arguments', 'amu1LChipm does not evaluate F1C/F2C at m_cha^2/m_snu^2', None)
        else:
            lhs = zr(p.retval) * 12 * mm * msv * msv
            rhs = total * mm * mm * pref
            r, mdl = chk.prove('mssm:amu1LChipm', relevant_quots(ex, p) + [lhs != rhs], timeout_ms=120000, family='mssm-1loop',
                               sample={'obligation': 'amu1LChipm(model) == Eq.(2.11b) of arXiv:1311.1775 for every complex '
                                       'UM, UP, masses and couplings'})
            if r == 'sat':
                chk.violation('mssm:amu1LChipm', 'C03:amu1LChipm:formula', 'amu1LChipm differs from Eq.(2.11b) of arXiv:1311.1775',
                              '#!/bin/sh\ncd %s && exec python3-vt -m props.replay_c03 mssm\n' % VERIF)
    if 'sum' in res and 'chi0' in res and 'chipm' in res:
        r, mdl = chk.prove('mssm:calculate_amu_1loop', [zr(res['sum'].retval) != zr(res['chi0'].retval) + zr(res['chipm'].retval)]
                           + relevant_quots(ex, res['sum']) + relevant_quots(ex, res['chi0']) + relevant_quots(ex, res['chipm']),
                           timeout_ms=120000, family='mssm-1loop',
                           sample={'obligation': 'calculate_amu_1loop == amu1LChi0 + amu1LChipm'})


def prove_linear_in_leaves(chk, name, ex, p, lhs, rhs, extra, family, sample, timeout=15000, relations=None):
    """lhs == rhs where both sides are affine in the loop-function leaves (each leaf occurs linearly, leaves never
    multiply each other): equality for all leaf values <=> equality of the coefficient of every leaf and of the
    leaf-free part.  One identity per leaf; each is first posed to nlsat (short budget) and otherwise decided
    by rational normal form (props/polyid.py)."""
    from . import polyid
    leaves = [ex.leaves[j][2] for j in p.leaves if ex.leaves[j][0].startswith('uf:')]
    jobs = []
    base = list(p.pc) + list(extra)
    zero = z3.RealVal(0)
    subs = []
    for j in range(len(leaves) + 1):
        sub = [(lf, z3.RealVal(1) if k == j else zero) for k, lf in enumerate(leaves)]
        subs.append(sub)
        cons = [z3.substitute(c, *sub) for c in base] + [z3.substitute(lhs, *sub) != z3.substitute(rhs, *sub)]
        jobs.append({'name': '%s[%s]' % (name, 'leaf-free part' if j == len(leaves) else 'coefficient of ' + str(leaves[j])),
                     'constraints': cons, 'family': family, 'sample': sample})
    # nlsat attempt in parallel, without recording failures
    import os as _os
    from symx import smt
    quick = parallel_status(jobs, timeout)
    out = []
    for job, st_, sub in zip(jobs, quick, subs):
        if st_ == 'unsat':
            chk.note_formula(job['constraints'])
            chk.queries += 1
            chk.counts['unsat'] += 1
            smp = dict(sample)
            smp['method'] = 'z3 nlsat'
            chk.record(job['name'], 'discharged', family=family, sample=smp)
            out.append('unsat')
            continue
        lv = dict((lf.get_id(), (1 if val.numerator_as_long() == 1 else 0)) for lf, val in sub)
        import sympy
        lv = {k: sympy.Integer(v) for k, v in lv.items()}
        r = polyid.prove_identity(chk, job['name'], ex, lhs, rhs, relations or [], lv, family, sample)
        out.append(r)
    return out


def parallel_status(jobs, timeout_ms):
    import os as _os
    import json as _json
    import sys as _sys
    from symx import smt
    n = len(jobs)
    W = max(1, min(int(_os.environ.get('VERIF_JOBS', '12')), n))
    res = ['unknown'] * n
    pipes = []
    _sys.stdout.flush()
    for w in range(W):
        r_, w_ = _os.pipe()
        pid = _os.fork()
        if pid == 0:
            _os.close(r_)
            o = []
            try:
                for i in range(w, n, W):
                    st, m, dt = smt.check(jobs[i]['constraints'], timeout_ms, 'z3')
                    o.append([i, st])
            except BaseException:
                pass
            with _os.fdopen(w_, 'w') as f:
                f.write(_json.dumps(o))
            _os._exit(0)
        _os.close(w_)
        pipes.append((pid, r_))
    for pid, r_ in pipes:
        with _os.fdopen(r_) as f:
            data = f.read()
        _os.waitpid(pid, 0)
        try:
            for i, st in _json.loads(data or '[]'):
                res[i] = st
        except ValueError:
            pass
    return res


def prod_all(terms):
    r = 1
    for t in terms:
        r = r * t[3]
    return r


def prod_except(terms, idx):
    r = 1
    for j, t in enumerate(terms):
        if j != idx:
            r = r * t[3]
    return r


def relevant_quots(ex, p):
    """defining equations of the quotient variables on the path (the rest of the path condition is irrelevant
    for identities)"""
    return list(p.pc) + C02.quotient_equalities(ex) + CONST_AX


def find_leaf(ex, p, fname, num, den):
    """the leaf of loop function `fname` whose argument equals num/den"""
    for j in p.leaves:
        k, args, res = ex.leaves[j]
        if not k.endswith(fname) or len(args) != 1:
            continue
        s = z3.Solver()
        s.set('timeout', 10000)
        s.add(p.pc)
        s.add(den != 0)
        s.add(args[0] * den != num)
        if s.check() == z3.unsat:
            return res
    return None


def run(chk):
    chk.assumptions += [
        'REAL domain: polynomial identities in the entries of arbitrary complex mixing matrices, masses and couplings '
        '(no unitarity assumed); loop functions are uninterpreted leaves applied to the squared mass ratios',
        'the code\'s decimal constants sqrt(2) and 1/(16 pi^2) are taken as the doubles it uses',
        'oracle: Eqs. (2.5),(2.7),(2.11a,b) of arXiv:1311.1775 / (45)-(51) of hep-ph/0609168 transcribed in props/C03.py',
    ]
    chk.not_covered += ['that the mixing matrices fed in are the true eigen-systems (C04/C12)',
                        'end-to-end comparison with separately diagonalised matrices; rounding of the 16-term sums']
    mssm(chk)
    from . import C03b
    C03b.run(chk)
