"""replay of a loop-function witness: native build of the current tree vs mpmath definition"""
import sys
import math
import mpmath
from .common import *
from .ffcommon import *


def cdilog():
    import ctypes
    re, im = float(sys.argv[2]), float(sys.argv[3])
    lib = harness_native('h_cdilog')
    out = (ctypes.c_double * 2)()
    lib.vx_cdilog.argtypes = [ctypes.c_double, ctypes.c_double, ctypes.POINTER(ctypes.c_double)]
    lib.vx_cdilog(re, im, out)
    mpmath.mp.dps = 40
    ref = mpmath.polylog(2, mpmath.mpc(re, im))
    got = mpmath.mpc(out[0], out[1])
    err = abs(got - ref) / abs(ref)
    print('dilog(%.17g%+.17gj) = %.17g%+.17gj, Li2 = %s, rel. err %s' % (re, im, out[0], out[1], mpmath.nstr(ref, 17), mpmath.nstr(err, 3)))
    sys.exit(1 if err > 1e-13 else 0)


def cl2():
    import ctypes
    x = float(sys.argv[2])
    lib = harness_native('h_cdilog')
    f = getattr(lib, '_ZN7gm2calc9clausen_2Ed')
    f.restype = ctypes.c_double
    f.argtypes = [ctypes.c_double]
    got = f(x)
    mpmath.mp.dps = 40
    ref = mpmath.clsin(2, mpmath.mpf(x))
    print('clausen_2(%r) = %r, Cl2 = %s' % (x, got, mpmath.nstr(ref, 17)))
    sys.exit(0 if got == got and abs(got - ref) <= 1e-13 * max(abs(ref), 1e-3) else 1)


def main():
    if sys.argv[1] == 'cl2':
        return cl2()
    if sys.argv[1] == 'cdilog':
        return cdilog()
    name, sym, xs, tol = sys.argv[1], sys.argv[2], sys.argv[3:-1], float(sys.argv[-1])
    lib = harness_native('h_ff')
    args = [float(v) for v in xs]
    got = native_fn(lib, sym, len(args))(*args)
    if tol == 0:
        print('%s%r = %r (expected NaN)' % (name, tuple(args), got))
        sys.exit(1 if got == got else 0)
    ref = mp_oracle_n(name, args)
    err = abs((mpmath.mpf(got) - ref) / ref) if ref != 0 else abs(mpmath.mpf(got))
    print('%s%r = %r  definition %s  rel.err %s' % (name, tuple(args), got, mpmath.nstr(ref, 17),
                                                     mpmath.nstr(err, 3)))
    sys.exit(1 if (got != got or err > tol) else 0)


def mp_oracle_n(name, args):
    if len(args) == 1:
        return mp_oracle(name, Fr(args[0]))
    from . import C02
    return C02.mp_oracle2(name, args)


if __name__ == '__main__':
    main()
