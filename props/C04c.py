"""C04 part 3: copy_DRbar_masses_to_pole_masses copies every field of the spectrum.

The field list is read from the declaration of struct MSSMNoFV_onshell_physical (include/gm2calc), not from the function
under test; a harness with one accessor pair per field (pole copy / DR-bar member) is generated from it at run time.
The function is executed on an arbitrary (lazily symbolic) model; afterwards every component of every pole field must be
the very DR-bar component (for all models).  A mismatch is replayed natively on models with a computed spectrum."""
import ctypes
import os
import re
import z3

from .common import *
from symx import exec as X
from symx.exec import Ptr

HDR = 'include/gm2calc/MSSMNoFV_onshell_physical.hpp'
# reorder_pole_masses() moves the Goldstone bosons to position 0 afterwards: these four are copies up to that documented
# reordering (move_goldstone_to is decided in C12/C04) and are left out here
REORDERED = ('MAh', 'ZA', 'MHpm', 'ZP')


def fields():
    txt = open(os.path.join(REPO, HDR)).read()
    body = txt[txt.index('struct MSSMNoFV_onshell_physical'):]
    out = []
    for m in re.finditer(r'^\s*(double|Eigen::(?:Array|Matrix)<\s*([\w:<>]+?)\s*,\s*(\d+)\s*,\s*(\d+)\s*>)\s+(\w+)\s*\{', body, re.M):
        if m.group(1) == 'double':
            out.append((m.group(5), 1, 1))
        else:
            cplx = 'complex' in m.group(2)
            out.append((m.group(5), int(m.group(3)) * int(m.group(4)), 2 if cplx else 1))
    return out


def gen_harness(fl):
    L = ['// generated from %s: accessor pairs for the pole-mass copies' % HDR, '// IRFLAGS: -fno-inline-functions',
         '#include "MSSMNoFV/MSSMNoFV_onshell_mass_eigenstates.cpp"', '#include "gm2calc/MSSMNoFV_onshell.hpp"', '#include <complex>', 'namespace {',
         'inline double part(double v, int) { return v; }',
         'inline double part(const std::complex<double>& v, int k) { return k ? v.imag() : v.real(); }',
         'inline double el(double x, int, int) { return x; }',
         'template <class D> double el(const Eigen::DenseBase<D>& x, int i, int k) { return part(x.derived().data()[i], k); }',
         '}', 'typedef gm2calc::MSSMNoFV_onshell M;', 'extern "C" {',
         'void vx_copy(M* m) { m->copy_DRbar_masses_to_pole_masses(); }']
    for name, n, parts in fl:
        L.append('double vx_p_%s(const M* m, int i, int k) { return el(m->get_physical().%s, i, k); }' % (name, name))
        L.append('double vx_d_%s(const M* m, int i, int k) { return el(m->get_%s(), i, k); }' % (name, name))
    # native-only: number of components that differ after the copy on a model with a computed spectrum
    L.append('int vx_native_pole_mismatches(double tb, double ms, char* first, int max) {')
    L.append('   M m; const double v = 246.0, vd = v/std::sqrt(1 + tb*tb), vu = vd*tb;')
    L.append('   m.set_g1(0.46); m.set_g2(0.65); m.set_g3(1.1); m.set_vd(vd); m.set_vu(vu);')
    L.append('   m.set_Mu(0.7*ms); m.set_BMu(0.3*ms*ms); m.set_MassB(0.4*ms); m.set_MassWB(0.9*ms); m.set_MassG(2*ms);')
    L.append('   Eigen::Matrix<double,3,3> d = Eigen::Matrix<double,3,3>::Zero();')
    L.append('   for (int i = 0; i < 3; i++) d(i,i) = ms*ms*(1 + 0.1*i);')
    L.append('   m.set_mq2(d); m.set_ml2(1.1*d); m.set_md2(1.2*d); m.set_mu2(1.3*d); m.set_me2(1.4*d);')
    L.append('   Eigen::Matrix<double,3,3> y = Eigen::Matrix<double,3,3>::Zero(); y(0,0) = 1e-3; y(1,1) = 1e-2; y(2,2) = 0.5;')
    L.append('   m.set_Yd(y); m.set_Yu(2*y); m.set_Ye(0.5*y); m.set_TYd(ms*y); m.set_TYu(-ms*y); m.set_TYe(0.3*ms*y);')
    L.append('   m.solve_ewsb_tree_level(); m.calculate_DRbar_masses(); m.copy_DRbar_masses_to_pole_masses();')
    L.append('   int bad = 0; if (max > 0) first[0] = 0;')
    for name, n, parts in fl:
        L.append('   for (int i = 0; i < %d; i++) for (int k = 0; k < %d; k++) { const double a = vx_p_%s(&m, i, k), b = vx_d_%s(&m, i, k);'
                 ' if (!(a == b)) { if (!bad) std::snprintf(first, max, "%s[%%d] pole %%.17g DR-bar %%.17g", i, a, b); bad++; } }'
                 % (n, parts, name, name, name))
    L.append('   return bad; }')
    L.append('}')
    path = os.path.join(build.scratch(), 'h_mssm_pole_gen.cpp')
    if not (os.environ.get('VERIF_SCRATCH_CHILD') and os.path.exists(path)):
        open(path, 'w').write('#include <cstdio>\n#include <cmath>\n' + '\n'.join(L) + '\n')
    return path


_so = {}


def native_lib(path):
    if 'so' not in _so:
        lib = build.build_library()
        so = build.compile_native(path, 'libh_mssm_pole_gen.so', extra=['-shared', '-fPIC'],
                                  libs=[lib, '-Wl,-rpath,' + os.path.dirname(lib)])
        _so['so'] = ctypes.CDLL(so)
    return _so['so']


def native_mismatches(path):
    lib = native_lib(path)
    f = lib.vx_native_pole_mismatches
    f.restype = ctypes.c_int
    f.argtypes = [ctypes.c_double, ctypes.c_double, ctypes.c_char_p, ctypes.c_int]
    out = []
    for tb, ms in ((10.0, 500.0), (3.0, 1500.0), (40.0, 800.0)):
        buf = ctypes.create_string_buffer(256)
        n = f(tb, ms, buf, 256)
        if n:
            out.append('tan(beta)=%g, MS=%g: %d components differ, first %s' % (tb, ms, n, buf.value.decode()))
    return out


def run(chk):
    fam = 'pole-mass-copies'
    try:
        fl = fields()
        if len(fl) < 40:
            raise Unsupported('only %d fields parsed from %s' % (len(fl), HDR))
        path = gen_harness(fl)
        mod = llir.load_module(build.compile_ir(path, 'h_mssm_pole_gen', extra=['-fno-inline-functions']))
    except Exception as e:      # noqa
        chk.record('pole-copies', 'gap', 'harness generation failed: %s' % str(e)[:120], family=fam)
        chk.not_covered.append('pole-mass copies (%s)' % str(e)[:80])
        return
    chk.functions.add('gm2calc::MSSMNoFV_onshell_mass_eigenstates::copy_DRbar_masses_to_pole_masses')
    ex = executor(mod, RealDom(), fork_select=False)
    st = X.State()
    reg = ex.new_region(st, None, 'input', 'model', lazy=True)
    mp = Ptr(reg.rid, 0)

    def call(fn, args, s, many=False):
        s2 = ex.start(fn, [mp] + list(args), s.fork())
        rr = ex.explore(s2)
        good = [p for p in rr if p.outcome[0] == 'ret']
        if many:
            if not good or len(good) != len(rr):
                raise Unsupported('%s: %d of %d paths return' % (fn, len(good), len(rr)))
            return good
        if len(good) != 1:
            raise Unsupported('%s: %d returning paths' % (fn, len(good)))
        return good[0]
    try:
        posts = call('vx_copy', [], st, many=True)
        for post in posts:
            post.outcome = None
            post.frames = []
        if os.environ.get('VERIF_DEBUG'):
            for post in posts:
                print([str(c)[:100] for c in post.pc])
    except Unsupported as e:
        chk.record('pole-copies', 'gap', 'executor: %s' % e, family=fam)
        chk.not_covered.append('pole-mass copies (%s)' % str(e)[:80])
        return
    bad = []
    ncomp = 0
    for name, n, parts in fl:
        if name in REORDERED:
            continue
        ok = True
        try:
            for post in posts:
              for i in range(n):
                for k in range(parts):
                    pa = call('vx_p_' + name, [i, k], post)
                    ra = pa.retval
                    # continue from the state the first read left behind (lazily materialised cells are shared)
                    pa.outcome = None
                    pa.frames = []
                    pb = call('vx_d_' + name, [i, k], pa)
                    pa.retval = ra
                    ncomp += 1
                    a, b = ra, pb.retval
                    same = (isinstance(a, z3.ExprRef) and isinstance(b, z3.ExprRef) and a.eq(b)) or \
                           (not isinstance(a, z3.ExprRef) and not isinstance(b, z3.ExprRef) and a == b)
                    if not same:
                        r, m = chk.solve(list(pa.pc) + list(pb.pc) + [zr(a) != zr(b)], 10000)
                        if r != 'unsat':
                            ok = False
                            if os.environ.get('VERIF_DEBUG'):
                                print('MISMATCH', name, i, k, str(a)[:80], '|', str(b)[:80])
        except Unsupported as e:
            chk.record('pole-copy:' + name, 'gap', 'executor: %s' % e, family=fam)
            chk.not_covered.append('pole-mass copy of %s (%s)' % (name, str(e)[:60]))
            continue
        if ok:
            chk.record('pole-copy:' + name, 'discharged', family=fam,
                       sample={'obligation': 'after copy_DRbar_masses_to_pole_masses every component of physical.%s is the DR-bar %s, for every model' % (name, name)})
            chk.formulas.add('pole-copy:' + name)
        else:
            bad.append(name)
    chk.absorb_executor(ex)
    chk.bounds['pole_fields'] = len(fl) - len(REORDERED)
    chk.not_covered.append('pole copies of MAh, ZA, MHpm, ZP (Goldstone reordering applied after the copy)')
    if bad:
        nat = native_mismatches(path)
        chk.traces_validated += 3
        if nat:
            chk.violation('pole-copies', 'C04:pole-copies', 'copy_DRbar_masses_to_pole_masses does not copy %s; natively: %s' % (
                ', '.join(bad), '; '.join(nat[:2])), '#!/bin/sh\ncd %s && exec python3-vt -m props.replay_c04 polecopies\n' % VERIF)
        else:
            for nme in bad:
                chk.record('pole-copy:' + nme, 'gap', 'not the DR-bar component symbolically, but equal natively on three spectra', family=fam)
            chk.not_covered.append('pole-mass copies of %s: symbolic mismatch not reproduced natively' % ', '.join(bad))
