"""C16 part 2: THDM basis validation, Yukawa type, exit status of the MSSM set-up."""
import z3

from .common import *
from .C14b import demangled, find
from .C16 import getter_ufs, generic_ext, warned, EINVALID, EPHYS, yukawa_type
from symx.exec import Ptr, NULL, PathEnd
from symx import stubs as S
from .angles import ANGLE_STUBS


def materialise(ex, st, fn, args):
    s2 = ex.start(fn, args, st)
    rr = ex.explore(s2)
    assert len(rr) >= 1
    out = rr[0]
    v = out.retval
    out.outcome = None
    out.frames = []
    return out, v


def thdm_basis(chk, mod, dem):
    for basis, fn in (('mass', 'vx_set_basis_mass'), ('gauge', 'vx_set_basis_gauge')):
        chk.functions.add('gm2calc::THDM::set_basis(thdm::%s_basis const&)' % basis.capitalize())
        ufs, V = getter_ufs(mod, dem, {'problems::have_problem() const': 'have_problem'}, bools=('have_problem',))
        st_ = dict(S.STRING_MODEL_STUBS)
        st_.update(ANGLE_STUBS)
        ex = executor(mod, RealDom(), extra_stubs=st_, ufs=ufs, fork_select=False)
        ex.undefined_handler = generic_ext(dem)
        ex.fast_throw = True
        ex.opaque_calls = True
        ex.max_steps = 300000
        ex.div_no_fork = True       # the lambda_i arithmetic is not the subject here
        for n_, d_ in dem.items():
            if d_.startswith(('gm2calc::THDM_parameters::set_', 'gm2calc::THDM::set_tan_beta', 'gm2calc::THDM::validate',
                              'gm2calc::THDM::init_yukawas', 'gm2calc::THDM_mass_eigenstates::solve_ewsb',
                              'gm2calc::THDM_mass_eigenstates::calculate_MSbar_masses', 'gm2calc::THDM::set_tan_beta_and_v')):
                ex.stubs[n_] = lambda ex_, st_, args, I: None
        st = X.State()
        m = ex.new_region(st, None, 'input', 'model', lazy=True)
        b = ex.new_region(st, None, 'input', 'basis', lazy=True)
        F = {}
        if basis == 'mass':
            for k, nm in enumerate(['mh', 'mH', 'mA', 'mHp', 'sba', 'tb']):
                st, F[nm] = materialise(ex, st, 'vx_mb', [Ptr(b.rid, 0), k])
        else:
            st, F['tb'] = materialise(ex, st, 'vx_gb_tb', [Ptr(b.rid, 0)])
        # force_output flag of the model's configuration
        s2 = ex.start('vx_force', [Ptr(m.rid, 0)], st)
        rr = ex.explore(s2)
        # vx_force forks on the flag: keep a state where the byte is materialised but unconstrained
        st = rr[0]
        st.outcome = None
        st.frames = []
        flag_pc = list(st.pc[len(st.pc) - 1:]) if st.pc else []
        st.pc = [c for c in st.pc if c not in flag_pc] if False else st.pc
        # find the force byte: re-run vx_force on final states later
        st.pc = []
        st.model = None
        st = ex.start(fn, [Ptr(m.rid, 0), Ptr(b.rid, 0)], st)
        try:
            paths = ex.explore(st)
        except (Unsupported, PathEnd) as e:
            chk.record('thdm:set_basis(%s)' % basis, 'inconclusive', 'executor: %s' % e)
            chk.inconclusive.append('thdm:set_basis(%s)' % basis)
            continue
        chk.absorb_executor(ex)
        if basis == 'mass':
            D = z3.Or(zr(F['mh']) > zr(F['mH']), zr(F['tb']) <= 0, zr(F['sba']) > 1, zr(F['sba']) < -1,
                      zr(F['mh']) < 0, zr(F['mH']) < 0, zr(F['mA']) < 0, zr(F['mHp']) < 0)
        else:
            D = zr(F['tb']) <= 0
        P = V['have_problem']
        n = {'throw': 0, 'ret': 0}
        for i, p in enumerate(paths):
            tag = 'thdm:set_basis(%s)#%d' % (basis, i)
            # force flag on this path
            fs = p.fork()
            fs.outcome = None
            fs.frames = []
            fr = ex.explore(ex.start('vx_force', [Ptr(m.rid, 0)], fs))
            forced = [q for q in fr if q.retval == 1]
            unforced = [q for q in fr if q.retval == 0]
            if p.outcome[0] == 'throw':
                n['throw'] += 1
                t = p.outcome[1]
                if forced:
                    chk.violation(tag, 'C16:thdm:%s:throws-under-force' % basis,
                                  'set_basis(%s) throws %s although force-output is set' % (basis, t), None)
                    continue
                cause = D if t == EINVALID else z3.And(z3.Not(D), P) if t == EPHYS else z3.BoolVal(False)
                r, m_ = chk.prove(tag + ':throw', p.pc + [z3.Not(cause)], family='thdm-basis',
                                  sample={'obligation': 'set_basis(%s): EInvalidInput only for the documented defects, '
                                          'EPhysicalProblem only for a flagged spectrum problem' % basis})
                if r == 'sat':
                    chk.violation(tag, 'C16:thdm:%s:spurious-%s' % (basis, t[-14:]), 'set_basis(%s) throws %s without '
                                  'its documented cause' % (basis, t), None)
            elif p.outcome[0] == 'ret':
                n['ret'] += 1
                if unforced:
                    q = unforced[0]
                    r, m_ = chk.prove(tag + ':accept', q.pc + [z3.Or(D, P)], family='thdm-basis',
                                      sample={'obligation': 'set_basis(%s) completes with force-output off only if '
                                              'tan(beta)>0, mh<=mH, |sin(b-a)|<=1, masses >= 0 and no problem flagged' % basis})
                    if r == 'sat':
                        vals = {k: float(m_.real(zr(v))) for k, v in F.items()}
                        chk.violation(tag, 'C16:thdm:%s:accepts' % basis,
                                      'set_basis(%s) accepts untreatable input %r (problem flag %s)' % (basis, vals, m_.bool(P)),
                                      '#!/bin/sh\ncd %s && exec python3-vt -m props.replay_c16 thdm_%s %s\n' % (
                                          VERIF, basis, ' '.join('%s=%r' % kv for kv in sorted(vals.items()))))
                if forced:
                    q = forced[0]
                    if chk.solve(q.pc + [z3.Or(D, P)], 5000)[0] == 'sat' and not warned(p):
                        # a defect passed silently under force-output on this path?
                        r, _ = chk.solve(q.pc + [z3.Not(z3.Or(D, P))], 5000)
                        if r == 'unsat':
                            chk.violation(tag + ':warn', 'C16:thdm:%s:silent-under-force' % basis,
                                          'a defect is passed under force-output without a warning', None)
            else:
                chk.record(tag, 'inconclusive', 'path %r' % (p.outcome,))
                chk.inconclusive.append(tag)
        chk.extra.setdefault('thdm_set_basis_paths', {})[basis] = n
        if n['throw'] == 0 or n['ret'] == 0:
            chk.record('thdm:set_basis(%s):coverage' % basis, 'inconclusive', 'paths %r' % n)
            chk.inconclusive.append('thdm:set_basis(%s):coverage' % basis)


def exit_status(chk):
    """MSSMNoFV_setup::run returns 1 iff a problem is flagged (also under force-output); THDM_setup::run 0"""
    mod = harness_module('h_cli')
    dem = demangled(mod)
    for frag, kind in (('MSSMNoFV_setup::run(', 'mssm'), ('THDM_setup::run(', 'thdm')):
        for fn in find(mod, frag):
            chk.functions.add(dem[fn][:70])
            ufs, V = getter_ufs(mod, dem, {'problems::have_problem() const': 'have_problem',
                                           'problems::have_warning() const': 'have_warning'},
                                bools=('have_problem', 'have_warning'))
            ex = executor(mod, RealDom(), extra_stubs=S.STRING_MODEL_STUBS, ufs=ufs, fork_select=False)
            ex.undefined_handler = generic_ext(dem)
            ex.opaque_calls = True
            ex.fast_throw = True
            ex.max_steps = 300000
            # std::function members: callable (non-empty) and their invocation has no modelled effect
            for n_, d_ in dem.items():
                if d_.startswith('std::function<') and 'operator()' in d_:
                    ex.stubs[n_] = lambda ex_, st, args, I: None
                if d_.startswith('std::function<') and 'operator bool' in d_:
                    ex.stubs[n_] = lambda ex_, st, args, I: 1
                if d_.startswith('gm2calc::MSSMNoFV_onshell::MSSMNoFV_onshell()') or '::~' in d_ and 'gm2calc::' in d_:
                    ex.stubs[n_] = lambda ex_, st, args, I: None
            st = X.State()
            this = ex.new_region(st, None, 'input', 'setup', lazy=True)
            io = ex.new_region(st, None, 'input', 'slha_io', lazy=True)
            args = [Ptr(this.rid, 0), Ptr(io.rid, 0)]
            if len(mod.functions[fn].params) != 2:
                chk.record('exit-status:' + kind, 'inconclusive', 'unexpected signature')
                chk.inconclusive.append('exit-status:' + kind)
                continue
            st = ex.start(fn, args, st)
            try:
                paths = ex.explore(st)
            except (Unsupported, PathEnd) as e:
                chk.record('exit-status:' + kind, 'inconclusive', 'executor: %s' % e)
                chk.inconclusive.append('exit-status:' + kind)
                continue
            chk.absorb_executor(ex)
            for i, p in enumerate(paths):
                tag = 'exit-status:%s#%d' % (kind, i)
                if p.outcome[0] != 'ret':
                    continue
                rv = p.retval
                rvz = rv if isinstance(rv, z3.ExprRef) else z3.BitVecVal(rv, 32)
                if kind == 'mssm':
                    want = z3.If(V['have_problem'], z3.BitVecVal(1, 32), z3.BitVecVal(0, 32))
                else:
                    want = z3.BitVecVal(0, 32)
                r, m_ = chk.prove(tag, p.pc + [rvz != want], family='exit-status',
                                  sample={'obligation': 'run() status == (problem flagged ? 1 : 0), also under '
                                          'force-output' if kind == 'mssm' else 'THDM run() returns 0 when no exception'})
                if r == 'sat':
                    chk.violation(tag, 'C16:exit-status:%s' % kind, 'run() returns %s with problem flag %s' % (
                        rv, m_.bool(V['have_problem'])), None)


def run(chk):
    mod = harness_module('h_thdm')
    dem = demangled(mod)
    thdm_basis(chk, mod, dem)
    yukawa_type(chk, mod, dem)
    exit_status(chk)
    # C entry points: the configuration (force-output flag) and basis structs reach the C++ constructor unchanged
    from . import C17b
    C17b.thdm_mirror(chk)
