"""C13 part 4: block selection by name and scale in GM2_slha_io::read_block(name, processor, scale).

The function is executed from its IR; the SLHAea collection is replaced by a bounded model: N <= 3 blocks, block k has a
symbolic flag "name matches" (Coll::find contract: first matching block at or after the start position, else end) and
a symbolic flag "is at scale" (is_at_scale, whose rule is decided separately in scale_selection).  Deque iterators are
positions 0..N.  Obligation: for every assignment of the 2N flags the sequence of blocks handed to
read_block(Block, processor) is exactly the ascending list of blocks that match in name and scale - in particular
every such block is processed and the last one is processed last, which is what "a later assignment overrides an
earlier one" needs for scale-dependent blocks as well as for scale-independent ones (the scale itself is symbolic)."""
import z3

from .common import *
from symx import exec as X
from symx import stubs as S
from symx.exec import Ptr

READ_BY_NAME = '_ZNK7gm2calc11GM2_slha_io10read_blockERKNSt7__cxx1112basic_stringIcSt11char_traitsIcESaIcEEERKSt8functionIFvidEEd'
NMAX = 3


def model_stubs(mod, N, match, atscale, blocks):
    I64 = llir.I64

    def get(ex, st, it):
        return ex.load(st, Ptr(it.rid, it.off), I64)

    def put(ex, st, it, k):
        ex.store(st, Ptr(it.rid, it.off), I64, k)

    def first_match(ex, st, k0):
        k = k0
        while k < N and not ex.decide(st, match[k]):
            k += 1
        return k

    def as_int(v):
        if isinstance(v, int):
            return v
        v = z3.simplify(v)
        return v.as_long()

    def find0(ex, st, args, I):
        put(ex, st, args[0], first_match(ex, st, 0))

    def find_range(ex, st, args, I):
        k0, k1 = as_int(get(ex, st, args[1])), as_int(get(ex, st, args[2]))
        k = first_match(ex, st, k0)
        put(ex, st, args[0], min(k, k1))

    def end(ex, st, args, I):
        put(ex, st, args[0], N)

    def ne(ex, st, args, I):
        return 1 if as_int(get(ex, st, args[0])) != as_int(get(ex, st, args[1])) else 0

    def deref(ex, st, args, I):
        k = as_int(get(ex, st, args[0]))
        if not 0 <= k < N:
            st.event('deref-end-iterator', concrete=True)
            raise X.PathEnd('deref-end', 'iterator at %d' % k)
        return Ptr(blocks[k], 0)

    def inc(ex, st, args, I):
        put(ex, st, args[0], as_int(get(ex, st, args[0])) + 1)
        return args[0]

    def copy(ex, st, args, I):
        put(ex, st, args[0], get(ex, st, args[1]))

    def at_scale(ex, st, args, I):
        k = blocks.index(args[0].rid)
        return 1 if ex.decide(st, atscale[k]) else 0

    def process(ex, st, args, I):
        st.data['processed'] = st.data.get('processed', ()) + (blocks.index(args[0].rid),)

    out = dict(S.STRING_MODEL_STUBS)
    names = list(mod.functions) + list(mod.declares)
    for n in names:
        if n.startswith('_ZNK6SLHAea4Coll4findERKNSt7__cxx11'):
            out[n] = find0
        elif n.startswith('_ZN6SLHAea4Coll4findISt15_Deque_iterator') or n.startswith('_ZNK6SLHAea4Coll4findISt15_Deque_iterator'):
            out[n] = find_range
        elif n in ('_ZNK6SLHAea4Coll4cendEv', '_ZNK6SLHAea4Coll3endEv', '_ZN6SLHAea4Coll3endEv'):
            out[n] = end
        elif n.startswith('_ZStneRKSt15_Deque_iteratorIN6SLHAea5Block'):
            out[n] = ne
        elif n.startswith('_ZNKSt15_Deque_iteratorIN6SLHAea5Block') and n.endswith('EdeEv'):
            out[n] = deref
        elif n.startswith('_ZNSt15_Deque_iteratorIN6SLHAea5Block') and n.endswith('EppEv'):
            out[n] = inc
        elif n.startswith('_ZNSt15_Deque_iteratorIN6SLHAea5Block') and 'C2ERKS' in n:
            out[n] = copy
        elif n.startswith('_ZN7gm2calc11GM2_slha_io11is_at_scaleERKN6SLHAea5BlockEd'):
            out[n] = at_scale
        elif n == '_ZN7gm2calc11GM2_slha_io10read_blockERKN6SLHAea5BlockERKSt8functionIFvidEE':
            out[n] = process
    return out


def run(chk, mod, lib):
    chk.functions.add('gm2calc::GM2_slha_io::read_block(name, processor, scale)')
    if READ_BY_NAME not in mod.functions:
        chk.record('block-selection', 'gap', 'read_block(name, processor, scale) not found in the IR')
        chk.not_covered.append('block selection by name and scale (function not found)')
        return
    nmax = NMAX + 1 if chk.tier == 'quick' else NMAX + 3
    chk.bounds['blocks_of_a_name'] = nmax
    for N in range(0, nmax + 1):
        match = [z3.Bool('name_matches_%d' % k) for k in range(N)]
        atscale = [z3.Bool('at_scale_%d' % k) for k in range(N)]
        st = X.State()
        ex = executor(mod, RealDom(), fork_select=False)
        blocks = [ex.new_region(st, None, 'input', 'block%d' % k, lazy=True).rid for k in range(N)]
        ex.stubs.update(model_stubs(mod, N, match, atscale, blocks))
        this = ex.new_region(st, None, 'input', 'slha_io', lazy=True)
        name = ex.new_region(st, None, 'input', 'block_name', lazy=True)
        proc = ex.new_region(st, None, 'input', 'processor', lazy=True)
        st = ex.start(READ_BY_NAME, [Ptr(this.rid, 0), Ptr(name.rid, 0), Ptr(proc.rid, 0), z3.Real('scale')], st)
        try:
            paths = ex.explore(st)
        except Unsupported as e:
            chk.record('block-selection:N=%d' % N, 'gap', 'executor: %s' % e)
            chk.not_covered.append('block selection by name and scale (%s)' % str(e)[:80])
            return
        chk.absorb_executor(ex)
        for i, p in enumerate(paths):
            tag = 'block-selection:N=%d#%d' % (N, i)
            got = list(p.data.get('processed', ()))
            if p.outcome[0] != 'ret':
                r, m = chk.solve(p.pc, 10000)
                if r == 'unsat':
                    continue
                flags = {str(b): bool(m.eval(b, model_completion=True)) for b in match + atscale} if m is not None else {}
                report(chk, lib, tag, N, flags, 'read_block(name, processor, scale) with %d blocks %r ends with %r' % (N, flags, p.outcome))
                continue
            # on this path the flags that were looked at are fixed by the path condition; the expected list under the
            # path condition: blocks with match and at-scale both true, ascending
            in_k = [z3.And(match[k], atscale[k]) for k in range(N)]
            claim = z3.And([ik == z3.BoolVal(k in got) for k, ik in enumerate(in_k)] + [z3.BoolVal(got == sorted(got) and len(set(got)) == len(got))])
            r, m = chk.prove(tag, p.pc + [z3.Not(claim)], family='block-selection',
                             sample={'obligation': 'read_block(name, processor, scale), %d blocks: the blocks processed are exactly those '
                                     'matching in name and scale, each once, in file order' % N})
            if r == 'sat':
                flags = {str(b): bool(m.eval(b, model_completion=True)) for b in match + atscale}
                want = [k for k in range(N) if flags['name_matches_%d' % k] and flags['at_scale_%d' % k]]
                report(chk, lib, tag, N, flags, 'with %d blocks (matches name/scale: %r) the blocks processed are %r, expected %r'
                       % (N, flags, got, want))
    chk.assumptions.append('block selection: SLHAea::Coll::find/end and the deque iterators are replaced by their contract over '
                           'positions 0..N (N <= %d blocks); is_at_scale is a symbolic flag per block (rule decided separately)' % nmax)


def native_select(lib, bits):
    """real reader on a text with one block per flag pair: name X (matches) or Y, Q = 1000 (at scale) or 2000;
    returns (keys processed, expected keys, text)"""
    import ctypes
    N = len(bits) // 2
    text = ''
    want = []
    for k in range(N):
        mt, at = bits[2 * k] == '1', bits[2 * k + 1] == '1'
        text += 'Block %s Q= %s\n %d 1.5\n' % ('X' if mt else 'Y', '1000' if at else '2000', k + 1)
        if mt and at:
            want.append(k + 1)
    f = lib.vx_native_select
    f.restype = ctypes.c_int
    f.argtypes = [ctypes.c_char_p, ctypes.c_char_p, ctypes.c_double, ctypes.c_void_p, ctypes.c_int]
    buf = (ctypes.c_int * 16)()
    n = f(text.encode(), b'X', 1000.0, buf, 16)
    return (list(buf)[:n] if n >= 0 else None), want, text


def bits_of(N, flags):
    return ''.join('%d%d' % (flags.get('name_matches_%d' % k, True), flags.get('at_scale_%d' % k, True)) for k in range(N))


def report(chk, lib, tag, N, flags, what):
    bits = bits_of(N, flags)
    got, want, text = native_select(lib, bits)
    chk.traces_validated += 1
    if got != want:
        chk.violation(tag, 'C13:block-selection', '%s; real reader on %r with scale 1000: keys %r, expected %r'
                      % (what, text, got, want), replay_script(N, flags))
    else:
        chk.record(tag, 'inconclusive', '%s - not reproduced by the real reader' % what)
        chk.inconclusive.append(tag)


def replay_script(N, flags):
    bits = bits_of(N, flags)
    return '#!/bin/sh\ncd %s && exec python3-vt -m props.replay_c13 select %s\n' % (VERIF, bits)
