"""replay of C15 witnesses through the real program (built from the working tree)"""
import os
import re
import subprocess
import sys
import tempfile
from .common import *

INPUT = {'THDM': ('thdm', 'input/example.thdm'), 'MSSMNoFV_onshell': ('gm2calc', 'input/example.gm2')}


def with_config(path, cfg):
    txt = open(path).read()
    # drop existing GM2CalcConfig block
    out = []
    skip = False
    for ln in txt.split('\n'):
        if re.match(r'\s*block\s+gm2calcconfig', ln, re.I):
            skip = True
            continue
        if skip and re.match(r'\s*block\s', ln, re.I):
            skip = False
        if not skip:
            out.append(ln)
    blk = ['Block GM2CalcConfig'] + ['  %d  %d' % (k, v) for k, v in sorted(cfg.items())]
    f = tempfile.NamedTemporaryFile('w', suffix='.in', delete=False, dir=build.scratch())
    f.write('\n'.join(out + blk) + '\n')
    f.close()
    return f.name


def run_cli(kind, path):
    exe = build.build_cli()
    r = subprocess.run([exe, '--%s-input-file=%s' % (kind, path)], capture_output=True, text=True)
    return r.returncode, r.stdout, r.stderr


def pct(model):
    kind, rel = INPUT[model]
    inp = with_config(os.path.join(REPO, rel), {0: 1, 1: 2, 2: 1, 3: 0, 4: 0, 5: 0, 6: 1})
    rc, out, err = run_cli(kind, inp)
    vals = {}
    bad = 0
    num = r'([-+]?\d\.\d+e[-+]\d+)'
    m = re.search(r'amu \(1-loop \+ 2-loop[^=]*= *' + num, out)
    best = float(m.group(1)) if m else None
    two = None
    for ln in out.split('\n'):
        mm = re.match(r'\s*sum\s*:\s*' + num, ln)
        if mm:
            two = float(mm.group(1))
    for ln in out.split('\n'):
        mm = re.search(num + r'\s*\(\s*([-+]?\d+\.?\d*)% of (2L result|full 1L \+ 2L result)', ln)
        if not mm:
            continue
        v, p, ref = float(mm.group(1)), float(mm.group(2)), mm.group(3)
        r_ = two if ref == '2L result' else best
        if r_ is None or r_ == 0:
            continue
        exp = 100.0 * v / r_
        ok = abs(exp - p) <= 0.06 + 1e-3 * abs(exp)
        print('%-60s expected %.1f%% %s' % (ln.strip()[:60], exp, 'ok' if ok else 'MISMATCH'))
        bad += 0 if ok else 1
    return 1 if bad else 0


def amu(model, lo, rs):
    kind, rel = INPUT[model]
    tool = build.build_tool(os.path.join(HARNESS, 'api_amu.cpp'), 'api_amu')
    bad = 0
    for fmt in (0, 2, 3, 4):
        inp = with_config(os.path.join(REPO, rel), {0: fmt, 1: lo, 2: rs, 3: 0, 4: 0, 5: 0, 6: 1})
        rc, out, err = run_cli(kind, inp)
        api = subprocess.run([tool, kind, inp, str(lo), str(rs)], capture_output=True, text=True).stdout.strip()
        if fmt == 0:
            cli = out.strip().split('\n')[-1].strip()
        else:
            blk, key = {2: ('LOWEN', 6), 3: ('SPhenoLowEnergy', 21), 4: ('GM2CalcOutput', 0)}[fmt]
            cli = None
            cur = None
            for ln in out.split('\n'):
                t = ln.split('#')[0].split()
                if len(t) >= 2 and t[0].lower() == 'block':
                    cur = t[1].lower()
                elif cur == blk.lower() and len(t) >= 2 and t[0] == str(key):
                    cli = t[1]
        try:
            same = cli is not None and abs(float(cli) - float(api)) <= 2e-8 * abs(float(api)) + 1e-30
        except ValueError:
            same = False
        print('format %d: program %s, library API %s %s' % (fmt, cli, api, 'ok' if same else 'MISMATCH'))
        bad += 0 if same else 1
    return 1 if bad else 0


def parts():
    from symx import build as _b
    exe = _b.build_tool(os.path.join(VERIF, 'replay', 'c15_parts.cpp'), 'c15_parts')
    sys.exit(subprocess.call([exe]))


def main():
    if len(sys.argv) > 1 and sys.argv[1] == 'flags':
        from . import C15e
        bad, n = C15e.native_flags_probe()
        print('%d runs of the real program on example.thdm (force_output x running_couplings)' % n)
        for b in bad:
            print(b)
        sys.exit(1 if bad else 0)
    if len(sys.argv) > 1 and sys.argv[1] == 'mssmflags':
        from . import C15e
        bad, n = C15e.native_mssm_force_probe()
        print('%d runs of the real program on a tachyonic point (force_output 0/1)' % n)
        for b in bad:
            print(b)
        sys.exit(1 if bad else 0)
    if len(sys.argv) > 1 and sys.argv[1] == 'fill':
        from . import C15d
        from .common import harness_native
        lib = harness_native('h_slha_blk')
        b, e, v = [int(x) for x in sys.argv[2:5]]
        rc, mine, text, res = C15d.native_fill(lib, b, e, bool(v))
        print('input:\n' + text + 'after fill_block_entry("X", 7, %s"result"):\n' % ('1.5, ' if v else '') + res)
        print('rc', rc, 'lines with key 7 in block X:', mine)
        ok = rc == 0 and len(mine) == 1 and (not v or mine[0].lower() == '1.50000000e+00')
        sys.exit(0 if ok else 1)
    if len(sys.argv) > 1 and sys.argv[1] == 'parts':
        return parts()
    kind = sys.argv[1]
    if kind == 'pct':
        sys.exit(pct(sys.argv[2]))
    if kind == 'amu':
        sys.exit(amu(sys.argv[2], int(sys.argv[3]), int(sys.argv[4])))
    sys.exit(2)


if __name__ == '__main__':
    main()
