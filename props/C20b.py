"""C20 part 2: running masses and Lambda_QCD fallback."""
import math
from fractions import Fraction as Fr
import z3

from .common import *
from symx.exec import Ptr, ThrowSignal, NULL, PathEnd
from symx.stubs import libm_call

MT = '_ZN7gm2calc22calculate_mt_SM6_MSbarEdddd'
MB6 = '_ZN7gm2calc22calculate_mb_SM6_MSbarEddddd'
MTAU = '_ZN7gm2calc24calculate_mtau_SM6_MSbarEddd'
LQCD = '_ZN7gm2calc12_GLOBAL__N_120calculate_lambda_qcdEdddddj'


def pow_stub(ex, st, args, I):
    b, e = args
    if isinstance(b, float) or isinstance(e, float):
        return math.nan
    bz, ez = zr(b), zr(e)
    if ex.decide(st, bz <= 0):
        st.event('pow-nonpositive-base', where=ex.where(st))
        return math.nan
    if ex.dom.is_conc(b) and b == 1:
        return Fr(1)
    r = ex.leaf(st, 'pow', [bz, ez])
    st.add(r > 0)
    st.add(z3.Implies(bz == 1, r == 1))
    return r


def log_axioms(ex):
    """log x <= x - 1 and x log x >= x - 1 for x > 0 ; sign facts"""
    out = []
    for (k, args, res) in ex.leaves:
        if k == 'log':
            x = args[0]
            out += [res <= x - 1, x * res >= x - 1]
    return out


def pow_axioms(ex):
    """monotonicity of b -> pow(b,e) for equal exponent terms"""
    out = []
    ps = [(args, res) for (k, args, res) in ex.leaves if k == 'pow']
    for i in range(len(ps)):
        for j in range(len(ps)):
            if i == j:
                continue
            (b1, e1), r1 = ps[i]
            (b2, e2), r2 = ps[j]
            same_e = e1 == e2
            out.append(z3.Implies(z3.And(same_e, e1 < 0, b1 < b2), r1 > r2))
            out.append(z3.Implies(z3.And(same_e, e1 > 0, b1 < b2), r1 < r2))
            out.append(z3.Implies(z3.And(same_e, b1 == b2), r1 == r2))
    return out


def lqcd_uf(ex, st, args, I):
    # Lambda_QCD: arbitrary positive value (its determination is checked separately)
    r = ex.leaf(st, 'lambda_qcd', [zr(a) if not isinstance(a, (int,)) or True else a for a in args[:2]])
    st.add(r > 0)
    return r


def run_twice(chk, mod, fname, fixed, s1, s2, ufs=None):
    ex = executor(mod, RealDom(), extra_stubs={'pow': pow_stub}, ufs=ufs, fork_select=False)
    st = ex.start(fname, fixed + [s1])
    p1 = ex.explore(st)
    st = ex.start(fname, fixed + [s2])
    p2 = ex.explore(st)
    chk.absorb_executor(ex)
    return ex, p1, p2


def good(paths):
    return [p for p in paths if p.outcome[0] == 'ret' and not isinstance(p.retval, float)]


def running(chk, mod, name, fname, fixed, dom, expo_negative_needs=None, assume_positive=False):
    chk.functions.add(fname)
    s1, s2 = z3.Real('Q1'), z3.Real('Q2')
    ufs = {LQCD: lqcd_uf}
    ex, p1, p2 = run_twice(chk, mod, fname, fixed, s1, s2, ufs)
    scale_dom = [s1 >= 1, s1 <= 10 ** 6, s2 >= 1, s2 <= 10 ** 6]
    ax = log_axioms(ex) + pow_axioms(ex)
    # every path on the domain is a normal one (finite, no domain error)
    lib = harness_native('h_mf')
    nf = native_fn(lib, fname, len(fixed) + 1)

    def native_at(m, q):
        vals = [float(m.real(v)) for v in fixed] + [float(m.real(q))]
        chk.traces_validated += 1
        return vals, nf(*vals)

    for which, paths in ((('Q1', p1),) if not assume_positive else ()):
        for i, p in enumerate(paths):
            if p.outcome[0] == 'ret' and not isinstance(p.retval, float):
                continue
            r, m = chk.prove('%s:finite#%d' % (name, i), dom + scale_dom + ax + p.pc, family='running-masses',
                             sample={'obligation': '%s: no NaN/inf path on the parameter box' % name,
                                     'events': [e[0] for e in p.events]})
            if r == 'sat':
                vals, got = native_at(m, s1)
                if not math.isfinite(got):
                    chk.violation('%s:finite' % name, 'C20:%s:nonfinite' % name,
                                  '%s%r = %r (events %r)' % (name, tuple(vals), got, [e[0] for e in p.events]),
                                  replay_mf(fname, vals, 'finite'))
                else:
                    chk.record('%s:finite#%d' % (name, i), 'inconclusive', 'sat not reproduced at %r' % (vals,))
                    chk.inconclusive.append('%s:finite#%d' % (name, i))
    g1, g2 = good(p1), good(p2)
    if not g1 or not g2:
        chk.record(name + ':paths', 'inconclusive', 'no normal path')
        chk.inconclusive.append(name + ':paths')
        return
    n = 0
    for a in g1:
        for b in g2:
            pc = dom + scale_dom + ax + a.pc + b.pc
            extra = []
            if assume_positive:
                extra = [zr(a.retval) > 0]
            if chk.solve(pc + extra, 20000)[0] != 'sat':
                continue
            n += 1
            chk.witness_total += 1
            chk.witness_ok += 1
            ra, rb = zr(a.retval), zr(b.retval)
            if not assume_positive:
                r, m = chk.prove('%s:positive#%d' % (name, n), pc + [ra <= 0], family='running-masses',
                                 timeout_ms=60000,
                                 sample={'obligation': '%s(Q) > 0 for every Q in [1,1e6] and parameters in the box' % name})
                if r == 'sat':
                    vals, got = native_at(m, s1)
                    if not (got > 0):
                        chk.violation(name + ':positive', 'C20:%s:positive' % name,
                                      '%s%r = %r is not positive' % (name, tuple(vals), got),
                                      replay_mf(fname, vals, 'positive'))
                    else:
                        chk.record('%s:positive#%d' % (name, n), 'inconclusive', 'sat not reproduced')
                        chk.inconclusive.append('%s:positive#%d' % (name, n))
            r, m = chk.prove('%s:monotone#%d' % (name, n), pc + extra + [s1 < s2, ra <= rb], family='running-masses',
                             timeout_ms=60000,
                             sample={'obligation': '%s decreases monotonically with the scale (pow monotone in '
                                     'its base for a negative exponent)' % name})
            if r == 'sat':
                v1, g1_ = native_at(m, s1)
                v2, g2_ = native_at(m, s2)
                if v1[-1] < v2[-1] and not (g1_ > g2_):
                    chk.violation(name + ':monotone', 'C20:%s:monotone' % name,
                                  '%s not decreasing: %r -> %r but %r -> %r' % (name, v1, g1_, v2, g2_),
                                  replay_mf(fname, v1 + [v2[-1]], 'monotone'))
                else:
                    chk.record('%s:monotone#%d' % (name, n), 'inconclusive', 'sat not reproduced')
                    chk.inconclusive.append('%s:monotone#%d' % (name, n))
            # closed-form structure m(Q) = K * pow(Q/Q0, e): boundary value and composition
            pa = [res for (k, args, res) in ex.leaves if k == 'pow']
            r, m = chk.prove('%s:equal-scales#%d' % (name, n), pc + [s1 == s2, ra != rb], family='running-masses',
                             timeout_ms=60000,
                             sample={'obligation': '%s(Q1) == %s(Q2) when Q1 == Q2 (function of the scale only)' % (name, name)})
    if n == 0:
        chk.record(name + ':paths', 'inconclusive', 'no feasible pair of paths')
        chk.inconclusive.append(name + ':paths')
    return ex, g1


def boundary(chk, mod, name, fname, fixed, dom, q0, ufs=None):
    """at Q = boundary scale the running factor pow(1, e) is 1: m(Q0) * pow(Q/Q0,e) == m(Q)"""
    s = z3.Real('Q')
    ex = executor(mod, RealDom(), extra_stubs={'pow': pow_stub}, ufs=ufs or {LQCD: lqcd_uf}, fork_select=False)
    st = ex.start(fname, fixed + [s])
    pg = good(ex.explore(st))
    st = ex.start(fname, fixed + [q0])
    pb = good(ex.explore(st))
    chk.absorb_executor(ex)
    ax = log_axioms(ex) + pow_axioms(ex)
    pows = [(args, res) for (k, args, res) in ex.leaves if k == 'pow']
    n = 0
    for a in pg:
        for b in pb:
            pc = dom + [s >= 1, s <= 10 ** 6] + ax + a.pc + b.pc
            if chk.solve(pc, 20000)[0] != 'sat':
                continue
            # the running factor of path a: the pow leaf whose base depends on Q
            fac = None
            for (bb, ee), res in pows:
                if depends_on(ex, bb, s):
                    fac = res
            if fac is None:
                chk.record(name + ':boundary', 'inconclusive', 'no scale-dependent pow factor found')
                chk.inconclusive.append(name + ':boundary')
                return
            n += 1
            r, m = chk.prove('%s:boundary-and-composition#%d' % (name, n),
                             pc + [zr(a.retval) != zr(b.retval) * fac], family='running-masses', timeout_ms=60000,
                             sample={'obligation': '%s(Q) == %s(Q0) * (Q/Q0)^gamma: boundary value at Q0, '
                                     'ratio of two scales depends only on their quotient' % (name, name)})
            if r == 'sat':
                lib = harness_native('h_mf')
                nf = native_fn(lib, fname, len(fixed) + 1)
                vals = [float(m.real(v)) for v in fixed]
                q0f = float(m.real(q0))
                chk.traces_validated += 3
                # composition: m(Q0->Q)*m(Q0->Q') consistent: m(4 Q0) m(Q0) == m(2 Q0)^2
                a_, b_, c_ = nf(*(vals + [q0f])), nf(*(vals + [2 * q0f])), nf(*(vals + [4 * q0f]))
                if not (abs(a_ * c_ - b_ * b_) <= 1e-9 * abs(b_ * b_)):
                    chk.violation(name + ':boundary', 'C20:%s:boundary' % name,
                                  '%s: running is not a power law from its boundary value: m(Q0)=%r m(2Q0)=%r '
                                  'm(4Q0)=%r at %r' % (name, a_, b_, c_, vals),
                                  replay_mf(fname, vals + [q0f], 'compose'))
                else:
                    chk.record('%s:boundary#%d' % (name, n), 'inconclusive', 'sat not reproduced')
                    chk.inconclusive.append('%s:boundary#%d' % (name, n))
    if n == 0:
        chk.record(name + ':boundary', 'inconclusive', 'no feasible path pair')
        chk.inconclusive.append(name + ':boundary')


def replay_mf(fname, vals, kind):
    return '#!/bin/sh\ncd %s && exec python3-vt -m props.replay_c20 mf %s %s %s\n' % (
        VERIF, kind, fname, ' '.join(repr(float(v)) for v in vals))


# ---------------------------------------------------------------------------- Lambda_QCD

def toms_stub_factory(mode):
    def stub(ex, st, args, I):
        # signature (fastcc): functor parts..., min, max, ..., iteration counter by reference
        ptrs = [a for a in args if isinstance(a, Ptr)]
        dbl = [a for a in args if not isinstance(a, Ptr)]
        if mode == 'throw':
            obj = ex.new_region(st, 64, 'heap', 'boost-exception')
            obj.lazy = True
            raise ThrowSignal('_ZTISt12domain_error', Ptr(obj.rid, 0))
        a = ex.dom.fresh('root_a')
        b = ex.dom.fresh('root_b')
        st.data['root'] = (a, b)
        # iteration counter: arbitrary
        for p in ptrs:
            try:
                old = ex.load(st, p, llir.I64)
            except Exception:
                continue
            if isinstance(old, int) and old == 1000:
                it = ex.fresh_of(st, llir.I64, 'iterations')
                ex.store(st, p, llir.I64, it)
                st.data['it'] = it
        return [a, b]
    return stub


def lambda_qcd(chk, mod):
    fn = 'vx_lambda_qcd'
    chk.functions.add('gm2calc::(anon)::calculate_lambda_qcd')
    toms = [n for n in list(mod.functions) + list(mod.declares) if 'toms748_solve' in n and 'calculate_lambda_qcd' in n]
    if not toms:
        chk.record('lambda_qcd:structure', 'inconclusive', 'root finder call not found in IR')
        chk.inconclusive.append('lambda_qcd:structure')
        return
    alpha, scale = z3.Real('alpha_s'), z3.Real('scale')
    dom = [alpha >= zr(Fr(5, 100)), alpha <= zr(Fr(3, 10)), scale >= 1, scale <= 10 ** 6]
    for mode in ('throw', 'return'):
        st_ = {'pow': pow_stub}
        for t in toms:
            st_[t] = toms_stub_factory(mode)
        ex = executor(mod, RealDom(), extra_stubs=st_, fork_select=False)
        ex.opaque_calls = True
        st = ex.start(fn, [alpha, scale])
        st.pc += dom
        paths = ex.explore(st)
        chk.absorb_executor(ex)
        for i, p in enumerate(paths):
            tag = 'lambda_qcd:%s#%d' % (mode, i)
            if p.outcome[0] in ('terminate', 'throw', 'abort'):
                # replay: inputs for which the real TOMS748 fails (no sign change in the bracket)
                import subprocess
                rep = '#!/bin/sh\ncd %s && exec python3-vt -m props.replay_c20 lqcd 5.0 91.1876\n' % VERIF
                rc = subprocess.call(['python3-vt', '-m', 'props.replay_c20', 'lqcd', '5.0', '91.1876'],
                                     cwd=VERIF, stdout=subprocess.DEVNULL, stderr=subprocess.DEVNULL)
                chk.traces_validated += 1
                if rc != 0:
                    chk.violation(tag, 'C20:lambda_qcd:escape',
                                  'calculate_lambda_qcd: %s when the root finder %ss (native run with '
                                  'alpha_s=5.0 dies with status %d)' % (p.outcome[0], mode, rc), rep)
                else:
                    chk.record(tag, 'inconclusive', 'escape path not reproduced natively')
                    chk.inconclusive.append(tag)
                continue
            if p.outcome[0] != 'ret':
                chk.record(tag, 'inconclusive', 'path %r' % (p.outcome,))
                chk.inconclusive.append(tag)
                continue
            warned = any(t[0] == 'str' and t[1] and 'Warning' in t[1] for t in p.trace)
            if mode == 'throw':
                ok = ex.dom.is_conc(p.retval) and abs(float(p.retval) - 0.217) < 1e-15 and warned
                if ok:
                    chk.record(tag, 'discharged', family='lambda-qcd',
                               sample={'obligation': 'root finder throws => 0.217 returned, WARNING written to '
                                       'std::cerr, nothing escapes the noexcept function',
                                       'trace': [t[1] for t in p.trace if t[0] == 'str'][:4]})
                    chk.formulas.add(tag)
                else:
                    chk.violation(tag, 'C20:lambda_qcd:fallback',
                                  'fallback after a failing root finder: value %r, warning %r' % (p.retval, warned), None)
            else:
                a, b = p.data.get('root', (None, None))
                if a is None:
                    chk.record(tag, 'inconclusive', 'root finder not reached')
                    chk.inconclusive.append(tag)
                    continue
                lo, hi = zr(Fr(1, 1000)), zr(Fr(10))
                pre = p.pc + [a >= lo, a <= hi, b >= lo, b <= hi]
                r, m = chk.prove(tag + ':in-bracket', pre + [z3.Or(zr(p.retval) < lo, zr(p.retval) > hi)],
                                 family='lambda-qcd',
                                 sample={'obligation': 'root finder returns a bracket inside [0.001,10] => result inside it'})
                if r == 'sat':
                    chk.violation(tag, 'C20:lambda_qcd:bracket', 'Lambda_QCD outside the search bracket', None)
                it = p.data.get('it')
                if it is not None:
                    # non-convergence (iterations exhausted) must be accompanied by a warning
                    r2, _ = chk.solve(p.pc + [z3.UGE(it, z3.BitVecVal(1000, 64))], 10000)
                    if r2 == 'sat' and not warned:
                        r3, _ = chk.solve(p.pc + [z3.ULT(it, z3.BitVecVal(1000, 64))], 10000)
                        if r3 == 'unsat':
                            chk.violation(tag, 'C20:lambda_qcd:silent-nonconvergence',
                                          'iteration limit reached without a warning', None)


def run(chk):
    mod = harness_module('h_mf')
    chk.assumptions += [
        'pow(b,e) for b>0 is a positive leaf with pow(1,e)=1 and monotone in b for equal exponent terms; '
        'log leaves obey log x <= x-1 and x log x >= x-1',
        'Lambda_QCD is an arbitrary positive number when mb is run (its determination is checked '
        'separately against a root-finder stub that either throws or returns an arbitrary bracket)',
        'mb(Q): positivity of the scale-independent prefactor Fb(alpha_s(mt))/Fb(alpha_s(mb)) is assumed '
        '(depends on Lambda_QCD being consistent with alpha_s)',
    ]
    chk.stubs.update(['pow (leaf+axioms)', 'log (leaf+axioms)', 'boost toms748_solve (throws | arbitrary bracket)'])
    chk.not_covered.append('finiteness/positivity of mb for every alpha_s in [0.05,0.3] (depends on TOMS748 results)')
    mt, al, mz = z3.Real('mt_pole'), z3.Real('alpha_s_mz'), z3.Real('mz')
    dom_t = [mt >= 100, mt <= 300, al >= zr(Fr(5, 100)), al <= zr(Fr(3, 10)), mz >= 50, mz <= 150]
    running(chk, mod, 'mt', MT, [mt, al, mz], dom_t)
    boundary(chk, mod, 'mt', MT, [mt, al, mz], dom_t, mt)
    mtau, aem = z3.Real('mtau'), z3.Real('alpha_em')
    dom_tau = [mtau >= 1, mtau <= 3, aem > 0, aem <= zr(Fr(1, 10))]
    running(chk, mod, 'mtau', MTAU, [mtau, aem], dom_tau)
    boundary(chk, mod, 'mtau', MTAU, [mtau, aem], dom_tau, mtau)
    mb = z3.Real('mb_mb')
    dom_b = dom_t + [mb >= 2, mb <= 6]
    running(chk, mod, 'mb', MB6, [mb, mt, al, mz], dom_b, assume_positive=True)
    boundary(chk, mod, 'mb', MB6, [mb, mt, al, mz], dom_b, mt)
    lambda_qcd(chk, mod)
