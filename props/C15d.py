"""C15 part 4: GM2_slha_io::fill_block_entry writes the result so that the block carries exactly one line for the key.

Both overloads are executed from their IR.  SLHAea::Coll / Block / Line are replaced by a contract model of the one
block and the one key concerned: the block exists or not (symbolic), a line with the key exists or not (symbolic),
Coll::find/end/push_back/push_front/operator[], Block::operator[](int) (find or create), Block::push_back (append),
Line::operator= (replace), deque iterators as positions.  String construction and boost::format are skipped; the
formatted line is identified by the object it is produced in.  Obligation, for every pre-state: afterwards the block
exists, holds exactly one line with the key, and that line is the freshly formatted one (an SLHA reader sees one value
per key; a stale input line must not survive next to the result).  A counterexample is replayed with the real
class on a generated text.  Any container operation outside the model ends the path as not covered (no alarm)."""
import ctypes
import subprocess
import z3

from .common import *
from .C14b import find, demangled
from .C13 import skip_formatting
from symx import exec as X
from symx import stubs as S
from symx.exec import Ptr

I64 = llir.I64


def setd(st, k, v):
    st.data[k] = v


def model_stubs(mod, B, E, regs):
    """regs: dict with rids of name param, coll (this), theblock, theline"""
    def get(ex, st, it):
        v = ex.load(st, Ptr(it.rid, it.off), I64)
        return v if isinstance(v, int) else z3.simplify(v).as_long()

    def put(ex, st, it, k):
        ex.store(st, Ptr(it.rid, it.off), I64, k)

    def exists(ex, st):
        if 'exists' not in st.data:
            setd(st, 'exists', bool(ex.decide(st, B)))
            setd(st, 'lines', None)
        return st.data['exists']

    def lines(ex, st):
        """number of lines with the key in the block (decided lazily)"""
        if st.data.get('lines') is None:
            if st.data.get('created'):
                setd(st, 'lines', 0)
            else:
                setd(st, 'lines', 1 if ex.decide(st, E) else 0)
            setd(st, 'fresh_lines', 0)
        return st.data['lines']

    def is_name(st, p):
        return isinstance(p, Ptr) and p.rid == regs['name']

    def bad(st, what):
        st.event('outside-model', what=what)
        raise X.PathEnd('outside-model', what)

    def find_(ex, st, args, I):
        if not is_name(st, args[2]):
            bad(st, 'find with another name')
        put(ex, st, args[0], 0 if exists(ex, st) else 0)      # position 0 = the block, or end() == 0 when absent

    def end_(ex, st, args, I):
        put(ex, st, args[0], 1 if exists(ex, st) else 0)

    def eq_(ex, st, args, I):
        return 1 if get(ex, st, args[0]) == get(ex, st, args[1]) else 0

    def ne_(ex, st, args, I):
        return 0 if get(ex, st, args[0]) == get(ex, st, args[1]) else 1

    def prev_(ex, st, args, I):
        # std::prev(it [, n]) -> sret
        put(ex, st, args[0], get(ex, st, args[1]) - 1)

    def deref_(ex, st, args, I):
        if not (exists(ex, st) and get(ex, st, args[0]) == 0):
            st.event('deref-invalid-iterator', concrete=True)
            raise X.PathEnd('deref-end', 'iterator')
        return Ptr(regs['block'], 0)

    def plus_(ex, st, args, I):
        if is_name(st, args[2]):
            setd(st, 'header_str', args[0].rid)
        return None

    def block_ctor(ex, st, args, I):
        return None

    def block_str(ex, st, args, I):
        if isinstance(args[1], Ptr) and args[1].rid == st.data.get('header_str'):
            setd(st, 'named_block', args[0].rid)
        return args[0]

    def coll_push(ex, st, args, I):
        if args[1].rid != st.data.get('named_block'):
            bad(st, 'push of a block not named after block_name')
        if exists(ex, st):
            setd(st, 'duplicate_block', True)
        setd(st, 'exists', True)
        setd(st, 'created', True)
        setd(st, 'lines', 0)
        setd(st, 'fresh_lines', 0)

    def coll_index(ex, st, args, I):
        if not is_name(st, args[1]):
            bad(st, 'operator[] with another name')
        if not exists(ex, st):
            setd(st, 'exists', True)
            setd(st, 'created', True)
            setd(st, 'lines', 0)
            setd(st, 'fresh_lines', 0)
        return Ptr(regs['block'], 0)

    def block_index(ex, st, args, I):
        if args[0].rid != regs['block']:
            bad(st, 'Block::operator[] on another block')
        k = args[1]
        if not (isinstance(k, z3.ExprRef) and k.eq(regs['entry'])):
            bad(st, 'Block::operator[] with a key other than entry')
        n = lines(ex, st)
        if n == 0:
            setd(st, 'lines', 1)
            setd(st, 'content', ('empty',))
        elif 'content' not in st.data:
            setd(st, 'content', ('old',))
        return Ptr(regs['line'], 0)

    def line_assign(ex, st, args, I):
        if args[0].rid != regs['line']:
            bad(st, 'Line::operator= on another line')
        setd(st, 'content', ('formatted',) if args[1].rid == st.data.get('formatted') else ('other',))
        return args[0]

    def block_push(ex, st, args, I):
        if args[0].rid != regs['block']:
            bad(st, 'Block::push_back on another block')
        n = lines(ex, st)
        if n >= 1 and 'content' not in st.data:
            setd(st, 'content', ('old',))
        setd(st, 'lines', n + 1)
        setd(st, 'appended', ('formatted',) if args[1].rid == st.data.get('formatted') else ('other',))
        if n == 0:
            setd(st, 'content', st.data['appended'])

    def fmt_str(ex, st, args, I):
        setd(st, 'formatted', args[0].rid)
        return None

    def fmt_arg(ex, st, args, I):
        a = args[1]
        seen = st.data.get('fmt_args', ())
        setd(st, 'fmt_args', seen + (a.rid if isinstance(a, Ptr) else None,))
        return args[0]

    out = {}
    for n, d in demangled(mod).items():
        if d.startswith('SLHAea::Coll::find(std::') or d.startswith('SLHAea::Coll::find(std::__cxx11'):
            out[n] = find_
        elif d.startswith('SLHAea::Coll::cend()') or d.startswith('SLHAea::Coll::end()'):
            out[n] = end_
        elif d.startswith('bool std::operator==') and 'SLHAea::Block' in d and '_Deque_iterator' in d:
            out[n] = eq_
        elif d.startswith('bool std::operator!=') and 'SLHAea::Block' in d and '_Deque_iterator' in d:
            out[n] = ne_
        elif 'std::prev<' in d and 'SLHAea::Block' in d:
            out[n] = prev_
        elif d.startswith('std::_Deque_iterator<SLHAea::Block') and ('::operator->()' in d or '::operator*()' in d):
            out[n] = deref_
        elif d.startswith('SLHAea::Block::Block('):
            out[n] = block_ctor
        elif d.startswith('SLHAea::Block::~Block'):
            out[n] = block_ctor
        elif d.startswith('SLHAea::Block::str(std::'):
            out[n] = block_str
        elif d.startswith('SLHAea::Coll::push_back(SLHAea::Block') or d.startswith('SLHAea::Coll::push_front(SLHAea::Block'):
            out[n] = coll_push
        elif d.startswith('SLHAea::Coll::operator[](std::'):
            out[n] = coll_index
        elif d.startswith('SLHAea::Block::operator[](int)'):
            out[n] = block_index
        elif d.startswith('SLHAea::Line::operator=(std::'):
            out[n] = line_assign
        elif d.startswith('SLHAea::Block::push_back('):
            out[n] = block_push
        elif d.startswith('SLHAea::'):
            out[n] = (lambda nm: (lambda ex, st, args, I: bad(st, nm)))(d[:70])
        elif d.startswith('boost::basic_format') and '::str[abi:cxx11]() const' in d:
            out[n] = fmt_str
        elif d.startswith('boost::basic_format') and 'operator%' in d:
            out[n] = fmt_arg
        elif 'operator+<char' in d and d.startswith('std::__cxx11::basic_string'):
            out[n] = plus_
    return out


def native_fill(lib, block_exists, entry_exists, with_value=True):
    f = lib.vx_native_fill_entry
    f.restype = ctypes.c_int
    f.argtypes = [ctypes.c_char_p, ctypes.c_int, ctypes.c_char_p, ctypes.c_int]
    text = 'Block OTHER\n 1 2.0\n'
    if block_exists:
        text += 'Block X\n 5 1.0\n' + (' 7 4.25 # stale\n' if entry_exists else '')
    out = ctypes.create_string_buffer(4096)
    rc = f(text.encode(), 1 if with_value else 0, out, 4096)
    res = out.value.decode(errors='replace')
    inx = False
    keys = []
    for ln in res.split('\n'):
        t = ln.split()
        if t and t[0].upper() == 'BLOCK':
            inx = len(t) > 1 and t[1] == 'X'
        elif inx and t and not t[0].startswith('#'):
            keys.append((t[0], t[1] if len(t) > 1 else ''))
    mine = [v for k, v in keys if k == '7']
    return rc, mine, text, res


def run(chk):
    mod = harness_module('h_slha_blk')
    lib = harness_native('h_slha_blk')
    for over, fname in (('value', '_ZN7gm2calc11GM2_slha_io16fill_block_entryERKNSt7__cxx1112basic_stringIcSt11char_traitsIcESaIcEEEjdS8_'),
                        ('text', '_ZN7gm2calc11GM2_slha_io16fill_block_entryERKNSt7__cxx1112basic_stringIcSt11char_traitsIcESaIcEEEjS8_')):
        tag0 = 'fill_block_entry(%s)' % over
        chk.functions.add('gm2calc::GM2_slha_io::' + tag0)
        if fname not in mod.functions:
            chk.record(tag0, 'gap', 'function not found in the IR')
            chk.not_covered.append(tag0 + ': not found')
            continue
        B, E = z3.Bool('block_exists'), z3.Bool('entry_exists')
        st = X.State()
        ex = executor(mod, RealDom(), extra_stubs=dict(S.STRING_MODEL_STUBS), fork_select=False)
        this = ex.new_region(st, None, 'input', 'slha_io', lazy=True)
        name = ex.new_region(st, None, 'input', 'block_name', lazy=True)
        desc = ex.new_region(st, None, 'input', 'description', lazy=True)
        blk = ex.new_region(st, None, 'input', 'the_block', lazy=True)
        line = ex.new_region(st, None, 'input', 'the_line', lazy=True)
        entry = z3.BitVec('entry', 32)
        regs = {'name': name.rid, 'coll': this.rid, 'block': blk.rid, 'line': line.rid, 'entry': entry}
        ex.stubs.update(model_stubs(mod, B, E, regs))
        skip_formatting(ex)
        args = [Ptr(this.rid, 0), Ptr(name.rid, 0), entry] + ([z3.Real('value')] if over == 'value' else []) + [Ptr(desc.rid, 0)]
        st = ex.start(fname, args, st)
        try:
            paths = ex.explore(st)
        except Unsupported as e:
            chk.record(tag0, 'gap', 'executor: %s' % e)
            chk.not_covered.append('%s (%s)' % (tag0, str(e)[:80]))
            continue
        chk.absorb_executor(ex)
        nok = 0
        for i, p in enumerate(paths):
            tag = '%s#%d' % (tag0, i)
            if p.outcome[0] != 'ret':
                if p.outcome[0] == 'outside-model' or any(e[0] == 'outside-model' for e in p.events):
                    chk.record(tag, 'gap', 'container operation outside the model: %r' % (p.outcome,), family='single-result-line')
                    chk.not_covered.append('%s: container operation outside the contract model %r' % (tag0, p.outcome[1:]))
                    continue
                if p.outcome[0] in ('throw', 'terminate'):
                    continue          # allocation / formatting failure paths of the skipped string code
                r, m = chk.solve(p.pc, 10000)
                if r == 'unsat':
                    continue
                pre = (bool(m.eval(B, model_completion=True)), bool(m.eval(E, model_completion=True)))
                report(chk, lib, tag, over, pre, 'path ends with %r' % (p.outcome,))
                continue
            d = p.data
            ok = (d.get('exists') is True and d.get('lines') == 1 and d.get('content') == ('formatted',)
                  and not d.get('duplicate_block'))
            if ok:
                nok += 1
                chk.record(tag, 'discharged', family='single-result-line',
                           sample={'obligation': '%s: for this pre-state (block %s, entry %s) the block afterwards holds exactly one line '
                                   'with the key and it is the freshly formatted one' % (
                                       tag0, 'present' if not d.get('created') else 'absent', 'n/a')})
                chk.formulas.add(tag)
                continue
            r, m = chk.solve(p.pc, 10000)
            if r == 'unsat':
                continue
            pre = (bool(m.eval(B, model_completion=True)), bool(m.eval(E, model_completion=True)))
            report(chk, lib, tag, over, pre, 'model state afterwards: block exists=%r, lines with the key=%r, first line=%r, appended=%r'
                   % (d.get('exists'), d.get('lines'), d.get('content'), d.get('appended')))
        if nok == 0:
            chk.record(tag0 + ':coverage', 'gap', 'no path discharged')
    chk.assumptions.append('fill_block_entry: SLHAea::Coll/Block/Line replaced by a contract model of one block and one key '
                           '(find, end, push_back/front, operator[], Block::push_back, Line::operator=); string building and '
                           'boost::format skipped')


def report(chk, lib, tag, over, pre, what):
    rc, mine, text, res = native_fill(lib, pre[0], pre[1], over == 'value')
    chk.traces_validated += 1
    if rc != 0 or len(mine) != 1 or (over == 'value' and mine[0] not in ('1.50000000E+00', '1.50000000e+00')):
        chk.violation(tag, 'C15:fill_block_entry:%s' % over,
                      'fill_block_entry (%s overload), block %s, entry %s: %s; real class on %r: rc=%d, lines with key 7 in block X: %r'
                      % (over, 'present' if pre[0] else 'absent', 'present' if pre[1] else 'absent', what, text, rc, mine),
                      '#!/bin/sh\ncd %s && exec python3-vt -m props.replay_c15 fill %d %d %d\n' % (VERIF, pre[0], pre[1], over == 'value'))
    else:
        chk.record(tag, 'inconclusive', '%s - not reproduced by the real class' % what)
        chk.inconclusive.append(tag)
