"""replay for C03: native one-loop functions of the current tree vs the independent formulas at concrete points"""
import os
import subprocess
import sys
from symx import build


def main():
    exe = build.build_tool(os.path.join(os.path.dirname(os.path.dirname(os.path.abspath(__file__))), 'replay', 'c03_driver.cpp'),
                           'c03_driver')
    sys.exit(subprocess.call([exe] + sys.argv[1:2]))


if __name__ == '__main__':
    main()
