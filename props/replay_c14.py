"""replay of C14 witnesses"""
import sys
from .common import *


def main():
    if sys.argv[1] == 'diagnostic':
        from .C14c import native_probe
        bad, n = native_probe()
        print('%d runs of the real program (example.gm2, Mu=1e8, force_output=1, output formats 0-4)' % n)
        for b in bad:
            print('output format %d: %s' % b)
        sys.exit(1 if bad else 0)
    if sys.argv[1] == 'stdout':
        from .C14c import native_stdout_probe, cout_census
        bad, n = native_stdout_probe()
        print('%d runs of the real program (three examples, output formats 0, 1, 4, verbose 0/1)' % n)
        for b in bad:
            print(b)
        sys.exit(1 if bad else 0)
    sys.exit(2)


if __name__ == '__main__':
    main()
