"""C10 - THDM contributions vanish in the SM limit (and stay numerically well-conditioned at a heavy scale).

SM limit on the real code: amu1L(pars) and amu2L_F_neutral(pars) are executed with a parameter object in which
  * the couplings of h are SM-like (cos(beta-alpha) = 0: y_f^h = diag(m_f)/v),
  * m_h is the same symbol as the SM Higgs mass,
  * alpha_em, mw, mz are tied to v by the relations the model guarantees (proved in C08: MW^2 = g2^2 v^2/4,
    MZ^2 = (g'^2+g2^2) v^2/4, alpha_em = g'^2 g2^2/((g'^2+g2^2) 4 pi)),
and the solver decides that the result does not depend on the common Higgs mass: every loop-function leaf whose
argument contains m_h has coefficient zero and the explicit m_h dependence cancels.
Heavy scale: the closed form of dxlog (difference quotient in the bosonic two-loop terms) is only used where its
cancellation is bounded (|a-b| >= 1e-5 max(a,b)) for arguments up to 1e6 (M = 30 TeV).
"""
from fractions import Fraction as Fr
import mpmath
import z3

from .common import *
from .C14b import demangled
from .modelprobe import probe, ext_handler
from . import C02, polyid
from symx.exec import Ptr

PI = z3.Real('const_pi')
PI2 = z3.Real('const_pi2')
CONSTS = [(3.1415926535897932, PI), (9.8696044010893586, PI2), (8 * 9.8696044010893586, 8 * PI2),
          (4 * 3.1415926535897932, 4 * PI), (2 * 3.1415926535897932, 2 * PI), (1 / (8 * 9.8696044010893586), 1 / (8 * PI2))]
CONST_AX = [PI > 3, PI < 4, PI2 > 9, PI2 < 10]


def mentions(e, ids):
    todo = [e]
    seen = set()
    while todo:
        t = todo.pop()
        if t.get_id() in seen:
            continue
        seen.add(t.get_id())
        if t.get_id() in ids:
            return True
        todo.extend(t.children())
    return False


def expand_quots(ex, e):
    from .C08b import expand_quots as eq
    return eq(ex, e)


def sm_limit(chk, harness, fn, spec_fn, label, yuk_setup):
    """generic: execute fn(pars) under the SM-limit relations and prove independence of the common Higgs mass"""
    mod = harness_module(harness)
    dem = demangled(mod)
    ex = executor(mod, RealDom(CONSTS), fork_select=False)
    ex.undefined_handler = ext_handler(dem)
    ex.div_no_fork = True
    st = X.State()
    reg = ex.new_region(st, None, 'input', 'pars', lazy=True)
    pp = Ptr(reg.rid, 0)
    st, V = probe(ex, st, pp, spec_fn())
    V = {k: zr(v) for k, v in V.items()}
    s2 = ex.start(fn, [pp], st.fork())
    g1, g2, v = z3.Real('gY'), z3.Real('g2'), z3.Real('v')
    rel = [g1 > 0, g2 > 0, v > 0,
           V['mw'] > 0, V['mz'] > 0, V['mw'] * V['mw'] * 4 == g2 * g2 * v * v, V['mz'] * V['mz'] * 4 == (g1 * g1 + g2 * g2) * v * v,
           V['alpha_em'] * 4 * PI * (g1 * g1 + g2 * g2) == g1 * g1 * g2 * g2,
           V['mh0'] == V['mhSM'], V['mhSM'] > 0]
    rel += yuk_setup(V, v)
    s2.pc += rel + CONST_AX
    rr = ex.explore(s2)
    chk.absorb_executor(ex)
    good = [p for p in rr if p.outcome[0] == 'ret' and not isinstance(p.retval, float)]
    if len(good) != 1:
        # other paths (sqrt of a negative number) must be infeasible
        ok = True
        for p in rr:
            if p in good:
                continue
            r, m = chk.solve(list(p.pc), 20000)
            if r != 'unsat':
                ok = False
        if len(good) != 1 or not ok:
            chk.record(label, 'inconclusive', 'paths %r' % [p.outcome for p in rr][:3])
            chk.inconclusive.append(label)
            return
    p = good[0]
    res = zr(p.retval)
    # eliminate the SM-limit equalities by substitution so that identical arguments become identical terms
    return ex, p, res, V, (g1, g2, v)


def spec_1l():
    from .C03b import spec
    return spec()


def one_loop(chk):
    fam = 'sm-limit-1loop'
    chk.functions.add('gm2calc::thdm::amu1L')
    from .C03b import YN

    def yuk(V, v):
        cons = [V['mm'] == V['ml1']]
        for i in range(3):
            for j in range(3):
                cons.append(V['yhi%d%d' % (i, j)] == 0)
                cons.append(V['yhr%d%d' % (i, j)] * v == (V['ml%d' % i] if i == j else 0))
        cons += [V['ml%d' % i] > 0 for i in range(3)] + [V['mA'] > 0, V['mHp'] > 0, V['mh1'] > 0]
        return cons
    out = sm_limit(chk, 'h_thdm_1l', [n for n in harness_module('h_thdm_1l').functions if 'amu1L' in n and 'approx' not in n
                                       and 'THDM_1L_parameters' in n][0], spec_1l, 'sm-limit:1L', yuk)
    if out is None:
        return
    ex, p, res, V, (g1, g2, v) = out
    independence(chk, ex, p, res, V, v, fam, 'amu1L', 'props.replay_c10 onel')


def independence(chk, ex, p, res, V, v, fam, what, replay):
    """res must not depend on mhSM (= mh0): substitute the limit relations, expand quotients and compare the result for
    two different values of the common Higgs mass; leaves with an argument containing the mass are shifted independently"""
    mh, mhSM = V['mh0'], V['mhSM']
    # leaves whose arguments mention mh or mhSM
    ids = {mh.get_id(), mhSM.get_id()}
    dep = []
    for j in p.leaves:
        k, args, r = ex.leaves[j]
        if any(mentions(expand_quots(ex, zr(a)), ids) for a in args if isinstance(a, z3.ExprRef)):
            dep.append((k, args, r))
    # work on the expanded rational function (quotient variables replaced by their definitions): the loop-function
    # leaves then occur explicitly; the defining constraints of the quotient variables are no longer needed
    res = expand_quots(ex, res)
    qids = set(ex.quots.keys())
    base = [k_ if not mentions(k_, qids) else expand_quots(ex, k_) for k_ in p.pc]
    nz = []
    for qid, (n_, d_) in ex.quots.items():
        dz = expand_quots(ex, zr(d_))
        nz.append(dz != 0)
    base = base + nz[:0]
    # congruence: leaves of the same function whose arguments are equal under the limit relations are equal
    cong = []
    by = {}
    for (k, args, r) in dep:
        by.setdefault((k, len(args)), []).append((args, r))
    for (k, n), lst in by.items():
        for i in range(len(lst)):
            for j in range(i):
                (a1, r1), (a2, r2) = lst[i], lst[j]
                cong.append(z3.Implies(z3.And([zr(x) == zr(y) for x, y in zip(a1, a2)]), r1 == r2))
    # (i) every mass-dependent leaf has total coefficient zero (taking the congruences into account: shift all leaves of a
    #     congruence class together)
    classes = []
    for (k, args, r) in dep:
        placed = False
        for cl in classes:
            k0, a0, r0 = cl[0]
            if k0 == k and len(a0) == len(args):
                rq, m = chk.solve(base + [z3.Or([expand_quots(ex, zr(x)) != expand_quots(ex, zr(y)) for x, y in zip(a0, args)])], 20000)
                if rq == 'unsat':
                    cl.append((k, args, r))
                    placed = True
                    break
        if not placed:
            classes.append([(k, args, r)])
    for ci, cl in enumerate(classes):
        sub = [(r, r + 1) for (_, _, r) in cl]
        shifted = z3.substitute(res, *sub)
        basesub = base       # the defining constraints of the leaves are uninterpreted: no constraint mentions them
        tag = 'sm-limit:%s:leaf-class%d(%s)' % (what, ci, cl[0][0])
        smp = {'obligation': 'SM limit (cos(beta-alpha)=0, mh = mhSM): the coefficient of the loop function %s at the '
               'light-Higgs mass vanishes in %s (h terms cancel against the subtracted SM terms)' % (cl[0][0], what)}
        cons = basesub + [shifted != res]
        chk.note_formula(cons)
        r_, m = chk.solve(cons, 180000)
        if r_ == 'unsat':
            chk.record(tag, 'discharged', family=fam, sample=smp)
        elif r_ == 'sat':
            chk.record(tag, 'violated', family=fam)
            chk.violation(tag, 'C10:sm-limit:%s' % what, '%s: the light-Higgs terms do not cancel against the SM subtraction in the SM limit '
                          '(loop function %s)' % (what, cl[0][0]), '#!/bin/sh\ncd %s && exec python3-vt -m %s\n' % (VERIF, replay))
        else:
            chk.record(tag, 'inconclusive', 'solver timeout', family=fam)
            chk.inconclusive.append(tag)
    chk.extra.setdefault('sm_limit_leaf_classes', {})[what] = [[k for (k, _, _) in cl] for cl in classes]
    if not classes:
        chk.record('sm-limit:%s:no-light-higgs-leaves' % what, 'discharged', family=fam,
                   sample={'obligation': 'no loop function is evaluated at the light-Higgs mass in the SM limit'})


def spec_2lf():
    s = {}
    for k, nm in enumerate(['alpha_em', 'mm', 'mw', 'mz', 'mhSM', 'mA', 'mHp', 'mh0', 'mh1']):
        s[nm] = ('vx_par', [k])
    for f, F in enumerate('udl'):
        for i in range(3):
            s['m%s%d' % (F, i)] = ('vx_m', [f, i])
            for sidx, S in enumerate(['h', 'H', 'A']):
                s['y%s%sr%d' % (F, S, i)] = ('vx_y_re', [f, sidx, i, i])
                s['y%s%si%d' % (F, S, i)] = ('vx_y_im', [f, sidx, i, i])
    return s


def two_loop_f(chk):
    fam = 'sm-limit-2loop-fermionic'
    chk.functions.update(['gm2calc::thdm::amu2L_F_neutral', 'fuS', 'fdS', 'flS', 'fuA', 'fdA', 'flA'])

    def yuk(V, v):
        cons = [V['mm'] > 0]
        for F in 'udl':
            for i in range(3):
                cons += [V['m%s%d' % (F, i)] > 0, V['y%shi%d' % (F, i)] == 0, V['y%shr%d' % (F, i)] * v == V['m%s%d' % (F, i)]]
        cons += [V['mA'] > 0, V['mh1'] > 0]
        return cons
    out = sm_limit(chk, 'h_thdm_2lf', 'vx_amu2L_F_neutral', spec_2lf, 'sm-limit:2L-F', yuk)
    if out is None:
        return
    ex, p, res, V, (g1, g2, v) = out
    independence(chk, ex, p, res, V, v, fam, 'amu2L_F_neutral', 'props.replay_c10 twolf')


def conditioning(chk):
    """dxlog: the closed form (a^2 ln a - b^2 ln b)/(a - b) only where |a - b| >= 1e-5 max(a, b), a, b up to 1e6"""
    from . import C11
    fam = 'heavy-scale-conditioning'
    mod, ks = C11.kernel_module()
    if 'dxlog' not in dict(ks):
        chk.record('dxlog', 'inconclusive', 'dxlog not found')
        chk.inconclusive.append('dxlog')
        return
    chk.functions.add('gm2calc::thdm::(anon)::dxlog')
    a, b = z3.Real('a'), z3.Real('b')
    ex = executor(mod, RealDom(), ufs=C11.lib_ufs(mod))
    st = ex.start('vx_dxlog', [a, b])
    st.pc += [b >= zr(Fr(1, 100)), b <= zr(Fr(10 ** 6)), a >= zr(Fr(1, 100)), a <= zr(Fr(10 ** 6))]
    paths = ex.explore(st)
    chk.absorb_executor(ex)
    for i, p in enumerate(paths):
        if p.outcome[0] != 'ret' or isinstance(p.retval, float):
            continue
        logs = [ex.leaves[j] for j in p.leaves if ex.leaves[j][0] == 'log']
        if len(logs) < 2:
            continue        # series branch
        mx = z3.If(a >= b, a, b)
        d = z3.If(a >= b, a - b, b - a)
        # look for a witness among heavy arguments first (that is where rounding of a^2 ln a matters), then anywhere
        rh, mh_ = 'unsat', None
        for lo_, dmax in ((5 * 10 ** 5, Fr(1, 10 ** 3)), (10 ** 5, Fr(1, 100)), (10 ** 4, Fr(1, 10))):
            rh, mh_ = chk.solve(list(p.pc) + [d < zr(Fr(1, 10 ** 5)) * mx, b >= zr(Fr(lo_)), a >= zr(Fr(lo_)), d > 0, d <= zr(dmax)], 20000)
            if rh == 'sat':
                break
        if rh == 'sat':
            r, m = 'sat', mh_
            chk.record('dxlog#%d:conditioning' % i, 'violated', 'closed form reachable for nearly equal heavy arguments', family=fam)
        else:
            r, m = chk.prove('dxlog#%d:conditioning' % i, list(p.pc) + [d < zr(Fr(1, 10 ** 5)) * mx], family=fam,
                             sample={'obligation': 'dxlog: the closed form is used only for |a-b| >= 1e-5 max(a,b) on [1e-2,1e6]^2 (bounded '
                                     'cancellation at heavy Higgs masses, x = m^2/mZ^2 up to 1e6)'})
        if r == 'sat':
            af, bf = float(m.real(a)), float(m.real(b))
            got = C11.native_eval('dxlog', [af, bf])
            mpmath.mp.dps = 60
            A, B = mpmath.mpf(af), mpmath.mpf(bf)
            ref = (A * A * mpmath.log(A) - B * B * mpmath.log(B)) / (A - B) if A != B else B * (1 + 2 * mpmath.log(B))
            err = abs(got - ref) / abs(ref)
            chk.traces_validated += 1
            # search the worst case in the neighbourhood of the witness (rounding noise varies from point to point)
            worst = (err, af, bf)
            for k in range(1, 60):
                bb = af + (bf - af) * (0.3 + 0.05 * k)
                if bb <= 0 or bb == af:
                    continue
                # stay on the same branch of the code: only points the closed form is used for are compared
                if abs(bb - af) >= 1e-5 * max(af, bb):
                    continue
                g2_ = C11.native_eval('dxlog', [af, bb])
                B2 = mpmath.mpf(bb)
                r2 = (A * A * mpmath.log(A) - B2 * B2 * mpmath.log(B2)) / (A - B2)
                e2 = abs(g2_ - r2) / abs(r2)
                chk.traces_validated += 1
                if e2 > worst[0]:
                    worst = (e2, af, bb)
            if worst[0] > 1e-11:
                chk.violation('dxlog:conditioning', 'C10:dxlog:cancellation',
                              'dxlog(%r, %r) uses the closed form for nearly equal heavy arguments: relative error %s (> 1e-11), which the '
                              'decoupling cancellations of the bosonic two-loop terms amplify' % (worst[1], worst[2], mpmath.nstr(worst[0], 3)),
                              '#!/bin/sh\ncd %s && exec python3-vt -m props.replay_c10 dxlog %r %r\n' % (VERIF, worst[1], worst[2]))
            else:
                chk.record('dxlog#%d:conditioning' % i, 'inconclusive', 'witness (%r,%r) evaluates accurately (%s)' % (af, bf, mpmath.nstr(err, 3)),
                           family=fam)
                chk.inconclusive.append('dxlog#%d:conditioning' % i)


def run(chk):
    chk.assumptions += [
        'SM limit stated on the parameter objects of the one-loop and fermionic two-loop functions: y_f^h = diag(m_f)/v (cos(beta-alpha)=0 in '
        'the Yukawa formulas proven in C09), mh = mhSM, and MW, MZ, alpha_em tied to v as proven in C08',
        'REAL domain, pi and pi^2 as symbols; loop functions are uninterpreted leaves (equal arguments give equal values)',
    ]
    chk.not_covered += ['rate of decoupling |a(M sqrt10)| <= 0.45 |a(M)| (needs bounds on the loop functions at large arguments; not encoded)',
                        'bosonic two-loop terms in the SM limit (they do not vanish at finite heavy masses)',
                        'running couplings on']
    one_loop(chk)
    two_loop_f(chk)
    conditioning(chk)
    # series branch of dxlog against the definition (the same obligation is part of C11)
    from . import C11b
    C11b.dxlog_series(chk)
    # the model-level functions hand the documented model quantities (incl. the user's SM Higgs mass) to the loop-level functions
    from . import glue
    glue.run(chk, 'C10')
    from . import C10d
    C10d.run(chk)
