"""Naming the lazily created fields of a symbolic model object through harness accessors."""
import z3
from .common import *
from symx.exec import Ptr


def probe(ex, st, model_ptr, spec):
    """spec: {name: (accessor function, [int args...])}; runs every accessor on the shared state `st`
    (materialising the fields it reads) and returns (state, {name: value})"""
    vals = {}
    for name, (fn, args) in spec.items():
        s2 = ex.start(fn, [model_ptr] + list(args), st)
        rr = ex.explore(s2)
        if len(rr) != 1 or rr[0].outcome[0] != 'ret':
            raise Unsupported('accessor %s%r did not return uniquely' % (fn, args))
        st = rr[0]
        vals[name] = st.retval
        st.outcome = None
        st.frames = []
        st.retval = None
    return st, vals


def cmul(a, b):
    return (a[0] * b[0] - a[1] * b[1], a[0] * b[1] + a[1] * b[0])


def cadd(a, b):
    return (a[0] + b[0], a[1] + b[1])


def cconj(a):
    return (a[0], -a[1])


def cscale(s, a):
    return (s * a[0], s * a[1])


def cabs2(a):
    return a[0] * a[0] + a[1] * a[1]


def ext_handler(dem, on_call=None):
    """undefined library functions called on a symbolic model:
       - returning double: uninterpreted function of (name, scalar args, pointer-argument identities)
       - returning a reference/pointer: the same sub-object on every call with the same arguments
       - void: no modelled effect"""
    def h(ex, st, name, args, I):
        d = dem.get(name, name)
        rt = ex.m.resolve(I['ty'])
        if on_call:
            on_call(st, d, args)
        key_args = tuple(('p', a.rid, a.off if not isinstance(a.off, z3.ExprRef) else str(a.off)) if isinstance(a, Ptr)
                         else None for a in args)
        base = d.split('(')[0].replace('gm2calc::', '')
        cname = name.replace('_ZNK', '_ZN')
        if isinstance(rt, llir.FloatT):
            if any(isinstance(x, float) and (x != x or x in (float('inf'), -float('inf'))) for x in args):
                return float('nan')
            scal = [zr(x) for x in args if not isinstance(x, Ptr)]
            kind = 'uf:%s%s' % (base, ''.join('#%d.%s' % (k[1], k[2]) for k in key_args if k))
            return ex.leaf(st, kind, scal)
        if isinstance(rt, llir.VoidT):
            return None
        if isinstance(rt, llir.PtrT):
            key = ('extptr', cname, key_args)
            hit = ex.leaf_memo.get(key)
            if hit is None:
                reg = ex.new_region(st, None, 'input', 'sub:' + base[-24:], lazy=True)
                hit = reg.rid
                ex.leaf_memo[key] = hit
            if hit not in st.mem:
                from symx.exec import Region
                st.mem[hit] = Region(hit, None, 'input', 'sub:' + base[-24:], lazy=True)
            return Ptr(hit, 0)
        return ex.fresh_of(st, rt, 'ext')
    return h
