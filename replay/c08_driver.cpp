// replay driver for C08: a THDM built from mass-basis input reports the input back
#include "gm2calc/THDM.hpp"
#include "gm2calc/gm2_error.hpp"
#include <cstdio>
#include <cstring>
#include <cmath>
#include <cstdlib>

using namespace gm2calc;
static double rnd(unsigned& s) { s = s*1664525u + 1013904223u; return ((s >> 8) & 0xffff)/65536.0; }
static int bad = 0;
static void cmp(const char* what, double got, double want, double tol, const thdm::Mass_basis& b)
{
   if (!(std::abs(got - want) <= tol)) {
      bad++;
      if (bad < 15) std::printf("%s: reported %.12g, input %.12g   [mh=%g mH=%g mA=%g mH+=%g sba=%g tb=%g l6=%g l7=%g m122=%g type=%d]\n", what, got, want,
                                b.mh, b.mH, b.mA, b.mHp, b.sin_beta_minus_alpha, b.tan_beta, b.lambda_6, b.lambda_7, b.m122, (int)b.yukawa_type);
   }
}

int main(int argc, char** argv)
{
   const bool angle_only = argc > 1 && !std::strcmp(argv[1], "angle");
   const bool single = argc > 10 && !std::strcmp(argv[1], "point");
   unsigned s = 2024;
   int built = 0;
   for (int it = 0; it < 300; it++) {
      thdm::Mass_basis b;
      b.yukawa_type = static_cast<thdm::Yukawa_type>(1 + it % 6);
      b.mh = 125; b.mH = 130 + 900*rnd(s); b.mA = 50 + 900*rnd(s); b.mHp = 100 + 900*rnd(s);
      if (it % 10 == 3) b.mHp = 84 + 14*rnd(s);   // charged Higgs closer to MZ than MW is
      b.sin_beta_minus_alpha = angle_only ? 2*rnd(s) - 1 : (it % 2 ? 2*rnd(s) - 1 : 1 - 0.01*rnd(s));
      b.tan_beta = std::exp(std::log(0.05) + rnd(s)*std::log(200/0.05));
      b.lambda_6 = it % 3 ? 0 : 6*rnd(s) - 3; b.lambda_7 = it % 3 ? 0 : 6*rnd(s) - 3;
      b.m122 = (2*rnd(s) - 0.5)*b.mH*b.mH*b.tan_beta/(1 + b.tan_beta*b.tan_beta);
      if (it == 0) {   // README example with sin(beta-alpha) = 0.3
         b = thdm::Mass_basis{}; b.yukawa_type = thdm::Yukawa_type::type_2; b.mh = 125; b.mH = 400; b.mA = 420; b.mHp = 440;
         b.sin_beta_minus_alpha = 0.3; b.tan_beta = 3; b.m122 = 40000;
      }
      if (single) {
         if (it > 0) break;
         b = thdm::Mass_basis{}; b.yukawa_type = thdm::Yukawa_type::type_2;
         b.mh = std::atof(argv[2]); b.mH = std::atof(argv[3]); b.mA = std::atof(argv[4]); b.mHp = std::atof(argv[5]);
         b.sin_beta_minus_alpha = std::atof(argv[6]); b.tan_beta = std::atof(argv[7]); b.lambda_6 = std::atof(argv[8]);
         b.lambda_7 = std::atof(argv[9]); b.m122 = std::atof(argv[10]);
      }
      thdm::Config cfg; cfg.force_output = true;   // tachyonic/unphysical points are reported, not rejected
      try {
         const THDM m(b, SM{}, cfg);
         if (m.get_problems().have_problem() && !single) continue;
         built++;
         const double scale = std::max(std::max(b.mH, b.mA), b.mHp);
         const double rel = 1e-9*scale*scale/(b.mh*b.mh);
         cmp("sin(beta-alpha)", m.get_sin_beta_minus_alpha(), b.sin_beta_minus_alpha, 1e-6 + rel, b);
         if (m.get_cos_beta_minus_alpha() < -1e-12) { bad++; std::printf("cos(beta-alpha) = %g < 0\n", m.get_cos_beta_minus_alpha()); }
         if (angle_only) continue;
         cmp("mh", m.get_Mhh(0), b.mh, rel*b.mh + 1e-7, b); cmp("mH", m.get_Mhh(1), b.mH, rel*b.mH + 1e-7, b);
         cmp("mA", m.get_MAh(1), b.mA, rel*b.mA + 1e-7, b); cmp("mH+", m.get_MHm(1), b.mHp, rel*b.mHp + 1e-7, b);
         cmp("tan(beta)", m.get_tan_beta(), b.tan_beta, 1e-12*b.tan_beta, b);
         cmp("lambda_6", m.get_lambda6(), b.lambda_6, 0, b); cmp("lambda_7", m.get_lambda7(), b.lambda_7, 0, b); cmp("m12^2", m.get_m122(), b.m122, 0, b);
         cmp("MAh(0) = MZ", m.get_MAh(0), m.get_MVZ(), 1e-6, b); cmp("MHm(0) = MW", m.get_MHm(0), m.get_MVWm(), 1e-6, b);
         cmp("MW", m.get_MVWm(), m.get_sm().get_mw(), 1e-9, b); cmp("MZ", m.get_MVZ(), m.get_sm().get_mz(), 1e-9, b);
         for (int i = 0; i < 3; i++) {
            cmp("m_l", m.get_MFe(i), m.get_sm().get_ml(i), 1e-9, b); cmp("m_u", m.get_MFu(i), m.get_sm().get_mu(i), 1e-7, b); cmp("m_d", m.get_MFd(i), m.get_sm().get_md(i), 1e-9, b);
         }
         // rebuild from the reported lambdas
         thdm::Gauge_basis g;
         g.yukawa_type = b.yukawa_type;
         g.lambda << m.get_lambda1(), m.get_lambda2(), m.get_lambda3(), m.get_lambda4(), m.get_lambda5(), m.get_lambda6(), m.get_lambda7();
         g.tan_beta = m.get_tan_beta(); g.m122 = m.get_m122();
         const THDM m2(g, SM{}, cfg);
         cmp("gauge basis: mh", m2.get_Mhh(0), m.get_Mhh(0), rel*b.mh + 1e-7, b); cmp("gauge basis: mH", m2.get_Mhh(1), m.get_Mhh(1), rel*b.mH + 1e-7, b);
         cmp("gauge basis: mA", m2.get_MAh(1), m.get_MAh(1), rel*b.mA + 1e-7, b); cmp("gauge basis: mH+", m2.get_MHm(1), m.get_MHm(1), rel*b.mHp + 1e-7, b);
      } catch (const Error& e) { }
   }
   std::printf("%d mismatches (%d models built)\n", bad, built);
   return bad ? 1 : 0;
}
