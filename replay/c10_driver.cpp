// replay driver for C10: SM limit of the one-loop and fermionic two-loop THDM functions at the parameter-object level
#include "THDM/gm2_1loop_helpers.hpp"
#include "THDM/gm2_2loop_helpers.hpp"
#include <cstdio>
#include <cmath>
#include <cstring>
#include "gm2calc/THDM.hpp"
#include "gm2calc/gm2_1loop.hpp"
#include "gm2calc/gm2_2loop.hpp"
using namespace gm2calc::thdm;

int main(int argc, char** argv)
{
   const double pi = 3.14159265358979323846;
   const double g2 = 0.652, gY = 0.357, v = 246.22;
   const double mw = g2*v/2, mz = std::sqrt(g2*g2 + gY*gY)*v/2, alpha = gY*gY*g2*g2/((gY*gY + g2*g2)*4*pi);
   const double ml[3] = {0.000511, 0.1056583745, 1.77686}, mu[3] = {0.0022, 1.28, 173.34}, md[3] = {0.0047, 0.096, 4.18};
   int bad = 0;
   double ref1 = 0, ref2 = 0;
   for (int k = 0; k < 6; k++) {
      const double mh = 60 + 40*k;       // common value of the light and the SM Higgs mass
      THDM_1L_parameters p;
      p.alpha_em = alpha; p.mm = ml[1]; p.mw = mw; p.mz = mz; p.mhSM = mh; p.mA = 500; p.mHp = 520; p.mh << mh, 480;
      p.ml << ml[0], ml[1], ml[2];
      THDM_F_parameters f;
      f.alpha_em = alpha; f.mm = ml[1]; f.mw = mw; f.mz = mz; f.mhSM = mh; f.mA = 500; f.mHp = 520; f.mh << mh, 480;
      f.ml << ml[0], ml[1], ml[2]; f.mu << mu[0], mu[1], mu[2]; f.md << md[0], md[1], md[2];
      for (int i = 0; i < 3; i++) {
         p.ylh(i,i) = ml[i]/v; f.ylh(i,i) = ml[i]/v; f.yuh(i,i) = mu[i]/v; f.ydh(i,i) = md[i]/v;
         // heavy states: type II like couplings with tan(beta) = 5
         p.ylH(i,i) = -5*ml[i]/v; p.ylA(i,i) = -5*ml[i]/v/std::sqrt(2.0)*std::sqrt(2.0); p.ylHp(i,i) = -5*std::sqrt(2.0)*ml[i]/v;
         f.ylH(i,i) = -5*ml[i]/v; f.ylA(i,i) = 5*ml[i]/v; f.yuH(i,i) = 0.2*mu[i]/v; f.yuA(i,i) = 0.2*mu[i]/v; f.ydH(i,i) = -5*md[i]/v; f.ydA(i,i) = 5*md[i]/v;
      }
      const double a1 = amu1L(p), a2 = amu2L_F_neutral(f);
      if (k == 0) { ref1 = a1; ref2 = a2; }
      if (std::abs(a1 - ref1) > 1e-9*std::abs(ref1) + 1e-25) { bad++; std::printf("amu1L depends on the common Higgs mass: %.12e (mh=%g) vs %.12e\n", a1, mh, ref1); }
      if (std::abs(a2 - ref2) > 1e-9*std::abs(ref2) + 1e-25) { bad++; std::printf("amu2L_F_neutral depends on the common Higgs mass: %.12e (mh=%g) vs %.12e\n", a2, mh, ref2); }
   }
   // glue: the model-level functions against the loop-level functions fed with the model's getters (SM Higgs mass != default)
   {
      gm2calc::thdm::Mass_basis b;
      b.yukawa_type = gm2calc::thdm::Yukawa_type::type_2; b.mh = 110; b.mH = 400; b.mA = 420; b.mHp = 440; b.sin_beta_minus_alpha = 0.999;
      b.tan_beta = 3; b.m122 = 40000;
      gm2calc::SM sm; sm.set_mh(110);
      gm2calc::thdm::Config cfg; cfg.running_couplings = false;
      const gm2calc::THDM m(b, sm, cfg);
      THDM_F_parameters f;
      f.alpha_em = m.get_alpha_em(); f.mm = m.get_MFe(1); f.mw = m.get_MVWm(); f.mz = m.get_MVZ(); f.mhSM = m.get_sm().get_mh();
      f.mA = m.get_MAh(1); f.mHp = m.get_MHm(1); f.mh = m.get_Mhh(); f.ml = m.get_MFe(); f.mu = m.get_MFu(); f.md = m.get_MFd();
      f.yuh = m.get_yuh(); f.yuH = m.get_yuH(); f.yuA = m.get_yuA(); f.yuHp = m.get_yuHp(); f.ydh = m.get_ydh(); f.ydH = m.get_ydH();
      f.ydA = m.get_ydA(); f.ydHp = m.get_ydHp(); f.ylh = m.get_ylh(); f.ylH = m.get_ylH(); f.ylA = m.get_ylA(); f.ylHp = m.get_ylHp();
      f.vckm = m.get_sm().get_ckm();
      const double want = amu2L_F(f), got = gm2calc::calculate_amu_2loop_fermionic(m);
      if (std::abs(want - got) > 1e-12*std::abs(want)) { bad++; std::printf("calculate_amu_2loop_fermionic = %.12e, loop-level function with the model's quantities = %.12e\n", got, want); }
   }
   std::printf("%d mismatches\n", bad);
   return bad ? 1 : 0;
}
