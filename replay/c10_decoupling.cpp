// replay driver for C10: decoupling rate of the bosonic two-loop components at the parameter-object level.
// Gauge-basis points with |lambda_i| <= 2; the common heavy scale M is set through m12^2 = M^2 sin(beta) cos(beta).
// Property: |a(M sqrt10)| <= 0.45 |a(M)| for M >= 1 TeV.  The components are evaluated with the parameter struct
// filled exactly like calculate_amu_2loop_bosonic does.
#include "THDM/gm2_2loop_helpers.hpp"
#include "gm2calc/THDM.hpp"
#include <cstdio>
#include <cmath>
#include <cstdlib>
#include <exception>
using namespace gm2calc;

static thdm::THDM_B_parameters pars(const THDM& model)
{
   thdm::THDM_B_parameters p;
   p.alpha_em = model.get_alpha_em(); p.mm = model.get_MFe(1); p.mw = model.get_MVWm(); p.mz = model.get_MVZ();
   p.mhSM = model.get_sm().get_mh(); p.mA = model.get_MAh(1); p.mHp = model.get_MHm(1); p.mh = model.get_Mhh();
   p.tb = model.get_tan_beta(); p.zetal = model.get_zeta_l(); p.cos_beta_minus_alpha = model.get_cos_beta_minus_alpha();
   p.lambda5 = model.get_LambdaFive(); p.lambda67 = model.get_LambdaSixSeven();
   return p;
}

int main()
{
   struct Pt { thdm::Yukawa_type t; double tb; double l[5]; };
   const Pt pts[5] = {
      {thdm::Yukawa_type::type_X, 20.0, {0.7, 0.6, 0.5, -0.4, 0.3}},
      {thdm::Yukawa_type::type_2, 5.0, {1.2, 0.3, 1.5, -1.0, 0.5}},
      {thdm::Yukawa_type::type_1, 0.5, {0.4, 1.8, -0.5, 0.9, -0.7}},
      {thdm::Yukawa_type::type_Y, 2.0, {2.0, 0.26, 0.1, 0.2, -0.2}},
      {thdm::Yukawa_type::type_X, 10.0, {0.5, 0.5, 1.0, 1.0, 1.0}}};
   int bad = 0, n = 0;
   for (const Pt& q : pts) {
      double prev[2] = {0, 0};
      for (int k = 0; k < 4; k++) {
         const double M = 1000*std::pow(10.0, 0.5*k);
         thdm::Gauge_basis b;
         b.yukawa_type = q.t; b.tan_beta = q.tb;
         for (int i = 0; i < 5; i++) b.lambda(i) = q.l[i];
         const double beta = std::atan(q.tb);
         b.m122 = M*M*std::sin(beta)*std::cos(beta);
         thdm::Config cfg; cfg.running_couplings = false;
         SM sm;
         try {
            THDM model(b, sm, cfg);
            thdm::THDM_B_parameters p = pars(model);
            p.mhSM = p.mh(0);      // SM Higgs mass = light Higgs mass: what remains is the new-physics part
            const double a[2] = {thdm::amu2L_B(p), thdm::amu2L_B_Yuk(p)};
            const char* nm[2] = {"amu2L_B (bosonic two-loop)", "amu2L_B_Yuk"};
            for (int c = 0; c < 1; c++) {
               if (getenv("C10_VERBOSE")) std::printf("type %d tb %g M %.0f: B %.4e Yuk %.4e\n", (int)q.t, q.tb, M, a[0], a[1]);
               if (k > 0 && std::abs(prev[c]) > 1e-22) {
                  n++;
                  const double r = std::abs(a[c]/prev[c]);
                  // below 1e-15 the -mH^2/v^2 + Lambda_5/2 cancellation is at rounding level (1e-16 absolute at M >= 10 TeV): no ratio is formed there
                  if (!(r <= 0.45) && std::abs(a[c]) > 1e-15) { bad++; std::printf("%s: |a(M=%.0f)/a(M=%.0f)| = %.3f > 0.45 (type %d, tan(beta) = %g)\n", nm[c], M, M/std::sqrt(10.0), r, (int)q.t, q.tb); }
               }
               prev[c] = a[c];
            }
         } catch (const std::exception& e) {
            std::printf("point rejected: %s\n", e.what());
         }
      }
   }
   std::printf("%d ratios checked, %d above 0.45\n", n, bad);
   return bad ? 1 : 0;
}
