// replay driver for C03: native one-loop functions against an independent evaluation at concrete points
#include "gm2calc/MSSMNoFV_onshell.hpp"
#include "gm2calc/gm2_1loop.hpp"
#include "gm2_ffunctions.hpp"
#include "THDM/gm2_1loop_helpers.hpp"
#include <complex>
#include <cstdio>
#include <cstring>
#include <cmath>

using namespace gm2calc;
typedef std::complex<double> C;

static double rnd(unsigned& s) { s = s*1664525u + 1013904223u; return ((s >> 8) & 0xffff)/65536.0; }

static int run_thdm()
{
   int bad = 0;
   unsigned s = 12345;
   for (int it = 0; it < 20; it++) {
      thdm::THDM_1L_parameters p;
      p.alpha_em = 1/137.0; p.mm = 0.1056583745; p.mw = 80.379; p.mz = 91.1876; p.mhSM = 125.09;
      p.mA = 100 + 400*rnd(s); p.mHp = 100 + 400*rnd(s); p.mh << 125.0, 150 + 400*rnd(s);
      p.ml << 0.000511, 0.1056583745*(it % 2 ? 1.0 : 1.1), 1.777; p.mv << 0.01*rnd(s), 0.01*rnd(s), 0.01*rnd(s);
      Eigen::Matrix<C,3,3>* ys[4] = {&p.ylh, &p.ylH, &p.ylA, &p.ylHp};
      for (auto y: ys) for (int i = 0; i < 3; i++) for (int j = 0; j < 3; j++) (*y)(i,j) = C(rnd(s) - 0.5, rnd(s) - 0.5);
      const double got = thdm::amu1L(p);
      // flavour-summed formula
      long double res = 0;
      const double m2[3] = {p.mh(0)*p.mh(0), p.mh(1)*p.mh(1), p.mA*p.mA};
      for (int g = 0; g < 3; g++) {
         for (int k = 0; k < 3; k++) {
            const auto& y = *ys[k];
            const double x = p.ml(g)*p.ml(g)/m2[k];
            const double sign = k == 2 ? -1 : 1;
            res += ((std::norm(y(g,1)) + std::norm(y(1,g)))*F1C(x)/24
                    + sign*std::real(std::conj(y(g,1))*std::conj(y(1,g)))*p.ml(g)/p.ml(1)*F2C(x)/3)/m2[k];
         }
         const double mp2 = p.mHp*p.mHp;
         res += -std::norm(p.ylHp(g,1))/48*(F1N(p.mv(1)*p.mv(1)/mp2) + F1N(p.mv(g)*p.mv(g)/mp2))/mp2;
      }
      const double pi = 3.14159265358979323846;
      const double sw2 = 1 - p.mw*p.mw/(p.mz*p.mz);
      const double ysm2 = p.mm*p.mm*(4*pi*p.alpha_em/sw2)/(4*p.mw*p.mw);
      const double xs = p.ml(1)*p.ml(1)/(p.mhSM*p.mhSM);
      res -= ysm2*(F1C(xs)/12 + F2C(xs)/3)/(p.mhSM*p.mhSM);
      const double ref = p.mm*p.mm*res/(8*pi*pi);
      const double err = std::abs(got - ref)/std::abs(ref);
      if (err > 1e-10) { bad++; std::printf("THDM amu1L = %.17g, formula = %.17g (rel. diff %.3g)\n", got, ref, err); }
   }
   std::printf("THDM: %d of 20 points differ\n", bad);
   return bad;
}

static int run_mssm()
{
   int bad = 0;
   unsigned s = 777;
   for (int it = 0; it < 10; it++) {
      MSSMNoFV_onshell m;
      const double MS = 300 + 700*rnd(s);
      Eigen::Matrix<double,3,3> UnitMatrix = Eigen::Matrix<double,3,3>::Identity();
      m.set_alpha_MZ(0.0077552); m.set_alpha_thompson(0.00729735); m.set_g3(std::sqrt(4*M_PI*0.1184));
      m.get_physical().MFt = 173.34; m.get_physical().MFb = 4.18; m.get_physical().MFtau = 1.777; m.get_physical().MFm = 0.1056583715;
      m.get_physical().MVWm = 80.385; m.get_physical().MVZ = 91.1876; m.set_MA0(1500);
      m.set_TB(5 + 40*rnd(s)); m.set_Mu(MS*(0.5 + rnd(s))); m.set_MassB(MS*(0.3 + rnd(s))); m.set_MassWB(MS*(0.5 + rnd(s)));
      m.set_MassG(2000); m.set_mq2(MS*MS*UnitMatrix); m.set_ml2(MS*MS*(0.5 + rnd(s))*UnitMatrix); m.set_md2(MS*MS*UnitMatrix);
      m.set_mu2(MS*MS*UnitMatrix); m.set_me2(MS*MS*(0.5 + rnd(s))*UnitMatrix); m.set_Au(2,2,0); m.set_Ad(2,2,0); m.set_Ae(2,2,0);
      m.set_scale(454.7);
      try { m.calculate_masses(); } catch (const std::exception& e) { std::printf("point %d: %s\n", it, e.what()); continue; }
      m.get_physical().MSvmL *= 1.1;   // the formula uses the DR-bar/on-shell model mass, not a separately stored pole mass
      const double mm = m.get_MM(), g1 = m.get_gY(), g2 = m.get_g2(), y = m.get_Ye(1,1);
      const auto ZN = m.get_ZN(); const auto UM = m.get_UM(); const auto UP = m.get_UP(); const auto US = m.get_USm();
      long double chi0 = 0, cha = 0;
      for (int i = 0; i < 4; i++) for (int k = 0; k < 2; k++) {
         const C nL = 1/std::sqrt(2.0)*(g1*std::conj(ZN(i,0)) + g2*std::conj(ZN(i,1)))*US(k,0) - y*std::conj(ZN(i,2))*US(k,1);
         const C nR = -(std::sqrt(2.0)*g1*ZN(i,0)*US(k,1) + y*ZN(i,2)*US(k,0));
         const double A = std::norm(nL) + std::norm(nR), B = 2*std::real(std::conj(nL)*nR);
         const double ms2 = m.get_MSm()(k)*m.get_MSm()(k), mc = m.get_MChi()(i), x = mc*mc/ms2;
         chi0 += -A*F1N(x)/(12*ms2) - mc*B*F2N(x)/(6*mm*ms2);
      }
      for (int k = 0; k < 2; k++) {
         const C cL = -g2*std::conj(UP(k,0)), cR = y*UM(k,1);
         const double A = std::norm(cL) + std::norm(cR), B = 2*std::real(std::conj(cL)*cR);
         const double msv2 = m.get_MSvmL()*m.get_MSvmL(), mc = m.get_MCha()(k), x = mc*mc/msv2;
         cha += (A*F1C(x)/12 + mc*B*F2C(x)/(3*mm))/msv2;
      }
      const double pref = mm*mm/(16*M_PI*M_PI);
      const double r0 = pref*chi0, r1 = pref*cha;
      const double g0 = amu1LChi0(m), g1_ = amu1LChipm(m), gs = calculate_amu_1loop(m);
      const double e0 = std::abs(g0 - r0)/std::abs(r0), e1 = std::abs(g1_ - r1)/std::abs(r1), e2 = std::abs(gs - (r0 + r1))/std::abs(r0 + r1);
      if (e0 > 1e-9 || e1 > 1e-9 || e2 > 1e-9) {
         bad++;
         std::printf("MSSM point %d: chi0 %.16g vs %.16g, chipm %.16g vs %.16g, sum %.16g vs %.16g\n", it, g0, r0, g1_, r1, gs, r0 + r1);
      }
   }
   std::printf("MSSM: %d of 10 points differ\n", bad);
   return bad;
}

int main(int argc, char** argv)
{
   int bad = 0;
   if (argc < 2 || !std::strcmp(argv[1], "thdm")) bad += run_thdm();
   if (argc < 2 || !std::strcmp(argv[1], "mssm")) bad += run_mssm();
   return bad ? 1 : 0;
}
