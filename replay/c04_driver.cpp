// replay driver for C04: tree-level spectrum of random parameter points against independent expressions
#include "gm2calc/MSSMNoFV_onshell_mass_eigenstates.hpp"
#include <Eigen/Eigenvalues>
#include <cstdio>
#include <cmath>
#include <string>

using namespace gm2calc;
typedef MSSMNoFV_onshell_mass_eigenstates M;
static double rnd(unsigned& s) { s = s*1664525u + 1013904223u; return ((s >> 8) & 0xffff)/65536.0; }
static double sq(double x) { return x*x; }

static void D(double& LL, double& RR, double T3, double Y, double Yc, double g1, double g2, double vd, double vu)
{
   const double gp2 = 0.6*g1*g1, dv = (vd*vd - vu*vu)/4;
   LL = (T3*g2*g2 - Y/2*gp2)*dv;
   RR = (-Yc/2*gp2)*dv;
}

static int fails = 0;
static void cmp(const char* what, double a, double b, double scale)
{
   if (!(std::abs(a - b) <= 1e-9*std::max(scale, 1e-300))) { fails++; if (fails < 20) std::printf("%s: code %.15g, independent %.15g\n", what, a, b); }
}

int main()
{
   unsigned s = 4242;
   for (int it = 0; it < 200; it++) {
      M m;
      const double tb = 0.5 + 60*rnd(s), v = 246.0, vd = v/std::sqrt(1 + tb*tb), vu = vd*tb;
      const double g1 = 0.46, g2 = 0.65, MS = 300 + 2000*rnd(s);
      m.set_g1(g1); m.set_g2(g2); m.set_g3(1.1); m.set_vd(vd); m.set_vu(vu);
      const double Mu = MS*(2*rnd(s) - 1), BMu = it % 5 == 1 ? 2000*rnd(s)/(tb + 1/tb) : sq(MS)*rnd(s)*(it % 7 == 0 ? -1 : 1);   // every fifth point: mA < MZ
      m.set_Mu(Mu); m.set_BMu(BMu); m.set_MassB(MS*(2*rnd(s) - 1)); m.set_MassWB(MS*(2*rnd(s) - 1)); m.set_MassG(MS);
      Eigen::Matrix<double,3,3> Z = Eigen::Matrix<double,3,3>::Zero();
      auto dg = [&](double a, double b) { Eigen::Matrix<double,3,3> x = Z; for (int i = 0; i < 3; i++) x(i,i) = a + (b - a)*rnd(s); return x; };
      // soft masses squared of either sign (tachyonic points included)
      const double lo = (it % 3 == 0 && it % 11 != 2) ? -0.3*sq(MS) : 0.1*sq(MS);
      m.set_mq2(dg(lo, sq(MS))); m.set_ml2(dg(lo, sq(MS))); m.set_md2(dg(lo, sq(MS))); m.set_mu2(dg(lo, sq(MS))); m.set_me2(dg(lo, sq(MS)));
      if (it % 11 == 2) { m.set_mq2(2,2, 0.02*sq(MS)); m.set_mu2(2,2, -0.5*sq(MS)); }   // |w0| < |w1|, w1 < 0
      m.set_Yd(dg(0, 0.5)); m.set_Yu(dg(0, 1)); m.set_Ye(dg(0, 0.3));
      m.set_TYd(dg(-MS, MS)); m.set_TYu(dg(-MS, MS)); m.set_TYe(dg(-MS, MS));
      // sfermion matrices from quantum numbers
      struct S { Eigen::Matrix<double,2,2> mm; double mL, mR, y, T, T3, Y, Yc; bool up; const char* nm; };
      S sf[9] = {
         {m.get_mass_matrix_Sd(), m.get_mq2(0,0), m.get_md2(0,0), m.get_Yd(0,0), m.get_TYd(0,0), -0.5, 1./3, 2./3, false, "Sd"},
         {m.get_mass_matrix_Ss(), m.get_mq2(1,1), m.get_md2(1,1), m.get_Yd(1,1), m.get_TYd(1,1), -0.5, 1./3, 2./3, false, "Ss"},
         {m.get_mass_matrix_Sb(), m.get_mq2(2,2), m.get_md2(2,2), m.get_Yd(2,2), m.get_TYd(2,2), -0.5, 1./3, 2./3, false, "Sb"},
         {m.get_mass_matrix_Su(), m.get_mq2(0,0), m.get_mu2(0,0), m.get_Yu(0,0), m.get_TYu(0,0), 0.5, 1./3, -4./3, true, "Su"},
         {m.get_mass_matrix_Sc(), m.get_mq2(1,1), m.get_mu2(1,1), m.get_Yu(1,1), m.get_TYu(1,1), 0.5, 1./3, -4./3, true, "Sc"},
         {m.get_mass_matrix_St(), m.get_mq2(2,2), m.get_mu2(2,2), m.get_Yu(2,2), m.get_TYu(2,2), 0.5, 1./3, -4./3, true, "St"},
         {m.get_mass_matrix_Se(), m.get_ml2(0,0), m.get_me2(0,0), m.get_Ye(0,0), m.get_TYe(0,0), -0.5, -1, 2, false, "Se"},
         {m.get_mass_matrix_Sm(), m.get_ml2(1,1), m.get_me2(1,1), m.get_Ye(1,1), m.get_TYe(1,1), -0.5, -1, 2, false, "Sm"},
         {m.get_mass_matrix_Stau(), m.get_ml2(2,2), m.get_me2(2,2), m.get_Ye(2,2), m.get_TYe(2,2), -0.5, -1, 2, false, "Stau"}};
      for (auto& f: sf) {
         double dl, dr; D(dl, dr, f.T3, f.Y, f.Yc, g1, g2, vd, vu);
         const double vf = f.up ? vu : vd, vo = f.up ? vd : vu;
         const double sc = sq(MS);
         cmp((std::string(f.nm) + "(0,0)").c_str(), f.mm(0,0), f.mL + sq(f.y*vf)/2 + dl, sc);
         cmp((std::string(f.nm) + "(1,1)").c_str(), f.mm(1,1), f.mR + sq(f.y*vf)/2 + dr, sc);
         cmp((std::string(f.nm) + "(0,1)").c_str(), f.mm(0,1), (vf*f.T - vo*f.y*Mu)/std::sqrt(2.0), sc);
         cmp((std::string(f.nm) + "(1,0)").c_str(), f.mm(1,0), f.mm(0,1), sc);
      }
      // spectrum
      m.calculate_DRbar_masses();
      const double MZ2 = (0.6*g1*g1 + g2*g2)*v*v/4, MW2 = g2*g2*v*v/4;
      cmp("MVZ", sq(m.get_MVZ()), MZ2, MZ2); cmp("MVWm", sq(m.get_MVWm()), MW2, MW2);
      // tachyon flags of the monitored sectors against an independent eigenvalue computation
      bool neg = false;
      auto mineig = [](const Eigen::Matrix<double,2,2>& a) { Eigen::SelfAdjointEigenSolver<Eigen::Matrix<double,2,2>> es(a); return es.eigenvalues()(0); };
      M m2 = m;   // matrices of the Higgs sector need the EWSB-eliminated soft masses: take them from the tadpoles
      const double mHd2 = (BMu*vu - vd*Mu*Mu - (0.6*g1*g1 + g2*g2)/8*vd*(vd*vd - vu*vu))/vd;
      const double mHu2 = (BMu*vd - vu*Mu*Mu + (0.6*g1*g1 + g2*g2)/8*vu*(vd*vd - vu*vu))/vu;
      m2.set_mHd2(mHd2); m2.set_mHu2(mHu2);
      cmp("tadpole 1", m2.get_ewsb_eq_hh_1(), 0, sq(MS)*v); cmp("tadpole 2", m2.get_ewsb_eq_hh_2(), 0, sq(MS)*v);
      const double e[8] = {mineig(m.get_mass_matrix_Sm()), mineig(m.get_mass_matrix_Stau()), mineig(m.get_mass_matrix_Sb()),
                           mineig(m.get_mass_matrix_St()), mineig(m2.get_mass_matrix_hh()), mineig(m2.get_mass_matrix_Ah()),
                           mineig(m2.get_mass_matrix_Hpm()), m.get_mass_matrix_SvmL()};
      for (double x: e) if (x < -1e-6*sq(MS)) neg = true;
      bool marginal = false;
      for (double x: e) if (std::abs(x) <= 1e-6*sq(MS)) marginal = true;
      if (!marginal && neg != m.get_problems().have_tachyon()) {
         fails++; std::printf("point %d: tachyon flag %d but independent eigenvalues say %d (%s)\n", it, (int)m.get_problems().have_tachyon(), (int)neg, m.get_problems().get_problems().c_str());
      }
      // Goldstones at index 0 and mixing rows consistent: Z M Z^T = diag(m^2) (sign from the eigenvalue)
      cmp("MAh(0)", m.get_MAh()(0), m.get_MVZ(), m.get_MVZ()); cmp("MHpm(0)", m.get_MHpm()(0), m.get_MVWm(), m.get_MVWm());
      {
         const Eigen::Matrix<double,2,2> d = m.get_ZA()*m2.get_mass_matrix_Ah()*m.get_ZA().transpose();
         cmp("ZA M ZA^T (0,0)", std::abs(d(0,0)), sq(m.get_MAh()(0)), sq(MS)); cmp("ZA M ZA^T (1,1)", std::abs(d(1,1)), sq(m.get_MAh()(1)), sq(MS));
         cmp("ZA M ZA^T (0,1)", d(0,1), 0, sq(MS));
         const Eigen::Matrix<double,2,2> p = m.get_ZP()*m2.get_mass_matrix_Hpm()*m.get_ZP().transpose();
         cmp("ZP M ZP^T (0,0)", std::abs(p(0,0)), sq(m.get_MHpm()(0)), sq(MS)); cmp("ZP M ZP^T (1,1)", std::abs(p(1,1)), sq(m.get_MHpm()(1)), sq(MS));
      }
      // sum rules (non-tachyonic Higgs sector)
      if (e[4] > 0 && e[5] > 0 && e[6] > 0) {
         const double mA2 = sq(m.get_MAh()(1));
         cmp("mH+^2 = mA^2 + mW^2", sq(m.get_MHpm()(1)), mA2 + MW2, mA2 + MW2);
         cmp("mh^2 + mH^2 = mA^2 + mZ^2", sq(m.get_Mhh()(0)) + sq(m.get_Mhh()(1)), mA2 + MZ2, mA2 + MZ2);
      }
      // soft Higgs masses restored
      cmp("mHd2 restored", m.get_mHd2(), 0, 1); cmp("mHu2 restored", m.get_mHu2(), 0, 1);
   }
   std::printf("%d mismatches in 200 random points\n", fails);
   return fails ? 1 : 0;
}
