// replay driver for C06/C07: metamorphic relations of the MSSM contributions at concrete points
//   mode flip : joint sign flip of mu, M1, M2, M3, A_f leaves every contribution unchanged
//   mode scale: scaling all SUSY mass parameters by k: a1L(2k)/a1L(k) -> 1/4, a2L ratio in [0.2,0.35]
#include "gm2calc/MSSMNoFV_onshell.hpp"
#include "gm2calc/gm2_1loop.hpp"
#include "gm2calc/gm2_2loop.hpp"
#include "gm2calc/gm2_uncertainty.hpp"
#include "gm2calc/gm2_error.hpp"
#include "MSSMNoFV/gm2_1loop_helpers.hpp"
#include "MSSMNoFV/gm2_2loop_helpers.hpp"
#include <cstdio>
#include <cstring>
#include <cmath>
#include <vector>
#include <string>

using namespace gm2calc;
static double rnd(unsigned& s) { s = s*1664525u + 1013904223u; return ((s >> 8) & 0xffff)/65536.0; }

struct Pt { double tb, mu, m1, m2, m3, ml2[3], me2[3], mq2[3], mu2[3], md2[3], a[3], ma, q; };

static bool build(MSSMNoFV_onshell& m, const Pt& p, double sign, double k, double ksm = 1)
{
   m.set_alpha_MZ(0.0077552); m.set_alpha_thompson(0.00729735); m.set_g3(std::sqrt(4*M_PI*0.1184));
   m.get_physical().MFt = ksm*173.34; m.get_physical().MFb = ksm*4.18; m.get_physical().MFtau = ksm*1.777; m.get_physical().MFm = ksm*0.1056583715;
   m.get_physical().MVWm = ksm*80.385; m.get_physical().MVZ = ksm*91.1876;
   m.set_TB(p.tb); m.set_Mu(sign*k*p.mu); m.set_MassB(sign*k*p.m1); m.set_MassWB(sign*k*p.m2); m.set_MassG(sign*k*p.m3);
   Eigen::Matrix<double,3,3> z = Eigen::Matrix<double,3,3>::Zero(), x;
   x = z; for (int i = 0; i < 3; i++) x(i,i) = k*k*p.ml2[i]; m.set_ml2(x);
   x = z; for (int i = 0; i < 3; i++) x(i,i) = k*k*p.me2[i]; m.set_me2(x);
   x = z; for (int i = 0; i < 3; i++) x(i,i) = k*k*p.mq2[i]; m.set_mq2(x);
   x = z; for (int i = 0; i < 3; i++) x(i,i) = k*k*p.mu2[i]; m.set_mu2(x);
   x = z; for (int i = 0; i < 3; i++) x(i,i) = k*k*p.md2[i]; m.set_md2(x);
   m.set_Au(2,2, sign*k*p.a[0]); m.set_Ad(2,2, sign*k*p.a[1]); m.set_Ae(2,2, sign*k*p.a[2]); m.set_Ae(1,1, sign*k*p.a[2]*0.3);
   m.set_MA0(k*p.ma); m.set_scale(k*p.q);
   try { m.calculate_masses(); } catch (const Error&) { return false; }
   return !m.get_problems().have_problem();
}

static std::vector<std::pair<std::string,double>> all(const MSSMNoFV_onshell& m)
{
   return {{"calculate_amu_1loop", calculate_amu_1loop(m)}, {"calculate_amu_1loop_non_tan_beta_resummed", calculate_amu_1loop_non_tan_beta_resummed(m)},
           {"calculate_amu_2loop", calculate_amu_2loop(m)}, {"calculate_amu_2loop_non_tan_beta_resummed", calculate_amu_2loop_non_tan_beta_resummed(m)},
           {"amu1LChi0", amu1LChi0(m)}, {"amu1LChipm", amu1LChipm(m)}, {"amu1Lapprox", amu1Lapprox(m)}, {"tan_beta_cor", tan_beta_cor(m)},
           {"delta_mu_correction", delta_mu_correction(m)}, {"delta_tau_correction", delta_tau_correction(m)},
           {"delta_bottom_correction", delta_bottom_correction(m)}, {"amu2LFSfapprox", amu2LFSfapprox(m)},
           {"amu2LChipmPhotonic", amu2LChipmPhotonic(m)}, {"amu2LChi0Photonic", amu2LChi0Photonic(m)}, {"amu2LaSferm", amu2LaSferm(m)},
           {"amu2LaCha", amu2LaCha(m)}, {"log_scale", log_scale(m)}, {"delta_g1", delta_g1(m)}, {"delta_g2", delta_g2(m)},
           {"delta_yuk_higgsino", delta_yuk_higgsino(m)}, {"delta_tan_beta", delta_tan_beta(m)},
           {"calculate_uncertainty_amu_2loop", calculate_uncertainty_amu_2loop(m)}, {"MSm(0)", m.get_MSm()(0)}, {"MChi(0)", m.get_MChi()(0)},
           {"MCha(1)", m.get_MCha()(1)}, {"MStau(0)", m.get_MStau()(0)}, {"MSt(1)", m.get_MSt()(1)}};
}

int main(int argc, char** argv)
{
   const bool scale = argc > 1 && !std::strcmp(argv[1], "scale");
   unsigned s = 31337;
   int bad = 0, used = 0;
   for (int it = 0; it < 150; it++) {
      Pt p;
      const double MS = 300 + 1200*rnd(s);
      p.tb = 1.5 + 78*rnd(s);
      auto sg = [&]() { return rnd(s) < 0.5 ? -1.0 : 1.0; };
      p.mu = sg()*MS*(0.4 + rnd(s)); p.m1 = sg()*MS*(0.3 + rnd(s)); p.m2 = sg()*MS*(0.4 + rnd(s)); p.m3 = sg()*MS*(1 + rnd(s));
      for (int i = 0; i < 3; i++) { p.ml2[i] = MS*MS*(0.3 + rnd(s)); p.me2[i] = MS*MS*(0.3 + rnd(s)); p.mq2[i] = MS*MS*(1 + rnd(s)); p.mu2[i] = MS*MS*(1 + rnd(s)); p.md2[i] = MS*MS*(1 + rnd(s)); }
      for (int i = 0; i < 3; i++) p.a[i] = sg()*MS*rnd(s);
      p.ma = MS*(0.5 + rnd(s)); p.q = MS;
      if (!scale) {
         MSSMNoFV_onshell a, b;
         if (!build(a, p, 1, 1) || !build(b, p, -1, 1)) continue;
         used++;
         const auto ra = all(a), rb = all(b);
         for (size_t i = 0; i < ra.size(); i++) {
            const double x = ra[i].second, y = rb[i].second;
            if (!(std::abs(x - y) <= 1e-9*std::max(std::abs(x), std::abs(y)) + 1e-300)) {
               bad++;
               if (bad < 12) std::printf("%s: %.12e at the point, %.12e at the sign-flipped point (tb=%g mu=%g M1=%g M2=%g M3=%g)\n", ra[i].first.c_str(), x, y, p.tb, p.mu, p.m1, p.m2, p.m3);
            }
         }
      } else {
         // dimensional analysis: all dimensionful inputs (SUSY and SM) scaled by k: every contribution is dimensionless
         MSSMNoFV_onshell a, b;
         const double k = 1.5 + 6*rnd(s);
         if (!build(a, p, 1, 1, 1) || !build(b, p, 1, k, k)) continue;
         used++;
         const auto ra = all(a), rb = all(b);
         for (size_t i = 0; i < ra.size(); i++) {
            const bool mass = ra[i].first[0] == 'M' || ra[i].first == "log_scale";
            const double x = ra[i].second*(mass ? k : 1), y = rb[i].second;
            if (!(std::abs(x - y) <= 1e-8*std::max(std::abs(x), std::abs(y)) + 1e-300)) {
               bad++;
               if (bad < 12) std::printf("%s: %.12e expected from dimensional analysis, %.12e with all masses scaled by %g\n", ra[i].first.c_str(), x, y, k);
            }
         }
      }
   }
   std::printf("%d mismatches (%d points, mode %s)\n", bad, used, scale ? "scale" : "flip");
   return bad ? 1 : 0;
}
