// replay driver for C05: on-shell points -> pole spectrum -> convert_to_onshell from perturbed guesses;
// either a non-convergence warning is reported or the defining pole masses are reproduced
#include "gm2calc/MSSMNoFV_onshell.hpp"
#include "gm2calc/gm2_error.hpp"
#include <algorithm>
#include <cmath>
#include <cstdio>
#include <string>

using namespace gm2calc;
static double rnd(unsigned& s) { s = s*1664525u + 1013904223u; return ((s >> 8) & 0xffff)/65536.0; }
static double sqr(double x) { return x*x; }

static void common(MSSMNoFV_onshell& m, double tb)
{
   const Eigen::Matrix<double,3,3> U = Eigen::Matrix<double,3,3>::Identity();
   m.set_TB(tb); m.set_MassG(2000); m.set_mq2(7000.*7000.*U); m.set_md2(7000.*7000.*U); m.set_mu2(7000.*7000.*U);
   m.set_ml2(3000.*3000.*U); m.set_me2(3000.*3000.*U); m.set_MA0(1500); m.set_scale(1000);
}

int main(int argc, char** argv)
{
   // strict: the literal precision goal (x100); loose: 0.5 GeV (far above the shift caused by the final Yukawa update)
   const bool strict = argc > 1 && std::string(argv[1]) == "strict";
   unsigned s = 777;
   int bad = 0, n = 0, warned = 0;
   for (int it = 0; it < 3000; it++) {
      const double tb = 2 + 58*rnd(s);
      auto sg = [&]() { return rnd(s) < 0.5 ? -1.0 : 1.0; };
      const double mu = sg()*(100 + 2900*rnd(s)), m1 = sg()*(100 + 2900*rnd(s)), m2 = sg()*(100 + 2900*rnd(s));
      double msl = 100 + 2900*rnd(s), mse = 100 + 2900*rnd(s);
      if (it % 3 != 1) mse = msl*(1 + 0.004*(rnd(s) - 0.5));      // nearly degenerate smuon parameters: ordering may flip
      const double prec = std::pow(10.0, -10 + 6*rnd(s));
      double pert[5];
      for (double& p: pert) p = 1 + 0.1*(rnd(s) - 0.5);
      try {
         MSSMNoFV_onshell os;
         common(os, tb);
         os.set_Mu(mu); os.set_MassB(m1); os.set_MassWB(m2); os.set_ml2(1,1,sqr(msl)); os.set_me2(1,1,sqr(mse));
         os.calculate_masses();
         MSSMNoFV_onshell m;
         common(m, tb);
         m.get_physical().MSvmL = os.get_MSvmL(); m.get_physical().MSm = os.get_MSm(); m.get_physical().MChi = os.get_MChi();
         m.get_physical().MCha = os.get_MCha(); m.get_physical().MAh(1) = 1500;
         m.get_physical().ZN = os.get_ZN(); m.get_physical().UM = os.get_UM(); m.get_physical().UP = os.get_UP(); m.get_physical().ZM = os.get_ZM();
         m.set_Mu(mu*pert[0]); m.set_MassB(m1*pert[1]); m.set_MassWB(m2*pert[2]); m.set_ml2(1,1,sqr(msl*pert[3])); m.set_me2(1,1,sqr(mse*pert[4]));
         m.convert_to_onshell(prec);
         n++;
         if (m.get_problems().have_warning()) { warned++; continue; }
         Eigen::Array<double,2,1> pole(os.get_MSm());
         std::sort(pole.data(), pole.data() + 2);
         const int r = std::norm(m.get_ZM()(0,0)) > std::norm(m.get_ZM()(0,1)) ? 1 : 0;
         unsigned bm = 0, bo = 0;
         m.get_ZN().col(0).cwiseAbs2().maxCoeff(&bm); os.get_ZN().col(0).cwiseAbs2().maxCoeff(&bo);
         const double d_cha = (m.get_MCha() - os.get_MCha()).cwiseAbs().maxCoeff();
         const double d_chi = std::abs(m.get_MChi(bm) - os.get_MChi(bo));
         const double d_sv = std::abs(m.get_MSvmL() - os.get_MSvmL());
         const double d_sm = std::abs(m.get_MSm(r) - pole(r));
         // parameter recovery (signs included) on well-conditioned points
         const bool wellcond = std::abs(std::abs(m1) - std::abs(m2)) > 0.1*std::abs(m1) && std::abs(std::abs(mu) - std::abs(m2)) > 0.1*std::abs(mu)
            && std::abs(std::abs(mu) - std::abs(m1)) > 0.1*std::abs(mu);
         if (wellcond && (std::abs(m.get_Mu() - mu) > 1e-2*std::abs(mu) || std::abs(m.get_MassB() - m1) > 1e-2*std::abs(m1) || std::abs(m.get_MassWB() - m2) > 1e-2*std::abs(m2))) {
            bad++;
            if (bad < 10) std::printf("on-shell parameters not recovered: mu %g -> %g, M1 %g -> %g, M2 %g -> %g (no warning)\n", mu, m.get_Mu(), m1, m.get_MassB(), m2, m.get_MassWB());
         }
         const double tol = strict ? std::max(100*prec, 1e-6) : 0.5;
         if (!(d_cha <= tol && d_chi <= tol && d_sv <= tol && d_sm <= tol)) {
            bad++;
            if (bad < 10) std::printf("no warning but pole masses missed: |dMCha|=%.3g |dMChi_bino|=%.3g |dMSvm|=%.3g |dMSm_R|=%.3g (goal %.3g; tb=%g mu=%g M1=%g M2=%g msl=%g mse=%g)\n",
                                      d_cha, d_chi, d_sv, d_sm, prec, tb, mu, m1, m2, msl, mse);
         }
      } catch (const Error&) { }
   }
   std::printf("%d violations in %d converted points (%d with a non-convergence warning)\n", bad, n, warned);
   return bad ? 1 : 0;
}
